// VBUILD: needs-c-codecs
// h_wire -- C08: all Message implementations agree on one wire format, byte for byte.
// One abstract script (JSON) per case is built NATIVELY as C++ Message, C MMessage, C UMessage here and as Python
// message.Message + reference codec (ref/codec.py) in a python3 child (py/wire_peer.py, one per worker process).
// modes (--opt mode=): wire (default) | frame (8-byte stream frame: three gateways in memory + TCP loopback echo through
//                      message_transceiver_thread.py) | regress (fixed witnesses + documentation examples)
// options: pypeer=<path of wire_peer.py> python=<interpreter> emit=<side file of {case,script,cpp} lines>
//          mask=pynames,umzero,pyexample (only for trees older than the repairs of the three defects this harness found: message.py
//          FlattenedSize() with non-ASCII field names, message.py str items in user-typed fields, UMFindData zero-length last item;
//          each keeps its own stable key and a fixed witness in regress mode)
#include "message/Message.h"
#include "iogateway/MessageIOGateway.h"
#include "dataio/TCPSocketDataIO.h"
#include "util/NetworkUtilityFunctions.h"
#include "util/SocketMultiplexer.h"
#include "util/ByteBuffer.h"
#include "support/Point.h"
#include "support/Rect.h"
#include "system/SetupSystem.h"
#include "lang/c/minimessage/MiniMessage.h"
#include "lang/c/micromessage/MicroMessage.h"
#include "lang/c/minimessage/MiniMessageGateway.h"
#include "lang/c/micromessage/MicroMessageGateway.h"
#include <vector>
#include <string>
#include <set>
#include <cmath>
#include <signal.h>
#include <dirent.h>
#include <errno.h>
#include <sys/wait.h>
#include <sys/stat.h>
#include <zlib.h>
#include "vh.h"
using namespace muscle;

static vh::Rng g(1);
static uint32_t R(uint32_t n) { return g.R(n); }

static void HarnessAbort(const std::string & why) { fprintf(stderr, "HARNESS-ABORT: %s\n", why.c_str()); fflush(stderr); _exit(2); }

// ------------------------------------------------------------------------------------------------ abstract script
struct Scr;
struct Fld {
   std::string name; uint32 type;
   uint32 rawCode; bool pyStr;    // raw fields: B_RAW_TYPE or a user type code; pyStr: the items are UTF-8 text + NUL and the Python leg passes them as str objects
   Fld() : type(0), rawCode(B_RAW_TYPE), pyStr(false) {}
   uint32 Code() const { return type == B_RAW_TYPE ? rawCode : type; }
   std::vector<int64_t> iv;        // bool, int8..int64
   std::vector<uint64_t> bits;     // float (1 word/item), double (1), point (2), rect (4): IEEE bit patterns, never C++ floats
   std::vector<std::string> sv;    // string (no NUL inside), raw
   std::vector<Scr> mv;            // nested Messages
   uint32 Count() const;
};
struct Scr { uint32 what; std::vector<Fld> f; };
uint32 Fld::Count() const { switch (type) { case B_POINT_TYPE: return (uint32)bits.size() / 2; case B_RECT_TYPE: return (uint32)bits.size() / 4; default: return (uint32)(iv.size() + bits.size() + sv.size() + mv.size()); } }

static const uint32 TYPES[12] = {B_BOOL_TYPE, B_INT8_TYPE, B_INT16_TYPE, B_INT32_TYPE, B_INT64_TYPE, B_FLOAT_TYPE, B_DOUBLE_TYPE, B_STRING_TYPE, B_POINT_TYPE, B_RECT_TYPE, B_RAW_TYPE, B_MESSAGE_TYPE};
static const char * TNAME[12] = {"bool", "i8", "i16", "i32", "i64", "f32", "f64", "str", "pt", "rc", "raw", "msg"};
static int TIdx(uint32 t) { for (int i = 0; i < 12; i++) if (TYPES[i] == t) return i; return -1; }

struct Prof { bool pySafe; bool nonAsciiNames; bool big; int maxDepth; bool zeroItems; Prof() : pySafe(true), nonAsciiNames(false), big(false), maxDepth(3), zeroItems(false) {} };

static bool IsNaN32(uint32_t b) { return (b & 0x7F800000u) == 0x7F800000u && (b & 0x007FFFFFu); }
static bool IsNaN64(uint64_t b) { return (b & 0x7FF0000000000000ULL) == 0x7FF0000000000000ULL && (b & 0x000FFFFFFFFFFFFFULL); }
static float BF(uint64_t b) { uint32_t u = (uint32_t)b; float f; memcpy(&f, &u, 4); return f; }
static double BD(uint64_t b) { double d; memcpy(&d, &b, 8); return d; }
static uint32_t FB(float f) { uint32_t u; memcpy(&u, &f, 4); return u; }
static uint64_t DB(double d) { uint64_t u; memcpy(&u, &d, 8); return u; }

static uint32_t GenF32(bool allowNaN)
{
   uint32_t b;
   switch (R(12)) {
      case 0: b = 0; break; case 1: b = 0x80000000u; break; case 2: b = 0x7F800000u; break; case 3: b = 0xFF800000u; break;
      case 4: b = (1 + R(0x7FFFFF)) | (R(2) ? 0x80000000u : 0); break;                                    // denormal
      case 5: b = 0x7F800000u | (1 + R(0x7FFFFF)) | (R(2) ? 0x80000000u : 0); break;                      // quiet and signalling NaNs with payload
      case 6: case 7: b = (uint32_t)g.next(); break;
      default: b = FB((float)R(100000) / 7.0f * (R(2) ? -1.0f : 1.0f)); break;
   }
   if (!allowNaN && IsNaN32(b)) b &= ~0x40000000u;   // clear one exponent bit: an ordinary number
   return b;
}
static uint64_t GenF64(bool allowNaN)
{
   uint64_t b;
   switch (R(12)) {
      case 0: b = 0; break; case 1: b = 0x8000000000000000ULL; break; case 2: b = 0x7FF0000000000000ULL; break; case 3: b = 0xFFF0000000000000ULL; break;
      case 4: b = (1 + (g.next() & 0xFFFFFFFFFFFFFULL)) & 0xFFFFFFFFFFFFFULL; if (!b) b = 1; break;
      case 5: b = 0x7FF0000000000000ULL | (1 + (g.next() % 0xFFFFFFFFFFFFEULL)) | (R(2) ? 0x8000000000000000ULL : 0); break;
      case 6: case 7: b = g.next(); break;
      default: b = DB((double)(int64_t)g.next() / (double)(1 + R(1000))); break;
   }
   if (!allowNaN && IsNaN64(b)) b &= ~0x4000000000000000ULL;
   return b;
}
static int64_t GenInt(int bitsN)
{
   const int64_t lo = bitsN == 64 ? INT64_MIN : -((int64_t)1 << (bitsN - 1)), hi = bitsN == 64 ? INT64_MAX : (((int64_t)1 << (bitsN - 1)) - 1);
   switch (R(10)) { case 0: return lo; case 1: return hi; case 2: return 0; case 3: return -1; case 4: return 1; case 5: return (int64_t)R(256) - 128; default: break; }
   uint64_t r = g.next(); if (bitsN == 64) return (int64_t)r;
   return lo + (int64_t)(r % ((uint64_t)1 << bitsN));
}
static void PutUtf8(std::string & s, uint32_t cp)
{
   if (cp < 0x80) s.push_back((char)cp);
   else if (cp < 0x800) { s.push_back((char)(0xC0 | (cp >> 6))); s.push_back((char)(0x80 | (cp & 63))); }
   else if (cp < 0x10000) { s.push_back((char)(0xE0 | (cp >> 12))); s.push_back((char)(0x80 | ((cp >> 6) & 63))); s.push_back((char)(0x80 | (cp & 63))); }
   else { s.push_back((char)(0xF0 | (cp >> 18))); s.push_back((char)(0x80 | ((cp >> 12) & 63))); s.push_back((char)(0x80 | ((cp >> 6) & 63))); s.push_back((char)(0x80 | (cp & 63))); }
}
static uint32_t GenCodePoint() { uint32_t k = R(4); uint32_t cp = k == 0 ? 0x20 + R(95) : k == 1 ? 0x80 + R(0x780) : k == 2 ? 0x800 + R(0xF800) : 0x10000 + R(0x100000); if (cp >= 0xD800 && cp <= 0xDFFF) cp = 0x20AC; return cp; }
// strict validator (what CPython's utf-8 decoder accepts)
static bool IsValidUtf8(const std::string & s)
{
   size_t i = 0, n = s.size();
   while (i < n) {
      unsigned char c = (unsigned char)s[i];
      if (c < 0x80) { i++; continue; }
      int len; uint32_t cp, minv;
      if ((c & 0xE0) == 0xC0) { len = 2; cp = c & 0x1F; minv = 0x80; } else if ((c & 0xF0) == 0xE0) { len = 3; cp = c & 0x0F; minv = 0x800; } else if ((c & 0xF8) == 0xF0) { len = 4; cp = c & 0x07; minv = 0x10000; } else return false;
      if (i + len > n) return false;
      for (int k = 1; k < len; k++) { unsigned char d = (unsigned char)s[i + k]; if ((d & 0xC0) != 0x80) return false; cp = (cp << 6) | (d & 63); }
      if (cp < minv || cp > 0x10FFFF || (cp >= 0xD800 && cp <= 0xDFFF)) return false;
      i += len;
   }
   return true;
}
static bool IsAscii(const std::string & s) { for (size_t i = 0; i < s.size(); i++) if ((unsigned char)s[i] >= 0x80) return false; return true; }

static std::string GenStr(const Prof & p)
{
   uint32 n = R(8) == 0 ? 0 : (R(6) == 0 ? R(300) : 1 + R(12));
   if (p.big && R(30) == 0) n = 1000 + R(8000);
   int style = R(6); if (style == 5 && p.pySafe) style = 4;
   std::string s;
   for (uint32 i = 0; i < n; i++) switch (style) {
      case 0: case 1: s.push_back((char)('a' + R(26))); break;
      case 2: s.push_back((char)(0x20 + R(95))); break;
      case 3: s.push_back((char)(1 + R(127))); break;                 // any ASCII incl. control characters, never NUL
      case 4: PutUtf8(s, GenCodePoint()); break;
      default: s.push_back((char)(1 + R(255))); break;                // arbitrary non-NUL bytes: in general not UTF-8
   }
   return s;
}
static std::string GenRaw(const Prof & p)
{
   uint32 n = R(6) == 0 ? 0 : (R(5) == 0 ? R(300) : 1 + R(16));
   if (p.big && R(30) == 0) n = 20000 + R(60000);
   std::string s; s.resize(n); for (uint32 i = 0; i < n; i++) s[i] = (char)g.next();
   return s;
}
static std::string GenName(const Prof & p, uint32 i, std::set<std::string> & used)
{
   for (int attempt = 0; ; attempt++) {
      std::string nm; char b[64];
      switch (attempt > 3 ? 1 : R(12)) {
         case 0: nm = ""; break;
         case 1: snprintf(b, sizeof(b), "field_%u_%d", i, attempt); nm = b; break;
         case 2: { static const char * pre[] = {"a", "ab", "abc", "A", "Ab", "name", "Name", "NAME", "x", "xx"}; nm = pre[R(10)]; } break;
         case 3: { uint32 n = 60 + R(260); nm.assign(n, (char)('a' + R(26))); snprintf(b, sizeof(b), "%u", i); nm += b; } break;
         case 4: snprintf(b, sizeof(b), "a b.c/%u\"\\'", i); nm = b; break;
         case 5: if (p.nonAsciiNames) { PutUtf8(nm, 0xE9); PutUtf8(nm, GenCodePoint()); snprintf(b, sizeof(b), "%u", i); nm += b; PutUtf8(nm, 0x20AC); break; } /* fall through */
         case 6: snprintf(b, sizeof(b), "%u", i); nm = b; break;
         case 7: nm.push_back((char)(1 + R(31))); snprintf(b, sizeof(b), "ctl%u", i); nm += b; break;       // control characters are legal in names
         default: snprintf(b, sizeof(b), "f%u", i); nm = b; break;
      }
      if (used.insert(nm).second) return nm;
   }
}

static Scr Gen(int depth, const Prof & p)
{
   Scr s;
   switch (R(8)) { case 0: s.what = 0; break; case 1: s.what = 0xFFFFFFFFu; break; case 2: s.what = 1347235888u; break; case 3: s.what = R(100); break; default: s.what = (uint32)g.next(); break; }
   uint32 nf = depth ? R(4) : R(8);
   if (depth == 0 && R(25) == 0) nf = 20 + R(40);
   std::set<std::string> used;
   for (uint32 i = 0; i < nf; i++) {
      Fld f; f.name = GenName(p, i, used);
      f.type = TYPES[R(12)];
      if (f.type == B_MESSAGE_TYPE && depth >= p.maxDepth) f.type = TYPES[R(11)];
      uint32 n = 1 + (R(4) == 0 ? R(20) : R(3));
      const bool fixed = (f.type != B_MESSAGE_TYPE && f.type != B_STRING_TYPE && f.type != B_RAW_TYPE);
      if (p.big && fixed && R(25) == 0) n = 200 + R(3000);
      if (f.type == B_MESSAGE_TYPE) n = 1 + (R(8) == 0 ? R(8) : R(3));
      if (p.zeroItems && R(4) == 0) n = 0;     // a field with NO items: legal wire content (Python makes it from an empty list, C++ through a shared array)
      const bool nanPR = !p.pySafe && R(3) == 0;
      switch (f.type) {
         case B_BOOL_TYPE:   for (uint32 k = 0; k < n; k++) f.iv.push_back(R(2)); break;
         case B_INT8_TYPE:   for (uint32 k = 0; k < n; k++) f.iv.push_back(GenInt(8)); break;
         case B_INT16_TYPE:  for (uint32 k = 0; k < n; k++) f.iv.push_back(GenInt(16)); break;
         case B_INT32_TYPE:  for (uint32 k = 0; k < n; k++) f.iv.push_back(GenInt(32)); break;
         case B_INT64_TYPE:  for (uint32 k = 0; k < n; k++) f.iv.push_back(GenInt(64)); break;
         case B_FLOAT_TYPE:  for (uint32 k = 0; k < n; k++) f.bits.push_back(GenF32(true)); break;
         case B_DOUBLE_TYPE: for (uint32 k = 0; k < n; k++) f.bits.push_back(GenF64(true)); break;
         case B_POINT_TYPE:  for (uint32 k = 0; k < 2 * n; k++) f.bits.push_back(GenF32(nanPR)); break;
         case B_RECT_TYPE:   for (uint32 k = 0; k < 4 * n; k++) f.bits.push_back(GenF32(nanPR)); break;
         case B_STRING_TYPE: for (uint32 k = 0; k < n; k++) f.sv.push_back(GenStr(p)); break;
         case B_RAW_TYPE:
            if (R(6) == 0) {   // user type code: same variable-size convention; no zero-length items (the C++ AddData refuses them and AddFlat(ByteBuffer) is B_RAW_TYPE)
               static const uint32 codes[] = {555, 1, 0x61626364u, 0x7FFFFFFFu, 0xFFFFFFFEu}; f.rawCode = codes[R(5)]; f.pyStr = R(2) == 0;
               Prof sp = p; sp.pySafe = true;
               for (uint32 k = 0; k < n; k++) { std::string it = f.pyStr ? GenStr(sp) + std::string(1, '\0') : GenRaw(p); if (it.empty()) it = "\x7f"; f.sv.push_back(it); }
            }
            else for (uint32 k = 0; k < n; k++) f.sv.push_back(GenRaw(p));
            break;
         case B_MESSAGE_TYPE: for (uint32 k = 0; k < n; k++) f.mv.push_back(Gen(depth + 1, p)); break;
      }
      s.f.push_back(f);
   }
   return s;
}

struct Info { bool nonUtf8, nanPtRc, nonAsciiName; uint32 depth, fields, items, perType[12], zeroItemFields, zeroItemRaw, nanItems, emptyNames, zeroRaw, emptyStr, utf8Str, multiItemFields, maxCount, userTyped, pyStrFields;
   Info() { memset(this, 0, sizeof(*this)); } };
static void Walk(const Scr & s, Info & in, uint32 depth)
{
   if (depth > in.depth) in.depth = depth;
   for (size_t i = 0; i < s.f.size(); i++) {
      const Fld & f = s.f[i]; in.fields++; const uint32 c = f.Count(); in.items += c; in.perType[TIdx(f.type)] += c; if (c > 1) in.multiItemFields++; if (c > in.maxCount) in.maxCount = c;
      if (f.name.empty()) in.emptyNames++;
      if (c == 0) { in.zeroItemFields++; if (f.type == B_RAW_TYPE) in.zeroItemRaw++; }
      if (!IsAscii(f.name)) in.nonAsciiName = true;
      switch (f.type) {
         case B_FLOAT_TYPE: for (size_t k = 0; k < f.bits.size(); k++) if (IsNaN32((uint32_t)f.bits[k])) in.nanItems++; break;
         case B_DOUBLE_TYPE: for (size_t k = 0; k < f.bits.size(); k++) if (IsNaN64(f.bits[k])) in.nanItems++; break;
         case B_POINT_TYPE: case B_RECT_TYPE: for (size_t k = 0; k < f.bits.size(); k++) if (IsNaN32((uint32_t)f.bits[k])) in.nanPtRc = true; break;
         case B_STRING_TYPE: for (size_t k = 0; k < f.sv.size(); k++) { if (f.sv[k].empty()) in.emptyStr++; if (!IsValidUtf8(f.sv[k])) in.nonUtf8 = true; else if (!IsAscii(f.sv[k])) in.utf8Str++; } break;
         case B_RAW_TYPE: for (size_t k = 0; k < f.sv.size(); k++) if (f.sv[k].empty()) in.zeroRaw++; if (f.rawCode != B_RAW_TYPE) in.userTyped++; if (f.pyStr) in.pyStrFields++; break;
         case B_MESSAGE_TYPE: for (size_t k = 0; k < f.mv.size(); k++) Walk(f.mv[k], in, depth + 1); break;
         default: break;
      }
   }
}

// ---- JSON (names as JSON text with raw UTF-8; string and raw items as hex; floats as bit patterns)
static void JName(const std::string & s, std::string & o)
{
   o += '"';
   for (size_t i = 0; i < s.size(); i++) { unsigned char c = (unsigned char)s[i]; if (c == '"') o += "\\\""; else if (c == '\\') o += "\\\\"; else if (c < 0x20) { char b[8]; snprintf(b, sizeof(b), "\\u%04x", c); o += b; } else o += (char)c; }
   o += '"';
}
static void JHex(const std::string & s, std::string & o) { static const char * d = "0123456789abcdef"; o += '"'; for (size_t i = 0; i < s.size(); i++) { o += d[((unsigned char)s[i]) >> 4]; o += d[((unsigned char)s[i]) & 15]; } o += '"'; }
static void Json(const Scr & s, std::string & o)
{
   char b[48]; snprintf(b, sizeof(b), "{\"what\":%u,\"fields\":[", s.what); o += b;
   for (size_t i = 0; i < s.f.size(); i++) {
      const Fld & f = s.f[i]; if (i) o += ',';
      o += "{\"n\":"; JName(f.name, o); o += ",\"t\":\""; if (f.Code() == f.type) o += TNAME[TIdx(f.type)]; else { snprintf(b, sizeof(b), "#%u", f.rawCode); o += b; } o += f.pyStr ? "\",\"pystr\":1,\"v\":[" : "\",\"v\":[";
      switch (f.type) {
         case B_FLOAT_TYPE: case B_DOUBLE_TYPE: for (size_t k = 0; k < f.bits.size(); k++) { snprintf(b, sizeof(b), "%s%llu", k ? "," : "", (unsigned long long)f.bits[k]); o += b; } break;
         case B_POINT_TYPE: case B_RECT_TYPE: { const size_t a = f.type == B_POINT_TYPE ? 2 : 4; for (size_t k = 0; k < f.bits.size(); k++) { snprintf(b, sizeof(b), "%s%s%llu%s", (k && k % a == 0) ? "," : "", k % a == 0 ? "[" : ",", (unsigned long long)f.bits[k], k % a == a - 1 ? "]" : ""); o += b; } } break;
         case B_STRING_TYPE: case B_RAW_TYPE: for (size_t k = 0; k < f.sv.size(); k++) { if (k) o += ','; JHex(f.sv[k], o); } break;
         case B_MESSAGE_TYPE: for (size_t k = 0; k < f.mv.size(); k++) { if (k) o += ','; Json(f.mv[k], o); } break;
         default: for (size_t k = 0; k < f.iv.size(); k++) { snprintf(b, sizeof(b), "%s%lld", k ? "," : "", (long long)f.iv[k]); o += b; } break;
      }
      o += "]}";
   }
   o += "]}";
}

// ------------------------------------------------------------------------------------------------ verdict plumbing
static bool caseBad; static std::string curJson; static std::string curCppHex;
// A defect of one implementation that has its own stable key: remembered, the case goes on (with that corner skipped) so that
// everything else is still judged; reported at the end of the case if nothing else failed.  --opt mask=a,b silences a key (counted).
static std::string deferredKey, deferredDetail;
static bool Masked(const char * what) { const std::string m = "," + vh::opt("mask", "") + ","; return m.find(std::string(",") + what + ",") != std::string::npos; }
static void Known(const char * maskName, const std::string & key, const std::string & detail)
{
   if (Masked(maskName)) { vh::stat(std::string("masked_") + maskName); return; }
   if (deferredKey.empty()) { deferredKey = key; deferredDetail = detail; }
}
static void Fail(const std::string & key, const std::string & what)
{
   if (caseBad) return;     // one violation per case
   caseBad = true;
   vh::viol(key, what + " | script=" + curJson.substr(0, 1500) + (curJson.size() > 1500 ? "..." : "") + " | c++ bytes=" + curCppHex);
}
static std::string DiffText(const char * ta, const std::string & a, const char * tb, const std::string & b)
{
   size_t i = 0, n = std::min(a.size(), b.size()); while (i < n && a[i] == b[i]) i++;
   size_t lo = i > 24 ? i - 24 : 0;
   return vh::fmt("%s %zu bytes, %s %zu bytes, first difference at offset %zu: %s ...%s | %s ...%s", ta, a.size(), tb, b.size(), i, ta, vh::hex(a.data() + lo, std::min(a.size() - lo, (size_t)40)).c_str(), tb, vh::hex(b.data() + lo, std::min(b.size() - lo, (size_t)40)).c_str());
}

// ------------------------------------------------------------------------------------------------ C++ Message leg
static void CK(status_t r, const char * what) { if (r.IsError()) HarnessAbort(std::string("C++ build step failed: ") + what + ": " + r()); }
// The C++ Message reaches the script's final content through a randomly chosen CONSTRUCTION ROUTE per field, so that the
// field's ring buffer wraps, spare capacity appears and the field passes through inline<->array transitions; the expected
// bytes still come from the script alone (reference codec, the C codecs, Python).  forceRoute >= 0 pins the route.
enum { ROUTE_APPEND = 0, ROUTE_PREPEND, ROUTE_SLIDING_WINDOW, ROUTE_REPLACE_AT, ROUTE_LONGER_THEN_REMOVE, ROUTE_BOTH_ENDS, NUM_ROUTES };
static const char * ROUTE_NAME[NUM_ROUTES] = {"route_append", "route_prepend", "route_sliding_window", "route_replace_at", "route_longer_then_remove", "route_both_ends"};
static int forceRoute = -1; static bool countRoutes = false; static std::string routeLog;
static MessageRef BuildCpp(const Scr & s);
enum { PUT_ADD = 0, PUT_PREPEND, PUT_REPLACE };
#define PUT3(T, val) (mode == PUT_ADD ? m.Add##T(n, val) : mode == PUT_PREPEND ? m.Prepend##T(n, val) : m.Replace##T(false, n, idx, val))
// item k of field f goes into the Message by Add / Prepend / Replace-at-idx
static void PutItem(Message & m, const Fld & f, size_t k, int mode, uint32 idx)
{
   const String n(f.name.c_str()); status_t r;
   switch (f.type) {
      case B_BOOL_TYPE:   r = PUT3(Bool, f.iv[k] != 0); break;
      case B_INT8_TYPE:   r = PUT3(Int8, (int8)f.iv[k]); break;
      case B_INT16_TYPE:  r = PUT3(Int16, (int16)f.iv[k]); break;
      case B_INT32_TYPE:  r = PUT3(Int32, (int32)f.iv[k]); break;
      case B_INT64_TYPE:  r = PUT3(Int64, (int64)f.iv[k]); break;
      case B_FLOAT_TYPE:  r = PUT3(Float, BF(f.bits[k])); break;
      case B_DOUBLE_TYPE: r = PUT3(Double, BD(f.bits[k])); break;
      case B_POINT_TYPE:  { const Point v(BF(f.bits[2 * k]), BF(f.bits[2 * k + 1])); r = PUT3(Point, v); } break;
      case B_RECT_TYPE:   { const Rect v(BF(f.bits[4 * k]), BF(f.bits[4 * k + 1]), BF(f.bits[4 * k + 2]), BF(f.bits[4 * k + 3])); r = PUT3(Rect, v); } break;
      case B_STRING_TYPE: { const String v(f.sv[k].c_str()); r = PUT3(String, v); } break;
      case B_RAW_TYPE:
         if (f.sv[k].size()) r = mode == PUT_ADD ? m.AddData(n, f.rawCode, f.sv[k].data(), (uint32)f.sv[k].size()) : mode == PUT_PREPEND ? m.PrependData(n, f.rawCode, f.sv[k].data(), (uint32)f.sv[k].size()) : m.ReplaceData(false, n, f.rawCode, idx, f.sv[k].data(), (uint32)f.sv[k].size());
         else { ByteBufferRef z = GetByteBufferFromPool(0); r = PUT3(Flat, z); }     // AddData refuses 0 bytes
         break;
      case B_MESSAGE_TYPE: { MessageRef v = BuildCpp(f.mv[k]); r = PUT3(Message, v); } break;
   }
   if (r.IsError()) HarnessAbort(vh::fmt("C++ build step failed: %s of a %s item (field '%s', index %u): %s", mode == PUT_ADD ? "Add" : mode == PUT_PREPEND ? "Prepend" : "Replace", TNAME[TIdx(f.type)], f.name.c_str(), idx, r()));
}
// a one-item field of the same name and type holding a value that must NOT survive into the final Message
static Fld JunkLike(const Fld & f)
{
   Fld j; j.name = f.name; j.type = f.type; j.rawCode = f.rawCode;
   switch (f.type) {
      case B_BOOL_TYPE: j.iv.push_back(R(2)); break;
      case B_INT8_TYPE: case B_INT16_TYPE: case B_INT32_TYPE: case B_INT64_TYPE: j.iv.push_back(0x5A5A5A5A5A5A5A5ALL ^ (int64_t)R(256)); break;
      case B_FLOAT_TYPE: j.bits.push_back(0x4B4B4B4Bu); break; case B_DOUBLE_TYPE: j.bits.push_back(0x4B4B4B4B4B4B4B4BULL); break;
      case B_POINT_TYPE: j.bits.assign(2, 0x4B4B4B4Bu); break; case B_RECT_TYPE: j.bits.assign(4, 0x4B4B4B4Bu); break;
      case B_STRING_TYPE: j.sv.push_back(R(2) ? "junk" : "a-junk-string-that-is-longer-than-any-short-string-buffer"); break;
      case B_RAW_TYPE: j.sv.push_back(std::string("JUNK", 1 + R(4))); break;
      case B_MESSAGE_TYPE: { Scr sub; sub.what = 0xDEADDEADu; Fld x; x.name = "junk"; x.type = B_INT8_TYPE; x.iv.push_back(1); sub.f.push_back(x); j.mv.push_back(sub); } break;
   }
   return j;
}
static void CKR(status_t r, const char * what) { if (r.IsError()) HarnessAbort(std::string("C++ build step failed: ") + what + ": " + r()); }
static void BuildField(Message & m, const Fld & f)
{
   const uint32 n = f.Count(); const String name(f.name.c_str());
   if (n == 0) {   // the only way the C++ API leaves a zero-item field behind: share the array under a second name, then empty it through the first
      Fld tmp = JunkLike(f); tmp.name = "\x03shared-array-donor"; const String tn(tmp.name.c_str()); const uint32 c = 2 + R(3);   // two or more: a single item lives inline in the field and is copied, not shared
      for (uint32 k = 0; k < c; k++) PutItem(m, tmp, 0, R(2) ? PUT_ADD : PUT_PREPEND, 0);
      CKR(m.ShareName(tn, m, name), "ShareName"); for (uint32 k = 0; k < c; k++) CKR(m.RemoveData(tn, R(2) ? 0 : (c - 1 - k)), "RemoveData(shared)");
      uint32 tc = 0, cnt = 99; if (m.HasName(tn) || m.GetInfo(name, &tc, &cnt).IsError() || cnt != 0 || tc != f.Code()) HarnessAbort(vh::fmt("the sharing route did not leave a zero-item field '%s' behind (count %u)", f.name.c_str(), cnt));
      if (countRoutes) vh::stat("route_zero_items_via_shared_array");
      if (routeLog.size() < 300) { routeLog += f.name.substr(0, 12); routeLog += ":zero_via_share "; }
      return;
   }
   int route = forceRoute >= 0 ? forceRoute : (R(3) == 0 ? ROUTE_APPEND : (int)R(NUM_ROUTES));
   if (n > 400 && route != ROUTE_PREPEND && route != ROUTE_SLIDING_WINDOW && route != ROUTE_BOTH_ENDS) route = ROUTE_APPEND;   // keep the O(n^2) routes to small fields
   if (countRoutes) vh::stat(ROUTE_NAME[route]);
   if (routeLog.size() < 300) { routeLog += f.name.substr(0, 12); routeLog += ':'; routeLog += ROUTE_NAME[route] + 6; routeLog += ' '; }
   const Fld junk = JunkLike(f);
   switch (route) {
      case ROUTE_APPEND: for (uint32 k = 0; k < n; k++) PutItem(m, f, k, PUT_ADD, 0); break;
      case ROUTE_PREPEND: for (uint32 k = n; k > 0; k--) PutItem(m, f, k - 1, PUT_PREPEND, 0); break;
      case ROUTE_SLIDING_WINDOW: {   // junk first; every real item is appended while the oldest junk item leaves at the front: the ring's head travels
         uint32 nj = 1 + R(n + 6), left = nj; for (uint32 j = 0; j < nj; j++) PutItem(m, junk, 0, PUT_ADD, 0);
         const uint32 spins = R(3) == 0 ? R(40) : 0;   // let the window slide on for a while before the real items arrive
         for (uint32 j = 0; j < spins; j++) { PutItem(m, junk, 0, PUT_ADD, 0); CKR(m.RemoveData(name, 0), "RemoveData(first)"); }
         for (uint32 k = 0; k < n; k++) { PutItem(m, f, k, PUT_ADD, 0); if (left && R(4)) { CKR(m.RemoveData(name, 0), "RemoveData(first)"); left--; } }
         while (left) { CKR(m.RemoveData(name, 0), "RemoveData(first)"); left--; }
      } break;
      case ROUTE_REPLACE_AT: {
         for (uint32 k = 0; k < n; k++) PutItem(m, junk, 0, R(2) ? PUT_ADD : PUT_PREPEND, 0);
         std::vector<uint32> order(n); for (uint32 k = 0; k < n; k++) order[k] = k; for (uint32 k = n; k > 1; k--) std::swap(order[k - 1], order[R(k)]);
         for (uint32 k = 0; k < n; k++) PutItem(m, f, order[k], PUT_REPLACE, order[k]);
      } break;
      case ROUTE_LONGER_THEN_REMOVE: {   // real items with junk in front, in between and behind; then the junk is taken out again
         std::vector<int> plan; for (uint32 k = 0; k < n; k++) { while (R(3) == 0) plan.push_back(-1); plan.push_back((int)k); } while (R(2)) plan.push_back(-1); if (R(2)) plan.insert(plan.begin(), -1);
         // the first item added must stay first in field-creation terms only; any order of adds is fine for the field's position because the field is created once
         for (size_t q = 0; q < plan.size(); q++) { if (plan[q] < 0) PutItem(m, junk, 0, PUT_ADD, 0); else PutItem(m, f, (size_t)plan[q], PUT_ADD, 0); }
         if (R(2)) { for (size_t q = plan.size(); q > 0; q--) if (plan[q - 1] < 0) CKR(m.RemoveData(name, (uint32)(q - 1)), "RemoveData(junk)"); }
         else { uint32 removed = 0; for (size_t q = 0; q < plan.size(); q++) if (plan[q] < 0) { CKR(m.RemoveData(name, (uint32)q - removed), "RemoveData(junk)"); removed++; } }
      } break;
      default: {   // ROUTE_BOTH_ENDS: start in the middle, grow towards both ends in random interleaving
         const uint32 mid = R(n); PutItem(m, f, mid, PUT_ADD, 0); uint32 lo = mid, hi = mid + 1;
         while (lo > 0 || hi < n) { if (lo > 0 && (hi >= n || R(2))) { lo--; PutItem(m, f, lo, PUT_PREPEND, 0); } else { PutItem(m, f, hi, PUT_ADD, 0); hi++; } }
      } break;
   }
}
static MessageRef BuildCpp(const Scr & s)
{
   MessageRef m = GetMessageFromPool(s.what); if (m() == NULL) HarnessAbort("GetMessageFromPool");
   for (size_t i = 0; i < s.f.size(); i++) BuildField(*m(), s.f[i]);
   if (forceRoute < 0 && R(8) == 0) { MessageRef c = GetMessageFromPool(*m()); if (c() == NULL) HarnessAbort("GetMessageFromPool(copy)"); if (countRoutes) vh::stat("route_message_copied"); return c; }   // what is flattened is a copy
   return m;
}
static std::string FlatCpp(const Message & m)
{
   const uint32 fs = m.FlattenedSize(); std::string out; out.resize(fs + 8, (char)0xA5);
   m.FlattenToBytes((uint8 *)&out[0], fs);
   for (int i = 0; i < 8; i++) if ((unsigned char)out[fs + i] != 0xA5) { out.resize(fs); out += "<OVERRUN>"; return out; }
   out.resize(fs); return out;
}
#define BAD(...) do { why = vh::fmt(__VA_ARGS__); return false; } while (0)
static bool CheckCpp(const Message & m, const Scr & s, std::string & why)
{
   if (m.what != s.what) BAD("what is %u, script says %u", m.what, s.what);
   if (m.GetNumNames() != s.f.size()) BAD("%u fields, script says %zu", m.GetNumNames(), s.f.size());
   size_t idx = 0;
   for (MessageFieldNameIterator it = m.GetFieldNameIterator(); it.HasData(); it++, idx++) if (idx >= s.f.size() || !(it.GetFieldName() == String(s.f[idx].name.c_str()))) BAD("field #%zu is named '%s'", idx, it.GetFieldName()());
   for (size_t i = 0; i < s.f.size(); i++) {
      const Fld & f = s.f[i]; const String n(f.name.c_str()); uint32 tc = 0, cnt = 0;
      if (m.GetInfo(n, &tc, &cnt).IsError()) BAD("GetInfo('%s') fails", n());
      if (tc != f.Code() || cnt != f.Count()) BAD("field '%s': type %08x count %u, script says %08x count %u", n(), tc, cnt, f.Code(), f.Count());
      for (uint32 k = 0; k < cnt; k++) {
         bool ok = true;
         switch (f.type) {
            case B_BOOL_TYPE:   { bool v = false; ok = m.FindBool(n, k, v).IsOK() && v == (f.iv[k] != 0); } break;
            case B_INT8_TYPE:   { int8 v = 0; ok = m.FindInt8(n, k, v).IsOK() && v == (int8)f.iv[k]; } break;
            case B_INT16_TYPE:  { int16 v = 0; ok = m.FindInt16(n, k, v).IsOK() && v == (int16)f.iv[k]; } break;
            case B_INT32_TYPE:  { int32 v = 0; ok = m.FindInt32(n, k, v).IsOK() && v == (int32)f.iv[k]; } break;
            case B_INT64_TYPE:  { int64 v = 0; ok = m.FindInt64(n, k, v).IsOK() && v == (int64)f.iv[k]; } break;
            case B_FLOAT_TYPE:  { float v = 0; ok = m.FindFloat(n, k, v).IsOK() && FB(v) == (uint32_t)f.bits[k]; } break;
            case B_DOUBLE_TYPE: { double v = 0; ok = m.FindDouble(n, k, v).IsOK() && DB(v) == f.bits[k]; } break;
            case B_POINT_TYPE:  { Point v; ok = m.FindPoint(n, k, v).IsOK() && FB(v.x()) == (uint32_t)f.bits[2 * k] && FB(v.y()) == (uint32_t)f.bits[2 * k + 1]; } break;
            case B_RECT_TYPE:   { Rect v; ok = m.FindRect(n, k, v).IsOK() && FB(v.left()) == (uint32_t)f.bits[4 * k] && FB(v.top()) == (uint32_t)f.bits[4 * k + 1] && FB(v.right()) == (uint32_t)f.bits[4 * k + 2] && FB(v.bottom()) == (uint32_t)f.bits[4 * k + 3]; } break;
            case B_STRING_TYPE: { const String * v = NULL; ok = m.FindString(n, k, &v).IsOK() && v && v->Length() == f.sv[k].size() && memcmp(v->Cstr(), f.sv[k].data(), f.sv[k].size()) == 0; } break;
            case B_RAW_TYPE:    { ConstByteBufferRef bb; ok = m.FindFlat(n, k, bb).IsOK() && bb() && bb()->GetNumBytes() == f.sv[k].size() && (f.sv[k].empty() || memcmp(bb()->GetBuffer(), f.sv[k].data(), f.sv[k].size()) == 0);
                                  if (ok && f.sv[k].size()) { const void * p = NULL; uint32 nb = 0; ok = m.FindData(n, f.rawCode, k, &p, &nb).IsOK() && nb == f.sv[k].size() && memcmp(p, f.sv[k].data(), nb) == 0; } } break;
            case B_MESSAGE_TYPE: { ConstMessageRef sub; if (m.FindMessage(n, k, sub).IsError() || sub() == NULL) ok = false; else { std::string w2; if (!CheckCpp(*sub(), f.mv[k], w2)) BAD("'%s'[%u]/%s", n(), k, w2.c_str()); } } break;
         }
         if (!ok) BAD("field '%s' item %u: getter disagrees with the script", n(), k);
      }
   }
   return true;
}

// ------------------------------------------------------------------------------------------------ C MiniMessage leg
#define MCK(p, what) do { if ((p) == NULL) HarnessAbort(std::string("MiniMessage build step failed: ") + what); } while (0)
static MMessage * BuildMM(const Scr & s)
{
   MMessage * m = MMAllocMessage(s.what); MCK(m, "MMAllocMessage");
   for (size_t i = 0; i < s.f.size(); i++) {
      const Fld & f = s.f[i]; const char * n = f.name.c_str(); const uint32 c = f.Count();
      switch (f.type) {
         case B_BOOL_TYPE:   { MBool * p = MMPutBoolField(m, MFalse, n, c); MCK(p, "MMPutBoolField"); for (uint32 k = 0; k < c; k++) p[k] = (MBool)f.iv[k]; } break;
         case B_INT8_TYPE:   { int8 * p = MMPutInt8Field(m, MFalse, n, c); MCK(p, "MMPutInt8Field"); for (uint32 k = 0; k < c; k++) p[k] = (int8)f.iv[k]; } break;
         case B_INT16_TYPE:  { int16 * p = MMPutInt16Field(m, MFalse, n, c); MCK(p, "MMPutInt16Field"); for (uint32 k = 0; k < c; k++) p[k] = (int16)f.iv[k]; } break;
         case B_INT32_TYPE:  { int32 * p = MMPutInt32Field(m, MFalse, n, c); MCK(p, "MMPutInt32Field"); for (uint32 k = 0; k < c; k++) p[k] = (int32)f.iv[k]; } break;
         case B_INT64_TYPE:  { int64 * p = MMPutInt64Field(m, MFalse, n, c); MCK(p, "MMPutInt64Field"); for (uint32 k = 0; k < c; k++) p[k] = (int64)f.iv[k]; } break;
         case B_FLOAT_TYPE:  { float * p = MMPutFloatField(m, MFalse, n, c); MCK(p, "MMPutFloatField"); for (uint32 k = 0; k < c; k++) p[k] = BF(f.bits[k]); } break;
         case B_DOUBLE_TYPE: { double * p = MMPutDoubleField(m, MFalse, n, c); MCK(p, "MMPutDoubleField"); for (uint32 k = 0; k < c; k++) p[k] = BD(f.bits[k]); } break;
         case B_POINT_TYPE:  { MPoint * p = MMPutPointField(m, MFalse, n, c); MCK(p, "MMPutPointField"); for (uint32 k = 0; k < c; k++) { p[k].x = BF(f.bits[2 * k]); p[k].y = BF(f.bits[2 * k + 1]); } } break;
         case B_RECT_TYPE:   { MRect * p = MMPutRectField(m, MFalse, n, c); MCK(p, "MMPutRectField"); for (uint32 k = 0; k < c; k++) { p[k].left = BF(f.bits[4 * k]); p[k].top = BF(f.bits[4 * k + 1]); p[k].right = BF(f.bits[4 * k + 2]); p[k].bottom = BF(f.bits[4 * k + 3]); } } break;
         case B_STRING_TYPE: { MByteBuffer ** p = MMPutStringField(m, MFalse, n, c); MCK(p, "MMPutStringField"); for (uint32 k = 0; k < c; k++) { p[k] = MBStrdupByteBuffer(f.sv[k].c_str()); MCK(p[k], "MBStrdupByteBuffer"); } } break;
         case B_RAW_TYPE:    { MByteBuffer ** p = MMPutDataField(m, MFalse, f.rawCode, n, c); MCK(p, "MMPutDataField"); for (uint32 k = 0; k < c; k++) { p[k] = MBAllocByteBuffer((uint32)f.sv[k].size(), MFalse); MCK(p[k], "MBAllocByteBuffer"); if (f.sv[k].size()) memcpy(&p[k]->bytes, f.sv[k].data(), f.sv[k].size()); } } break;
         case B_MESSAGE_TYPE: { MMessage ** p = MMPutMessageField(m, MFalse, n, c); MCK(p, "MMPutMessageField"); for (uint32 k = 0; k < c; k++) p[k] = BuildMM(f.mv[k]); } break;
      }
   }
   return m;
}
static std::string FlatMM(const MMessage * m) { const uint32 fs = MMGetFlattenedSize(m); std::string out; out.resize(fs + 8, (char)0xA5); MMFlattenMessage(m, &out[0]); for (int i = 0; i < 8; i++) if ((unsigned char)out[fs + i] != 0xA5) { out.resize(fs); out += "<OVERRUN>"; return out; } out.resize(fs); return out; }
static bool CheckMM(const MMessage * m, const Scr & s, std::string & why)
{
   if (MMGetWhat(m) != s.what) BAD("what is %u, script says %u", MMGetWhat(m), s.what);
   MMessageIterator it = MMGetFieldNameIterator(m, B_ANY_TYPE); const char * fn; uint32 tc; size_t idx = 0;
   while ((fn = MMGetNextFieldName(&it, &tc)) != NULL) { if (idx >= s.f.size() || s.f[idx].name != fn || tc != s.f[idx].Code()) BAD("field #%zu is '%s' type %08x", idx, fn, tc); idx++; }
   if (idx != s.f.size()) BAD("%zu fields, script says %zu", idx, s.f.size());
   for (size_t i = 0; i < s.f.size(); i++) {
      const Fld & f = s.f[i]; const char * n = f.name.c_str(); uint32 c = 0xFFFFFFFFu; bool ok = true; const uint32 want = f.Count();
      switch (f.type) {
         case B_BOOL_TYPE:   { MBool * p = MMGetBoolField(m, n, &c); ok = p && c == want; for (uint32 k = 0; ok && k < c; k++) ok = (p[k] != 0) == (f.iv[k] != 0); } break;
         case B_INT8_TYPE:   { int8 * p = MMGetInt8Field(m, n, &c); ok = p && c == want; for (uint32 k = 0; ok && k < c; k++) ok = p[k] == (int8)f.iv[k]; } break;
         case B_INT16_TYPE:  { int16 * p = MMGetInt16Field(m, n, &c); ok = p && c == want; for (uint32 k = 0; ok && k < c; k++) ok = p[k] == (int16)f.iv[k]; } break;
         case B_INT32_TYPE:  { int32 * p = MMGetInt32Field(m, n, &c); ok = p && c == want; for (uint32 k = 0; ok && k < c; k++) ok = p[k] == (int32)f.iv[k]; } break;
         case B_INT64_TYPE:  { int64 * p = MMGetInt64Field(m, n, &c); ok = p && c == want; for (uint32 k = 0; ok && k < c; k++) ok = p[k] == (int64)f.iv[k]; } break;
         case B_FLOAT_TYPE:  { float * p = MMGetFloatField(m, n, &c); ok = p && c == want; for (uint32 k = 0; ok && k < c; k++) ok = FB(p[k]) == (uint32_t)f.bits[k]; } break;
         case B_DOUBLE_TYPE: { double * p = MMGetDoubleField(m, n, &c); ok = p && c == want; for (uint32 k = 0; ok && k < c; k++) ok = DB(p[k]) == f.bits[k]; } break;
         case B_POINT_TYPE:  { MPoint * p = MMGetPointField(m, n, &c); ok = p && c == want; for (uint32 k = 0; ok && k < c; k++) ok = FB(p[k].x) == (uint32_t)f.bits[2 * k] && FB(p[k].y) == (uint32_t)f.bits[2 * k + 1]; } break;
         case B_RECT_TYPE:   { MRect * p = MMGetRectField(m, n, &c); ok = p && c == want; for (uint32 k = 0; ok && k < c; k++) ok = FB(p[k].left) == (uint32_t)f.bits[4 * k] && FB(p[k].top) == (uint32_t)f.bits[4 * k + 1] && FB(p[k].right) == (uint32_t)f.bits[4 * k + 2] && FB(p[k].bottom) == (uint32_t)f.bits[4 * k + 3]; } break;
         case B_STRING_TYPE: { MByteBuffer ** p = MMGetStringField(m, n, &c); ok = p && c == want; for (uint32 k = 0; ok && k < c; k++) ok = p[k] && p[k]->numBytes == f.sv[k].size() + 1 && memcmp(&p[k]->bytes, f.sv[k].c_str(), f.sv[k].size() + 1) == 0; } break;
         case B_RAW_TYPE:    { MByteBuffer ** p = MMGetDataField(m, f.rawCode, n, &c); ok = p && c == want; for (uint32 k = 0; ok && k < c; k++) ok = p[k] && p[k]->numBytes == f.sv[k].size() && (f.sv[k].empty() || memcmp(&p[k]->bytes, f.sv[k].data(), f.sv[k].size()) == 0); } break;
         case B_MESSAGE_TYPE: { MMessage ** p = MMGetMessageField(m, n, &c); ok = p && c == want; for (uint32 k = 0; ok && k < c; k++) { std::string w2; if (!p[k] || !CheckMM(p[k], f.mv[k], w2)) BAD("'%s'[%u]/%s", n, k, w2.c_str()); } } break;
      }
      if (!ok) BAD("field '%s' (%s, %u items): getter disagrees with the script (count %u)", n, TNAME[TIdx(f.type)], want, c);
   }
   return true;
}

// ------------------------------------------------------------------------------------------------ C MicroMessage leg
// append-only construction: fields in script order, all items of a field together, a sub-Message completed before its parent continues
static c_status_t BuildUM(const Scr & s, UMessage * um)
{
   c_status_t r = CB_NO_ERROR;
   for (size_t i = 0; i < s.f.size() && r == CB_NO_ERROR; i++) {
      const Fld & f = s.f[i]; const char * n = f.name.c_str(); const uint32 c = f.Count();
      switch (f.type) {
         case B_BOOL_TYPE:   { std::vector<UBool> v(f.iv.begin(), f.iv.end()); r = UMAddBools(um, n, v.data(), c); } break;
         case B_INT8_TYPE:   { std::vector<int8> v(f.iv.begin(), f.iv.end()); r = UMAddInt8s(um, n, v.data(), c); } break;
         case B_INT16_TYPE:  { std::vector<int16> v(f.iv.begin(), f.iv.end()); r = UMAddInt16s(um, n, v.data(), c); } break;
         case B_INT32_TYPE:  { std::vector<int32> v(f.iv.begin(), f.iv.end()); r = UMAddInt32s(um, n, v.data(), c); } break;
         case B_INT64_TYPE:  { std::vector<int64> v(f.iv.begin(), f.iv.end()); r = UMAddInt64s(um, n, v.data(), c); } break;
         case B_FLOAT_TYPE:  { std::vector<float> v(c); for (uint32 k = 0; k < c; k++) v[k] = BF(f.bits[k]); r = UMAddFloats(um, n, v.data(), c); } break;
         case B_DOUBLE_TYPE: { std::vector<double> v(c); for (uint32 k = 0; k < c; k++) v[k] = BD(f.bits[k]); r = UMAddDoubles(um, n, v.data(), c); } break;
         case B_POINT_TYPE:  { std::vector<UPoint> v(c); for (uint32 k = 0; k < c; k++) { v[k].x = BF(f.bits[2 * k]); v[k].y = BF(f.bits[2 * k + 1]); } r = UMAddPoints(um, n, v.data(), c); } break;
         case B_RECT_TYPE:   { std::vector<URect> v(c); for (uint32 k = 0; k < c; k++) { v[k].left = BF(f.bits[4 * k]); v[k].top = BF(f.bits[4 * k + 1]); v[k].right = BF(f.bits[4 * k + 2]); v[k].bottom = BF(f.bits[4 * k + 3]); } r = UMAddRects(um, n, v.data(), c); } break;
         case B_STRING_TYPE: { std::vector<const char *> v; for (uint32 k = 0; k < c; k++) v.push_back(f.sv[k].c_str()); if ((i + s.what) & 1) r = UMAddStrings(um, n, v.data(), c); else for (uint32 k = 0; k < c && r == CB_NO_ERROR; k++) r = UMAddString(um, n, v[k]); } break;
         case B_RAW_TYPE:    for (uint32 k = 0; k < c && r == CB_NO_ERROR; k++) r = UMAddData(um, n, f.rawCode, f.sv[k].data(), (uint32)f.sv[k].size()); break;
         case B_MESSAGE_TYPE: for (uint32 k = 0; k < c && r == CB_NO_ERROR; k++) { UMessage sub = UMInlineAddMessage(um, n, f.mv[k].what); if (!UMIsMessageValid(&sub) || UMIsMessageReadOnly(&sub)) { r = CB_ERROR; break; } r = BuildUM(f.mv[k], &sub); } break;
      }
   }
   return r;
}
static bool umZeroLast;   // set by CheckUM when it met the UMFindData zero-length-last-item defect
static bool CheckUM(const UMessage * m, const Scr & s, std::string & why)
{
   if (UMGetWhatCode(m) != s.what) BAD("what is %u, script says %u", UMGetWhatCode(m), s.what);
   if (UMGetNumFields(m) != s.f.size()) BAD("%u fields, script says %zu", UMGetNumFields(m), s.f.size());
   UMessageFieldNameIterator it; UMIteratorInitialize(&it, m, B_ANY_TYPE); size_t idx = 0;
   for (;; idx++) { uint32 ni = 0, ft = 0; const char * fn = UMIteratorGetCurrentFieldName(&it, &ni, &ft); if (!fn) break; if (idx >= s.f.size() || s.f[idx].name != fn || ft != s.f[idx].Code() || ni != s.f[idx].Count()) BAD("iterator: field #%zu is '%s' type %08x with %u items", idx, fn, ft, ni); UMIteratorAdvance(&it); }
   if (idx != s.f.size()) BAD("iterator visits %zu fields, script says %zu", idx, s.f.size());
   for (size_t i = 0; i < s.f.size(); i++) {
      const Fld & f = s.f[i]; const char * n = f.name.c_str(); const uint32 c = f.Count();
      if (UMGetFieldTypeCode(m, n) != f.Code() || UMGetNumItemsInField(m, n, f.Code()) != c) BAD("field '%s': type %08x items %u", n, UMGetFieldTypeCode(m, n), UMGetNumItemsInField(m, n, f.Code()));
      for (uint32 k = 0; k < c; k++) {
         bool ok = true;
         switch (f.type) {
            case B_BOOL_TYPE:   { UBool v = 0; ok = UMFindBool(m, n, k, &v) == CB_NO_ERROR && (v != 0) == (f.iv[k] != 0); } break;
            case B_INT8_TYPE:   { int8 v = 0; ok = UMFindInt8(m, n, k, &v) == CB_NO_ERROR && v == (int8)f.iv[k]; } break;
            case B_INT16_TYPE:  { int16 v = 0; ok = UMFindInt16(m, n, k, &v) == CB_NO_ERROR && v == (int16)f.iv[k]; } break;
            case B_INT32_TYPE:  { int32 v = 0; ok = UMFindInt32(m, n, k, &v) == CB_NO_ERROR && v == (int32)f.iv[k]; } break;
            case B_INT64_TYPE:  { int64 v = 0; ok = UMFindInt64(m, n, k, &v) == CB_NO_ERROR && v == (int64)f.iv[k]; } break;
            case B_FLOAT_TYPE:  { float v = 0; ok = UMFindFloat(m, n, k, &v) == CB_NO_ERROR && FB(v) == (uint32_t)f.bits[k]; } break;
            case B_DOUBLE_TYPE: { double v = 0; ok = UMFindDouble(m, n, k, &v) == CB_NO_ERROR && DB(v) == f.bits[k]; } break;
            case B_POINT_TYPE:  { UPoint v; ok = UMFindPoint(m, n, k, &v) == CB_NO_ERROR && FB(v.x) == (uint32_t)f.bits[2 * k] && FB(v.y) == (uint32_t)f.bits[2 * k + 1]; } break;
            case B_RECT_TYPE:   { URect v; ok = UMFindRect(m, n, k, &v) == CB_NO_ERROR && FB(v.left) == (uint32_t)f.bits[4 * k] && FB(v.top) == (uint32_t)f.bits[4 * k + 1] && FB(v.right) == (uint32_t)f.bits[4 * k + 2] && FB(v.bottom) == (uint32_t)f.bits[4 * k + 3]; } break;
            case B_STRING_TYPE: { const char * v = UMGetString(m, n, k); ok = v && f.sv[k] == v; } break;
            case B_RAW_TYPE:    { const void * p = NULL; uint32 nb = 0xFFFFFFFFu; const c_status_t fr = UMFindData(m, n, f.rawCode, k, &p, &nb);
                                  if (fr != CB_NO_ERROR && f.sv[k].empty() && k + 1 == c) { umZeroLast = true; Known("umzero", "micro|finddata-zero-length-last-item", vh::fmt("UMFindData('%s', B_RAW_TYPE, %u) returns CB_ERROR for a zero-length item that is the last of its field (UMGetNumItemsInField counts it: %u)", n, k, c)); }
                                  else ok = fr == CB_NO_ERROR && nb == f.sv[k].size() && (nb == 0 || memcmp(p, f.sv[k].data(), nb) == 0); } break;
            case B_MESSAGE_TYPE: { UMessage sub; if (UMFindMessage(m, n, k, &sub) != CB_NO_ERROR) ok = false; else { std::string w2; if (!CheckUM(&sub, f.mv[k], w2)) BAD("'%s'[%u]/%s", n, k, w2.c_str()); } } break;
         }
         if (!ok) BAD("field '%s' item %u: getter disagrees with the script", n, k);
      }
   }
   return true;
}
// re-serialisation through the micro API: read everything with the getters, write it with the adders
static c_status_t CopyUM(const UMessage * src, UMessage * dst)
{
   UMessageFieldNameIterator it; UMIteratorInitialize(&it, src, B_ANY_TYPE); c_status_t r = CB_NO_ERROR;
   for (; r == CB_NO_ERROR; UMIteratorAdvance(&it)) {
      uint32 c = 0, t = 0; const char * fnp = UMIteratorGetCurrentFieldName(&it, &c, &t); if (!fnp) break;
      const std::string fns(fnp); const char * n = fns.c_str();
      switch (t) {
         case B_BOOL_TYPE:   { std::vector<UBool> v(c); for (uint32 k = 0; k < c; k++) if (UMFindBool(src, n, k, &v[k]) != CB_NO_ERROR) return CB_ERROR; r = UMAddBools(dst, n, v.data(), c); } break;
         case B_INT8_TYPE:   { std::vector<int8> v(c); for (uint32 k = 0; k < c; k++) if (UMFindInt8(src, n, k, &v[k]) != CB_NO_ERROR) return CB_ERROR; r = UMAddInt8s(dst, n, v.data(), c); } break;
         case B_INT16_TYPE:  { std::vector<int16> v(c); for (uint32 k = 0; k < c; k++) if (UMFindInt16(src, n, k, &v[k]) != CB_NO_ERROR) return CB_ERROR; r = UMAddInt16s(dst, n, v.data(), c); } break;
         case B_INT32_TYPE:  { std::vector<int32> v(c); for (uint32 k = 0; k < c; k++) if (UMFindInt32(src, n, k, &v[k]) != CB_NO_ERROR) return CB_ERROR; r = UMAddInt32s(dst, n, v.data(), c); } break;
         case B_INT64_TYPE:  { std::vector<int64> v(c); for (uint32 k = 0; k < c; k++) if (UMFindInt64(src, n, k, &v[k]) != CB_NO_ERROR) return CB_ERROR; r = UMAddInt64s(dst, n, v.data(), c); } break;
         case B_FLOAT_TYPE:  { std::vector<float> v(c); for (uint32 k = 0; k < c; k++) if (UMFindFloat(src, n, k, &v[k]) != CB_NO_ERROR) return CB_ERROR; r = UMAddFloats(dst, n, v.data(), c); } break;
         case B_DOUBLE_TYPE: { std::vector<double> v(c); for (uint32 k = 0; k < c; k++) if (UMFindDouble(src, n, k, &v[k]) != CB_NO_ERROR) return CB_ERROR; r = UMAddDoubles(dst, n, v.data(), c); } break;
         case B_POINT_TYPE:  { std::vector<UPoint> v(c); for (uint32 k = 0; k < c; k++) if (UMFindPoint(src, n, k, &v[k]) != CB_NO_ERROR) return CB_ERROR; r = UMAddPoints(dst, n, v.data(), c); } break;
         case B_RECT_TYPE:   { std::vector<URect> v(c); for (uint32 k = 0; k < c; k++) if (UMFindRect(src, n, k, &v[k]) != CB_NO_ERROR) return CB_ERROR; r = UMAddRects(dst, n, v.data(), c); } break;
         case B_STRING_TYPE: { std::vector<const char *> v(c); for (uint32 k = 0; k < c; k++) if ((v[k] = UMGetString(src, n, k)) == NULL) return CB_ERROR; r = UMAddStrings(dst, n, v.data(), c); } break;
         case B_MESSAGE_TYPE: for (uint32 k = 0; k < c && r == CB_NO_ERROR; k++) { UMessage sub; if (UMFindMessage(src, n, k, &sub) != CB_NO_ERROR) return CB_ERROR; UMessage child = UMInlineAddMessage(dst, n, UMGetWhatCode(&sub)); if (!UMIsMessageValid(&child) || UMIsMessageReadOnly(&child)) return CB_ERROR; r = CopyUM(&sub, &child); } break;
         default: for (uint32 k = 0; k < c && r == CB_NO_ERROR; k++) { const void * p = NULL; uint32 nb = 0; if (UMFindData(src, n, t, k, &p, &nb) != CB_NO_ERROR) return CB_ERROR; r = UMAddData(dst, n, t, p, nb); } break;
      }
   }
   return r;
}

// ------------------------------------------------------------------------------------------------ python3 child process
static std::string VerifRoot() { std::string f = __FILE__; size_t a = f.rfind('/'); if (a == std::string::npos) return "."; size_t b = f.rfind('/', a - 1); return b == std::string::npos ? "." : f.substr(0, b); }
static std::string RepoRoot() { const char * e = getenv("VERIF_REPO"); return (e && *e) ? e : "/repo"; }
struct Peer {
   pid_t pid; int wfd; int rfd; FILE * rf; std::string errPath; std::string pending;
   Peer() : pid(-1), wfd(-1), rfd(-1), rf(NULL) {}
   bool Running() const { return pid > 0; }
   void Start(const std::vector<std::string> & extraArgs)
   {
      const std::string script = vh::opt("pypeer", (VerifRoot() + "/py/wire_peer.py").c_str()), py = vh::opt("python", "python3");
      struct stat st; if (stat(script.c_str(), &st) != 0) HarnessAbort("python peer script not found: " + script);
      int toChild[2], fromChild[2]; if (pipe(toChild) != 0 || pipe(fromChild) != 0) HarnessAbort("pipe()");
      errPath = vh::fmt("pypeer.%d.%ld.err", (int)getpid(), (long)vh::ctx().casesRun);
      pid = fork(); if (pid < 0) HarnessAbort("fork()");
      if (pid == 0) {
         dup2(toChild[0], 0); dup2(fromChild[1], 1); int ef = open(errPath.c_str(), O_WRONLY | O_CREAT | O_TRUNC, 0644); if (ef >= 0) dup2(ef, 2);
         for (int fd = 3; fd < 256; fd++) close(fd);
         std::vector<std::string> a; a.push_back(py); a.push_back("-B"); a.push_back(script); a.push_back("--repo"); a.push_back(RepoRoot()); for (size_t i = 0; i < extraArgs.size(); i++) a.push_back(extraArgs[i]);
         std::vector<char *> av; for (size_t i = 0; i < a.size(); i++) av.push_back((char *)a[i].c_str()); av.push_back(NULL);
         unsetenv("LD_PRELOAD"); execvp(py.c_str(), av.data());
         fprintf(stderr, "exec %s failed: %s\n", py.c_str(), strerror(errno)); _exit(127);
      }
      close(toChild[0]); close(fromChild[1]); wfd = toChild[1]; rfd = fromChild[0]; rf = NULL;
   }
   std::string ErrText() const { std::string t; FILE * f = fopen(errPath.c_str(), "r"); if (f) { char b[2048]; size_t n = fread(b, 1, sizeof(b) - 1, f); b[n] = 0; t = b; fclose(f); } return t; }
   void Send(const std::string & line)
   {
      size_t off = 0; while (off < line.size()) { ssize_t n = write(wfd, line.data() + off, line.size() - off); if (n < 0) { if (errno == EINTR) continue; HarnessAbort("python peer is gone (write: " + std::string(strerror(errno)) + ") stderr: " + ErrText()); } off += (size_t)n; }
   }
   // blocking line read (wire mode)
   std::string ReadLine()
   {
      if (!rf) rf = fdopen(rfd, "r");
      char * lp = NULL; size_t cap = 0; ssize_t n = getline(&lp, &cap, rf);
      if (n <= 0) { free(lp); int st = 0; waitpid(pid, &st, 0); pid = -1; HarnessAbort(vh::fmt("python peer ended unexpectedly (wait status %d) stderr: ", st) + ErrText()); }
      std::string s(lp, (size_t)n); free(lp); while (!s.empty() && (s[s.size() - 1] == '\n' || s[s.size() - 1] == '\r')) s.resize(s.size() - 1);
      return s;
   }
   // non-blocking drain of whatever the child printed (frame mode)
   std::string Drain() { std::string out; if (rfd < 0) return out; int fl = fcntl(rfd, F_GETFL); fcntl(rfd, F_SETFL, fl | O_NONBLOCK); char b[1024]; for (;;) { ssize_t n = read(rfd, b, sizeof(b)); if (n <= 0) break; out.append(b, (size_t)n); } return out; }
   // -1 still running, otherwise the wait status
   int Poll() { if (pid <= 0) return 0; int st = 0; pid_t r = waitpid(pid, &st, WNOHANG); if (r == pid) { pid = -1; return st ? st : 0x10000; } return -1; }
   void Stop(bool kill9)
   {
      if (wfd >= 0) { close(wfd); wfd = -1; }
      if (pid > 0) { if (kill9) kill(pid, SIGKILL); else { for (int i = 0; i < 300; i++) { int st; if (waitpid(pid, &st, WNOHANG) == pid) { pid = -1; break; } usleep(10000); } if (pid > 0) kill(pid, SIGKILL); } if (pid > 0) { int st; waitpid(pid, &st, 0); pid = -1; } }
      if (rf) { fclose(rf); rf = NULL; rfd = -1; } else if (rfd >= 0) { close(rfd); rfd = -1; }
      if (!errPath.empty()) unlink(errPath.c_str());
   }
   // all threads of the child asleep and no CPU consumed since the previous call?
   bool IdleSample(unsigned long long & lastCpu)
   {
      if (pid <= 0) return false;
      std::string dir = vh::fmt("/proc/%d/task", (int)pid); DIR * d = opendir(dir.c_str()); if (!d) return false;
      bool allAsleep = true; unsigned long long cpu = 0; struct dirent * e;
      while ((e = readdir(d)) != NULL) {
         if (e->d_name[0] == '.') continue;
         FILE * f = fopen((dir + "/" + e->d_name + "/stat").c_str(), "r"); if (!f) continue;
         char b[1024]; size_t n = fread(b, 1, sizeof(b) - 1, f); b[n] = 0; fclose(f);
         const char * p = strrchr(b, ')'); if (!p) { allAsleep = false; continue; }
         char state = 0; unsigned long long ut = 0, stt = 0; long dummy;
         if (sscanf(p + 2, "%c %ld %ld %ld %ld %ld %ld %ld %ld %ld %ld %llu %llu", &state, &dummy, &dummy, &dummy, &dummy, &dummy, &dummy, &dummy, &dummy, &dummy, &dummy, &ut, &stt) != 13) { allAsleep = false; continue; }
         if (state != 'S') allAsleep = false;
         cpu += ut + stt;
      }
      closedir(d);
      const bool idle = allAsleep && cpu == lastCpu; lastCpu = cpu; return idle;
   }
};
static Peer wirePeer;
static FILE * emitFile = NULL;

static std::vector<std::string> SplitTabs(const std::string & s) { std::vector<std::string> v; size_t a = 0; for (;;) { size_t b = s.find('\t', a); if (b == std::string::npos) { v.push_back(s.substr(a)); break; } v.push_back(s.substr(a, b - a)); a = b + 1; } return v; }
static int Nib(char c) { return (c >= '0' && c <= '9') ? c - '0' : (c >= 'a' && c <= 'f') ? c - 'a' + 10 : (c >= 'A' && c <= 'F') ? c - 'A' + 10 : 0; }
static std::string FromHex(const std::string & h) { std::string o; o.reserve(h.size() / 2); for (size_t i = 0; i + 1 < h.size(); i += 2) o.push_back((char)((Nib(h[i]) << 4) | Nib(h[i + 1]))); return o; }
static void EnsureWirePeer()
{
   if (wirePeer.Running()) return;
   wirePeer.Start(std::vector<std::string>());
   std::string l = wirePeer.ReadLine();
   if (l.compare(0, 5, "READY") != 0) HarnessAbort("python peer did not say READY but: " + l + " stderr: " + wirePeer.ErrText());
}

// ------------------------------------------------------------------------------------------------ parse targets
// A parser must give the bytes' content whatever the target object held before: a PRNG-chosen share of all parses goes into a
// USED object (a receive loop that keeps one Message; a Message filled with Add*() and then overwritten).  The earlier content
// is derived from the case's own PRNG (never from an earlier case): the same script, an unrelated one, a superset (the incoming
// Message is a subset), the same names with other types, a subset; filled through the Add API or by an earlier Unflatten.
static const char * PREV_KIND[5] = {"same", "unrelated", "superset", "same_names_other_types", "subset"};
static Scr MakePrev(const Scr & s, int & kind)
{
   Prof pp; pp.pySafe = true; pp.nonAsciiNames = R(6) == 0; pp.big = false; pp.maxDepth = 1; pp.zeroItems = R(4) == 0;
   kind = (int)R(5); Scr p;
   switch (kind) {
      case 0: p = s; break;
      case 1: p = Gen(0, pp); break;
      case 2: { p = s; const uint32 extra = 1 + R(3); for (uint32 e = 0; e < extra; e++) { Fld x; x.name = vh::fmt("xtra_%u", e); x.type = R(2) ? B_INT32_TYPE : B_STRING_TYPE; const uint32 c = 1 + R(3); for (uint32 k = 0; k < c; k++) { if (x.type == B_INT32_TYPE) x.iv.push_back(GenInt(32)); else x.sv.push_back(GenStr(pp)); } p.f.insert(p.f.begin() + R((uint32)p.f.size() + 1), x); } } break;
      case 3: for (size_t i = 0; i < s.f.size(); i++) { Fld x; x.name = s.f[i].name; x.type = (s.f[i].type == B_INT32_TYPE) ? B_STRING_TYPE : B_INT32_TYPE; const uint32 c = 1 + R(4); for (uint32 k = 0; k < c; k++) { if (x.type == B_INT32_TYPE) x.iv.push_back(GenInt(32)); else x.sv.push_back(GenStr(pp)); } p.f.push_back(x); } break;
      default: for (size_t i = 0; i < s.f.size(); i++) if (R(2)) p.f.push_back(s.f[i]); break;
   }
   p.what = R(2) ? s.what : ~s.what;
   if (p.f.empty()) { Fld x; x.name = R(2) ? "old" : ""; x.type = B_INT32_TYPE; x.iv.push_back(1); x.iv.push_back(2); x.iv.push_back(3); p.f.push_back(x); }   // a used target holds something
   return p;
}
static bool tgtUsed; static std::string tgtDesc;
static void StripZeroItemFields(Scr & p)   // MiniMessage "does not allow zero-item fields" (its own comment)
{
   for (size_t i = p.f.size(); i > 0; i--) { Fld & f = p.f[i - 1]; if (f.Count() == 0) p.f.erase(p.f.begin() + (i - 1)); else for (size_t k = 0; k < f.mv.size(); k++) StripZeroItemFields(f.mv[k]); }
   if (p.f.empty()) { Fld x; x.name = "old"; x.type = B_INT32_TYPE; x.iv.push_back(1); p.f.push_back(x); }
}
static void NoteTarget(const Scr & s, int kind, bool byParse, const char * impl, bool countStats)
{
   tgtUsed = true; tgtDesc = vh::fmt(" | target object (%s) already held a '%s' Message filled by %s", impl, PREV_KIND[kind], byParse ? "an earlier parse" : "the add API");
   if (!countStats) return;
   vh::stat("parse_into_used_target"); vh::stat(std::string("parse_into_used_target_prev_") + PREV_KIND[kind]); vh::stat(byParse ? "parse_into_target_filled_by_earlier_parse" : "parse_into_target_filled_by_add_api");
   if (s.f.empty()) vh::stat("parse_fieldless_into_used_target");
}
static MessageRef CppTarget(const Scr & s, bool countStats)
{
   tgtUsed = false; tgtDesc.clear();
   const uint32 how = R(4);
   if (how == 0) { if (countStats) vh::stat("parse_into_fresh_target"); return MessageRef(new Message); }
   if (how == 1) { if (countStats) vh::stat("parse_into_pooled_target"); return GetMessageFromPool(); }
   int kind; const Scr p = MakePrev(s, kind); const bool byParse = R(2) != 0;
   const int keep = forceRoute; MessageRef t = BuildCpp(p); forceRoute = keep;
   if (byParse) { const std::string pb = FlatCpp(*t()); t = MessageRef(new Message); if (t()->UnflattenFromBytes((const uint8 *)pb.data(), (uint32)pb.size()).IsError()) { tgtUsed = true; tgtDesc = " | (filling the target by a first parse already failed)"; return t; } }
   NoteTarget(s, kind, byParse, "C++ Message", countStats);
   return t;
}
static MMessage * MiniTarget(const Scr & s, bool countStats)
{
   tgtUsed = false; tgtDesc.clear();
   if (R(2) == 0) { MMessage * m = MMAllocMessage(R(2) ? 0 : 12345); MCK(m, "MMAllocMessage"); return m; }
   int kind; Scr p = MakePrev(s, kind); StripZeroItemFields(p); const bool byParse = R(2) != 0;
   MMessage * t = BuildMM(p);
   if (byParse) { const std::string pb = FlatMM(t); MMFreeMessage(t); t = MMAllocMessage(0); MCK(t, "MMAllocMessage"); if (MMUnflattenMessage(t, pb.data(), (uint32)pb.size()) != CB_NO_ERROR) HarnessAbort("MiniMessage cannot read its own bytes while preparing a used target"); }
   NoteTarget(s, kind, byParse, "MMessage", false); if (countStats) { vh::stat("mini_parse_into_used_target"); if (s.f.empty()) vh::stat("mini_parse_fieldless_into_used_target"); }
   return t;
}
static std::string UK(const char * key) { return tgtUsed ? std::string(key) + "|used-target" : std::string(key); }

// ------------------------------------------------------------------------------------------------ one wire case
static std::vector<uint8> umBuf, umBuf2;
static void RunWire(long k, const Scr & s, bool countStats)
{
   caseBad = false; deferredKey.clear(); umZeroLast = false;
   Info in; Walk(s, in, 0);
   curJson.clear(); Json(s, curJson);
   routeLog.clear(); countRoutes = countStats;
   MessageRef cm = BuildCpp(s);
   countRoutes = false;
   const std::string bc = FlatCpp(*cm());
   curCppHex = vh::hex(bc.data(), bc.size(), 400) + " | construction routes: " + routeLog;
   if (bc.size() >= 9 && bc.compare(bc.size() - 9, 9, "<OVERRUN>") == 0) { Fail("cpp|flatten-writes-beyond-flattenedsize", "Message::Flatten wrote past FlattenedSize()"); return; }

   // ---- hand the script and the C++ bytes to the Python side first (it works while the C legs run here)
   // mask=pynames masks the known message.py defect (FlattenedSize() counts characters, not UTF-8 bytes, of field names)
   static const bool maskNames = Masked("pynames");
   const char * nopy = in.nonUtf8 ? "non_utf8_string" : in.nanPtRc ? "nan_in_point_or_rect" : (in.nonAsciiName && maskNames) ? "non_ascii_field_name_masked" : "";
   {
      std::string line; line.reserve(curJson.size() + bc.size() * 2 + 96);
      line += vh::fmt("{\"case\":%ld,\"nopy\":\"%s\",\"script\":", k, nopy); line += curJson;
      if (!*nopy && R(2)) { int kind; const Scr pv = MakePrev(s, kind); Info pin; Walk(pv, pin, 0); if (!pin.nonUtf8 && !pin.nanPtRc && !(pin.nonAsciiName && maskNames)) { line += ",\"prev\":"; Json(pv, line); if (countStats) { vh::stat("py_parse_into_used_target_requested"); if (s.f.empty()) vh::stat("py_parse_fieldless_into_used_target_requested"); } } }
      line += ",\"cpp\":"; JHex(bc, line); line += "}\n";
      EnsureWirePeer(); wirePeer.Send(line);
      if (emitFile) { fputs(line.c_str(), emitFile); fflush(emitFile); }
   }
   std::string why;

   // ---- C++ reads its own bytes back (content through the getters, same bytes again)
   {
      MessageRef tr = CppTarget(s, countStats); Message & back = *tr(); status_t r = back.UnflattenFromBytes((const uint8 *)bc.data(), (uint32)bc.size());
      if (r.IsError()) Fail(UK("cpp|rejects-own-bytes"), std::string("Message::Unflatten: ") + r() + tgtDesc);
      else if (!CheckCpp(back, s, why)) Fail(UK("cpp|parse-of-own-bytes-content"), why + tgtDesc);
      else { std::string b2 = FlatCpp(back); if (b2 != bc) Fail(UK("cpp|reflatten-of-own-bytes"), DiffText("c++", bc, "c++ again", b2) + tgtDesc); else if (in.nanItems == 0 && !in.nanPtRc && !(back == *cm())) Fail(UK("cpp|parsed-message-not-equal"), "operator== says the parsed Message differs from the built one" + tgtDesc); }
      if (!CheckCpp(*cm(), s, why)) Fail("cpp|route-built-message-content", "the C++ Message built through the routes [" + routeLog + "] does not hold the script's content (getters): " + why);
   }

   // ---- MiniMessage
   if (!caseBad && in.zeroItemFields) {
      // MiniMessage.c: "we don't allow zero-item fields!" -- it cannot build them; as a reader it may refuse the bytes (counted as
      // unspecified), but if it accepts them it must give them back unchanged
      MMessage * m2 = MiniTarget(s, false);
      if (MMUnflattenMessage(m2, bc.data(), (uint32)bc.size()) != CB_NO_ERROR) { if (countStats) vh::stat("unspecified_mini_refuses_zero_item_fields"); }
      else { const std::string b2 = FlatMM(m2); if (b2 != bc) Fail("reflatten|mini-of-cpp-bytes-with-zero-item-field", DiffText("c++", bc, "mini", b2)); else if (countStats) vh::stat("mini_accepted_zero_item_fields"); }
      MMFreeMessage(m2);
   }
   else if (!caseBad) {
      MMessage * mm = BuildMM(s);
      if (!CheckMM(mm, s, why)) HarnessAbort("the natively built MMessage does not hold the script: " + why);
      const std::string bm = FlatMM(mm);
      if (bm != bc) Fail("bytes|mini-vs-cpp", DiffText("c++", bc, "mini", bm));
      MMessage * m2 = MiniTarget(s, countStats);
      if (MMUnflattenMessage(m2, bc.data(), (uint32)bc.size()) != CB_NO_ERROR) Fail(UK("parse|mini-rejects-cpp-bytes"), "MMUnflattenMessage returns an error" + tgtDesc);
      else if (!CheckMM(m2, s, why)) Fail(UK("parse|mini-of-cpp-bytes-content"), why + tgtDesc);
      else { if (!MMAreMessagesEqual(mm, m2) && in.nanItems == 0 && !in.nanPtRc) Fail(UK("parse|mini-of-cpp-bytes-not-equal"), "MMAreMessagesEqual(native, parsed) is false" + tgtDesc); std::string b2 = FlatMM(m2); if (b2 != bc) Fail(UK("reflatten|mini-of-cpp-bytes"), DiffText("c++", bc, "mini", b2) + tgtDesc); }
      MMFreeMessage(m2);
      MessageRef tr = CppTarget(s, countStats); Message & back = *tr(); status_t r = back.UnflattenFromBytes((const uint8 *)bm.data(), (uint32)bm.size());
      if (r.IsError()) Fail(UK("parse|cpp-rejects-mini-bytes"), std::string("Message::Unflatten: ") + r() + tgtDesc);
      else if (!CheckCpp(back, s, why)) Fail(UK("parse|cpp-of-mini-bytes-content"), why + tgtDesc);
      else if (FlatCpp(back) != bm) Fail(UK("reflatten|cpp-of-mini-bytes"), DiffText("mini", bm, "c++", FlatCpp(back)) + tgtDesc);
      MMFreeMessage(mm);
      if (countStats) vh::stat("mini_built_parsed_reflattened");
   }

   // ---- MicroMessage
   if (!caseBad) {
      umBuf.assign(bc.size() + 256, 0xA5);
      UMessage um; if (UMInitializeToEmptyMessage(&um, umBuf.data(), (uint32)bc.size() + 128, s.what) != CB_NO_ERROR) HarnessAbort("UMInitializeToEmptyMessage");
      if (in.zeroItemFields) { if (countStats) vh::stat("unspecified_micro_native_build_of_zero_item_fields_skipped"); }   // no documented way to add a field without items (UMAddData always adds one; the others are silent about n = 0): parse-only
      else if (BuildUM(s, &um) != CB_NO_ERROR) {
         // a build step refused although the buffer has 128 spare bytes: either the micro codec needs more bytes than the C++ one (layout) or it refuses legal content
         Fail("bytes|micro-build-refused", "a UMAdd* step returned an error with a buffer 128 bytes larger than the C++ bytes");
      } else {
         const std::string bu((const char *)UMGetFlattenedBuffer(&um), UMGetFlattenedSize(&um));
         if (bu != bc) Fail("bytes|micro-vs-cpp", DiffText("c++", bc, "micro", bu));
         if (!CheckUM(&um, s, why)) Fail("parse|micro-of-own-bytes-content", why);
         MessageRef tr = CppTarget(s, countStats); Message & back = *tr(); status_t r = back.UnflattenFromBytes((const uint8 *)bu.data(), (uint32)bu.size());
         if (r.IsError()) Fail(UK("parse|cpp-rejects-micro-bytes"), std::string("Message::Unflatten: ") + r() + tgtDesc);
         else if (!CheckCpp(back, s, why)) Fail(UK("parse|cpp-of-micro-bytes-content"), why + tgtDesc);
         else if (FlatCpp(back) != bu) Fail(UK("reflatten|cpp-of-micro-bytes"), DiffText("micro", bu, "c++", FlatCpp(back)) + tgtDesc);
      }
      for (size_t i = bc.size() + 128; i < umBuf.size(); i++) if (umBuf[i] != 0xA5) { Fail("bytes|micro-writes-beyond-buffer", "UMAdd* wrote past the buffer size it was given"); break; }
      UMessage ur;
      if (UMInitializeWithExistingData(&ur, (const uint8 *)bc.data(), (uint32)bc.size()) != CB_NO_ERROR) Fail("parse|micro-rejects-cpp-bytes", "UMInitializeWithExistingData returns an error");
      else if (!CheckUM(&ur, s, why)) { if (in.zeroItemFields) Known("umzerofield", "micro|zero-item-field-not-readable", "UMessage getters on bytes that hold a zero-item field: " + why); else Fail("parse|micro-of-cpp-bytes-content", why); }
      else if (umZeroLast) { if (countStats) vh::stat("micro_reflatten_skipped_finddata_defect"); }
      else if (in.zeroItemFields) { if (countStats) vh::stat("unspecified_micro_reflatten_of_zero_item_fields_skipped"); }   // the add API cannot express them (see above)
      else {
         umBuf2.assign(bc.size() + 128, 0); UMessage uc; if (UMInitializeToEmptyMessage(&uc, umBuf2.data(), (uint32)umBuf2.size(), UMGetWhatCode(&ur)) != CB_NO_ERROR) HarnessAbort("UMInitializeToEmptyMessage");
         if (CopyUM(&ur, &uc) != CB_NO_ERROR) Fail("reflatten|micro-of-cpp-bytes-refused", "getter or adder failed while copying the parsed message");
         else { const std::string b2((const char *)UMGetFlattenedBuffer(&uc), UMGetFlattenedSize(&uc)); if (b2 != bc) Fail("reflatten|micro-of-cpp-bytes", DiffText("c++", bc, "micro", b2)); }
      }
      if (countStats) vh::stat("micro_built_parsed_reflattened");
   }

   // ---- verdict of the Python side (always collected: the pipe protocol is one answer per request)
   {
      std::string l = wirePeer.ReadLine(); std::vector<std::string> v = SplitTabs(l);
      if (v.size() != 6 || v[0] != "R" || atol(v[1].c_str()) != k) HarnessAbort("unexpected answer from the python peer: " + l.substr(0, 300));
      if (countStats && v[4] != "-") { size_t a = 0; while (a < v[4].size()) { size_t b = v[4].find(',', a); if (b == std::string::npos) b = v[4].size(); std::string kv = v[4].substr(a, b - a); size_t e = kv.find('='); if (e != std::string::npos) vh::stat(kv.substr(0, e), atol(kv.c_str() + e + 1)); a = b + 1; } }
      if (v[2] != "-") {
         std::string extra;
         if (v[5] != "-") { const std::string pb = FromHex(v[5]); Message back; status_t r = back.UnflattenFromBytes((const uint8 *)pb.data(), (uint32)pb.size()); extra = std::string(" | C++ Message::Unflatten of the python bytes: ") + (r.IsError() ? r() : (CheckCpp(back, s, why) ? "OK, content equal to the script" : ("accepted, but " + why).c_str())); }
         Fail(v[2], v[3] + extra);
      }
   }

   if (!caseBad && !deferredKey.empty()) Fail(deferredKey, deferredDetail);
   if (countStats) {
      vh::distinct(vh::fnvs(bc), s.f.size() >= 1 && in.items >= 2);
      vh::stat("bytes_total", (long)bc.size()); vh::statmax("max_bytes", (long)bc.size()); vh::statmax("max_depth", in.depth); vh::statmax("max_items_in_field", in.maxCount); vh::statmax("max_fields", (long)s.f.size());
      vh::stat("fields", in.fields); vh::stat("items", in.items); vh::stat("multi_item_fields", in.multiItemFields);
      for (int i = 0; i < 12; i++) if (in.perType[i]) vh::stat(std::string("items_") + TNAME[i], in.perType[i]);
      if (in.zeroItemFields) { vh::stat("zero_item_fields", in.zeroItemFields); vh::stat("msgs_with_zero_item_fields"); }
      if (in.depth) vh::stat("msgs_with_nesting"); if (in.nanItems) vh::stat("nan_float_double_items", in.nanItems); if (in.nanPtRc) vh::stat("msgs_with_nan_in_point_rect");
      if (in.emptyNames) vh::stat("empty_field_names", in.emptyNames); if (in.zeroRaw) vh::stat("zero_length_raw_items", in.zeroRaw); if (in.emptyStr) vh::stat("empty_strings", in.emptyStr);
      if (in.userTyped) vh::stat("user_typed_fields", in.userTyped); if (in.pyStrFields) vh::stat("user_typed_fields_with_str_items_in_python", in.pyStrFields); if (in.utf8Str) vh::stat("non_ascii_utf8_strings", in.utf8Str); if (in.nonUtf8) vh::stat("msgs_with_non_utf8_strings"); if (in.nonAsciiName) vh::stat("msgs_with_non_ascii_field_names"); if (s.f.empty()) vh::stat("empty_messages");
      if (vh::want_sample()) vh::sample(vh::fmt("case %ld: %zu bytes ", k, bc.size()) + curJson.substr(0, 300));
   }
}

static Prof WireProf()
{
   Prof p; p.pySafe = R(5) != 0; p.nonAsciiNames = R(6) == 0; p.big = R(8) == 0; p.maxDepth = R(12) == 0 ? 6 : 3; p.zeroItems = R(5) == 0;
   return p;
}

// ------------------------------------------------------------------------------------------------ frame mode
// The documented stream frame, written by hand: [body length, 4 bytes LE]['Enc0' = 1164862256, 4 bytes LE][body]
static std::string DocFrame(const std::string & body)
{
   std::string f; const uint32_t n = (uint32_t)body.size(), e = 1164862256u;
   for (int i = 0; i < 4; i++) f.push_back((char)((n >> (8 * i)) & 0xFF));
   for (int i = 0; i < 4; i++) f.push_back((char)((e >> (8 * i)) & 0xFF));
   return f + body;
}
struct MemPipe { std::string q; size_t rd; MemPipe() : rd(0) {} size_t Avail() const { return q.size() - rd; } };
static uint32_t Chop(uint32_t n) { if (n == 0) return 0; switch (R(6)) { case 0: return 0; case 1: return 1; case 2: case 3: return n; case 4: return 1 + R(n < 8 ? n : 8); default: return 1 + R(n); } }
class MemIO : public DataIO {
public:
   MemPipe * rd; MemPipe * wr;
   MemIO(MemPipe * r, MemPipe * w) : rd(r), wr(w) {}
   virtual io_status_t Read(void * b, uint32 size) { if (!rd) return io_status_t((int32)0); uint32_t av = (uint32_t)rd->Avail(); uint32_t n = Chop(av < size ? av : size); memcpy(b, rd->q.data() + rd->rd, n); rd->rd += n; return io_status_t((int32)n); }
   virtual io_status_t Write(const void * b, uint32 size) { if (!wr) return io_status_t((int32)0); uint32_t n = Chop(size); wr->q.append((const char *)b, n); return io_status_t((int32)n); }
   virtual void FlushOutput() {} virtual void Shutdown() {}
   virtual const ConstSocketRef & GetReadSelectSocket() const { return GetNullSocket(); } virtual const ConstSocketRef & GetWriteSelectSocket() const { return GetNullSocket(); }
};
// passes everything to the TCP socket and keeps a copy of both directions
class RecIO : public DataIO {
public:
   DataIORef child; std::string in, out; bool eof;
   explicit RecIO(const DataIORef & c) : child(c), eof(false) {}
   virtual io_status_t Read(void * b, uint32 size) { io_status_t r = child()->Read(b, size); if (r.IsError()) eof = true; else if (r.GetByteCount() > 0) in.append((const char *)b, (size_t)r.GetByteCount()); return r; }
   virtual io_status_t Write(const void * b, uint32 size) { io_status_t r = child()->Write(b, size); if (r.IsOK() && r.GetByteCount() > 0) out.append((const char *)b, (size_t)r.GetByteCount()); return r; }
   virtual void FlushOutput() { child()->FlushOutput(); } virtual void Shutdown() { child()->Shutdown(); }
   virtual const ConstSocketRef & GetReadSelectSocket() const { return child()->GetReadSelectSocket(); } virtual const ConstSocketRef & GetWriteSelectSocket() const { return child()->GetWriteSelectSocket(); }
};
struct Rx : public AbstractGatewayMessageReceiver {
   std::vector<std::string> got;
   virtual void MessageReceivedFromGateway(const MessageRef & m, void *) { got.push_back(m() ? FlatCpp(*m()) : std::string("<null>")); }
};
static int32 CSend(const uint8 * buf, uint32 n, void * arg) { MemPipe * p = (MemPipe *)arg; uint32 k = Chop(n); p->q.append((const char *)buf, k); return (int32)k; }
static int32 CRecv(uint8 * buf, uint32 n, void * arg) { MemPipe * p = (MemPipe *)arg; uint32 av = (uint32)p->Avail(); uint32 k = Chop(av < n ? av : n); memcpy(buf, p->q.data() + p->rd, k); p->rd += k; return (int32)k; }
static std::string Join(const std::vector<std::string> & v) { std::string o; for (size_t i = 0; i < v.size(); i++) o += v[i]; return o; }
static std::string ListDiff(const char * ta, const std::vector<std::string> & a, const char * tb, const std::vector<std::string> & b)
{
   if (a.size() != b.size()) return vh::fmt("%s has %zu messages, %s has %zu", ta, a.size(), tb, b.size());
   for (size_t i = 0; i < a.size(); i++) if (a[i] != b[i]) return vh::fmt("message #%zu: ", i) + DiffText(ta, a[i], tb, b[i]);
   return "equal";
}

// Every place that drives a C++ gateway's output does it with PRNG-chosen per-call budgets DoOutput(maxBytes): 1, 7, 8, 9 (ending just
// inside / exactly at / just after the first header), 100, small random, thousands, 256 kB (ReflectServer's default) and unlimited.
// The concatenation over all calls must be exactly the documented frames.
static uint32 PickBudget(size_t sofar)
{
   if (sofar < 4096) switch (R(14)) { case 0: return 1; case 1: return 7; case 2: return 8; case 3: return 9; case 4: return 100; case 5: case 6: return 1 + R(40); default: break; }
   switch (R(6)) { case 0: return 100 + R(300); case 1: return 1000 + R(5000); case 2: return 262144; case 3: return MUSCLE_NO_LIMIT; default: return 20 + R(2000); }
}
// sink: the bytes written so far (live reference); budgetEnds: stream offsets at which a call returned because its budget was used up
static bool DriveOutput(MessageIOGateway & gw, const std::string & sink, std::vector<size_t> & budgetEnds, std::string & why, int maxCalls = 0x7FFFFFFF)
{
   const int mode = (int)R(4); const uint32 fixedSmall = PickBudget(0), fixedLarge = 50 + R(6000);
   for (int calls = 0; gw.HasBytesToOutput() && calls < maxCalls; calls++) {
      const uint32 b = mode == 0 ? MUSCLE_NO_LIMIT : mode == 1 ? (sink.size() < 4096 ? fixedSmall : fixedLarge) : PickBudget(sink.size());
      const io_status_t r = gw.DoOutput(b);
      if (r.IsError()) { why = std::string("MessageIOGateway::DoOutput: ") + r.GetStatus()(); return false; }
      if (b != MUSCLE_NO_LIMIT && (uint32)r.GetByteCount() > b) { why = vh::fmt("DoOutput(%u) reports %d bytes written", b, r.GetByteCount()); return false; }
      if (b != MUSCLE_NO_LIMIT && (uint32)r.GetByteCount() == b) budgetEnds.push_back(sink.size());
      if (maxCalls != 0x7FFFFFFF && r.GetByteCount() == 0) break;   // (socket would block)
   }
   return true;
}
// how many of those offsets lie strictly inside a frame of the (well-formed) stream
static long BudgetEndsInsideFrames(const std::string & stream, const std::vector<size_t> & ends)
{
   std::set<size_t> bounds; size_t off = 0; bounds.insert(0);
   while (off + 8 <= stream.size()) { off += 8 + ((uint32_t)(unsigned char)stream[off] | ((uint32_t)(unsigned char)stream[off + 1] << 8) | ((uint32_t)(unsigned char)stream[off + 2] << 16) | ((uint32_t)(unsigned char)stream[off + 3] << 24)); bounds.insert(off); }
   long n = 0; for (size_t i = 0; i < ends.size(); i++) if (!bounds.count(ends[i])) n++;
   return n;
}
static long budgetInside;   // per case, added to the statistics by the caller
// C++ MessageIOGateway: Messages -> stream (memory)
static bool CppOut(const std::vector<MessageRef> & ms, std::string & stream, std::string & why)
{
   MemPipe p; MessageIOGateway gw; gw.SetDataIO(DataIORef(new MemIO(NULL, &p)));
   for (size_t i = 0; i < ms.size(); i++) if (gw.AddOutgoingMessage(ms[i]).IsError()) HarnessAbort("AddOutgoingMessage");
   std::vector<size_t> ends; if (!DriveOutput(gw, p.q, ends, why)) return false;
   stream = p.q; budgetInside += BudgetEndsInsideFrames(stream, ends); return true;
}
// stream -> C++ MessageIOGateway -> flattened bodies
static bool CppIn(const std::string & stream, std::vector<std::string> & bodies, std::string & why)
{
   MemPipe p; p.q = stream; MessageIOGateway gw; gw.SetDataIO(DataIORef(new MemIO(&p, NULL))); Rx rx; int quiet = 0;
   while (quiet < 3) { io_status_t r = gw.DoInput(rx); if (r.IsError()) { why = std::string("MessageIOGateway::DoInput: ") + r.GetStatus()() + vh::fmt(" at stream offset %zu of %zu", p.rd, p.q.size()); bodies = rx.got; return false; } if (p.Avail() == 0 && r.GetByteCount() == 0) quiet++; else quiet = 0; }
   bodies = rx.got; return true;
}
static bool MiniOut(const std::vector<Scr> & ss, std::string & stream, std::string & why)
{
   MemPipe p; MMessageGateway * mg = MGAllocMessageGateway(); if (!mg) HarnessAbort("MGAllocMessageGateway"); bool ok = true;
   for (size_t i = 0; i < ss.size() && ok; i++) {
      MMessage * mm = BuildMM(ss[i]); if (MGAddOutgoingMessage(mg, mm) != CB_NO_ERROR) HarnessAbort("MGAddOutgoingMessage"); MMFreeMessage(mm);
      if (R(2)) continue;    // sometimes several Messages are queued before anything is written
      while (MGHasBytesToOutput(mg)) if (MGDoOutput(mg, R(2) ? ~0u : 1 + R(64), CSend, &p) < 0) { why = "MGDoOutput returns an error"; ok = false; break; }
   }
   while (ok && MGHasBytesToOutput(mg)) if (MGDoOutput(mg, R(2) ? ~0u : 1 + R(64), CSend, &p) < 0) { why = "MGDoOutput returns an error"; ok = false; }
   MGFreeMessageGateway(mg); stream = p.q; return ok;
}
static bool MiniIn(const std::string & stream, std::vector<std::string> & bodies, std::string & why)
{
   MemPipe p; p.q = stream; MMessageGateway * mg = MGAllocMessageGateway(); if (!mg) HarnessAbort("MGAllocMessageGateway"); bool ok = true; int quiet = 0;
   while (ok && quiet < 3) {
      MMessage * rm = NULL; int32 n = MGDoInput(mg, R(2) ? ~0u : 1 + R(64), CRecv, &p, &rm);
      if (n < 0) { why = vh::fmt("MGDoInput returns an error at stream offset %zu of %zu", p.rd, p.q.size()); ok = false; }
      if (rm) { bodies.push_back(FlatMM(rm)); MMFreeMessage(rm); }
      if (p.Avail() == 0 && n == 0 && !rm) quiet++; else quiet = 0;
   }
   MGFreeMessageGateway(mg); return ok;
}
static std::vector<uint8> ugIn, ugOut;
static bool MicroOut(const std::vector<Scr> & ss, std::string & stream, std::string & why)
{
   MemPipe p; UMessageGateway ug; UGGatewayInitialize(&ug, ugIn.data(), (uint32)ugIn.size(), ugOut.data(), (uint32)ugOut.size());
   for (size_t i = 0; i < ss.size(); i++) {
      UMessage um = UGGetOutgoingMessage(&ug, ss[i].what);
      if (!UMIsMessageValid(&um)) { while (UGHasBytesToOutput(&ug)) if (UGDoOutput(&ug, ~0u, CSend, &p) < 0) { why = "UGDoOutput returns an error"; return false; } um = UGGetOutgoingMessage(&ug, ss[i].what); if (!UMIsMessageValid(&um)) HarnessAbort("UGGetOutgoingMessage gives no message although the gateway is drained"); }
      if (BuildUM(ss[i], &um) != CB_NO_ERROR) { UGOutgoingMessageCancelled(&ug, &um); while (UGHasBytesToOutput(&ug)) if (UGDoOutput(&ug, ~0u, CSend, &p) < 0) { why = "UGDoOutput returns an error"; return false; } um = UGGetOutgoingMessage(&ug, ss[i].what); if (!UMIsMessageValid(&um) || BuildUM(ss[i], &um) != CB_NO_ERROR) HarnessAbort("micro gateway: Message does not fit into an empty 2 MB output buffer"); }
      UGOutgoingMessagePrepared(&ug, &um);
      if (R(2)) continue;
      while (UGHasBytesToOutput(&ug)) if (UGDoOutput(&ug, R(2) ? ~0u : 1 + R(64), CSend, &p) < 0) { why = "UGDoOutput returns an error"; return false; }
   }
   while (UGHasBytesToOutput(&ug)) if (UGDoOutput(&ug, R(2) ? ~0u : 1 + R(64), CSend, &p) < 0) { why = "UGDoOutput returns an error"; return false; }
   stream = p.q; return true;
}
static bool MicroIn(const std::string & stream, std::vector<std::string> & bodies, std::string & why)
{
   MemPipe p; p.q = stream; UMessageGateway ug; UGGatewayInitialize(&ug, ugIn.data(), (uint32)ugIn.size(), ugOut.data(), (uint32)ugOut.size()); int quiet = 0;
   while (quiet < 3) {
      UMessage um; UMInitializeToInvalid(&um); int32 n = UGDoInput(&ug, R(2) ? ~0u : 1 + R(64), CRecv, &p, &um);
      if (n < 0) { why = vh::fmt("UGDoInput returns an error at stream offset %zu of %zu", p.rd, p.q.size()); return false; }
      const bool gotOne = UMIsMessageValid(&um); if (gotOne) bodies.push_back(std::string((const char *)UMGetFlattenedBuffer(&um), UMGetFlattenedSize(&um)));
      if (p.Avail() == 0 && n == 0 && !gotOne) quiet++; else quiet = 0;
   }
   return true;
}

// ---- the live TCP connection to message_transceiver_thread.py (one per worker, re-made after every failure)
struct Echo { Peer peer; ConstSocketRef sock; MessageIOGateway * gw; RecIO * rec; bool up; std::string peerSaid; Echo() : gw(NULL), rec(NULL), up(false) {} };
static Echo echo;
static void EchoDown(bool kill9)
{
   if (echo.gw) { delete echo.gw; echo.gw = NULL; echo.rec = NULL; }
   echo.sock.Reset();
   if (echo.peer.Running() || echo.peer.rfd >= 0) echo.peer.Stop(kill9);
   echo.up = false;
}
static void EchoUp()
{
   if (echo.up) return;
   uint16 port = 0; ConstSocketRef as = CreateAcceptingSocket(0, 20, &port, invalidIP);     // NOT localhostIP (::1): the Python thread connects to 127.0.0.1 with AF_INET
   if (as() == NULL) HarnessAbort("cannot create the accepting socket");
   (void)SetSocketBlockingEnabled(as, false);
   std::vector<std::string> a; a.push_back("--echo"); a.push_back(vh::fmt("%u", (unsigned)port)); echo.peer = Peer(); echo.peer.Start(a); echo.peerSaid.clear();
   SocketMultiplexer sm; ConstSocketRef s; const uint64 giveUp = GetRunTime64() + SecondsToMicros(60);
   while (s() == NULL) {
      (void)sm.RegisterSocketForReadReady(as.GetFileDescriptor()); (void)sm.WaitForEvents(GetRunTime64() + MillisToMicros(100));
      s = Accept(as);
      if (s() == NULL) { int st = echo.peer.Poll(); if (st != -1) HarnessAbort(vh::fmt("python echo peer ended before connecting (wait status %d): ", st) + echo.peer.Drain() + " stderr: " + echo.peer.ErrText()); if (GetRunTime64() > giveUp) HarnessAbort("python echo peer did not connect within 60 s"); }
   }
   (void)SetSocketBlockingEnabled(s, false);
   echo.sock = s; echo.rec = new RecIO(DataIORef(new TCPSocketDataIO(s, false))); echo.gw = new MessageIOGateway; echo.gw->SetDataIO(DataIORef(echo.rec)); echo.up = true;
   vh::stat("python_echo_peers_started");
}
static void FrameShutdown() { EchoDown(false); }

// returns "" when all n echoes arrived, otherwise what ended the wait (decided without a clock: closed connection, gateway
// error, or a proved stall = everything sent, nothing readable, every thread of the peer asleep with no CPU use over 6 samples)
static std::vector<size_t> echoBudgetEnds;
static std::string EchoExchange(const std::vector<MessageRef> & ms, Rx & rx)
{
   echoBudgetEnds.clear();
   for (size_t i = 0; i < ms.size(); i++) if (echo.gw->AddOutgoingMessage(ms[i]).IsError()) HarnessAbort("AddOutgoingMessage");
   SocketMultiplexer sm; const int fd = echo.sock.GetFileDescriptor(); int idle = 0; unsigned long long cpu = 0;
   while (rx.got.size() < ms.size()) {
      const size_t in0 = echo.rec->in.size(), out0 = echo.rec->out.size();
      (void)sm.RegisterSocketForReadReady(fd); if (echo.gw->HasBytesToOutput()) (void)sm.RegisterSocketForWriteReady(fd);
      (void)sm.WaitForEvents(GetRunTime64() + MillisToMicros(500));
      if (echo.gw->HasBytesToOutput()) { std::string dwhy; if (!DriveOutput(*echo.gw, echo.rec->out, echoBudgetEnds, dwhy, 64)) return "C++ gateway cannot write: " + dwhy; }
      io_status_t r = echo.gw->DoInput(rx);
      if (r.IsError()) return std::string(echo.rec->eof ? "connection closed by the python peer: " : "C++ gateway rejects what the python peer sent: ") + r.GetStatus()();
      if (echo.rec->in.size() != in0 || echo.rec->out.size() != out0 || echo.gw->HasBytesToOutput()) { idle = 0; continue; }
      if (echo.peer.Poll() != -1) return "python peer process ended";
      if (echo.peer.IdleSample(cpu)) idle++; else idle = 0;
      if (idle >= 6) return "python peer is stalled: everything was sent, nothing comes back, all its threads are asleep and consume no CPU (6 samples, 3 s)";
   }
   return "";
}

// ---- C++ senders with the zlib encodings: the frame is still [length]['Enc0'+n]; walked by hand
// body of a ZLIB_n frame (zlib/ZLibCodec.cpp): ['zlib' dependent | 'zlic' independent, 4 bytes LE][raw size, 4 bytes LE][deflate data up to a sync flush];
// "dependent" = the deflate stream continues from the previous frame, so the hand inflater keeps its state across the frames of one stream.
static uint32_t LE32(const std::string & s, size_t off) { return (uint32_t)(unsigned char)s[off] | ((uint32_t)(unsigned char)s[off + 1] << 8) | ((uint32_t)(unsigned char)s[off + 2] << 16) | ((uint32_t)(unsigned char)s[off + 3] << 24); }
static const uint32_t ENC0 = 1164862256u;
// returns "" or what is wrong (key in *key)
static std::string WalkZlibStream(const std::string & stream, const std::vector<std::string> & plain, int level, std::string & key, long & deflated, long & small)
{
   z_stream zs; memset(&zs, 0, sizeof(zs)); if (inflateInit(&zs) != Z_OK) HarnessAbort("inflateInit");
   size_t off = 0; std::string bad;
   for (size_t i = 0; bad.empty(); i++) {
      if (off == stream.size()) { if (i != plain.size()) { key = "gw|zlib-sender-frame-count"; bad = vh::fmt("%zu frames on the stream, %zu Messages were sent", i, plain.size()); } break; }
      if (i >= plain.size()) { key = "gw|zlib-sender-frame-count"; bad = vh::fmt("more than %zu frames on the stream", plain.size()); break; }
      if (off + 8 > stream.size()) { key = "gw|zlib-sender-frame-truncated"; bad = vh::fmt("frame #%zu: partial header", i); break; }
      const uint32_t len = LE32(stream, off), enc = LE32(stream, off + 4); off += 8;
      if (off + len > stream.size()) { key = "gw|zlib-sender-frame-truncated"; bad = vh::fmt("frame #%zu: length word %u exceeds the stream", i, len); break; }
      const std::string body = stream.substr(off, len); off += len;
      const bool isPlain = (body == plain[i]);
      if (enc == ENC0) { if (!isPlain) { key = "gw|zlib-sender-enc0-frame-body-not-plain"; bad = vh::fmt("frame #%zu says Enc0 but its body is not the flattened Message: ", i) + DiffText("flattened", plain[i], "body", body); } else small++; continue; }
      if (enc != ENC0 + (uint32_t)level) { key = "gw|zlib-sender-encoding-word"; bad = vh::fmt("frame #%zu: encoding word %u is neither Enc0 nor ZLIB_%d (%u)", i, enc, level, ENC0 + level); break; }
      if (isPlain) { key = "gw|zlib-encoding-word-on-plain-body"; bad = vh::fmt("frame #%zu (%u bytes) says ZLIB_%d but its body is the plain flattened Message", i, len, level); break; }
      if (len < 8 || (LE32(body, 0) != 2053925218u && LE32(body, 0) != 2053925219u)) { key = "gw|zlib-frame-codec-header"; bad = vh::fmt("frame #%zu: body does not start with 'zlib'/'zlic' + raw size", i); break; }
      const uint32_t raw = LE32(body, 4); if (raw != plain[i].size()) { key = "gw|zlib-frame-codec-header"; bad = vh::fmt("frame #%zu: raw-size word %u, flattened Message has %zu bytes", i, raw, plain[i].size()); break; }
      if (LE32(body, 0) == 2053925219u) inflateReset(&zs);
      std::string out; out.resize(raw + 1); zs.next_in = (Bytef *)(body.data() + 8); zs.avail_in = len - 8; zs.next_out = (Bytef *)&out[0]; zs.avail_out = raw + 1;
      const int zr = inflate(&zs, Z_SYNC_FLUSH); out.resize(raw + 1 - zs.avail_out);
      if ((zr != Z_OK && zr != Z_BUF_ERROR) || zs.avail_in != 0 || out != plain[i]) { key = "gw|zlib-frame-does-not-inflate-to-message"; bad = vh::fmt("frame #%zu: inflate returns %d, %u input bytes left, %zu bytes out of %u: ", i, zr, zs.avail_in, out.size(), raw) + DiffText("flattened", plain[i], "inflated", out); break; }
      deflated++;
   }
   inflateEnd(&zs); return bad;
}
static Scr TinyScript()
{
   Scr t; t.what = R(3) ? (uint32)g.next() : 0;
   switch (R(5)) {
      case 0: case 1: break;                                                                                     // field-less: 12 bytes, frame 20 < 32
      case 2: { Fld f; f.name = ""; f.type = B_BOOL_TYPE; f.iv.push_back(1); t.f.push_back(f); } break;            // 26 bytes, frame 34
      case 3: { Fld f; f.name = "a"; f.type = B_INT8_TYPE; f.iv.push_back(-1); t.f.push_back(f); } break;         // 27 bytes
      default: { Fld f; f.name = ""; f.type = B_INT32_TYPE; t.f.push_back(f); } break;                            // one zero-item field: 25 bytes, frame 33
   }
   return t;
}
// ss/ms/bodies: Messages to send (tiny ones are mixed in here); level 1..9
static void ZlibSenderLeg(const std::vector<Scr> & ss0, int level, bool countStats)
{
   std::vector<MessageRef> ms; std::vector<std::string> plain; long tiny = 0;
   for (size_t i = 0; i <= ss0.size(); i++) {
      while (R(2)) { ms.push_back(BuildCpp(TinyScript())); plain.push_back(FlatCpp(*ms.back()())); tiny++; }
      if (i < ss0.size()) { ms.push_back(BuildCpp(ss0[i])); plain.push_back(FlatCpp(*ms.back()())); }
   }
   if (ms.empty()) { ms.push_back(BuildCpp(TinyScript())); plain.push_back(FlatCpp(*ms.back()())); tiny++; }
   MemPipe p; MessageIOGateway gw; gw.SetOutgoingEncoding(MUSCLE_MESSAGE_ENCODING_ZLIB_1 + level - 1); gw.SetDataIO(DataIORef(new MemIO(NULL, &p)));
   for (size_t i = 0; i < ms.size(); i++) if (gw.AddOutgoingMessage(ms[i]).IsError()) HarnessAbort("AddOutgoingMessage");
   std::vector<size_t> ends; std::string dwhy; if (!DriveOutput(gw, p.q, ends, dwhy)) { Fail("gw|zlib-sender-output-error", dwhy); return; }
   std::string key; long deflated = 0, small = 0; const std::string bad = WalkZlibStream(p.q, plain, level, key, deflated, small);
   if (!bad.empty()) { Fail(key, vh::fmt("sender with MUSCLE_MESSAGE_ENCODING_ZLIB_%d, %zu Messages: ", level, ms.size()) + bad); return; }
   std::vector<std::string> got; std::string why;
   if (!CppIn(p.q, got, why)) { Fail("gw|cpp-gateway-rejects-zlib-stream", vh::fmt("a second MessageIOGateway reading the ZLIB_%d stream (%zu of %zu Messages delivered): ", level, got.size(), plain.size()) + why); return; }
   if (got != plain) { Fail("gw|cpp-gateway-reads-zlib-stream-differently", ListDiff("sent", plain, "received", got)); return; }
   // the C gateways know only Enc0: a ZLIB_n frame must be refused with the documented error return (-1), never delivered as a Message
   if (deflated) {
      size_t off = 0; while (LE32(p.q, off + 4) == ENC0) off += 8 + LE32(p.q, off);
      const std::string tail = p.q.substr(off); got.clear(); const bool mok = MiniIn(tail, got, why); if (mok || !got.empty()) { Fail("gw|mini-gateway-takes-zlib-frame", vh::fmt("MGDoInput on a ZLIB_%d frame: no error return, %zu Messages delivered", level, got.size())); return; }
      got.clear(); const bool uok = MicroIn(tail, got, why); if (uok || !got.empty()) { Fail("gw|micro-gateway-takes-zlib-frame", vh::fmt("UGDoInput on a ZLIB_%d frame: no error return, %zu Messages delivered", level, got.size())); return; }
      if (countStats) vh::stat("c_gateways_refused_zlib_frame", 2);
   }
   if (countStats) { vh::stat("dooutput_budget_ended_inside_a_frame", BudgetEndsInsideFrames(p.q, ends)); vh::stat("zlib_sender_streams_checked"); vh::stat(vh::fmt("zlib_sender_level_%d", level)); vh::stat("zlib_frames_deflated", deflated); vh::stat("zlib_frames_sent_plain_below_32_bytes", small); vh::stat("zlib_tiny_messages_mixed_in", tiny); }
}

static void RunFrame(long k)
{
   caseBad = false; deferredKey.clear(); budgetInside = 0;
   if (ugIn.empty()) { ugIn.resize(2 * 1024 * 1024); ugOut.resize(2 * 1024 * 1024); }
   Prof p; p.pySafe = true; p.nonAsciiNames = !Masked("pynames") && R(5) == 0; p.big = R(4) == 0; p.maxDepth = 3; p.zeroItems = false;   // (the C gateways' native builders cannot hold zero-item fields)
   const uint32 n = 1 + (R(3) == 0 ? R(12) : R(4));
   std::vector<Scr> ss; std::vector<MessageRef> ms; std::vector<std::string> bodies; std::string doc; bool nonAscii = false; Info tot;
   curJson = "[";
   for (uint32 i = 0; i < n; i++) { ss.push_back(Gen(0, p)); ms.push_back(BuildCpp(ss.back())); bodies.push_back(FlatCpp(*ms.back()())); doc += DocFrame(bodies.back()); Info in; Walk(ss.back(), in, 0); if (in.nonAsciiName) nonAscii = true; tot.fields += in.fields; if (curJson.size() < 1500) { if (i) curJson += ","; Json(ss.back(), curJson); } }
   curJson += "]"; curCppHex = vh::hex(doc.data(), doc.size(), 200);
   std::string why, sc, sm, su; std::vector<std::string> got;

   // ---- (1) three producers in memory, against the documented frame and against each other
   if (!CppOut(ms, sc, why)) Fail("gw|cpp-gateway-output-error", why);
   else if (sc != doc) Fail("gw|cpp-gateway-vs-documented-frame", DiffText("documented", doc, "c++ gateway", sc));
   if (!caseBad) { if (!MiniOut(ss, sm, why)) Fail("gw|mini-gateway-output-error", why); else if (sm != sc) Fail("gw|mini-gateway-vs-cpp-gateway", DiffText("c++ gateway", sc, "mini gateway", sm)); }
   if (!caseBad) { if (!MicroOut(ss, su, why)) Fail("gw|micro-gateway-output-error", why); else if (su != sc) Fail("gw|micro-gateway-vs-cpp-gateway", DiffText("c++ gateway", sc, "micro gateway", su)); }
   // ---- (2) mutual acceptance in memory (chopped reads)
   if (!caseBad) { got.clear(); if (!MiniIn(sc, got, why)) Fail("gw|mini-gateway-rejects-cpp-frames", why); else if (got != bodies) Fail("gw|mini-gateway-reads-cpp-frames-differently", ListDiff("sent", bodies, "mini gateway", got)); }
   if (!caseBad) { got.clear(); if (!MicroIn(sc, got, why)) Fail("gw|micro-gateway-rejects-cpp-frames", why); else if (got != bodies) Fail("gw|micro-gateway-reads-cpp-frames-differently", ListDiff("sent", bodies, "micro gateway", got)); }
   if (!caseBad) { got.clear(); if (!CppIn(sm, got, why)) Fail("gw|cpp-gateway-rejects-mini-frames", why); else if (got != bodies) Fail("gw|cpp-gateway-reads-mini-frames-differently", ListDiff("sent", bodies, "c++ gateway", got)); }
   if (!caseBad) { got.clear(); if (!CppIn(su, got, why)) Fail("gw|cpp-gateway-rejects-micro-frames", why); else if (got != bodies) Fail("gw|cpp-gateway-reads-micro-frames-differently", ListDiff("sent", bodies, "c++ gateway", got)); }
   if (!caseBad) { vh::stat("frames_compared_in_memory", (long)n); vh::stat("dooutput_budget_ended_inside_a_frame", budgetInside); }
   if (!caseBad) ZlibSenderLeg(ss, 1 + (int)R(9), true);

   // ---- (3) TCP loopback: C++ MessageIOGateway <-> message_transceiver_thread.py echoing every Message
   if (!caseBad) {
      EchoUp(); echo.rec->in.clear(); echo.rec->out.clear(); Rx rx;
      const std::string ended = EchoExchange(ms, rx);
      echo.peerSaid += echo.peer.Drain();
      const char * defect = NULL;   // (no per-defect attribution on this leg: the stream does not tell which Message went wrong)
      if (!ended.empty()) {
         usleep(200000); echo.peerSaid += echo.peer.Drain();
         Fail(defect ? defect : (ended.compare(0, 10, "python pee") == 0 && ended.find("stalled") != std::string::npos) ? "gw|python-peer-stalled" : ended.compare(0, 19, "C++ gateway rejects") == 0 ? "gw|cpp-gateway-rejects-python-frames" : "gw|python-peer-closed-connection",
              ended + vh::fmt(" | %zu of %u echoes, %zu bytes sent, %zu received | peer said: ", rx.got.size(), n, echo.rec->out.size(), echo.rec->in.size()) + echo.peerSaid.substr(0, 1200) + " | peer stderr: " + echo.peer.ErrText().substr(0, 600));
      }
      else if (echo.rec->out != doc) Fail("gw|cpp-gateway-on-tcp-vs-documented-frame", DiffText("documented", doc, "c++ gateway", echo.rec->out));
      else if (rx.got != bodies) Fail(defect ? defect : "gw|python-echo-differs", ListDiff("sent", bodies, "echoed", rx.got));
      else if (echo.rec->in != echo.rec->out) Fail(defect ? defect : "gw|python-frame-bytes-vs-cpp-frame-bytes", DiffText("c++ gateway wrote", echo.rec->out, "python wrote", echo.rec->in));
      else {
         vh::stat("frames_echoed_by_python", (long)n); vh::stat("tcp_bytes_echoed", (long)doc.size()); vh::stat("dooutput_budget_ended_inside_a_frame_on_tcp", BudgetEndsInsideFrames(echo.rec->out, echoBudgetEnds));
         // what Python wrote is also what the two C gateways accept
         got.clear(); if (!MiniIn(echo.rec->in, got, why) || got != bodies) Fail("gw|mini-gateway-of-python-frames", why);
         got.clear(); if (!caseBad && (!MicroIn(echo.rec->in, got, why) || got != bodies)) Fail("gw|micro-gateway-of-python-frames", why);
      }
      if (caseBad) EchoDown(true);     // the stream may be out of step: next case gets a fresh peer
   }
   vh::distinct(vh::fnvs(doc), tot.fields >= 1);
   vh::stat("messages", (long)n); vh::stat("bytes_total", (long)doc.size()); vh::statmax("max_frame_bytes", (long)(doc.size() / n)); if (nonAscii) vh::stat("cases_with_non_ascii_field_names");
   if (vh::want_sample()) vh::sample(vh::fmt("case %ld: %u messages %zu bytes ", k, n, doc.size()) + curJson.substr(0, 200));
}


// ------------------------------------------------------------------------------------------------ fixed witnesses (every run)
static Fld MkI(const char * n, uint32 t, int64_t a, int64_t b, int cnt) { Fld f; f.name = n; f.type = t; f.iv.push_back(a); if (cnt > 1) f.iv.push_back(b); return f; }
static Scr DocScript()
{
   Scr s; s.what = 0x74657374u;   // 'test'
   s.f.push_back(MkI("a", B_INT32_TYPE, 1, -2, 2));
   { Fld f; f.name = "s"; f.type = B_STRING_TYPE; f.sv.push_back("hi"); f.sv.push_back(""); s.f.push_back(f); }
   s.f.push_back(MkI("b", B_BOOL_TYPE, 1, 0, 1));
   { Fld f; f.name = "m"; f.type = B_MESSAGE_TYPE; Scr sub; sub.what = 7; f.mv.push_back(sub); s.f.push_back(f); }
   { Fld f; f.name = ""; f.type = B_RAW_TYPE; f.sv.push_back(std::string("\x01\x02\x03", 3)); s.f.push_back(f); }
   { Fld f; f.name = "p"; f.type = B_POINT_TYPE; f.bits.push_back(0x3F800000u); f.bits.push_back(0xC0000000u); s.f.push_back(f); }
   return s;
}
// the bytes of DocScript() written out by hand from the layout comment of Message::Flatten
static const char * DOC_HEX =
   "30304d50" "74736574" "06000000"
   "02000000" "6100" "474e4f4c" "08000000" "01000000" "feffffff"
   "02000000" "7300" "52545343" "10000000" "02000000" "03000000" "686900" "01000000" "00"
   "02000000" "6200" "4c4f4f42" "01000000" "01"
   "02000000" "6d00" "4747534d" "10000000" "0c000000" "30304d50" "07000000" "00000000"
   "01000000" "00" "54574152" "0b000000" "01000000" "03000000" "010203"
   "02000000" "7000" "544e5042" "08000000" "0000803f" "000000c0";

static void Regress()
{
   std::string why;
   if (vh::ctx().from <= 0) vh::begin_case(0); if (vh::ctx().from <= 0)   // the documented layout, byte by byte, in all implementations
   { g = vh::Rng(100); const Scr s = DocScript(); RunWire(0, s, true);
     MessageRef m = BuildCpp(s); const std::string bc = FlatCpp(*m()), doc = FromHex(DOC_HEX);
     if (bc != doc) { caseBad = false; Fail("witness|documented-example-bytes", DiffText("hand-written from the layout comment", doc, "c++", bc)); } }
   if (vh::ctx().from <= 1) vh::begin_case(1); if (vh::ctx().from <= 1)   // message.py's own documentation example (its __main__ stub) is readable by the C++ and C codecs
   { caseBad = false; curJson = "(message.py example)"; EnsureWirePeer(); wirePeer.Send("{\"cmd\":\"example\"}\n"); std::vector<std::string> v = SplitTabs(wirePeer.ReadLine());
     if (v.size() != 3 || v[0] != "E") HarnessAbort("unexpected answer to the example request");
     std::string pb = FromHex(v[1]); curCppHex = vh::hex(pb.data(), pb.size(), 600); deferredKey.clear(); bool strItems = true;
     if ((size_t)atol(v[2].c_str()) != pb.size()) {
        // message.py: GetFieldContentsLength() counts str items of a non-string field without the NUL (and in characters) that Flatten() writes
        Known("pyexample", "py|fieldlength-str-item-in-user-typed-field", "message.py's own example: FlattenedSize() " + v[2] + vh::fmt(" but Flatten() writes %zu bytes; the payload length word of field 'data' (str items in a field of type 555) is 3 too small", pb.size()));
        wirePeer.Send("{\"cmd\":\"example\",\"data_as_bytes\":1}\n"); v = SplitTabs(wirePeer.ReadLine()); if (v.size() != 3 || v[0] != "E") HarnessAbort("unexpected answer to the example request");
        pb = FromHex(v[1]); strItems = false; if ((size_t)atol(v[2].c_str()) != pb.size()) Fail("witness|python-example-flattenedsize", "FlattenedSize() " + v[2] + vh::fmt(" but %zu bytes written", pb.size()));
     }
     Message back; status_t r = back.UnflattenFromBytes((const uint8 *)pb.data(), (uint32)pb.size());
     if (r.IsError()) Fail("witness|cpp-rejects-python-example", r());
     else {
        if (FlatCpp(back) != pb) Fail("witness|cpp-reflatten-of-python-example", DiffText("python", pb, "c++", FlatCpp(back)));
        int32 i32 = 0; int64 i64 = 0; bool bo = false; float fl = 0; Point pt; Rect rc; const String * st = NULL; ConstMessageRef sub; uint32 tc = 0, cnt = 0; const void * dp = NULL; uint32 dn = 0;
        if (back.what != 666 || back.GetNumNames() != 15 || back.FindInt32("int32", 2, i32).IsError() || i32 != 30 || back.FindInt64("int64", 4, i64).IsError() || i64 != -25 || back.FindBool("bool", 0, bo).IsError() || !bo
            || back.FindFloat("float", 4, fl).IsError() || fl != 4.0f || back.FindPoint("point", 0, pt).IsError() || pt.x() != 6.5f || pt.y() != 7.5f || back.FindRect("rect", 0, rc).IsError() || rc.left() != 9.1f || rc.bottom() != 12.5f
            || back.FindString("string", 2, &st).IsError() || *st != "strongme!" || back.FindMessage("submsg", 0, sub).IsError() || sub()->what != 777 || sub()->GetString("hola") != "senor"
            || back.GetInfo("data", &tc, &cnt).IsError() || tc != 555 || cnt != 3 || back.FindData("data", 555, 1, &dp, &dn).IsError() || dn != (strItems ? 6u : 5u) || memcmp(dp, "stuff\0", dn) != 0
            || back.HasName("cboolfalse") || back.HasName("cstring") || back.HasName("cpoint") || !back.HasName("crect2"))
           Fail("witness|cpp-content-of-python-example", "the C++ Message parsed from message.py's example does not hold the documented values");
     }
     MMessage * mm = MMAllocMessage(0); MCK(mm, "MMAllocMessage");
     if (MMUnflattenMessage(mm, pb.data(), (uint32)pb.size()) != CB_NO_ERROR) Fail("witness|mini-rejects-python-example", "MMUnflattenMessage"); else if (FlatMM(mm) != pb) Fail("witness|mini-reflatten-of-python-example", DiffText("python", pb, "mini", FlatMM(mm)));
     MMFreeMessage(mm);
     UMessage um; int16 i16 = 0; if (UMInitializeWithExistingData(&um, (const uint8 *)pb.data(), (uint32)pb.size()) != CB_NO_ERROR || UMGetWhatCode(&um) != 666 || UMGetNumFields(&um) != 15 || UMFindInt16(&um, "int16", 1, &i16) != CB_NO_ERROR || i16 != 18 || !UMGetString(&um, "string", 0) || strcmp(UMGetString(&um, "string", 0), "stringme!") != 0) Fail("witness|micro-of-python-example", "UMessage getters on message.py's example");
     if (!caseBad && !deferredKey.empty()) Fail(deferredKey, deferredDetail);
     vh::distinct(vh::fnvs(pb), true); vh::stat("python_documentation_example_checked"); }
   if (vh::ctx().from <= 2) vh::begin_case(2); if (vh::ctx().from <= 2)   // message.py: FlattenedSize() counts the characters, not the UTF-8 bytes, of a field name -> wrong sub-Message length word
   { g = vh::Rng(102); Scr s; s.what = 2; Fld f; f.name = "sub"; f.type = B_MESSAGE_TYPE; Scr sub; sub.what = 1; sub.f.push_back(MkI("\xc3\xa9", B_INT32_TYPE, 5, 0, 1)); f.mv.push_back(sub); s.f.push_back(f); s.f.push_back(MkI("z", B_INT8_TYPE, 1, 0, 1)); RunWire(2, s, true); }
   if (vh::ctx().from <= 3) vh::begin_case(3); if (vh::ctx().from <= 3)   // MicroMessage: UMFindData cannot return a zero-length item that is the last of its field
   { g = vh::Rng(103); Scr s; s.what = 3; Fld f; f.name = "r"; f.type = B_RAW_TYPE; f.sv.push_back("xy"); f.sv.push_back(""); s.f.push_back(f); RunWire(3, s, true); }
   if (vh::ctx().from <= 4) vh::begin_case(4); if (vh::ctx().from <= 4)   // the documented 8-byte frame from all three gateways
   { g = vh::Rng(104); caseBad = false; if (ugIn.empty()) { ugIn.resize(2 * 1024 * 1024); ugOut.resize(2 * 1024 * 1024); }
     std::vector<Scr> ss(1, DocScript()); std::vector<MessageRef> ms(1, BuildCpp(ss[0])); const std::string body = FromHex(DOC_HEX); curJson.clear(); Json(ss[0], curJson);
     const std::string doc = FromHex("9b000000" "30636e45") + body; curCppHex = vh::hex(doc.data(), doc.size(), 200); std::string sc, sm, su;
     if (body.size() != 155) HarnessAbort("documented example is not 155 bytes");
     if (!CppOut(ms, sc, why) || sc != doc) Fail("witness|cpp-gateway-documented-frame", DiffText("documented", doc, "c++ gateway", sc));
     if (!MiniOut(ss, sm, why) || sm != doc) Fail("witness|mini-gateway-documented-frame", DiffText("documented", doc, "mini gateway", sm));
     if (!MicroOut(ss, su, why) || su != doc) Fail("witness|micro-gateway-documented-frame", DiffText("documented", doc, "micro gateway", su));
     std::vector<std::string> got, want(1, body);
     if (!CppIn(doc, got, why) || got != want) Fail("witness|cpp-gateway-reads-documented-frame", why); got.clear();
     if (!MiniIn(doc, got, why) || got != want) Fail("witness|mini-gateway-reads-documented-frame", why); got.clear();
     if (!MicroIn(doc, got, why) || got != want) Fail("witness|micro-gateway-reads-documented-frame", why);
     vh::distinct(vh::fnvs(doc), true); vh::stat("documented_frame_checked"); }
   if (vh::ctx().from <= 5) vh::begin_case(5); if (vh::ctx().from <= 5)   // a numeric field whose ring buffer has WRAPPED (sliding window: remove first, append) must flatten in logical order
   { caseBad = false; Scr s; s.what = 5; MessageRef m = GetMessageFromPool(5); int wrappedSeen = 0;
     for (int i = 0; i < 16; i++) {   // 16 fields with 64..79 slides: wherever the ring's capacity lies, several of them end up wrapped
        Fld f; f.name = vh::fmt("w%d", i); f.type = (i & 1) ? B_INT32_TYPE : B_DOUBLE_TYPE; const String n(f.name.c_str());
        for (int k = 0; k < 6; k++) { if (i & 1) { f.iv.push_back(100 * i + k); CKR(m()->AddInt32(n, -1), "AddInt32"); } else { f.bits.push_back(DB(100.0 * i + k)); CKR(m()->AddDouble(n, -1.0), "AddDouble"); } }
        for (int sl = 0; sl < 64 + i; sl++) { if (i & 1) CKR(m()->AddInt32(n, -2), "AddInt32"); else CKR(m()->AddDouble(n, -2.0), "AddDouble"); CKR(m()->RemoveData(n, 0), "RemoveData"); }
        for (int k = 0; k < 6; k++) { if (i & 1) CKR(m()->AddInt32(n, 100 * i + k), "AddInt32"); else CKR(m()->AddDouble(n, 100.0 * i + k), "AddDouble"); CKR(m()->RemoveData(n, 0), "RemoveData"); }
        s.f.push_back(f);
        const void * p0 = NULL; const void * p5 = NULL; uint32 nb = 0; if (m()->FindData(n, f.type, 0, &p0, &nb).IsOK() && m()->FindData(n, f.type, 5, &p5, &nb).IsOK() && (const char *)p5 < (const char *)p0) wrappedSeen++;
     }
     curJson.clear(); Json(s, curJson); std::string why; const std::string bc = FlatCpp(*m()); curCppHex = vh::hex(bc.data(), bc.size(), 300);
     MMessage * mm = BuildMM(s); const std::string bm = FlatMM(mm); MMFreeMessage(mm);
     if (!CheckCpp(*m(), s, why)) Fail("witness|wrapped-ring-field-content", why);
     else if (bc != bm) Fail("witness|wrapped-ring-field-bytes", DiffText("documented (mini codec, built from the script)", bm, "c++ after sliding-window construction", bc));
     vh::distinct(vh::fnvs(bc), true); vh::stat("wrapped_ring_fields_in_witness", wrappedSeen); }
   if (vh::ctx().from <= 6) vh::begin_case(6); if (vh::ctx().from <= 6)   // bytes parsed INTO A USED OBJECT give the bytes' content, nothing of what the object held before (field-less and subset Messages)
   { caseBad = false; g = vh::Rng(106); const std::string bare = FromHex("30304d50" "07000000" "00000000"), doc = FromHex(DOC_HEX); curJson = "(field-less / subset Message parsed into used targets)"; curCppHex = vh::hex(bare.data(), bare.size());
     Scr none; none.what = 7; Scr onlyA; onlyA.what = 9; onlyA.f.push_back(DocScript().f[0]); MessageRef oa = BuildCpp(onlyA); const std::string onlyABytes = FlatCpp(*oa()); std::string why;
     for (int variant = 0; variant < 4 && !caseBad; variant++) {
        Message t; const char * how;
        if (variant & 1) { how = "an earlier parse of the documented example"; if (t.UnflattenFromBytes((const uint8 *)doc.data(), (uint32)doc.size()).IsError()) HarnessAbort("documented example does not parse"); }
        else { how = "AddInt32/AddString/AddMessage"; t.what = 1; CKR(t.AddInt32("a", 5), "AddInt32"); CKR(t.AddInt32("a", 6), "AddInt32"); CKR(t.AddString("s", "old"), "AddString"); CKR(t.AddMessage("m", GetMessageFromPool(3)), "AddMessage"); }
        const bool fieldless = variant < 2; const std::string & in = fieldless ? bare : onlyABytes; const Scr & want = fieldless ? none : onlyA;
        status_t r = t.UnflattenFromBytes((const uint8 *)in.data(), (uint32)in.size());
        if (r.IsError()) Fail("witness|parse-into-used-target", vh::fmt("Unflatten of a %s Message into a Message filled by %s fails: %s", fieldless ? "field-less" : "one-field", how, r()));
        else if (!CheckCpp(t, want, why) || t.FlattenedSize() != in.size() || FlatCpp(t) != in) Fail(fieldless ? "witness|fieldless-into-used-target" : "witness|subset-into-used-target", vh::fmt("after Unflatten of a %s Message into a Message filled by %s: %s; %u names, what %u, FlattenedSize %u (bytes parsed: %zu)", fieldless ? "field-less" : "one-field", how, why.c_str(), t.GetNumNames(), t.what, t.FlattenedSize(), in.size()));
     }
     { MMessage * mt = BuildMM(DocScript()); if (MMUnflattenMessage(mt, bare.data(), (uint32)bare.size()) != CB_NO_ERROR || !CheckMM(mt, none, why) || FlatMM(mt) != bare) Fail("witness|mini-fieldless-into-used-target", "MMUnflattenMessage of a field-less Message into a used MMessage: " + why); MMFreeMessage(mt); }
     { std::string line = "{\"case\":6,\"nopy\":\"\",\"script\":"; Json(none, line); line += ",\"prev\":"; Json(DocScript(), line); line += ",\"cpp\":"; JHex(bare, line); line += "}\n"; EnsureWirePeer(); wirePeer.Send(line);
       std::vector<std::string> v = SplitTabs(wirePeer.ReadLine()); if (v.size() != 6 || v[0] != "R") HarnessAbort("unexpected answer from the python peer"); if (v[2] != "-") Fail(v[2], v[3]); if (v[4].find("py_parse_fieldless_into_used_target=1") == std::string::npos) HarnessAbort("python peer did not parse into a used target"); }
     vh::distinct(vh::fnvs(bare), true); vh::stat("used_target_witness_checked"); }
   if (vh::ctx().from <= 7) vh::begin_case(7); if (vh::ctx().from <= 7)   // a field with ZERO items is wire content: the 80 bytes message.py writes for Message(1234){count=3, levels=[], name="x"}, hand-written
   { g = vh::Rng(107); Scr s; s.what = 1234; s.f.push_back(MkI("count", B_INT32_TYPE, 3, 0, 1)); { Fld f; f.name = "levels"; f.type = B_INT32_TYPE; s.f.push_back(f); } { Fld f; f.name = "name"; f.type = B_STRING_TYPE; f.sv.push_back("x"); s.f.push_back(f); }
     const std::string want = FromHex("30304d50" "d2040000" "03000000" "06000000" "636f756e7400" "474e4f4c" "04000000" "03000000" "07000000" "6c6576656c7300" "474e4f4c" "00000000" "05000000" "6e616d6500" "52545343" "0a000000" "01000000" "02000000" "7800");
     RunWire(7, s, true);      // C++ (sharing route), Python ([] list) and the reference codec build it natively; all parse and re-serialise it
     std::string why; Message m; if (want.size() != 80) HarnessAbort("zero-item example is not 80 bytes");
     if (m.UnflattenFromBytes((const uint8 *)want.data(), 80).IsError() || !CheckCpp(m, s, why) || m.FlattenedSize() != 80 || FlatCpp(m) != want) { caseBad = false; Fail("witness|zero-item-field-reserialised", vh::fmt("C++ parse + re-flatten of the hand-written bytes: %s; FlattenedSize %u, ", why.c_str(), m.FlattenedSize()) + DiffText("hand-written", want, "c++", FlatCpp(m))); }
     MessageRef outer = GetMessageFromPool(1); CKR(outer()->AddMessage("sub", m), "AddMessage"); const std::string ob = FlatCpp(*outer()); Message o2; ConstMessageRef sub;
     if (o2.UnflattenFromBytes((const uint8 *)ob.data(), (uint32)ob.size()).IsError() || o2.FindMessage("sub", sub).IsError() || !CheckCpp(*sub(), s, why) || FlatCpp(o2) != ob || ob.find(want) == std::string::npos) { caseBad = false; Fail("witness|zero-item-field-reserialised-nested", "nested: " + why); }
     vh::stat("zero_item_witness_checked"); }
   if (vh::ctx().from <= 8) vh::begin_case(8); if (vh::ctx().from <= 8)   // MicroMessage reader: a zero-item field that is the LAST field of its Message must still be visible
   { g = vh::Rng(108); Scr s; s.what = 1; s.f.push_back(MkI("a", B_INT16_TYPE, 27004, 0, 1)); { Fld f; f.name = "z"; f.type = B_POINT_TYPE; s.f.push_back(f); } RunWire(8, s, true); }
   if (vh::ctx().from <= 9) vh::begin_case(9); if (vh::ctx().from <= 9)   // C++ senders with zlib encodings: small frames stay Enc0 + plain, the others inflate to the flattened Message; Python and the C gateways refuse ZLIB frames
   { g = vh::Rng(109); caseBad = false; if (ugIn.empty()) { ugIn.resize(2 * 1024 * 1024); ugOut.resize(2 * 1024 * 1024); } curJson = "(documented example and field-less Messages through zlib senders)"; curCppHex = "";
     Scr none; none.what = 42; std::vector<Scr> mix; mix.push_back(DocScript()); mix.push_back(none); mix.push_back(DocScript()); mix.push_back(none); mix.push_back(none); mix.push_back(DocScript());
     const int levels[3] = {1, 6, 9}; for (int i = 0; i < 3 && !caseBad; i++) ZlibSenderLeg(mix, levels[i], true);
     if (!caseBad) {
        EchoUp(); echo.gw->SetOutgoingEncoding(MUSCLE_MESSAGE_ENCODING_ZLIB_6); std::vector<MessageRef> one(1, BuildCpp(DocScript())); Rx rx; const std::string ended = EchoExchange(one, rx); echo.peerSaid += echo.peer.Drain();
        // message_transceiver_thread.py: "if magic != MUSCLE_MESSAGE_ENCODING_DEFAULT: raise socket.error" -> it drops the connection
        if (ended.empty() || ended.find("stalled") != std::string::npos) Fail("gw|python-does-not-refuse-zlib-frame", "message_transceiver_thread.py got a ZLIB_6 frame: " + (ended.empty() ? std::string("it echoed a Message") : ended) + " | peer said: " + echo.peerSaid);
        else vh::stat("python_refused_zlib_frame");
        EchoDown(true);
     }
     vh::distinct(109, true); vh::stat("zlib_witness_checked"); }
   if (vh::ctx().from <= 10) vh::begin_case(10); if (vh::ctx().from <= 10)  // DoOutput(maxBytes) with a budget that runs out inside a frame: the next call continues that frame
   { g = vh::Rng(110); caseBad = false; curJson = "(documented example x3 through DoOutput(maxBytes))"; const std::string frame = FromHex("9b000000" "30636e45") + FromHex(DOC_HEX), doc3 = frame + frame + frame; curCppHex = vh::hex(frame.data(), frame.size(), 64);
     const uint32 budgets[] = {1, 7, 8, 9, 100, 162, 163, 164, 200, 262144}; long inside = 0;
     for (size_t bi = 0; bi < sizeof(budgets) / sizeof(budgets[0]) && !caseBad; bi++) for (int chopped = 0; chopped < 2 && !caseBad; chopped++) {
        MessageIOGateway gw; std::string out; struct Sink : public DataIO { std::string * o; bool chop; virtual io_status_t Read(void *, uint32) { return io_status_t((int32)0); } virtual io_status_t Write(const void * b, uint32 n) { const uint32 k = chop ? Chop(n) : n; o->append((const char *)b, k); return io_status_t((int32)k); } virtual void FlushOutput() {} virtual void Shutdown() {} virtual const ConstSocketRef & GetReadSelectSocket() const { return GetNullSocket(); } virtual const ConstSocketRef & GetWriteSelectSocket() const { return GetNullSocket(); } };
        Sink * sk = new Sink; sk->o = &out; sk->chop = chopped != 0; gw.SetDataIO(DataIORef(sk));
        for (int i = 0; i < 3; i++) if (gw.AddOutgoingMessage(BuildCpp(DocScript())).IsError()) HarnessAbort("AddOutgoingMessage");
        std::vector<size_t> ends; long calls = 0;
        while (gw.HasBytesToOutput() && calls++ < 100000) { const io_status_t r = gw.DoOutput(budgets[bi]); if (r.IsError()) { Fail("witness|dooutput-budget-stream", std::string("DoOutput: ") + r.GetStatus()()); break; } if ((uint32)r.GetByteCount() == budgets[bi]) ends.push_back(out.size()); }
        if (!caseBad && out != doc3) Fail("witness|dooutput-budget-stream", vh::fmt("three documented frames through DoOutput(%u)%s: ", budgets[bi], chopped ? " with short writes" : "") + DiffText("documented", doc3, "stream", out));
        inside += BudgetEndsInsideFrames(doc3, ends);
     }
     vh::distinct(110, true); vh::stat("dooutput_budget_ended_inside_a_frame", inside); vh::stat("dooutput_budget_witness_checked"); }
}


int main(int argc, char ** argv)
{
   CompleteSetupSystem css;
   SetConsoleLogLevel(MUSCLE_LOG_CRITICALERROR);
   signal(SIGPIPE, SIG_IGN);
   vh::init(argc, argv);
   vh::Ctx & c = vh::ctx();
   const std::string mode = vh::opt("mode", "wire");
   if (vh::has_opt("emit")) { emitFile = fopen(vh::opt("emit").c_str(), "a"); if (!emitFile) HarnessAbort("cannot open the emit file"); }
   if (mode == "regress") { Regress(); }
   else if (mode == "frame") {
      for (long k = c.from; k < c.from + c.cases; k++) { vh::begin_case(k); g = vh::Rng(vh::case_seed(c.seed, 0xC08F, (uint64_t)k)); RunFrame(k); }
      FrameShutdown();
   }
   else if (mode == "wire") {
      for (long k = c.from; k < c.from + c.cases; k++) {
         vh::begin_case(k); g = vh::Rng(vh::case_seed(c.seed, 0xC08, (uint64_t)k));
         const Prof p = WireProf(); const Scr s = Gen(0, p);
         RunWire(k, s, true);
      }
   }
   else { fprintf(stderr, "h_wire: unknown mode %s\n", mode.c_str()); return 3; }
   if (wirePeer.Running()) wirePeer.Stop(false);
   if (emitFile) fclose(emitFile);
   return vh::finish();
}
