// h_wildcard -- C15: StringMatcher / EscapeRegexTokens / CanWildcardStringMatchMultipleValues / PathMatcher /
// SegmentedStringMatcher against refwild.h, the independent reference of the documented simple-pattern syntax.
// modes (--opt mode=):
//   exact   one case = one StringMatcher object that is given 4..8 patterns in turn (generated as ASTs, printed with the
//           minimal documented escaping or over-escaped), each matched against ~12 subjects (sampled from the pattern,
//           single-edit neighbours, random strings; numeric ranges: boundary values, leading zeros, digit prefix + junk)
//   escape  one case = 6 arbitrary byte strings (1..255): Match(EscapeRegexTokens(s), s), no neighbour matches,
//           RemoveEscapeChars inverts, both uniqueness predicates say "unique", the escaped text is a literal of the syntax
//   unique  one case = 6 arbitrary (also ill-formed) patterns: SetPattern never crashes, the two predicates agree, and a
//           pattern reported unique matches at most one string of a candidate set (and does match its literal text)
//   path    one case = one PathMatcher with 1..3 path patterns and one SegmentedStringMatcher, 8 paths
//   all     case k -> exact (k%8 in 0..3), escape (4,5), unique (6), path (7)                 (used by the memcheck leg)
//   regress fixed witnesses F11 F12 F14 F31, class members, the documentation examples, the table of 55 edge patterns
// opts: pending_caretfirst=1 keeps the complement class whose first member is '^' ("[^^..]") out of the comparison (library defect reported, not yet repaired)
#include "regex/StringMatcher.h"
#include "regex/PathMatcher.h"
#include "regex/SegmentedStringMatcher.h"
#include "system/SetupSystem.h"
#include <string>
#include <vector>
#include <set>
#include <memory>
#include "vh.h"
#include "refwild.h"
using namespace muscle;
namespace rw = refwild;

// ------------------------------------------------------------------------------------------------ alphabets
static const std::string CORE  = "ab1w";
static const std::string META  = ".+*?,()[]|\\<>~-{}^$ `'=";   // every metacharacter of the simple syntax and of POSIX ERE, and the partners of F11
static const std::string EXTRA = "sB9_!:/\"#\xe9\t";
static const std::string ALPHA = CORE + META + EXTRA;
static std::string WithoutSlash(const std::string & s) { std::string o; for (size_t i = 0; i < s.size(); i++) if (s[i] != '/') o.push_back(s[i]); return o; }
static const std::string PALPHA = WithoutSlash(ALPHA);

static bool optPendingCaretFirst = false;   // pending_caretfirst=1: keep "[^^..]" (complement whose first member is '^') out of the comparison until the library is repaired
static char Pick(vh::Rng & g, const std::string & alpha) { return g.R(3) == 0 ? CORE[g.R((uint32_t)CORE.size())] : alpha[g.R((uint32_t)alpha.size())]; }
static std::string Show(const std::string & s)
{
   std::string o = "[";
   for (size_t i = 0; i < s.size(); i++) { unsigned char c = (unsigned char)s[i]; if (c < 0x20 || c >= 0x7f) o += vh::fmt("\\x%02x", c); else o.push_back((char)c); }
   return o + "]";
}
static void HarnessAbort(const std::string & why) { fprintf(stderr, "HARNESS-ABORT: %s\n", why.c_str()); abort(); }

// ------------------------------------------------------------------------------------------------ pattern generator (AST)
struct GenOpts { const std::string * alpha; bool over; int maxDepth; GenOpts() : alpha(&ALPHA), over(false), maxDepth(3) {} };
static bool IsF11Partner(unsigned char c) { return isalnum(c) || c == '<' || c == '>' || c == '`' || c == '\''; }

// Class members: alphanumerics, ranges of them, and (since the repair of the class-member rewriting) every metacharacter on which
// bash globbing and POSIX brackets agree: ? * , . + | ( ) { } $ = < > ~ ` ' and so on are plain members, ']' directly after '[' / '[^',
// '-' first or last, '^' anywhere but first, '!' anywhere but first, '[^..]' the complement.  Never generated (refused by the reference
// parser, counted in the unique / regress parts): '[!..]', a backslash or a '[' inside a class, ranges with metacharacter end points.
static rw::Node GenClass(vh::Rng & g, const std::string & alpha)
{
   rw::Node n; n.k = rw::Node::CLASS;
   static const char * ranges[] = {"ab", "af", "19", "az", "09", "AZ", "bw"};
   static const char singles[] = "ab1w_ 9sB";
   static const char metas[] = "?*,.+|(){}$=<>~`'\"#:";
   n.neg = (g.R(6) == 0);
   bool rb = false, dash = false, caret = false, bang = false, meta = false; std::vector<rw::ClassItem> others;
   const uint32_t m = 1 + g.R(3);
   for (uint32_t j = 0; j < m; j++) {
      const uint32_t t = g.R(12);
      if (t < 3) { const char * r = ranges[g.R(7)]; others.push_back(rw::ClassItem((unsigned char)r[0], (unsigned char)r[1])); }
      else if (t < 7) { unsigned char c = (unsigned char)singles[g.R(sizeof(singles) - 1)]; others.push_back(rw::ClassItem(c, c)); }
      else if (t < 10) { unsigned char c = (unsigned char)metas[g.R(sizeof(metas) - 1)]; others.push_back(rw::ClassItem(c, c)); meta = true; }
      else switch (g.R(4)) { case 0: rb = true; break; case 1: dash = true; break; case 2: caret = true; break; default: bang = true; break; }
   }
   if (g.R(8) == 0) dash = true;
   if (rb) n.cls.push_back(rw::ClassItem(']', ']'));
   const bool dashFirst = dash && !rb && g.R(2) == 0;
   if (dashFirst) n.cls.push_back(rw::ClassItem('-', '-'));
   for (size_t i = 0; i < others.size(); i++) n.cls.push_back(others[i]);
   if (caret) {
      if (n.neg && n.cls.empty()) {   // "[^^..]": unambiguous (any character but '^' ...), but mis-tracked by the library's bracket scanner at the time of writing
         if (optPendingCaretFirst) { vh::stat("excluded_pending_fix_negated_class_caret_first"); n.cls.push_back(rw::ClassItem('a', 'a')); } else vh::stat("class_negated_caret_first");
      }
      if (n.neg || !n.cls.empty()) n.cls.push_back(rw::ClassItem('^', '^')); else caret = false;
   }
   if (bang) { if (n.neg || !n.cls.empty()) n.cls.push_back(rw::ClassItem('!', '!')); else bang = false; }
   if (dash && !dashFirst) n.cls.push_back(rw::ClassItem('-', '-'));
   if (n.cls.empty()) n.cls.push_back(rw::ClassItem('a', 'a'));
   if (meta) vh::stat("class_with_metachar_member"); if (rb) vh::stat("class_with_rbracket_first"); if (dash) vh::stat(dashFirst ? "class_with_dash_first" : "class_with_dash_last");
   if (caret) vh::stat("class_with_caret_member"); if (bang) vh::stat("class_with_bang_member"); if (n.neg) vh::stat("class_negated");
   (void)alpha;
   return n;
}
static rw::Seq GenSeq(vh::Rng & g, const GenOpts & o, int depth, int & budget, int & stars)
{
   rw::Seq s; const uint32_t n = g.R(5);
   for (uint32_t i = 0; i < n && budget > 0; i++) {
      budget--;
      const uint32_t t = g.R(12);
      if (t < 5) { unsigned char c = (unsigned char)Pick(g, *o.alpha); s.push_back(rw::Node::Lit(c, o.over && g.R(3) == 0)); }
      else if (t < 7) { if (stars < 5) { stars++; s.push_back(rw::Node::Star()); } else s.push_back(rw::Node::Any1()); }
      else if (t == 7) s.push_back(rw::Node::Any1());
      else if (t < 10) s.push_back(GenClass(g, *o.alpha));
      else if (depth < o.maxDepth) {
         rw::Node x; x.k = rw::Node::GROUP; const uint32_t m = 1 + g.R(3);
         for (uint32_t j = 0; j < m; j++) x.alts.push_back(GenSeq(g, o, depth + 1, budget, stars));
         s.push_back(x);
      }
      else s.push_back(rw::Node::Lit((unsigned char)Pick(g, *o.alpha), o.over && g.R(3) == 0));
   }
   return s;
}
static uint64_t GenBound(vh::Rng & g)
{
   static const uint64_t edge[] = {0, 1, 9, 10, 99, 100, 2147483647ULL, 2147483648ULL, 4294967294ULL, 4294967295ULL};
   switch (g.R(6)) { case 0: return edge[g.R(10)]; case 1: return g.R(1000); case 2: return g.R(100000); default: return g.R(31); }
}
static rw::Pattern GenNumeric(vh::Rng & g)
{
   rw::Pattern p; p.numeric = true; p.negate = (g.R(6) == 0);
   const uint32_t nc = 1 + (g.R(3) == 0 ? g.R(4) : 0);
   for (uint32_t i = 0; i < nc; i++) {
      rw::NumRange r; const uint32_t f = g.R(40);
      if (f == 0) { /* "-": open on both sides, unspecified */ }
      else if (f < 14) { r.hasLo = r.hasHi = true; r.lo = r.hi = GenBound(g); }
      else if (f < 20) { r.hasLo = true; r.lo = GenBound(g); }
      else if (f < 26) { r.hasHi = true; r.hi = GenBound(g); }
      else { r.hasLo = r.hasHi = true; r.lo = GenBound(g); r.hi = (g.R(2) ? r.lo + g.R(12) : GenBound(g)); if (r.hi > 4294967295ULL) r.hi = 4294967295ULL; if (r.lo > r.hi) { uint64_t t = r.lo; r.lo = r.hi; r.hi = t; } }
      p.ranges.push_back(r);
   }
   return p;
}
static rw::Pattern GenPattern(vh::Rng & g, const GenOpts & o)
{
   if (g.R(8) == 0) return GenNumeric(g);
   rw::Pattern p; p.negate = (g.R(8) == 0);
   const uint32_t na = 1 + (g.R(4) == 0 ? g.R(3) : 0);
   int budget = 18, stars = 0;
   for (uint32_t i = 0; i < na; i++) p.alts.push_back(GenSeq(g, o, 0, budget, stars));
   return p;
}
static std::string NumStr(uint64_t v) { return vh::fmt("%llu", (unsigned long long)v); }
static std::string GenNumericSubject(vh::Rng & g, const rw::Pattern & p)
{
   const rw::NumRange & r = p.ranges[g.R((uint32_t)p.ranges.size())];
   uint64_t base = 0;
   switch (g.R(8)) {
   case 0: base = r.hasLo ? r.lo : 0; break;
   case 1: base = r.hasHi ? r.hi : 4294967295ULL; break;
   case 2: base = (r.hasLo && r.lo > 0) ? r.lo - 1 : 0; break;
   case 3: base = r.hasHi ? r.hi + 1 : 4294967295ULL; break;          // may be 2^32: counted as unspecified
   case 4: base = (r.hasLo ? r.lo : 0) + 1; break;
   case 5: base = (r.hasHi && r.hi > 0) ? r.hi - 1 : 7; break;
   case 6: base = GenBound(g); break;
   default: base = g.R(40); break;
   }
   std::string s = NumStr(base);
   const uint32_t form = g.R(24);
   if (form < 10) return s;                                            // pure digits
   if (form < 13) return std::string(1 + g.R(3), '0') + s;             // leading zeros: still a representation of the integer
   // everything below is not a digit string: must not match (must match under ~), whatever strtoul/atoi would make of it
   if (form < 15) { static const char * junk[] = {"abc", "x", "-", ".5", ",", ">", "-3", "e1", ".", "L", "u"}; return s + junk[g.R(11)]; }            // digits + letters/punctuation
   if (form < 17) { static const char * sign[] = {"+", "-", "+0", "-0", "++", "+-"}; return std::string(sign[g.R(6)]) + s; }                          // sign + digits
   if (form < 19) { static const char * ws[] = {" ", "\t", "\n", "  ", "\r", "\v", "\f", " +", "\t-"}; return std::string(ws[g.R(9)]) + s; }              // white space (+ sign) + digits
   if (form < 20) { static const char * ws[] = {" ", "\t", "\n", " 1"}; return s + ws[g.R(4)]; }                                                       // digits + white space
   if (form < 21) { static const char * lead[] = {"x", "<", "~", "0x", "#", "\xe9"}; return std::string(lead[g.R(6)]) + s; }                            // letters / punctuation + digits
   if (form < 22) { static const char * words[] = {"", "abc", "+", "-", " ", "x1y", "--", "\t"}; return words[g.R(8)]; }                               // empty, letters, a lone sign
   return g.R(2) ? "99999999999" : (g.R(2) ? "4294967296" : "00004294967296");                                                                    // beyond uint32: unspecified
}
static std::string RandomString(vh::Rng & g, const std::string & alpha, uint32_t maxLen) { std::string t; const uint32_t n = g.R(maxLen + 1); for (uint32_t i = 0; i < n; i++) t.push_back(Pick(g, alpha)); return t; }
static void OneEdit(vh::Rng & g, std::string & t, const std::string & alpha)
{
   const uint32_t e = g.R(3);
   if (e == 0 && !t.empty()) t.erase(g.R((uint32_t)t.size()), 1);
   else if (e == 1 && !t.empty()) t[g.R((uint32_t)t.size())] = Pick(g, alpha);
   else t.insert(t.begin() + g.R((uint32_t)t.size() + 1), Pick(g, alpha));
}
static std::string GenSubject(vh::Rng & g, const rw::Pattern & p, const std::string & alpha, int j)
{
   if (p.numeric) return (j % 6 == 5) ? RandomString(g, alpha, 4) : GenNumericSubject(g, p);
   std::string t;
   if (p.alts.empty()) return RandomString(g, alpha, 4);
   if (j < 5) rw::SampleSeq(p.alts[g.R((uint32_t)p.alts.size())], t, g, alpha);
   else if (j < 8) { rw::SampleSeq(p.alts[g.R((uint32_t)p.alts.size())], t, g, alpha); OneEdit(g, t, alpha); }
   else t = RandomString(g, alpha, 5);
   return t;
}
// what the documented syntax says: 1 match, 0 no match, 2 unspecified (counted, not compared)
static int Want(const rw::Pattern & p, const std::string & subject)
{
   const char * corner = rw::NumericCorner(p, subject);
   if (corner) { vh::stat(std::string("unspecified_numeric_") + corner); return 2; }
   if (p.numeric && !rw::AllDigits(subject)) vh::stat("numeric_nondigit_subjects_judged");
   return rw::Match(p, subject) ? 1 : 0;
}
// its own stable key for the one known-unrepaired construct, so that everything else can be judged
static std::string KeyFor(const std::string & patternText, const std::string & part, const std::string & key) { return patternText.find("[^^") != std::string::npos ? part + "|class-negated-caret-first" : key; }
static std::string Feature(const rw::Pattern & p, bool over)
{
   if (p.numeric) return p.negate ? "negated-numeric-range" : "numeric-range";
   return std::string(p.negate ? "negated-" : "") + (p.alts.size() > 1 ? "comma-list" : "single") + (over ? "+overescaped" : "");
}
static bool HasWildcards(const rw::Pattern & p) { if (p.numeric) return true; for (size_t i = 0; i < p.alts.size(); i++) if (rw::HasKind(p.alts[i], rw::Node::STAR) || rw::HasKind(p.alts[i], rw::Node::ANY1) || rw::HasKind(p.alts[i], rw::Node::CLASS) || rw::HasKind(p.alts[i], rw::Node::GROUP)) return true; return p.alts.size() > 1; }
static void CountConstructs(const rw::Seq & s)
{
   for (size_t i = 0; i < s.size(); i++) {
      const rw::Node & x = s[i];
      switch (x.k) {
      case rw::Node::LIT: if (x.esc && !rw::NeedsEscapeAnywhere(x.c)) { vh::stat("overescaped_literals"); if (IsF11Partner(x.c)) vh::stat("overescaped_literals_glibc_would_read_as_operator"); } else if (rw::NeedsEscapeAnywhere(x.c)) vh::stat("escaped_metachar_literals"); break;
      case rw::Node::STAR: vh::stat("node_star"); break;
      case rw::Node::ANY1: vh::stat("node_any1"); break;
      case rw::Node::CLASS: vh::stat("node_class"); break;
      case rw::Node::GROUP: vh::stat("node_group"); for (size_t a = 0; a < x.alts.size(); a++) { if (x.alts[a].empty()) vh::stat("empty_alternative_in_group"); CountConstructs(x.alts[a]); } break;
      }
   }
}

// the reference's own parser must read back what the reference's printer wrote (harness self-check, not a verdict on muscle)
static void SelfCheckParser(const rw::Pattern & p, const std::string & text, rw::Pattern & parsed)
{
   std::string why;
   if (!rw::Parse(text, parsed, &why)) HarnessAbort("refwild parser refuses a printed pattern " + Show(text) + ": " + why);
   if (rw::Print(parsed) != text) HarnessAbort("refwild print(parse(text)) != text for " + Show(text) + " -> " + Show(rw::Print(parsed)));
   (void)p;
}

// ------------------------------------------------------------------------------------------------ object reuse
// A matcher object that held other patterns before must, after the final SetPattern(), decide and answer its accessors exactly like a
// fresh one.  What the object held before is tracked by the harness (Prior), not asked of the library.
struct Prior {
   int n; bool negate, range, failed, regex, reset, pooled, altsep; std::string log;
   Prior() : n(0), negate(false), range(false), failed(false), regex(false), reset(false), pooled(false), altsep(false) {}
   void Forget(const char * how) { negate = range = failed = regex = altsep = false; reset = true; log += how; log += "; "; }
};
static bool TextIsRangeList(const std::string & t, bool simple) { if (!simple) return false; rw::Pattern p; return rw::Parse(t, p) && p.numeric && !p.ranges.empty(); }
static void CountReuse(const Prior & pr, bool judgedNegated, bool judgedRange)
{
   if (pr.n == 0) { vh::stat("fresh_objects"); return; }
   vh::stat("reused_objects"); vh::statmax("max_prior_patterns", pr.n);
   if (pr.negate && !judgedNegated) vh::stat("reuse_negated_then_plain");
   if (!pr.negate && judgedNegated) vh::stat("reuse_plain_then_negated");
   if (pr.range && !judgedRange) vh::stat("reuse_range_then_nonrange");
   if (!pr.range && judgedRange) vh::stat("reuse_nonrange_then_range");
   if (pr.failed) vh::stat("reuse_after_failed_compile");
   if (pr.regex) vh::stat("reuse_regex_then_simple");
   if (pr.reset) vh::stat("reuse_after_reset_or_clear");
   if (pr.pooled) vh::stat("reuse_of_pool_recycled_object");
   if (pr.altsep) vh::stat("reuse_after_other_separators");
}
// one earlier pattern on a StringMatcher that is going to be reused
static void PriorStepSM(vh::Rng & g, StringMatcher & m, Prior & pr)
{
   static const char * weird[] = {"a(b", "[abc", "(", "*\\", "", "~", "`^a[0-9]+$", "`(", "~`x*", "<->", "~<1-3,9->", "<0-4294967295>", "a{2}", "x,y,,", "~*", "[z-a]"};
   static const char * regexes[] = {"a.*b", "^x[0-9]+$", "(a|b)+c", "a(b", "[", "x{2,3}", "", "~a", "<1-3>"};
   std::string t; bool simple = true, setNeg = false;
   switch (g.R(10)) {
   case 0: case 1: case 2: { GenOpts o; o.over = (g.R(2) == 0); t = rw::Print(GenPattern(g, o)); } break;
   case 3: { GenOpts o; rw::Pattern p = GenPattern(g, o); p.negate = true; t = rw::Print(p); } break;
   case 4: case 5: t = rw::Print(GenNumeric(g)); break;
   case 6: t = weird[g.R(16)]; break;
   case 7: t = regexes[g.R(9)]; simple = false; break;
   case 8: t = RandomString(g, CORE, 4); setNeg = true; break;
   default: t = RandomString(g, CORE, 5); break;
   }
   status_t r = m.SetPattern(t.c_str(), simple);
   if (setNeg) m.SetNegate(true);
   (void)m.Match("ab1"); (void)m.Match("2");
   pr.n++; pr.failed = r.IsError(); pr.regex = !simple; pr.range = r.IsOK() && TextIsRangeList(t, simple); pr.negate = setNeg || (simple && !t.empty() && t[0] == '~'); pr.reset = false;
   pr.log += Show(t) + (simple ? "" : "(isSimple=false)") + (setNeg ? "+SetNegate(true)" : "") + (r.IsError() ? "(rejected)" : "") + "; ";
   if (g.R(8) == 0) { m.Reset(); pr.Forget("Reset()"); }
}
// gives a few pool objects a past and releases them, so that the next objects the pool hands out are recycled ones (the pool's free list is LIFO)
static Prior PrimeStringMatcherPool(vh::Rng & g, const void ** optAddr = NULL)
{
   Prior last; const uint32_t n = 1 + g.R(3);
   for (uint32_t i = 0; i < n; i++) { StringMatcherRef a = GetStringMatcherFromPool(); if (a() == NULL) HarnessAbort("GetStringMatcherFromPool() returned NULL"); Prior pr; PriorStepSM(g, *a(), pr); if (g.R(3) == 0) PriorStepSM(g, *a(), pr); last = pr; if (optAddr) *optAddr = a(); }
   last.pooled = true; last.log += "released to the pool and handed out again; ";
   return last;
}
static std::string DiffersFromFresh(const StringMatcher & m, const std::string & text, bool simple)
{
   StringMatcher f; (void)f.SetPattern(text.c_str(), simple);
   if (m.IsNegate() != f.IsNegate()) return "IsNegate";
   if (m.IsPatternUnique() != f.IsPatternUnique()) return "IsPatternUnique";
   if (m.IsPatternListOfUniqueValues() != f.IsPatternListOfUniqueValues()) return "IsPatternListOfUniqueValues";
   if (m.IsSimple() != f.IsSimple()) return "IsSimple";
   if (m.GetPattern() != f.GetPattern()) return "GetPattern";
   if (m.ToString() != f.ToString()) return "ToString";
   if (!(m == f) || (m != f)) return "operator==";
   if (m.HashCode() != f.HashCode()) return "HashCode";
   return "";
}

// ------------------------------------------------------------------------------------------------ exact part
static bool CaseExact(long k, uint64_t cs)
{
   vh::Rng g(cs);
   StringMatcherRef keeper = GetStringMatcherFromPool();   // keeps the pool's slab alive, so that released objects are the ones handed out next
   StringMatcher * own = new StringMatcher; StringMatcherRef pooled; StringMatcher * sm = own; Prior pr;
   const uint32_t npat = 4 + g.R(5);
   bool bad = false, sawPos = false, sawNeg = false, sawWild = false; uint64_t dig = 1469598103934665603ULL;
   for (uint32_t pi = 0; pi < npat && !bad; pi++) {
      // ---- where the object comes from and what it held before
      const uint32_t origin = (pi == 0) ? 2 + g.R(8) : g.R(10);
      if (origin < 2 || (origin < 5 && pi == 0)) { delete own; own = new StringMatcher; pooled.Reset(); sm = own; pr = Prior(); }
      else if (origin < 5) { /* the object of the previous judged pattern, as it is */ }
      else if (origin < 8) { delete own; own = new StringMatcher; pooled.Reset(); sm = own; pr = Prior(); const uint32_t n = 1 + g.R(3); for (uint32_t i = 0; i < n; i++) PriorStepSM(g, *sm, pr); }
      else {
         pooled.Reset(); const void * addr = NULL; pr = PrimeStringMatcherPool(g, &addr);
         pooled = GetStringMatcherFromPool(); if (pooled() == NULL) HarnessAbort("GetStringMatcherFromPool() returned NULL");
         sm = pooled(); vh::stat("pooled_objects"); if ((const void *)sm == addr) vh::stat("pooled_object_is_the_one_just_released");
         const uint32_t n = g.R(3); for (uint32_t i = 0; i < n; i++) PriorStepSM(g, *sm, pr);
      }
      GenOpts o; o.over = (g.R(2) == 0);
      const rw::Pattern p = GenPattern(g, o);
      const std::string text = rw::Print(p);
      dig = vh::fnvs(text, dig) * 31;
      if (text.empty() || text == "~") {   // documented "matches nothing", exempt (see DESIGN.md C15); still part of the object's history
         status_t er = sm->SetPattern(text.c_str(), true); vh::stat("unspecified_empty_pattern");
         pr.n++; pr.negate = (text == "~"); pr.range = pr.regex = pr.reset = false; pr.failed = er.IsError(); pr.log += Show(text) + "; "; continue;
      }
      // ---- how the judged pattern gets onto the object
      status_t r; const uint32_t how = g.R(12); const char * howName = "SetPattern";
      if (how == 0) { StringMatcher src(text.c_str()); *sm = src; howName = "operator=(const &)"; vh::stat("installed_by_copy_assignment"); }
      else if (how == 1) { *sm = StringMatcher(text.c_str()); howName = "operator=(&&)"; vh::stat("installed_by_move_assignment"); }
      else if (how == 2) {
         pooled.Reset(); if (sm != own) sm = own; pr = PrimeStringMatcherPool(g);
         pooled = GetStringMatcherFromPool(text.c_str(), true); howName = "GetStringMatcherFromPool(pattern)"; vh::stat("installed_by_pool_convenience"); vh::stat("pooled_objects");
         if (pooled() == NULL) r = B_BAD_ARGUMENT; else sm = pooled();
      }
      else r = sm->SetPattern(text.c_str(), true);
      CountReuse(pr, p.negate, p.numeric);
      rw::Pattern parsed; SelfCheckParser(p, text, parsed);
      vh::stat("patterns"); vh::stat("patterns_" + Feature(p, o.over));
      if (!p.numeric) { for (size_t i = 0; i < p.alts.size(); i++) { CountConstructs(p.alts[i]); if (p.alts[i].empty()) vh::stat("empty_top_level_alternative"); vh::statmax("max_nesting", rw::Depth(p.alts[i])); } }
      if (HasWildcards(p)) sawWild = true;
      const std::string ctx = "pattern " + Show(text) + " (" + Feature(p, o.over) + ") installed by " + howName + (pr.n ? " on an object that held before: " + pr.log : std::string(" on a fresh object;"));
      if (r.IsError()) { vh::viol(KeyFor(text, "exact", "exact|setpattern-rejects-documented-pattern|" + Feature(p, o.over)), ctx + " SetPattern returned " + r()); bad = true; break; }
      if (sm->GetPattern() != text.c_str()) { vh::viol("exact|GetPattern", ctx); bad = true; break; }
      { const std::string d = DiffersFromFresh(*sm, text, true); if (!d.empty()) { vh::viol("exact|reused-object-differs-from-fresh|" + d, ctx + " " + d + "() differs from a fresh StringMatcher with the same pattern"); bad = true; break; } }
      const bool can = CanWildcardStringMatchMultipleValues(text.c_str()), uniq = sm->IsPatternUnique();
      if (can == uniq) { vh::viol("exact|uniqueness-predicates-disagree", ctx + vh::fmt(" CanWildcardStringMatchMultipleValues=%d IsPatternUnique=%d", (int)can, (int)uniq)); bad = true; break; }
      if (uniq) vh::stat("patterns_reported_unique"); else if (rw::IsPureLiteral(p)) vh::stat("literal_patterns_reported_not_unique");
      // sometimes match through a copy / a swapped-in object
      StringMatcher * use = sm; StringMatcher * tmp = NULL; const uint32_t via = g.R(10);
      if (via == 0) { tmp = new StringMatcher(*sm); use = tmp; vh::stat("matched_through_copy"); }
      else if (via == 1) { tmp = new StringMatcher("~zz*"); tmp->SwapContents(*sm); use = tmp; vh::stat("matched_through_swapped_object"); }
      std::set<std::string> matched;
      for (int j = 0; j < 12 && !bad; j++) {
         const std::string t = GenSubject(g, p, ALPHA, j);
         const int want = Want(p, t);
         const bool got = use->Match(t.c_str());
         vh::stat("subjects");
         if (want == 2) continue;
         if ((rw::Match(parsed, t) ? 1 : 0) != want) HarnessAbort("refwild: parsed text and generated AST disagree on " + Show(text) + " vs " + Show(t));
         vh::stat(want ? "subjects_expected_match" : "subjects_expected_nomatch");
         if (j >= 5 && j < 8) vh::stat(want ? "neighbours_expected_match" : "neighbours_expected_nomatch");
         if (want) { sawPos = true; matched.insert(t); } else sawNeg = true;
         if ((int)got != want) {
            vh::viol(KeyFor(text, "exact", std::string(got ? "exact|false-accept|" : "exact|false-reject|") + Feature(p, o.over)), ctx + " subject " + Show(t) + vh::fmt(": Match()=%d, documented meaning says %d", (int)got, want));
            bad = true;
         }
      }
      if (!bad && uniq && matched.size() > 1) { vh::viol("exact|reported-unique-but-two-strings-match", ctx + " matches " + Show(*matched.begin()) + " and " + Show(*matched.rbegin())); bad = true; }
      if (vh::want_sample() && pi == 1) vh::sample(vh::fmt("case %ld: ", k) + ctx);
      if (tmp) { if (via == 1) tmp->SwapContents(*sm); delete tmp; }
      // the judged pattern is part of the object's history now
      pr.n++; pr.negate = p.negate; pr.range = p.numeric; pr.failed = pr.regex = pr.reset = false; pr.log += Show(text) + "; "; if (pr.log.size() > 600) pr.log = "... " + pr.log.substr(pr.log.size() - 500);
   }
   pooled.Reset(); delete own;
   vh::distinct(dig ^ cs, sawPos && sawNeg && sawWild);
   return !bad;
}

// ------------------------------------------------------------------------------------------------ escape part
static const std::string EALPHA = ALPHA + "&%;@";
static bool CaseEscape(long k, uint64_t cs)
{
   vh::Rng g(cs);
   StringMatcher sm; bool bad = false; uint64_t dig = cs; bool sawMeta = false;
   for (int si = 0; si < 6 && !bad; si++) {
      std::string s;
      if (g.R(10) == 0) { GenOpts o; o.over = (g.R(2) == 0); s = rw::Print(GenPattern(g, o)); if (s.empty()) s = "<1-3>"; vh::stat("strings_that_look_like_patterns"); }
      else { const uint32_t n = 1 + g.R(g.R(5) == 0 ? 20 : 6); for (uint32_t i = 0; i < n; i++) { if (g.R(12) == 0) s.push_back((char)(1 + g.R(255))); else s.push_back(EALPHA[g.R((uint32_t)EALPHA.size())]); } }
      if (g.R(5) == 0) s[0] = "`<~"[g.R(3)];
      if (s[0] == '`') vh::stat("strings_with_leading_backtick"); if (s[0] == '<') vh::stat("strings_with_leading_lt"); if (s[0] == '~') vh::stat("strings_with_leading_tilde");
      dig = vh::fnvs(s, dig);
      const String e = EscapeRegexTokens(s.c_str());
      const std::string es(e());
      if (es != s) { sawMeta = true; vh::stat("strings_that_needed_escaping"); }
      vh::stat("strings"); vh::statmax("max_string_length", (long)s.size());
      const std::string ctx = "string " + Show(s) + " escaped " + Show(es);
      status_t r = sm.SetPattern(e, true);
      if (r.IsError()) { vh::viol("escape|escaped-pattern-rejected", ctx + ": " + r()); bad = true; break; }
      if (!sm.Match(s.c_str())) { vh::viol("escape|escaped-pattern-does-not-match-its-string", ctx); bad = true; break; }
      if (!sm.IsPatternUnique()) { vh::viol("escape|escaped-pattern-not-reported-unique", ctx + ": IsPatternUnique() is false"); bad = true; break; }
      if (CanWildcardStringMatchMultipleValues(e)) { vh::viol("escape|escaped-pattern-not-reported-unique", ctx + ": CanWildcardStringMatchMultipleValues() is true"); bad = true; break; }
      const String back = RemoveEscapeChars(e);
      if (s != back()) { vh::viol("escape|RemoveEscapeChars-does-not-invert", ctx + " unescaped " + Show(back())); bad = true; break; }
      // by the documented syntax the escaped text must be a pure literal spelling of s
      { rw::Pattern p; std::string why, lit;
        if (!rw::Parse(es, p, &why) || !rw::IsPureLiteral(p, &lit) || lit != s) { vh::viol("escape|escaped-text-is-not-a-literal-of-the-documented-syntax", ctx + (why.empty() ? std::string() : (": " + why))); bad = true; break; } }
      std::set<std::string> nb;
      for (size_t i = 0; i < s.size(); i++) {
         std::string t = s; t.erase(i, 1); nb.insert(t);
         t = s; t[i] = EALPHA[g.R((uint32_t)EALPHA.size())]; nb.insert(t);
         t = s; t.insert(i, 1, EALPHA[g.R((uint32_t)EALPHA.size())]); nb.insert(t);
         t = s; if (isalpha((unsigned char)t[i])) { t[i] ^= 0x20; nb.insert(t); }
         nb.insert(s.substr(0, i));
      }
      nb.insert(s + s); nb.insert(s + "a"); nb.insert("a" + s); nb.insert(s + "\\"); nb.insert(es); nb.insert(""); nb.erase(s);
      for (std::set<std::string>::const_iterator it = nb.begin(); it != nb.end(); ++it) {
         vh::stat("neighbours");
         if (sm.Match(it->c_str())) { vh::viol("escape|escaped-pattern-matches-another-string", ctx + " also matches " + Show(*it)); bad = true; break; }
      }
      if (vh::want_sample() && si == 0) vh::sample(vh::fmt("case %ld: ", k) + ctx);
   }
   vh::distinct(dig, sawMeta);
   return !bad;
}

// ------------------------------------------------------------------------------------------------ uniqueness part
static std::string Unescape(const std::string & p) { std::string o; bool esc = false; for (size_t i = 0; i < p.size(); i++) { if (!esc && p[i] == '\\') { esc = true; continue; } o.push_back(p[i]); esc = false; } if (esc) o.push_back('\\'); return o; }
static std::string GenArbitraryPattern(vh::Rng & g)
{
   static const std::string soup = "ab12w.+*?,()[]|\\\\\\<>~-{}^$ `'=s_\xe9";
   std::string p;
   switch (g.R(4)) {
   case 0: { const uint32_t n = g.R(11); for (uint32_t i = 0; i < n; i++) p.push_back(soup[g.R((uint32_t)soup.size())]); vh::stat("arbitrary_soup"); } break;
   case 1: { const uint32_t n = 1 + g.R(8);    // mostly literal text with escapes: the patterns that are reported unique
             for (uint32_t i = 0; i < n; i++) { const uint32_t t = g.R(20); if (t < 11) { static const char plain[] = "ab12w.-_ s:<>~`'\xe9"; p.push_back(plain[g.R(sizeof(plain) - 1)]); } else if (t < 19) { p.push_back('\\'); p.push_back(soup[g.R((uint32_t)soup.size())]); } else p.push_back(soup[g.R((uint32_t)soup.size())]); }
             vh::stat("arbitrary_mostly_literal"); } break;
   case 2: { GenOpts o; o.over = (g.R(2) == 0); p = rw::Print(GenPattern(g, o)); if (p.size() > 14) p.resize(14); std::string al = soup; OneEdit(g, p, al); vh::stat("arbitrary_edited_wellformed"); } break;
   default: { std::string s = RandomString(g, ALPHA, 6); p = EscapeRegexTokens(s.c_str())(); if (!p.empty()) { size_t bs = p.find('\\'); if (bs != std::string::npos && g.R(2)) p.erase(bs, 1); else OneEdit(g, p, soup); } vh::stat("arbitrary_edited_escaped"); } break;
   }
   // keep interval expressions small (F10, "regex complexity", is another property's policy entry): at most two '{', no digit above 2 after one
   int braces = 0; bool in = false;
   for (size_t i = 0; i < p.size(); i++) { if (p[i] == '{') { if (++braces > 2) p[i] = 'a'; else in = true; } else if (p[i] == '}') in = false; else if (in && p[i] >= '3' && p[i] <= '9') p[i] = '2'; }
   size_t nul = p.find('\0'); if (nul != std::string::npos) p.resize(nul);
   return p;
}
static bool CaseUnique(long k, uint64_t cs)
{
   vh::Rng g(cs);
   StringMatcher sm; bool bad = false; uint64_t dig = cs; bool sawUnique = false, sawRejected = false; Prior pr;
   for (int pi = 0; pi < 6 && !bad; pi++) {
      const std::string p = GenArbitraryPattern(g);
      dig = vh::fnvs(p, dig);
      vh::note("unique: SetPattern " + Show(p));
      if (g.R(5) == 0 && p.find('{') == std::string::npos) {   // the raw-regex form on the same object first: no verdict but "does not crash", and the next SetPattern must forget it
         status_t rr = sm.SetPattern(p.c_str(), false); vh::stat("raw_regex_setpattern"); if (rr.IsError()) vh::stat("raw_regex_rejected");
         (void)sm.Match("ab"); (void)sm.Match(p.c_str()); (void)sm.IsPatternUnique(); (void)sm.ToString();
         pr.n++; pr.regex = true; pr.failed = rr.IsError(); pr.negate = pr.range = pr.reset = false; pr.log += Show(p) + "(isSimple=false)" + (rr.IsError() ? "(rejected)" : "") + "; ";
      }
      if (g.R(6) == 0) PriorStepSM(g, sm, pr);
      if (g.R(12) == 0) { sm.SetNegate(true); pr.negate = true; pr.log += "SetNegate(true); "; }
      status_t r = sm.SetPattern(p.c_str(), true);
      vh::stat("patterns"); if (r.IsError()) { vh::stat("patterns_rejected"); sawRejected = true; }
      const std::string ctx = "pattern " + Show(p) + (pr.n ? " on an object that held before: " + pr.log : std::string());
      CountReuse(pr, !p.empty() && p[0] == '~', r.IsOK() && TextIsRangeList(p, true));
      // arbitrary (also ill-formed) patterns have no reference, but a used object must still behave like a fresh one
      StringMatcher fresh; status_t fr = fresh.SetPattern(p.c_str(), true);
      if (fr.IsError() != r.IsError()) { vh::viol("unique|reused-object-differs-from-fresh|SetPattern-status", ctx + ": " + r() + ", fresh object: " + fr()); bad = true; break; }
      { const std::string d = DiffersFromFresh(sm, p, true); if (!d.empty()) { vh::viol("unique|reused-object-differs-from-fresh|" + d, ctx + " " + d + "() differs from a fresh StringMatcher with the same pattern"); bad = true; break; } }
      const bool can = CanWildcardStringMatchMultipleValues(p.c_str()), uniq = sm.IsPatternUnique();
      if (can == uniq) { vh::viol("unique|uniqueness-predicates-disagree", ctx + vh::fmt(": CanWildcardStringMatchMultipleValues=%d IsPatternUnique=%d", (int)can, (int)uniq)); bad = true; break; }
      (void)sm.ToString(); (void)sm.IsPatternListOfUniqueValues();
      pr.n++; pr.negate = (!p.empty() && p[0] == '~'); pr.range = r.IsOK() && TextIsRangeList(p, true); pr.failed = r.IsError(); pr.regex = pr.reset = false; pr.log += Show(p) + (r.IsError() ? "(rejected)" : "") + "; "; if (pr.log.size() > 600) pr.log = "... " + pr.log.substr(pr.log.size() - 500);
      if (p.empty()) { vh::stat("unspecified_empty_pattern"); continue; }
      const std::string u = Unescape(p);
      std::set<std::string> cand; cand.insert(u); cand.insert(RemoveEscapeChars(p.c_str())()); cand.insert(p); cand.insert(""); cand.insert(u + u); cand.insert(u + "a"); cand.insert("a" + u);
      for (size_t i = 0; i < u.size(); i++) {
         std::string t = u; t.erase(i, 1); cand.insert(t);
         static const char subst[] = "a_ 1.Zb2w\\";
         for (size_t c = 0; c < sizeof(subst) - 1; c++) { t = u; t[i] = subst[c]; cand.insert(t); }
         t = u; t[i] = Pick(g, ALPHA); cand.insert(t);
         t = u; if (isalpha((unsigned char)t[i])) { t[i] ^= 0x20; cand.insert(t); }
         t = u; t.insert(i, 1, u[i]); cand.insert(t);
         t = u; t.insert(i, 1, Pick(g, ALPHA)); cand.insert(t);
      }
      { bool differs = false; for (std::set<std::string>::const_iterator it = cand.begin(); it != cand.end() && !differs; ++it) { vh::stat("reused_vs_fresh_matches"); if (sm.Match(it->c_str()) != fresh.Match(it->c_str())) { vh::viol("unique|reused-object-differs-from-fresh|Match", ctx + " subject " + Show(*it) + vh::fmt(": Match()=%d, fresh object %d", (int)sm.Match(it->c_str()), (int)fresh.Match(it->c_str()))); differs = true; } } if (differs) { bad = true; break; } }
      if (!uniq) {
         vh::stat("patterns_not_unique");
         int n = 0; for (std::set<std::string>::const_iterator it = cand.begin(); it != cand.end() && n < 6; ++it, ++n) { (void)sm.Match(it->c_str()); vh::stat("nocrash_matches"); }
         continue;
      }
      sawUnique = true; vh::stat("patterns_reported_unique");
      std::vector<std::string> hits;
      for (std::set<std::string>::const_iterator it = cand.begin(); it != cand.end(); ++it) { vh::stat("candidates"); if (sm.Match(it->c_str())) hits.push_back(*it); }
      if (hits.size() > 1) { vh::viol("unique|reported-unique-but-two-strings-match", ctx + " matches " + Show(hits[0]) + " and " + Show(hits[1])); bad = true; break; }
      // a pattern without any unescaped metacharacter is, by the documented syntax, the literal spelling of its unescaped text
      rw::Pattern rp; std::string lit;
      if (rw::Parse(p, rp) && rw::IsPureLiteral(rp, &lit)) {
         vh::stat("unique_patterns_that_are_documented_literals");
         if (r.IsError()) { vh::viol("unique|literal-pattern-rejected", ctx + ": " + r()); bad = true; break; }
         if (!sm.Match(lit.c_str())) { vh::viol("unique|unique-pattern-does-not-match-its-literal-text", ctx + " literal text " + Show(lit)); bad = true; break; }
      }
      else vh::stat("unspecified_unique_pattern_outside_documented_subset");   // e.g. a trailing backslash
      if (vh::want_sample()) vh::sample(vh::fmt("case %ld: unique ", k) + ctx);
   }
   vh::distinct(dig, sawUnique);
   (void)sawRejected;
   return !bad;
}

// ------------------------------------------------------------------------------------------------ path part
struct Clause { std::string text; rw::Pattern p; bool any; };
static Clause GenClause(vh::Rng & g, bool allowLeadingTilde)
{
   Clause c; c.any = false;
   if (g.R(5) == 0) { c.text = "*"; c.any = true; c.p.alts.push_back(rw::Seq(1, rw::Node::Star())); return c; }
   for (int tries = 0; tries < 50; tries++) {
      GenOpts o; o.alpha = &PALPHA; o.over = (g.R(3) == 0); o.maxDepth = 2;
      c.p = GenPattern(g, o);
      if (!allowLeadingTilde) c.p.negate = false;
      c.text = rw::Print(c.p);
      if (!c.text.empty() && c.text != "~" && c.text != "*") return c;
   }
   c.p = rw::Pattern(); c.p.alts.push_back(rw::Seq(1, rw::Node::Lit('a'))); c.text = "a"; return c;
}
// 1 / 0 / 2 (some clause decision is unspecified)
static int WantPath(const std::vector<Clause> & pat, const std::vector<std::string> & segs, bool prefixOK)
{
   if (prefixOK ? (segs.size() < pat.size()) : (segs.size() != pat.size())) return 0;
   bool unspec = false;
   for (size_t i = 0; i < pat.size(); i++) { const int w = Want(pat[i].p, segs[i]); if (w == 0) return 0; if (w == 2) unspec = true; }
   return unspec ? 2 : 1;
}
static std::string Join(const std::vector<std::string> & v) { std::string o; for (size_t i = 0; i < v.size(); i++) { if (i) o.push_back('/'); o += v[i]; } return o; }
static std::string GenPathPatternText(vh::Rng & g, bool allowClauseTilde, char sep = '/')
{
   std::string t; const uint32_t nc = 1 + g.R(3);
   for (uint32_t j = 0; j < nc; j++) { if (j) t.push_back(sep); t += GenClause(g, allowClauseTilde).text; }
   return t;
}
// one earlier pattern on a SegmentedStringMatcher that is going to be reused
static void PriorStepSeg(vh::Rng & g, SegmentedStringMatcher & m, Prior & pr)
{
   std::string t; bool simple = true, setNeg = false; const char * sep = "/"; uint32 maxSeg = MUSCLE_NO_LIMIT;
   switch (g.R(9)) {
   case 0: case 1: t = GenPathPatternText(g, false); break;
   case 2: case 3: t = "~" + GenPathPatternText(g, false); break;
   case 4: { static const char * seps[] = {":", "/:", ".", ";;"}; sep = seps[g.R(4)]; t = std::string(g.R(2) ? "~" : "") + GenPathPatternText(g, false, sep[0]); } break;
   case 5: { static const char * rx[] = {"a.*/b[0-9]+", "x/(y|z)", "a(b/c", "~q/r"}; t = rx[g.R(4)]; simple = false; } break;
   case 6: { static const char * badp[] = {"a(b/c", "x/[abc", "~(/y", "ok/a)b(/z"}; t = badp[g.R(4)]; } break;
   case 7: t = GenPathPatternText(g, false); setNeg = true; break;
   default: t = std::string(g.R(2) ? "~" : "") + "a/b/c/d"; maxSeg = 1 + g.R(2); break;
   }
   status_t r = m.SetPattern(t.c_str(), simple, sep, maxSeg);
   if (setNeg) m.SetNegate(true);
   (void)m.Match("a/b", g.R(2) != 0); (void)m.IsPatternUnique();
   pr.n++; pr.failed = r.IsError(); pr.regex = !simple; pr.range = false; pr.altsep = (strcmp(sep, "/") != 0); pr.reset = false;
   pr.negate = setNeg || (r.IsOK() && simple && !t.empty() && t[0] == '~');
   pr.log += Show(t) + (simple ? "" : "(isSimple=false)") + (pr.altsep ? std::string("(separators ") + sep + ")" : std::string()) + (maxSeg != MUSCLE_NO_LIMIT ? "(maxSegments)" : "") + (setNeg ? "+SetNegate(true)" : "") + (r.IsError() ? "(rejected)" : "") + "; ";
   if (g.R(8) == 0) { m.Clear(); pr.Forget("Clear()"); }
}
static std::string SegDiffersFromFresh(const SegmentedStringMatcher & m, const std::string & text)
{
   SegmentedStringMatcher f; (void)f.SetPattern(text.c_str(), true);
   if (m.IsNegate() != f.IsNegate()) return "IsNegate";
   if (m.IsPatternUnique() != f.IsPatternUnique()) return "IsPatternUnique";
   if (m.GetPattern() != f.GetPattern()) return "GetPattern";
   if (m.GetSeparatorChars() != f.GetSeparatorChars()) return "GetSeparatorChars";
   if (m.ToString() != f.ToString()) return "ToString";
   return "";
}
static bool CasePath(long k, uint64_t cs)
{
   vh::Rng g(cs);
   bool bad = false; uint64_t dig = cs; bool sawPos = false, sawNeg = false;
   StringMatcherRef keeper = GetStringMatcherFromPool();   // keeps the pool's slab alive: the StringMatchers a PathMatcher releases are the ones it is handed next
   PathMatcher pm; std::vector<std::vector<Clause> > pats; std::vector<std::string> texts;
   if (g.R(2) == 0) {   // an earlier life of the same PathMatcher (and of the pooled StringMatchers behind its entries): other patterns, put, used, removed
      std::vector<std::string> old; const uint32_t n = 1 + g.R(3);
      for (uint32_t i = 0; i < n; i++) { const std::string t = GenPathPatternText(g, true); if (pm.PutPathString(t.c_str(), ConstQueryFilterRef()).IsOK()) old.push_back(t); }
      (void)pm.MatchesPath("a/b", NULL, NULL); (void)pm.MatchesPath("/5", NULL, NULL);
      if (g.R(2)) { pm.Clear(); vh::stat("pathmatcher_cleared_after_other_patterns"); }
      else { std::set<std::string> uniqOld(old.begin(), old.end()); for (std::set<std::string>::const_iterator it = uniqOld.begin(); it != uniqOld.end(); ++it) if (pm.RemovePathString(it->c_str()).IsError()) { vh::viol("path|RemovePathString", "RemovePathString(" + Show(*it) + ") failed for a pattern that was put"); return false; } vh::stat("pathmatcher_entries_removed", (long)uniqOld.size()); }
      vh::stat("pathmatcher_reused");
   }
   else if (g.R(2) == 0) { (void)PrimeStringMatcherPool(g); vh::stat("pathmatcher_on_primed_pool"); }
   const uint32_t np = 1 + g.R(3);
   for (uint32_t i = 0; i < np; i++) {
      std::vector<Clause> pc; std::vector<std::string> ct; const uint32_t nc = 1 + g.R(3);
      for (uint32_t j = 0; j < nc; j++) { pc.push_back(GenClause(g, true)); ct.push_back(pc.back().text); }
      const std::string text = Join(ct); dig = vh::fnvs(text, dig);
      status_t r = pm.PutPathString(text.c_str(), ConstQueryFilterRef());
      if (r.IsError()) { vh::viol(KeyFor(text, "path", "path|PutPathString-rejects-documented-pattern"), "path pattern " + Show(text) + ": " + r()); return false; }
      pats.push_back(pc); texts.push_back(text); vh::stat("path_patterns");
   }
   // entries that come and go, or are put twice, must not change what the judged set decides
   if (g.R(3) == 0) { const std::string t = GenPathPatternText(g, true); bool judged = false; for (size_t i = 0; i < texts.size(); i++) if (texts[i] == t) judged = true;
      if (!judged && pm.PutPathString(t.c_str(), ConstQueryFilterRef()).IsOK()) { (void)pm.MatchesPath("a", NULL, NULL); if (pm.RemovePathString(t.c_str()).IsError()) { vh::viol("path|RemovePathString", "RemovePathString(" + Show(t) + ") failed for a pattern that was put"); return false; } vh::stat("pathmatcher_entries_removed"); } }
   if (g.R(4) == 0) { const std::string & t = texts[g.R((uint32_t)texts.size())]; if (pm.PutPathString(t.c_str(), ConstQueryFilterRef()).IsError()) { vh::viol("path|PutPathString-rejects-documented-pattern", "second PutPathString of " + Show(t)); return false; } vh::stat("pathmatcher_entries_put_twice"); }
   // one SegmentedStringMatcher: whole-pattern negation only (a leading ~ belongs to the whole pattern there)
   std::vector<Clause> sp; std::vector<std::string> st; { const uint32_t nc = 1 + g.R(3); for (uint32_t j = 0; j < nc; j++) { sp.push_back(GenClause(g, false)); st.push_back(sp.back().text); } }
   const bool sneg = (g.R(6) == 0); const std::string stext = std::string(sneg ? "~" : "") + Join(st);
   // ---- the object: fresh, or with a past (other patterns, other separators, regex form, rejected patterns, SetNegate, Clear), or from the pool
   SegmentedStringMatcherRef segKeeper = GetSegmentedStringMatcherFromPool();
   SegmentedStringMatcher ownSeg; SegmentedStringMatcherRef pooledSeg; SegmentedStringMatcher * seg = &ownSeg; Prior pr;
   const uint32_t origin = g.R(8);
   if (origin < 2) { /* fresh */ }
   else if (origin < 6) { const uint32_t n = 1 + g.R(3); for (uint32_t i = 0; i < n; i++) PriorStepSeg(g, *seg, pr); }
   else {
      { const uint32_t n = 1 + g.R(2); for (uint32_t i = 0; i < n; i++) { SegmentedStringMatcherRef a = GetSegmentedStringMatcherFromPool(); if (a() == NULL) HarnessAbort("GetSegmentedStringMatcherFromPool() returned NULL"); Prior tmp; PriorStepSeg(g, *a(), tmp); pr = tmp; } }
      pr.pooled = true; pr.log += "released to the pool and handed out again; ";
      if (origin == 6) { pooledSeg = GetSegmentedStringMatcherFromPool(); if (pooledSeg() == NULL) HarnessAbort("GetSegmentedStringMatcherFromPool() returned NULL"); seg = pooledSeg(); const uint32_t n = g.R(3); for (uint32_t i = 0; i < n; i++) PriorStepSeg(g, *seg, pr); }
      vh::stat("pooled_objects");
   }
   status_t sr; const char * howName = "SetPattern";
   if (origin == 7) { pooledSeg = GetSegmentedStringMatcherFromPool(stext.c_str(), true); howName = "GetSegmentedStringMatcherFromPool(pattern)"; vh::stat("installed_by_pool_convenience"); if (pooledSeg() == NULL) sr = B_BAD_ARGUMENT; else seg = pooledSeg(); }
   else if (g.R(6) == 0) { SegmentedStringMatcher src(stext.c_str()); *seg = src; howName = "operator="; vh::stat("installed_by_copy_assignment"); }
   else sr = seg->SetPattern(stext.c_str(), true);
   CountReuse(pr, sneg, false);
   const std::string sctx = "pattern " + Show(stext) + " installed by " + howName + (pr.n ? " on an object that held before: " + pr.log : std::string(" on a fresh object;"));
   if (sr.IsError()) { vh::viol(KeyFor(stext, "path", "path|SegmentedStringMatcher-rejects-documented-pattern"), sctx + " " + sr()); return false; }
   { const std::string d = SegDiffersFromFresh(*seg, stext); if (!d.empty()) { vh::viol("path|reused-SegmentedStringMatcher-differs-from-fresh|" + d, sctx + " " + d + "() differs from a fresh SegmentedStringMatcher with the same pattern"); return false; } }
   std::unique_ptr<SegmentedStringMatcher> segCopy; if (g.R(6) == 0) { segCopy.reset(new SegmentedStringMatcher(*seg)); seg = segCopy.get(); vh::stat("matched_through_copy"); }
   SegmentedStringMatcher & ssm = *seg;
   std::string all; for (size_t i = 0; i < texts.size(); i++) { all += Show(texts[i]); all += " "; }
   for (int j = 0; j < 8 && !bad; j++) {
      const bool fromSeg = (j >= 5);
      const std::vector<Clause> & src = fromSeg ? sp : pats[g.R((uint32_t)pats.size())];
      std::vector<std::string> segs;
      for (size_t i = 0; i < src.size(); i++) { std::string t = GenSubject(g, src[i].p, PALPHA, (int)g.R(j < 3 ? 5 : 12)); if (t.empty()) t = "x"; segs.push_back(t); }
      const uint32_t shape = g.R(8);
      if (shape == 0 && segs.size() > 1) segs.pop_back(); else if (shape == 1) segs.push_back(RandomString(g, PALPHA, 3) + "b");
      const std::string path = std::string(g.R(2) ? "/" : "") + Join(segs);
      vh::stat("paths");
      if (GetPathDepth(path.c_str()) != (int)segs.size()) { vh::viol("path|GetPathDepth", "path " + Show(path) + vh::fmt(": %d, expected %zu", GetPathDepth(path.c_str()), segs.size())); bad = true; break; }
      int want = 0; for (size_t i = 0; i < pats.size() && want != 1; i++) { const int w = WantPath(pats[i], segs, false); if (w == 1) want = 1; else if (w == 2) want = 2; }
      const bool got = pm.MatchesPath(path.c_str(), NULL, NULL);
      if (want == 2) vh::stat("unspecified_path_decisions");
      else {
         vh::stat(want ? "paths_expected_match" : "paths_expected_nomatch"); if (want) sawPos = true; else sawNeg = true;
         if ((int)got != want) { vh::viol(KeyFor(all, "path", got ? "path|PathMatcher-false-accept" : "path|PathMatcher-false-reject"), "patterns " + all + "path " + Show(path) + vh::fmt(": MatchesPath()=%d, every-clause-matches-its-segment says %d", (int)got, want)); bad = true; break; }
      }
      for (int prefixOK = 0; prefixOK < 2 && !bad; prefixOK++) {
         int w = WantPath(sp, segs, prefixOK != 0);
         if (w == 2) { vh::stat("unspecified_path_decisions"); continue; }
         if (sneg) w = !w;
         const bool sg = ssm.Match(path.c_str(), prefixOK != 0);
         vh::stat(w ? "segmented_expected_match" : "segmented_expected_nomatch");
         if ((int)sg != w) { vh::viol(KeyFor(stext, "path", sg ? "path|SegmentedStringMatcher-false-accept" : "path|SegmentedStringMatcher-false-reject"), sctx + " path " + Show(path) + vh::fmt(" prefixMatchOkay=%d: Match()=%d, expected %d", prefixOK, (int)sg, w)); bad = true; }
      }
   }
   if (vh::want_sample()) vh::sample(vh::fmt("case %ld: paths ", k) + all + "segmented " + Show(stext));
   vh::distinct(dig, sawPos && sawNeg);
   return !bad;
}

// ------------------------------------------------------------------------------------------------ fixed witnesses, documentation examples
static void RX(const char * key, const char * pat, const std::string & subj, int want /* 1, 0, -1 = unspecified: run only */)
{
   StringMatcher m; status_t r = m.SetPattern(pat, true); const bool got = m.Match(subj.c_str());
   vh::stat("regress_checks");
   if (want < 0) { vh::stat("unspecified_edge_rows"); return; }
   rw::Pattern p;
   if (rw::Parse(pat, p) && !rw::NumericCorner(p, subj) && (int)rw::Match(p, subj) != want) HarnessAbort(std::string("regress table and refwild disagree on ") + pat + " vs " + subj);
   if (r.IsError() || (int)got != want) vh::viol(std::string("regress|") + key, "pattern " + Show(pat) + " subject " + Show(subj) + vh::fmt(": SetPattern=%s Match()=%d, expected %d", r(), (int)got, want));
}
static void Regress()
{
   vh::begin_case(0);   // F11: backslash + a character that glibc reads as an operator / back-reference
   RX("F11", "\\w", "w", 1); RX("F11", "\\w", "a", 0); RX("F11", "\\w", "_", 0); RX("F11", "\\W", "W", 1); RX("F11", "\\W", " ", 0);
   RX("F11", "\\s", "s", 1); RX("F11", "\\s", " ", 0); RX("F11", "\\S", "S", 1); RX("F11", "\\S", "a", 0);
   RX("F11", "a\\bb", "abb", 1); RX("F11", "a\\bb", "ab", 0); RX("F11", "a\\B", "aB", 1); RX("F11", "a\\B", "a", 0);
   RX("F11", "x\\<y", "x<y", 1); RX("F11", "x\\<y", "xy", 0); RX("F11", "x\\>", "x>", 1); RX("F11", "x\\>", "x", 0);
   RX("F11", "a\\`", "a`", 1); RX("F11", "a\\`", "a", 0); RX("F11", "a\\'", "a'", 1); RX("F11", "a\\'", "a", 0); RX("F11", "\\`a", "`a", 1); RX("F11", "\\`a", "a", 0);
   RX("F11", "(a)\\1", "a1", 1); RX("F11", "(a)\\1", "aa", 0); RX("F11", "(*)x\\1", "abx1", 1); RX("F11", "(*)x\\1", "abxab", 0); RX("F11", "\\9", "9", 1);
   { StringMatcher m("\\w"); vh::stat("regress_checks"); if (!m.IsPatternUnique() || m.Match("a") || !m.Match("w")) vh::viol("regress|F11", "pattern \\w must be unique and match only \"w\""); }
   vh::begin_case(1);   // F12: a literal leading backtick
   { const String e = EscapeRegexTokens("`x"); StringMatcher m(e); vh::stat("regress_checks");
     if (e != "\\`x" || !m.Match("`x") || m.Match("x") || m.Match("ax") || m.Match("\\`x") || !m.IsPatternUnique() || RemoveEscapeChars(e) != "`x") vh::viol("regress|F12", std::string("EscapeRegexTokens(\"`x\") = ") + e() + vh::fmt(" match(`x)=%d match(x)=%d match(ax)=%d unique=%d", (int)m.Match("`x"), (int)m.Match("x"), (int)m.Match("ax"), (int)m.IsPatternUnique()));
     const String e2 = EscapeRegexTokens("`"); StringMatcher m2(e2); vh::stat("regress_checks"); if (!m2.Match("`") || m2.Match("") || m2.Match("a")) vh::viol("regress|F12", std::string("EscapeRegexTokens(\"`\") = ") + e2());
     const String e3 = EscapeRegexTokens("a`b"); vh::stat("regress_checks"); if (e3 != "a`b") vh::viol("regress|F12", "a backtick in a later position needs no escape"); }
   vh::begin_case(2);   // F14: numeric ranges match only ASCII representations of integers
   RX("F14", "<19-21>", "20abc", 0); RX("F14", "<19-21>", "20 ", 0); RX("F14", "<19-21>", "20-", 0); RX("F14", "<19-21>", "2", 0); RX("F14", "<19-21>", "200", 0);
   RX("F14", "<19-21>", "20", 1); RX("F14", "<19-21>", "020", 1); RX("F14", "<19-21>", "19", 1); RX("F14", "<19-21>", "21", 1); RX("F14", "<19-21>", "18", 0); RX("F14", "<19-21>", "22", 0);
   RX("F14", "~<19-21>", "20abc", 1); RX("F14", "~<19-21>", "20", 0); RX("F14", "<5>", "5x", 0); RX("F14", "<5->", "7.5", 0);
   vh::begin_case(3);   // F31: back-references must not be reachable from the simple syntax (driver: per-case CPU budget)
   { vh::note("F31: (*)(*)(*)\\2\\3\\4b against 'a' x 100 / x 400");
     RX("F31", "(*)(*)(*)\\2\\3\\4b", std::string(100, 'a'), 0); RX("F31", "(*)(*)(*)\\2\\3\\4b", std::string(400, 'a'), 0); RX("F31", "(*)(*)(*)\\2\\3\\4b", std::string(100, 'a') + "b", 0);
     RX("F31", "(*)(*)(*)\\2\\3\\4b", "xyz234b", 1); RX("F31", "(*)(*)(*)\\2\\3\\4b", std::string(100, 'a') + "234b", 1); }
   vh::begin_case(4);   // documentation examples of StringMatcher.h / SegmentedStringMatcher.h / PathMatcher.h
   RX("docex", "<19-21>", "18", 0); RX("docex", "<19-21>", "19", 1); RX("docex", "<19-21>", "20", 1); RX("docex", "<19-21>", "21", 1); RX("docex", "<19-21>", "22", 0);
   RX("docex", "<-19>", "0", 1); RX("docex", "<-19>", "19", 1); RX("docex", "<-19>", "20", 0);
   RX("docex", "<21->", "20", 0); RX("docex", "<21->", "21", 1); RX("docex", "<21->", "4000000000", 1);
   RX("docex", "<->", "0", 1); RX("docex", "<->", "7", 1); RX("docex", "<->", "abc", -1); RX("docex", "<->", "", -1);   // "<-> matches everything, same as *" against "only ASCII representations of integers": self-contradictory, not judged
   { static const char * s[] = {"19", "22", "25", "29", "30", "50", "51"}; static const int w[] = {1, 0, 1, 0, 1, 1, 0}; for (int i = 0; i < 7; i++) RX("docex", "<19-21,25,30-50>", s[i], w[i]); }
   RX("docex", "~A*", "Apple", 0); RX("docex", "~A*", "apple", 1); RX("docex", "~A*", "B", 1); RX("docex", "~A*", "", 1);
   { StringMatcher m("`^a[0-9]+$"); vh::stat("regress_checks"); if (!m.Match("a1") || m.Match("a") || m.Match("ba12")) vh::viol("regress|docex", "backtick prefix = raw regex: `^a[0-9]+$"); }
   { // "Hello -> [Hh][Ee][Ll][Ll][Oo]": the spelling is illustrative (the library writes [eE]); judged by meaning: five two-letter classes
     const String ci = ToCaseInsensitive("Hello"); StringMatcher m(ci, false); vh::stat("regress_checks");
     if (ci.Length() != 20 || !m.Match("hello") || !m.Match("HELLO") || !m.Match("hElLo") || m.Match("hallo") || m.Match("hell")) vh::viol("regress|docex", std::string("ToCaseInsensitive(Hello) = ") + ci()); }
   { static const char * p[] = {"", "/", "/test", "test/me", "/test/me/thoroughly"}; static const int w[] = {0, 0, 1, 2, 3}; for (int i = 0; i < 5; i++) { vh::stat("regress_checks"); if (GetPathDepth(p[i]) != w[i]) vh::viol("regress|docex", vh::fmt("GetPathDepth(\"%s\") = %d, documented %d", p[i], GetPathDepth(p[i]), w[i])); } }
   { StringMatcher m("<5>"); vh::stat("regress_checks"); if (m.IsPatternUnique()) vh::viol("regress|docex", "<5> is documented never to be unique"); }
   { SegmentedStringMatcher m("f?" "?/b?" "?");   /* literal split in two: question-question-slash would be a trigraph */ vh::stat("regress_checks"); if (!m.Match("foo/bar/baz", true) || m.Match("foo/bar/baz", false) || !m.Match("foo/bar", false) || m.Match("foo/car", true)) vh::viol("regress|docex", "SegmentedStringMatcher f?" "?/b?" "? against foo/bar/baz with and without prefixMatchOkay"); }
   vh::begin_case(6);   // class members are members (repaired: "[?]" became "[.]", "[,]" became "[|]", "[.]" became "[\\.]")
   RX("class-members", "[?]", "?", 1); RX("class-members", "[?]", "a", 0); RX("class-members", "[?]", ".", 0); RX("class-members", "[,]", ",", 1); RX("class-members", "[,]", "|", 0); RX("class-members", "[,]", "", 0);
   RX("class-members", "[.]", ".", 1); RX("class-members", "[.]", "\\", 0); RX("class-members", "[.]", "a", 0); RX("class-members", "[+]", "+", 1); RX("class-members", "[+]", "\\", 0);
   RX("class-members", "[*x]", "*", 1); RX("class-members", "[*x]", "x", 1); RX("class-members", "[*x]", ".", 0); RX("class-members", "[*x]", "a", 0); RX("class-members", "[*x]", "", 0); RX("class-members", "[*x]", "xx", 0);
   RX("class-members", "a[?]b", "a?b", 1); RX("class-members", "a[?]b", "axb", 0); RX("class-members", "a[?]b", "a.b", 0); RX("class-members", "a[?]*", "a?xyz", 1); RX("class-members", "a[?]*", "abxyz", 0);
   RX("class-members", "[|(){}$]", "|", 1); RX("class-members", "[|(){}$]", "(", 1); RX("class-members", "[|(){}$]", "}", 1); RX("class-members", "[|(){}$]", "$", 1); RX("class-members", "[|(){}$]", "a", 0);
   RX("class-members", "x,[a,b]", "a", 1); RX("class-members", "x,[a,b]", ",", 1); RX("class-members", "x,[a,b]", "x", 1); RX("class-members", "x,[a,b]", "[a", 0); RX("class-members", "([|)]x|y)", ")x", 1); RX("class-members", "([|)]x|y)", "|x", 1); RX("class-members", "([|)]x|y)", "x", 0);
   RX("class-members", "[]a]", "]", 1); RX("class-members", "[]a]", "a", 1); RX("class-members", "[]a]", "b", 0); RX("class-members", "[^a]", "b", 1); RX("class-members", "[^a]", "a", 0); RX("class-members", "[^]a]", "]", 0); RX("class-members", "[^]a]", "?", 1);
   RX("class-members", "[a^]", "^", 1); RX("class-members", "[a!]", "!", 1); RX("class-members", "[-a]", "-", 1); RX("class-members", "[a-]", "-", 1); RX("class-members", "[?]?", "?x", 1); RX("class-members", "[?]?", "xx", 0); RX("class-members", "[*]*", "*abc", 1); RX("class-members", "[*]*", "abc", 0);
   RX("class-members", "[!a]", "b", -1); RX("class-members", "[a\\]b]", "]", -1); RX("class-members", "[[:alpha:]]", "a", -1);
   vh::begin_case(7);   // "[^^..]": only a '^' directly after '[' is the complement marker (not judged while --opt pending_caretfirst=1)
   { const int P = optPendingCaretFirst ? -1 : 0; if (P) vh::stat("pending_fix_rows", 6);
     RX("class-negated-caret-first", "[^^]", "a", P ? P : 1); RX("class-negated-caret-first", "[^^]", "^", P ? P : 0); RX("class-negated-caret-first", "[^^]?", "ab", P ? P : 1);
     RX("class-negated-caret-first", "[^^],x", "x", P ? P : 1); RX("class-negated-caret-first", "(a[^^]|b)", "ab", P ? P : 1); RX("class-negated-caret-first", "[^^a]*", "b.c", P ? P : 1); }
   vh::begin_case(8);   // "<19-21> would match 19, 20, and 21 only": a subject that is not a digit string never matches a range list (seeded C15-3: strtoul)
   RX("numeric-nondigit-subject", "<1-10>", "+5", 0); RX("numeric-nondigit-subject", "<1-10>", " 5", 0); RX("numeric-nondigit-subject", "<1-10>", "\t7", 0); RX("numeric-nondigit-subject", "<1-10>", "\n7", 0); RX("numeric-nondigit-subject", "<1-10>", "5 ", 0);
   RX("numeric-nondigit-subject", "<1-10>", "-5", 0); RX("numeric-nondigit-subject", "<1-10>", "+05", 0); RX("numeric-nondigit-subject", "<1-10>", "0x5", 0); RX("numeric-nondigit-subject", "<1-10>", "5.0", 0); RX("numeric-nondigit-subject", "<1-10>", "", 0);
   RX("numeric-nondigit-subject", "<1-10>", "abc", 0); RX("numeric-nondigit-subject", "<1-10>", "+", 0); RX("numeric-nondigit-subject", "<1-10>", " ", 0); RX("numeric-nondigit-subject", "<-10>", "-3", 0); RX("numeric-nondigit-subject", "<0>", "-0", 0); RX("numeric-nondigit-subject", "<0->", "", 0);
   RX("numeric-nondigit-subject", "<4000000000->", "-3", 0); RX("numeric-nondigit-subject", "<4000000000->", "-1", 0); RX("numeric-nondigit-subject", "<4294967295>", "-1", 0);
   RX("numeric-nondigit-subject", "~<1-10,20->", "+5", 1); RX("numeric-nondigit-subject", "~<1-10,20->", " 5", 1); RX("numeric-nondigit-subject", "~<1-10,20->", "", 1); RX("numeric-nondigit-subject", "~<1-10,20->", "abc", 1); RX("numeric-nondigit-subject", "~<1-10,20->", "5", 0); RX("numeric-nondigit-subject", "~<1-10,20->", "15", 1);
   RX("numeric-nondigit-subject", "<1-10>", "5", 1); RX("numeric-nondigit-subject", "<1-10>", "005", 1); RX("numeric-nondigit-subject", "<->", "5", 1); RX("numeric-nondigit-subject", "<1-3,->", "77", 1); RX("numeric-nondigit-subject", "<->", "+5", -1); RX("numeric-nondigit-subject", "<1-3,->", "abc", -1);
   vh::begin_case(9);   // object reuse: after the final SetPattern() a used object is indistinguishable from a fresh one (seeded C15-5: SegmentedStringMatcher kept _negate)
   { SegmentedStringMatcher m("~foo/b*"); const bool n1 = m.IsNegate(); (void)m.SetPattern("foo/b*"); vh::stat("regress_checks");
     if (!n1 || m.IsNegate() || !m.Match("foo/bar", false) || m.Match("foo/qux", false) || m.Match("fob/bar", false) || m.Match("foo/bar/baz", false) || !m.Match("foo/bar/baz", true)) vh::viol("regress|object-reuse", vh::fmt("SegmentedStringMatcher ~foo/b* then foo/b*: IsNegate()=%d Match(foo/bar)=%d Match(foo/qux)=%d", (int)m.IsNegate(), (int)m.Match("foo/bar", false), (int)m.Match("foo/qux", false)));
     SegmentedStringMatcher m2("x/y"); m2.SetNegate(true); (void)m2.SetPattern("x/y"); vh::stat("regress_checks"); if (m2.IsNegate() || !m2.Match("x/y", false)) vh::viol("regress|object-reuse", "SegmentedStringMatcher SetNegate(true) then SetPattern(x/y)");
     SegmentedStringMatcher m3("a:b*", true, ":"); (void)m3.SetPattern("a/b*"); vh::stat("regress_checks"); if (m3.GetSeparatorChars() != "/" || !m3.Match("a/bc", false) || m3.Match("a:bc", false)) vh::viol("regress|object-reuse", "SegmentedStringMatcher separators ':' then default");
     SegmentedStringMatcher m4("a(b/c"); (void)m4.SetPattern("a/c"); vh::stat("regress_checks"); if (!m4.Match("a/c", false) || m4.Match("a/d", false)) vh::viol("regress|object-reuse", "SegmentedStringMatcher rejected pattern then a/c");
     { SegmentedStringMatcherRef r1 = GetSegmentedStringMatcherFromPool("~p/q"); SegmentedStringMatcherRef keep = GetSegmentedStringMatcherFromPool(); r1.Reset(); SegmentedStringMatcherRef r2 = GetSegmentedStringMatcherFromPool("p/q"); vh::stat("regress_checks"); if (r2() == NULL || r2()->IsNegate() || !r2()->Match("p/q", false) || r2()->Match("p/r", false)) vh::viol("regress|object-reuse", "pooled SegmentedStringMatcher ~p/q, released, then p/q"); } }
   { StringMatcher m; (void)m.SetPattern("~a*"); (void)m.SetPattern("a*"); vh::stat("regress_checks"); if (m.IsNegate() || !m.Match("ab") || m.Match("xb")) vh::viol("regress|object-reuse", "StringMatcher ~a* then a*");
     StringMatcher r; (void)r.SetPattern("<1-3>"); (void)r.SetPattern("a*"); vh::stat("regress_checks"); if (r.Match("2") || !r.Match("ab") || r.ToString() != "a*") vh::viol("regress|object-reuse", "StringMatcher <1-3> then a*");
     StringMatcher r2; (void)r2.SetPattern("<1-3>"); (void)r2.SetPattern("a.b", false); vh::stat("regress_checks"); if (r2.Match("2") || !r2.Match("axb")) vh::viol("regress|object-reuse", "StringMatcher <1-3> then regex a.b (isSimple=false)");
     StringMatcher r3; (void)r3.SetPattern("<1-3>"); (void)r3.SetPattern(""); (void)r3.SetPattern("z*"); vh::stat("regress_checks"); if (r3.Match("2") || !r3.Match("zz")) vh::viol("regress|object-reuse", "StringMatcher <1-3>, empty pattern, z*");
     StringMatcher f; (void)f.SetPattern("a(b"); (void)f.SetPattern("ab"); vh::stat("regress_checks"); if (!f.Match("ab") || f.Match("a(b") || !f.IsPatternUnique()) vh::viol("regress|object-reuse", "StringMatcher rejected a(b then ab");
     StringMatcher x; (void)x.SetPattern("a.b", false); (void)x.SetPattern("a.b"); vh::stat("regress_checks"); if (x.Match("axb") || !x.Match("a.b") || !x.IsSimple()) vh::viol("regress|object-reuse", "StringMatcher regex a.b then simple a.b");
     StringMatcher n; (void)n.SetPattern("q"); n.SetNegate(true); (void)n.SetPattern("q"); vh::stat("regress_checks"); if (n.IsNegate() || !n.Match("q")) vh::viol("regress|object-reuse", "StringMatcher SetNegate(true) then SetPattern(q)");
     StringMatcher c1("~k*"); StringMatcher c2("<4-6>"); c1 = c2; vh::stat("regress_checks"); if (c1.IsNegate() || !c1.Match("5") || c1.Match("kk") || c1.Match("x")) vh::viol("regress|object-reuse", "StringMatcher ~k* assigned from <4-6>");
     StringMatcher c3("<4-6>"); StringMatcher c4("k*"); c3 = c4; vh::stat("regress_checks"); if (c3.Match("5") || !c3.Match("kk")) vh::viol("regress|object-reuse", "StringMatcher <4-6> assigned from k*");
     { StringMatcherRef keep = GetStringMatcherFromPool(); { StringMatcherRef p1 = GetStringMatcherFromPool("<1-3>"); } StringMatcherRef p2 = GetStringMatcherFromPool("a*"); vh::stat("regress_checks"); if (p2() == NULL || p2()->Match("2") || !p2()->Match("ab")) vh::viol("regress|object-reuse", "pooled StringMatcher <1-3>, released, then a*");
       { StringMatcherRef p3 = GetStringMatcherFromPool("~x"); } StringMatcherRef p4 = GetStringMatcherFromPool("y"); vh::stat("regress_checks"); if (p4() == NULL || p4()->IsNegate() || !p4()->Match("y") || p4()->Match("z")) vh::viol("regress|object-reuse", "pooled StringMatcher ~x, released, then y");
       { StringMatcherRef p5 = GetStringMatcherFromPool(); if (p5()) { (void)p5()->SetPattern("<7-9>"); } } StringMatcherRef p6 = GetStringMatcherFromPool(); if (p6()) { (void)p6()->SetPattern("b.c", false); vh::stat("regress_checks"); if (p6()->Match("8") || !p6()->Match("bxc")) vh::viol("regress|object-reuse", "pooled StringMatcher <7-9>, released, then regex b.c"); } } }
   vh::begin_case(5);   // the probe table of 55 edge patterns; -1 = outside the documented syntax (scope guards of DESIGN.md C15): run, not judged
   RX("edge-table", "<19-21>", " 20", 0); RX("edge-table", "<19-21>", "+20", 0); RX("edge-table", "<-5>", "3", 1); RX("edge-table", "<7->", "99999999999", -1); RX("edge-table", "<19-21,25>", "25", 1); RX("edge-table", "<19-21>", "", 0); RX("edge-table", "~<19-21>", "abc", 1);
   RX("edge-table", "a,b", "a", 1); RX("edge-table", "a,b", "b", 1); RX("edge-table", "a,b", "a,b", 0); RX("edge-table", "a,b", "ab", 0); RX("edge-table", "a\\,b", "a,b", 1); RX("edge-table", "a\\,b", "a", 0); RX("edge-table", "(a|b)c", "bc", 1); RX("edge-table", "(a|b)c", "abc", 0);
   RX("edge-table", "a(b", "a(b", -1); RX("edge-table", "[abc", "a", -1); RX("edge-table", "a]", "a]", -1); RX("edge-table", "a)", "a)", -1);
   RX("edge-table", "a.b", "a.b", 1); RX("edge-table", "a.b", "axb", 0); RX("edge-table", "a+b", "a+b", 1); RX("edge-table", "a+b", "aab", 0);
   RX("edge-table", "a$", "a$", -1); RX("edge-table", "a$", "a", -1); RX("edge-table", "^a", "a", -1); RX("edge-table", "^a", "^a", -1); RX("edge-table", "a{2}", "aa", -1); RX("edge-table", "a|b", "a", -1); RX("edge-table", "a|b", "a|b", -1);
   RX("edge-table", "?", "\xc3\xa9", 0); RX("edge-table", "??", "\xc3\xa9", 1); RX("edge-table", "[a-c]", "b", 1); RX("edge-table", "[a-c]", "d", 0); RX("edge-table", "[^a]", "b", -1); RX("edge-table", "[!a]", "b", -1);
   RX("edge-table", "~a*", "abc", 0); RX("edge-table", "~a*", "xbc", 1); RX("edge-table", "a~b", "a~b", 1); RX("edge-table", "\\~a", "~a", 1); RX("edge-table", "\\~a", "a", 0); RX("edge-table", "x<1-3>", "x<1-3>", 1); RX("edge-table", "\\<1-3>", "<1-3>", 1); RX("edge-table", "\\<1-3>", "2", 0);
   RX("edge-table", "", "", -1); RX("edge-table", "*", "", 1); RX("edge-table", "a**b", "ab", 1); RX("edge-table", "(a|)", "", 1); RX("edge-table", "a,", "a", 1); RX("edge-table", "a,", "", 1); RX("edge-table", ",a", "a", 1); RX("edge-table", ",", "", 1); RX("edge-table", ",", ",", 0); RX("edge-table", "a,,b", "b", 1); RX("edge-table", "a,,b", "", 1);
   RX("edge-table", "a\\", "a\\", -1); RX("edge-table", "a\\", "a", -1); RX("edge-table", "\\", "\\", -1); RX("edge-table", "[a\\]b]", "]", -1); RX("edge-table", "a b", "a b", 1); RX("edge-table", "a\tb", "a\tb", 1); RX("edge-table", "a\tb", "a b", 0);
   vh::distinct(1); vh::distinct(2); vh::distinct(3);
}

int main(int argc, char ** argv)
{
   CompleteSetupSystem css;
   vh::init(argc, argv);
   vh::Ctx & c = vh::ctx();
   const std::string mode = vh::opt("mode", "all");
   optPendingCaretFirst = vh::optl("pending_caretfirst", 0) != 0;
   if (mode == "regress") { Regress(); return vh::finish(); }
   for (long k = c.from; k < c.from + c.cases; k++) {
      vh::begin_case(k);
      std::string m = mode;
      if (m == "all") { const long r = k % 8; m = r < 4 ? "exact" : r < 6 ? "escape" : r == 6 ? "unique" : "path"; }
      if (m == "exact") { (void)CaseExact(k, vh::case_seed(c.seed, 1501, (uint64_t)k)); vh::stat("cases_exact"); }
      else if (m == "escape") { (void)CaseEscape(k, vh::case_seed(c.seed, 1502, (uint64_t)k)); vh::stat("cases_escape"); }
      else if (m == "unique") { (void)CaseUnique(k, vh::case_seed(c.seed, 1503, (uint64_t)k)); vh::stat("cases_unique"); }
      else if (m == "path") { (void)CasePath(k, vh::case_seed(c.seed, 1504, (uint64_t)k)); vh::stat("cases_path"); }
      else { fprintf(stderr, "h_wildcard: unknown mode %s\n", m.c_str()); return 3; }
   }
   return vh::finish();
}
