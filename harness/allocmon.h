// allocmon.h -- allocation monitor for the O(input) clauses (DESIGN.md 2.3; C02, usable by C07/C12/C14).
//
// ASan builds only (detected with __SANITIZE_ADDRESS__; elsewhere every call is a no-op and active() is false).
// Installs __sanitizer_install_malloc_and_free_hooks (present in g++ 12's libasan; g++ ships no header, so the
// interface functions are declared here) and keeps, per measured region,
//    peak_delta  = highest number of live heap bytes above the level at begin()
//    largest     = largest single request that the allocator granted
//    refused     = largest single request that the allocator REFUSED.  The hook is not called for those: the workers run
//                  with allocator_may_return_null=1:max_allocation_size_mb=256, so a giant request returns NULL at once and
//                  ASan prints "WARNING: AddressSanitizer failed to allocate 0x... bytes" to stderr.  bin/check gives every
//                  worker a regular file as stderr, so end() reads what was appended to fd 2 since begin() and parses
//                  those lines.  If stderr is not a regular file the refusals cannot be attributed (refusal_observable()).
//    allocs      = number of granted requests
// Usage:   allocmon::install();  ...  allocmon::begin();  <code under test>;  allocmon::Result r = allocmon::end();
//          r.worst() = max(peak_delta, largest, refused)
// The hooks never allocate.  Do not call vh::stat / vh::viol (they allocate) inside a measured region if the region's
// numbers matter -- measure the call under test only.
#ifndef VERIF_ALLOCMON_H
#define VERIF_ALLOCMON_H
#include <cstddef>
#include <cstdint>
#include <cstdlib>
#include <cstring>
#include <cstdio>
#include <unistd.h>
#include <fcntl.h>
#include <sys/stat.h>

#if defined(__SANITIZE_ADDRESS__)
# define ALLOCMON_ACTIVE 1
extern "C" {
   int __sanitizer_install_malloc_and_free_hooks(void (*malloc_hook)(const volatile void *, size_t), void (*free_hook)(const volatile void *));
   size_t __sanitizer_get_allocated_size(const volatile void * p);
   int __sanitizer_get_ownership(const volatile void * p);
}
#else
# define ALLOCMON_ACTIVE 0
#endif

namespace allocmon {

struct Result {
   size_t peak_delta, largest, refused; long allocs; bool refusal_observable;
   Result() : peak_delta(0), largest(0), refused(0), allocs(0), refusal_observable(false) {}
   size_t worst() const { size_t w = peak_delta; if (largest > w) w = largest; if (refused > w) w = refused; return w; }
};

struct State {
   volatile long long live, peak, base; volatile size_t largest; volatile long allocs; volatile bool measuring; bool installed; off_t errOff; bool errIsFile;
};
static inline State & st() { static State s; return s; }

#if ALLOCMON_ACTIVE
static void MallocHook(const volatile void * p, size_t n)
{
   State & s = st(); (void)p;
   long long l = __atomic_add_fetch(&s.live, (long long)n, __ATOMIC_RELAXED);
   if (s.measuring) { if (l > s.peak) s.peak = l; if (n > s.largest) s.largest = n; s.allocs++; }
}
static void FreeHook(const volatile void * p)
{
   if (p == NULL) return;
   State & s = st();
   size_t n = __sanitizer_get_ownership(p) ? __sanitizer_get_allocated_size(p) : 0;
   __atomic_sub_fetch(&s.live, (long long)n, __ATOMIC_RELAXED);
}
#endif

static inline bool active() { return ALLOCMON_ACTIVE != 0 && st().installed; }

static inline void install()
{
#if ALLOCMON_ACTIVE
   State & s = st();
   if (s.installed) return;
   struct stat sb; s.errIsFile = (fstat(2, &sb) == 0 && S_ISREG(sb.st_mode));
   if (__sanitizer_install_malloc_and_free_hooks(MallocHook, FreeHook) == 0) { fprintf(stderr, "HARNESS-ABORT: allocmon: the sanitizer runtime refused the malloc/free hooks\n"); abort(); }
   s.installed = true;
#endif
}

static inline off_t StderrSize() { struct stat sb; if (fstat(2, &sb) != 0 || !S_ISREG(sb.st_mode)) return -1; return sb.st_size; }

static inline void begin()
{
#if ALLOCMON_ACTIVE
   State & s = st(); if (!s.installed) return;
   s.errOff = s.errIsFile ? StderrSize() : -1;
   s.base = s.live; s.peak = s.live; s.largest = 0; s.allocs = 0; s.measuring = true;
#endif
}

// largest "failed to allocate 0x... bytes" request appended to stderr since offset 'from' (0 if none / not observable)
static inline size_t LargestRefusalSince(off_t from)
{
   size_t best = 0;
#if ALLOCMON_ACTIVE
   off_t now = StderrSize(); if (from < 0 || now <= from) return 0;
   int fd = open("/proc/self/fd/2", O_RDONLY); if (fd < 0) return 0;
   char buf[8192]; off_t pos = from; std::size_t carry = 0;
   while (pos < now) {
      ssize_t n = pread(fd, buf + carry, sizeof(buf) - 1 - carry, pos); if (n <= 0) break;
      pos += n; size_t len = carry + (size_t)n; buf[len] = 0;
      const char * p = buf; const char * const key = "failed to allocate 0x";
      while ((p = (const char *)memmem(p, len - (size_t)(p - buf), key, 21)) != NULL) { p += 21; unsigned long long v = strtoull(p, NULL, 16); if (v > best) best = (size_t)v; }
      carry = len < 48 ? len : 48; memmove(buf, buf + len - carry, carry);   // a line cut at the chunk border is seen again with the next chunk
   }
   close(fd);
#else
   (void)from;
#endif
   return best;
}

static inline Result end()
{
   Result r;
#if ALLOCMON_ACTIVE
   State & s = st(); if (!s.installed) return r;
   s.measuring = false;
   r.peak_delta = s.peak > s.base ? (size_t)(s.peak - s.base) : 0; r.largest = s.largest; r.allocs = s.allocs;
   r.refusal_observable = s.errIsFile && s.errOff >= 0;
   if (r.refusal_observable) r.refused = LargestRefusalSince(s.errOff);
#endif
   return r;
}

static inline long long live_bytes() { return st().live; }   // relative to the moment of install()

}  // namespace allocmon
#endif
