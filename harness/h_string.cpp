// h_string -- C17: muscle::String against std::string across the small-buffer boundary.
// One case = one history of 40..300 operations on 1..3 live String objects (each with a std::string model),
// audited after every operation; operands are frequently aliases of the subject (the String itself, s()+k
// pointers into its own buffer, substrings of itself, another live object) and the model always works with a
// detached copy of the operand's value.  Operand lengths concentrate on cap-2..cap+2 (cap = inline capacity).
// modes (--opt mode=): model (default) | regress (fixed witnesses F18 F28 F29 + documentation examples)
#include "util/String.h"
#include "util/Hashtable.h"
#include "system/SetupSystem.h"
#include <string>
#include <vector>
#include <set>
#include <algorithm>
#include "vh.h"
using namespace muscle;

static vh::Rng g(1);
static uint32_t R(uint32_t n) { return g.R(n); }
static const uint32 CAP = String::GetMaxShortStringLength();   // 15 on LP64 (7 with 32-bit pointers)
static const uint32 NOLIM = MUSCLE_NO_LIMIT;

// ------------------------------------------------------------------ reporting
static std::vector<std::string> trace;
static bool caseBad;
static std::string opname;

static std::string Q(const std::string & s, size_t maxShow = 70)
{
   std::string o = "'";
   for (size_t i = 0; i < s.size() && i < maxShow; i++) { unsigned char c = (unsigned char)s[i]; if (c >= 0x20 && c < 0x7f && c != '\'' && c != '\\') o += (char)c; else o += vh::fmt("\\x%02x", c); }
   o += "'"; if (s.size() > maxShow) o += vh::fmt("...(%zu)", s.size());
   return o;
}
static void Fail(const std::string & what)
{
   if (caseBad) return;
   caseBad = true;
   std::string d = what + " | cap=" + vh::fmt("%u", CAP) + " | last ops: ";
   size_t from = trace.size() > 30 ? trace.size() - 30 : 0;
   for (size_t i = from; i < trace.size(); i++) { d += trace[i]; d += "; "; }
   std::string key = opname; size_t sp = key.find(' '); if (sp != std::string::npos) key.resize(sp);
   vh::viol("model|" + key, d);
}
#define OP(...) do { opname = vh::fmt(__VA_ARGS__); trace.push_back(vh::fmt("[%d]", si) + opname); vh::stat(std::string("op_") + std::string(opname, 0, opname.find(' '))); } while (0)

static bool SameS(const String & got, const std::string & want) { uint32 n = got.Length(); return n == want.size() && got()[n] == 0 && strlen(got()) == n && memcmp(got(), want.data(), n) == 0; }
static void EqS(const String & got, const std::string & want, const char * what)
{
   if (caseBad) return;
   if (!SameS(got, want)) Fail(vh::fmt("%s: got %s (Length %u) want %s", what, Q(std::string(got(), strnlen(got(), 4000))).c_str(), got.Length(), Q(want).c_str()));
}
static void EqI(long got, long want, const char * what) { if (!caseBad && got != want) Fail(vh::fmt("%s: got %ld want %ld", what, got, want)); }
static void Ok(const status_t & r, const char * what) { if (!caseBad && r.IsError()) Fail(vh::fmt("%s returned error %s", what, r())); }
static int Sgn(long v) { return (v > 0) - (v < 0); }

// ------------------------------------------------------------------ generators
static int flavour;
static const char * const MB[] = {"\xc3\xa9", "\xe2\x82\xac", "\xf0\x9f\x98\x80", "\xc3\x9f", "\xce\xa9", "\xe4\xb8\xad"};
static const int W[4][8] = {   // lower a-d, a/b, space, upper, high byte, digit, multi-byte, special
   {55, 0, 8, 9, 7, 8, 8, 5}, {5, 72, 4, 6, 3, 4, 3, 3}, {35, 0, 8, 7, 15, 5, 28, 2}, {25, 10, 10, 15, 3, 12, 3, 22}};
static void AddChars(std::string & s, uint32 room)
{
   uint32 k = R(100); int cls = 0; for (; cls < 7; cls++) { if (k < (uint32)W[flavour][cls]) break; k -= W[flavour][cls]; }
   switch (cls) {
   case 0: s += (char)('a' + R(4)); break;
   case 1: s += (char)('a' + R(2)); break;
   case 2: s += (R(6) == 0) ? (R(2) ? '\t' : '\n') : ' '; break;
   case 3: s += (char)('A' + R(flavour == 1 ? 2 : 4)); break;
   case 4: s += (char)(0x80 + R(128)); break;
   case 5: s += (char)('0' + R(10)); break;
   case 6: { const char * m = MB[R(6)]; size_t n = strlen(m); if (n > room) n = room; s.append(m, n); } break;   // may be cut: bytes are bytes
   default: { static const char sp[] = "%\\-.,\r_~"; s += sp[R(sizeof(sp) - 1)]; } break;
   }
}
static std::string GenStr(uint32 n) { std::string s; while (s.size() < n) AddChars(s, n - (uint32)s.size()); return s; }
static char GenChar() { std::string s; AddChars(s, 1); return s[0]; }
static std::string GenAB(uint32 n) { std::string s; for (uint32 i = 0; i < n; i++) s += (char)('a' + R(2)); return s; }
static uint32 BoundaryLen()
{
   static const uint32 mult[] = {1, 1, 1, 1, 2, 2, 4};
   uint32 m = mult[R(7)]; uint32 c = CAP * m + (m > 1 ? R(m + 1) : 0);   // 15 | 30..32 | 60..64
   int d = (int)R(5) - 2; return (uint32)((int)c + d);
}
static uint32 GenLen(uint32 cur)
{
   uint32 k = R(100);
   if (k < 30) { uint32 t = BoundaryLen(); return t > cur ? t - cur : R(3); }   // lands the total on a boundary
   if (k < 58) return BoundaryLen();
   if (k < 82) return R(5);
   if (k < 97) return R(50);
   return 60 + R(140);
}
static char Flip(char c) { if (c >= 'a' && c <= 'z') return (char)(c - 32); if (c >= 'A' && c <= 'Z') return (char)(c + 32); return c; }
// operand content related to the subject's current value m
static std::string Content(const std::string & m)
{
   uint32 k = R(100);
   if (k < 38) return GenStr(GenLen((uint32)m.size()));
   if (k < 64 && !m.empty()) { uint32 a = R((uint32)m.size()), n = R(3) ? 1 + R(4) : R((uint32)m.size() + 1); return m.substr(a, n); }
   if (k < 72) return m;
   if (k < 82 && !m.empty()) { uint32 a = R((uint32)m.size()), n = 1 + R(5); std::string t = m.substr(a, n); for (size_t i = 0; i < t.size(); i++) if (R(2)) t[i] = Flip(t[i]); return t; }
   if (k < 90) return GenStr(1 + R(2));
   return GenStr(BoundaryLen());
}
struct CBuf {   // exact-size heap copy, so that an over-read of the operand is seen by ASan/memcheck
   char * p; CBuf() : p(NULL) {} ~CBuf() { free(p); }
   const char * set(const std::string & v) { free(p); p = (char *)malloc(v.size() + 1); memcpy(p, v.data(), v.size()); p[v.size()] = 0; return p; }
};

// ------------------------------------------------------------------ reference semantics (from the doc comments)
static char lc(char c) { return (c >= 'A' && c <= 'Z') ? (char)(c + 32) : c; }
static char ucc(char c) { return (c >= 'a' && c <= 'z') ? (char)(c - 32) : c; }
static std::string lower(std::string s) { for (size_t i = 0; i < s.size(); i++) s[i] = lc(s[i]); return s; }
static std::string upper(std::string s) { for (size_t i = 0; i < s.size(); i++) s[i] = ucc(s[i]); return s; }
static bool isws(char c) { return c == ' ' || c == '\t' || c == '\r' || c == '\n'; }
static bool isdig(char c) { return c >= '0' && c <= '9'; }
static std::string rSub(const std::string & m, uint32 b, uint32 e) { if (e > m.size()) e = (uint32)m.size(); return e > b ? m.substr(b, e - b) : std::string(); }
static std::string rTrim(const std::string & m) { size_t b = 0; while (b < m.size() && isws(m[b])) b++; size_t e = m.size(); while (e > b && isws(m[e - 1])) e--; return m.substr(b, e - b); }
static std::string rInsert(const std::string & m, uint32 idx, const std::string & a, uint32 maxc) { std::string o = m; o.insert(std::min((size_t)idx, m.size()), a.substr(0, std::min((size_t)maxc, a.size()))); return o; }
static std::string rRemoveLast(const std::string & m, const std::string & a) { std::string o = m; if (!a.empty()) { size_t f = o.rfind(a); if (f != std::string::npos) o.erase(f, a.size()); } return o; }
static std::string rReplN(const std::string & s, const std::string & from, const std::string & to, uint32 maxc, uint32 fromIdx, long * cnt)
{
   size_t p = std::min((size_t)fromIdx, s.size()); std::string o = s.substr(0, p); long c = 0;
   while (p < s.size()) { if ((uint32)c < maxc && !from.empty() && s.compare(p, from.size(), from) == 0) { o += to; p += from.size(); c++; } else o.push_back(s[p++]); }
   if (cnt) *cnt = c; return o;
}
static std::string rReplChar(const std::string & s, char c1, char c2, uint32 maxc, uint32 fromIdx, long * cnt)
{
   std::string w = s; long c = 0; for (size_t i = std::min((size_t)fromIdx, w.size()); i < w.size(); i++) if (w[i] == c1 && (uint32)c < maxc) { w[i] = c2; c++; }
   if (cnt) *cnt = c; return w;
}
typedef std::vector<std::pair<std::string, std::string> > Table;
static std::string rReplTable(const std::string & s, const Table & v, uint32 maxc, long * cnt)
{
   std::string o; size_t p = 0; long c = 0;
   while (p < s.size()) { bool hit = false; if ((uint32)c < maxc) for (size_t i = 0; i < v.size(); i++) if (s.compare(p, v[i].first.size(), v[i].first) == 0) { o += v[i].second; p += v[i].first.size(); c++; hit = true; break; } if (!hit) o.push_back(s[p++]); }
   if (cnt) *cnt = c; return o;
}
static long rCount(const std::string & s, const std::string & a, uint32 from, bool overlapping)
{
   long c = 0; size_t p = from; if (a.empty()) return 0; while (p <= s.size() && (p = s.find(a, p)) != std::string::npos) { c++; p += overlapping ? 1 : a.size(); } return c;
}
static uint32 rLev(const std::string & a, const std::string & b)
{
   std::vector<uint32> prev(b.size() + 1), cur(b.size() + 1); for (size_t j = 0; j <= b.size(); j++) prev[j] = (uint32)j;
   for (size_t i = 1; i <= a.size(); i++) { cur[0] = (uint32)i; for (size_t j = 1; j <= b.size(); j++) cur[j] = std::min(std::min(prev[j] + 1, cur[j - 1] + 1), prev[j - 1] + (a[i - 1] == b[j - 1] ? 0 : 1)); prev.swap(cur); }
   return prev[b.size()];
}
// Arg(): replaces every token %N whose number is the lowest present.  false = outside the defined repertoire.
static bool rArg(const std::string & m, const std::string & v, std::string & out, size_t & distinctNums)
{
   std::set<long> nums; size_t i = 0;
   while (i < m.size()) { if (m[i] == '%' && i + 1 < m.size() && isdig(m[i + 1])) { size_t q = i + 1; while (q < m.size() && isdig(m[q])) q++; size_t nd = q - i - 1; if ((m[i + 1] == '0' && nd > 1) || nd > 4) return false; nums.insert(atol(m.substr(i + 1, nd).c_str())); i = q; } else i++; }
   distinctNums = nums.size(); out.clear();
   if (nums.empty()) { out = m; return true; }
   long lowest = *nums.begin(); i = 0;
   while (i < m.size()) { if (m[i] == '%' && i + 1 < m.size() && isdig(m[i + 1])) { size_t q = i + 1; while (q < m.size() && isdig(m[q])) q++; if (atol(m.substr(i + 1, q - i - 1).c_str()) == lowest) out += v; else out += m.substr(i, q - i); i = q; } else out.push_back(m[i++]); }
   return true;
}
static bool ArgValueOk(const std::string & v) { for (size_t i = 0; i < v.size(); i++) if (v[i] == '%' || isdig(v[i])) return false; return true; }

// ------------------------------------------------------------------ live objects
struct Obj { String * s; std::string m; };
static std::vector<Obj> L;
static bool IsInline(const String & s) { const char * p = s(); return p >= (const char *)&s && p < (const char *)(&s + 1); }

static void Audit(size_t i)
{
   if (caseBad) return;
   const String & s = *L[i].s; const std::string & m = L[i].m; vh::stat("audits");
   uint32 len = s.Length();
   if (len != m.size()) { Fail(vh::fmt("object %zu: Length() %u, model %zu (model %s)", i, len, m.size(), Q(m).c_str())); return; }
   const char * p = s();
   if (p[len] != 0) { Fail(vh::fmt("object %zu: Cstr()[Length()] is 0x%02x, not NUL (model %s)", i, (unsigned char)p[len], Q(m).c_str())); return; }
   size_t sl = strlen(p); if (sl != len) { Fail(vh::fmt("object %zu: strlen %zu != Length() %u (model %s)", i, sl, len, Q(m).c_str())); return; }
   if (memcmp(p, m.data(), len) != 0) { Fail(vh::fmt("object %zu: content %s, model %s", i, Q(std::string(p, len)).c_str(), Q(m).c_str())); return; }
   if (s.GetNumAllocatedBytes() < len + 1) { Fail(vh::fmt("object %zu: GetNumAllocatedBytes() %u < Length()+1", i, s.GetNumAllocatedBytes())); return; }
   if (len > CAP && IsInline(s)) { Fail(vh::fmt("object %zu: %u characters reported to live in the inline buffer", i, len)); return; }
}
static void FlattenAudit(size_t i)
{
   if (caseBad) return;
   const String & s = *L[i].s; const std::string & m = L[i].m; vh::stat("flatten_audits");
   uint32 fs = s.FlattenedSize(); if (fs != m.size() + 1) { Fail(vh::fmt("FlattenedSize() %u, want %zu", fs, m.size() + 1)); return; }
   uint8 * buf = (uint8 *)malloc(fs); memset(buf, 0xEE, fs);
   s.FlattenToBytes(buf, fs);
   if (buf[fs - 1] != 0 || memcmp(buf, m.data(), m.size()) != 0) Fail(vh::fmt("flattened bytes %s, want %s + NUL", vh::hex(buf, fs, 80).c_str(), vh::hex(m.data(), m.size(), 80).c_str()));
   String t; if (R(2)) t = "previous content that is longer than cap";
   status_t r = t.UnflattenFromBytes(buf, fs);
   if (r.IsError()) Fail(vh::fmt("Unflatten of own flattened bytes failed: %s", r())); else if (!SameS(t, m) || !(t == s)) Fail(vh::fmt("Unflatten gives %s, want %s", Q(t()).c_str(), Q(m).c_str()));
   if (fs > 1) {   // unterminated input must be rejected (exact-size heap copy without the NUL)
      uint8 * cut = (uint8 *)malloc(fs - 1); memcpy(cut, buf, fs - 1); String u;
      if (u.UnflattenFromBytes(cut, fs - 1).IsOK()) Fail(vh::fmt("Unflatten accepted %u unterminated bytes %s", fs - 1, vh::hex(cut, fs - 1, 60).c_str()));
      free(cut); vh::stat("unterminated_rejected");
   }
   free(buf);
}

#define S (*L[si].s)
#define M (L[si].m)
enum { NUM_OPS = 96 };

static void RunCase(long k, uint64_t cs)
{
   g = vh::Rng(cs); trace.clear(); caseBad = false; L.clear(); opname = "setup";
   { uint32 f = R(100); flavour = f < 40 ? 0 : f < 65 ? 1 : f < 85 ? 2 : 3; }
   const bool big = (R(40) == 0);
   const size_t maxGrow = big ? 9000 : 400;
   const uint32 nobj = 1 + R(3);
   for (uint32 i = 0; i < nobj; i++) { Obj o; o.m = R(2) ? GenStr(GenLen(0)) : std::string(); o.s = new String(o.m.c_str()); L.push_back(o); }
   const uint32 nops = 40 + R(261);
   long i2h = 0, h2i = 0, aliasOps = 0, atCap = 0; uint32 maxLen = 0; int si = 0; bool rebuilt = false;

   // ---- operands.  val always receives a detached copy of the operand's value, taken before the operation
   auto Other = [&]() -> int { int j = (int)R((uint32)L.size() - 1); return j >= si ? j + 1 : j; };
   auto CArg = [&](std::string & val, CBuf & buf, bool allowNull) -> const char * {
      uint32 c = R(100);
      if (c < 40) { val = Content(M); return buf.set(val); }
      if (c < 78) { uint32 off = M.size() ? R((uint32)M.size() + 1) : 0; if (R(4) == 0 && M.size() > 2) off = (uint32)M.size() - R(3); val = M.substr(off); aliasOps++; vh::stat("alias_own_pointer"); return S() + off; }
      if (c < 88 && L.size() > 1) { int j = Other(); uint32 off = L[j].m.size() ? R((uint32)L[j].m.size() + 1) : 0; val = L[j].m.substr(off); vh::stat("arg_other_object_pointer"); return (*L[j].s)() + off; }
      if (c < 92 && allowNull) { val.clear(); vh::stat("arg_null_pointer"); return NULL; }
      val = Content(M); return buf.set(val);
   };
   auto SArg = [&](std::string & val, String & tmp) -> const String & {
      uint32 c = R(100);
      if (c < 40) { val = Content(M); tmp = val.c_str(); if (R(4) == 0) (void)tmp.Prealloc(GenLen(0)); return tmp; }
      if (c < 70) { val = M; aliasOps++; vh::stat("alias_self"); return S; }
      if (c < 84 && L.size() > 1) { int j = Other(); val = L[j].m; vh::stat("arg_other_object"); return *L[j].s; }
      { uint32 a = R((uint32)M.size() + 1), b = R((uint32)M.size() + 2); if (a > b) std::swap(a, b); val = rSub(M, a, b); (void)tmp.SetFromString(S, a, b); aliasOps++; vh::stat("alias_substring_of_self"); return tmp; }
   };
   // a String-valued result: compared, and often assigned back to the subject (copy or move)
   auto Res = [&](const String & r, const std::string & wantRef, const char * what) {
      std::string want = wantRef; EqS(r, want, what); if (caseBad || want.size() > maxGrow) return;
      uint32 c = R(4);
      if (c == 0) { S = r; M = want; vh::stat("result_copied_back"); } else if (c == 1) { String t(r); S = std::move(t); M = want; vh::stat("result_moved_back"); }
   };
   auto Pos = [&]() -> uint32 { return R(12) == 0 ? NOLIM : R((uint32)M.size() + 3); };
   auto Cnt = [&]() -> uint32 { return R(4) == 0 ? NOLIM : R(4); };

   for (uint32 it = 0; it < nops && !caseBad; it++) {
      si = (int)R((uint32)L.size()); rebuilt = false;
      bool inl[3]; for (size_t j = 0; j < L.size(); j++) inl[j] = IsInline(*L[j].s);
      int o = (int)R(NUM_OPS);
      if (M.size() > (big ? 6000u : 70u) && R(3) == 0) { static const int shrink[] = {0, 2, 3, 60, 61, 63, 64}; o = shrink[R(7)]; }
      switch (o) {
      // ---------------- assignment, construction, move, swap
      case 0: { CBuf b; std::string v; const char * p = CArg(v, b, true); OP("assign_cstr %s", Q(v, 24).c_str()); S = p; M = v; } break;
      case 1: { String t; std::string v; const String & a = SArg(v, t); OP("assign_String %s", Q(v, 24).c_str()); S = a; M = v; } break;
      case 2: { CBuf b; std::string v; const char * p = CArg(v, b, true); uint32 n = R(4) == 0 ? NOLIM : (R(2) ? R((uint32)v.size() + 3) : BoundaryLen()); OP("SetCstr max=%u of %s", n, Q(v, 24).c_str()); Ok(S.SetCstr(p, n), "SetCstr"); M = v.substr(0, std::min((size_t)n, v.size())); } break;
      case 3: { String t; std::string v; const String & a = SArg(v, t); uint32 b0 = R((uint32)v.size() + 3), e0 = R(3) == 0 ? NOLIM : R((uint32)v.size() + 3); OP("SetFromString %u %u of %s", b0, e0, Q(v, 24).c_str()); Ok(S.SetFromString(a, b0, e0), "SetFromString"); M = rSub(v, b0, e0); } break;
      case 4: { String t; std::string v; const String & a = SArg(v, t); uint32 b0 = R((uint32)v.size() + 3), e0 = R(3) == 0 ? NOLIM : R((uint32)v.size() + 3), n = R(3) == 0 ? NOLIM : R((uint32)v.size() + 3); int f = (int)R(5); OP("ctor form=%d %u %u of %s", f, b0, e0, Q(v, 24).c_str());
                switch (f) {
                case 0: { String r(a, b0, e0); Res(r, rSub(v, b0, e0), "String(str,begin,end)"); } break;
                case 1: { String r(a); Res(r, v, "copy constructor"); } break;
                case 2: { String r(a, PreallocatedItemSlotsCount(GenLen((uint32)v.size()))); Res(r, v, "String(str,prealloc)"); } break;
                case 3: { CBuf cb; String r(cb.set(v), n); Res(r, v.substr(0, std::min((size_t)n, v.size())), "String(cstr,maxLen)"); } break;
                default: { CBuf cb; String r(PreallocatedItemSlotsCount(GenLen(0)), cb.set(v), n); Res(r, v.substr(0, std::min((size_t)n, v.size())), "String(prealloc,cstr,maxLen)"); } break;
                } } break;
      case 5: { OP("rebuild"); delete L[si].s; L[si].s = R(2) ? new String(M.c_str()) : new String(PreallocatedItemSlotsCount(GenLen(0)), M.c_str()); rebuilt = true; } break;
      case 6: { OP("move_roundtrip"); String t(std::move(S)); EqS(t, M, "move-constructed copy"); if (S()[S.Length()] != 0 || strlen(S()) != S.Length()) Fail("moved-from String is not a valid string"); if (R(2)) S = std::move(t); else { String u; u = std::move(t); S.SwapContents(u); } } break;
      case 7: { if (L.size() > 1 && R(2)) { int oj = Other(); OP("SwapContents with [%d]", oj); S.SwapContents(*L[oj].s); M.swap(L[oj].m); }
                else if (R(8) == 0) { OP("SwapContents self"); S.SwapContents(S); }
                else { std::string v = Content(M); String t(v.c_str()); if (R(3) == 0) (void)t.Prealloc(GenLen(0)); OP("SwapContents tmp %s", Q(v, 24).c_str()); S.SwapContents(t); EqS(t, M, "swapped-out value"); M = v; } } break;
      // ---------------- append, insert, remove
      case 8: case 9: { CBuf b; std::string v; const char * p = CArg(v, b, true); if (M.size() + v.size() > maxGrow) break; OP("+=cstr %s", Q(v, 24).c_str()); S += p; M += v; } break;
      case 10: case 11: { String t; std::string v; const String & a = SArg(v, t); if (M.size() + v.size() > maxGrow) break; OP("+=String %s", Q(v, 24).c_str()); S += a; M += v; } break;
      case 12: { char c = GenChar(); OP("+=char %02x", (unsigned char)c); S += c; M += c; } break;
      case 13: { int f = (int)R(6); std::string add; if (M.size() > maxGrow) break;
                if (f == 0) { CBuf b; std::string v; const char * p = CArg(v, b, true); if (v.size() > maxGrow) break; OP("<<cstr %s", Q(v, 24).c_str()); S << p; add = v; }
                else if (f == 1) { String t; std::string v; const String & a = SArg(v, t); if (v.size() > maxGrow) break; OP("<<String %s", Q(v, 24).c_str()); S << a; add = v; }
                else if (f == 2) { int iv = R(3) == 0 ? -(int)R(1000) : (int)R(R(2) ? 100 : 1000000); OP("<<int %d", iv); S << iv; add = vh::fmt("%d", iv); }
                else if (f == 3) { bool bv = R(2); OP("<<bool %d", (int)bv); S << bv; add = bv ? "true" : "false"; }
                else if (f == 4) { float fv = (float)R(4000) / 4.0f - 100.0f; OP("<<float %.2f", (double)fv); S << fv; add = vh::fmt("%.2f", (double)fv); }
                else { OP("<<chain"); S << "x" << 7 << true << String("y"); add = "x7truey"; }
                M += add; } break;
      case 14: { CBuf b; std::string v; const char * p = CArg(v, b, true); OP("-=cstr %s", Q(v, 24).c_str()); S -= p; M = rRemoveLast(M, v); } break;
      case 15: { String t; std::string v; const String & a = SArg(v, t); OP("-=String %s", Q(v, 24).c_str()); S -= a; M = rRemoveLast(M, v); } break;
      case 16: { char c = (M.size() && R(3)) ? M[R((uint32)M.size())] : GenChar(); OP("-=char %02x", (unsigned char)c); S -= c; M = rRemoveLast(M, std::string(1, c)); } break;
      case 17: case 18: { CBuf b; std::string v; const char * p = CArg(v, b, true); uint32 at = Pos(), n = R(3) == 0 ? NOLIM : R((uint32)v.size() + 3); if (M.size() + v.size() > maxGrow) break; OP("InsertChars at=%u max=%u %s", at, n, Q(v, 24).c_str()); Ok(S.InsertChars(at, p, n), "InsertChars"); M = rInsert(M, at, v, n); } break;
      case 19: { CBuf b; std::string v; const char * p = CArg(v, b, true); uint32 n = R(3) == 0 ? NOLIM : R((uint32)v.size() + 3); if (M.size() + v.size() > maxGrow) break; bool pre = R(2); OP(pre ? "PrependChars max=%u %s" : "AppendChars max=%u %s", n, Q(v, 24).c_str()); Ok(pre ? S.PrependChars(p, n) : S.AppendChars(p, n), "Prepend/AppendChars"); M = rInsert(M, pre ? 0 : NOLIM, v, n); } break;
      case 20: { if (R(2)) { OP("op++"); S++; M += ' '; } else { OP("op--"); S--; if (M.size()) M.resize(M.size() - 1); } } break;
      case 21: { String t; std::string v, w; const String & a = SArg(v, t); CBuf b; const char * p = CArg(w, b, true); char c = GenChar(); int f = (int)R(6); if (M.size() + v.size() + w.size() > maxGrow) break; OP("operator+ form=%d %s %s", f, Q(v, 16).c_str(), Q(w, 16).c_str());
                switch (f) {
                case 0: { String r = S + a; Res(r, M + v, "String+String"); } break;
                case 1: { String r = S + p; Res(r, M + w, "String+cstr"); } break;
                case 2: { String r = p + S; Res(r, w + M, "cstr+String"); } break;
                case 3: { String r = S + c; Res(r, M + c, "String+char"); } break;
                case 4: { String r = c + S; Res(r, c + M, "char+String"); } break;
                default: { String r = a + S; Res(r, v + M, "String+String (subject on the right)"); } break;
                } } break;
      case 22: { String t; std::string v, w; const String & a = SArg(v, t); CBuf b; const char * p = CArg(w, b, true); char c = (M.size() && R(2)) ? M[R((uint32)M.size())] : GenChar(); int f = (int)R(5); OP("operator- form=%d %s %s", f, Q(v, 16).c_str(), Q(w, 16).c_str());
                switch (f) {
                case 0: { String r = S - a; Res(r, rRemoveLast(M, v), "String-String"); } break;
                case 1: { String r = S - p; Res(r, rRemoveLast(M, w), "String-cstr"); } break;
                case 2: { String r = p - S; Res(r, rRemoveLast(w, M), "cstr-String"); } break;
                case 3: { String r = S - c; Res(r, rRemoveLast(M, std::string(1, c)), "String-char"); } break;
                default: { String r = c - S; Res(r, rRemoveLast(std::string(1, c), M), "char-String"); } break;
                } } break;
      // ---------------- substrings, case, trim, insert/pad forms returning a new String
      case 23: case 24: { uint32 b0 = Pos(), e0 = Pos(); if (R(2)) { OP("Substring b=%u", b0); Res(S.Substring(b0), rSub(M, b0, NOLIM), "Substring(begin)"); } else { OP("Substring b=%u e=%u", b0, e0); Res(S.Substring(b0, e0), rSub(M, b0, e0), "Substring(begin,end)"); } } break;
      case 25: case 26: { String t; std::string v; CBuf cb; bool viaC = R(2); const char * p = NULL; const String * a = NULL; if (viaC) p = CArg(v, cb, false); else a = &SArg(v, t);
                bool withBegin = R(2); uint32 b0 = R((uint32)M.size() + 2); OP(withBegin ? "Substring_begin_marker b=%u %s" : "Substring_marker%.0u %s", withBegin ? b0 : 0, Q(v, 24).c_str());
                if (v.empty()) { vh::stat("unspecified_empty_needle"); String r = withBegin ? (viaC ? S.Substring(b0, p) : S.Substring(b0, *a)) : (viaC ? S.Substring(p) : S.Substring(*a)); (void)r; break; }
                if (withBegin) { std::string want; if (b0 <= M.size()) { size_t f = M.find(v, b0); want = f == std::string::npos ? M.substr(b0) : M.substr(b0, f - b0); if (f != std::string::npos) vh::stat("marker_found"); } Res(viaC ? S.Substring(b0, p) : S.Substring(b0, *a), want, "Substring(begin,marker)"); }
                else { size_t f = M.rfind(v); if (f != std::string::npos) vh::stat("marker_found"); Res(viaC ? S.Substring(p) : S.Substring(*a), f == std::string::npos ? M : M.substr(f + v.size()), "Substring(marker)"); } } break;
      case 27: { int f = (int)R(4); OP(f == 0 ? "ToLowerCase" : f == 1 ? "ToUpperCase" : f == 2 ? "ToMixedCase" : "Trimmed");
                if (f == 0) Res(S.ToLowerCase(), lower(M), "ToLowerCase"); else if (f == 1) Res(S.ToUpperCase(), upper(M), "ToUpperCase"); else if (f == 3) Res(S.Trimmed(), rTrim(M), "Trimmed");
                else { bool plain = true; for (size_t i = 0; i < M.size(); i++) if (isdig(M[i]) || (unsigned char)M[i] >= 0x80) plain = false;
                       std::string w = M; bool prev = false; for (size_t i = 0; i < w.size(); i++) { char c = w[i]; bool letter = (c >= 'a' && c <= 'z') || (c >= 'A' && c <= 'Z') || isdig(c); w[i] = prev ? lc(c) : ucc(c); prev = letter; }
                       if (plain) Res(S.ToMixedCase(), w, "ToMixedCase"); else { vh::stat("unspecified_mixedcase_digits_or_nonascii"); String r = S.ToMixedCase(); if (lower(std::string(r())) != lower(M) || r.Length() != M.size()) Fail("ToMixedCase changed more than letter case"); } } } break;
      case 28: case 29: { int where = (int)R(3), kind = (int)R(3); uint32 at = where == 0 ? 0 : where == 1 ? NOLIM : Pos();
                if (kind == 2) { char c = GenChar(); uint32 n = R(3) == 0 ? GenLen((uint32)M.size()) : R(4); if (M.size() + n > maxGrow) break; OP("WithInsert_char where=%d at=%u count=%u", where, at, n); std::string w = M; w.insert(std::min((size_t)at, M.size()), n, c);
                                 Res(where == 0 ? S.WithPrepend(c, n) : where == 1 ? S.WithAppend(c, n) : S.WithInsert(at, c, n), w, "WithPrepend/Append/Insert(char,count)"); break; }
                String t; std::string v; CBuf cb; const char * p = NULL; const String * a = NULL; if (kind == 1) p = CArg(v, cb, true); else a = &SArg(v, t);
                uint32 n = R(3) == 0 ? NOLIM : R((uint32)v.size() + 3); if (M.size() + v.size() > maxGrow) break; OP(kind == 1 ? "WithInsert_cstr where=%d at=%u max=%u %s" : "WithInsert_String where=%d at=%u max=%u %s", where, at, n, Q(v, 24).c_str());
                std::string w = rInsert(M, at, v, n);
                if (kind == 1) Res(where == 0 ? S.WithPrepend(p, n) : where == 1 ? S.WithAppend(p, n) : S.WithInsert(at, p, n), w, "WithPrepend/Append/Insert(cstr,max)");
                else Res(where == 0 ? S.WithPrepend(*a, n) : where == 1 ? S.WithAppend(*a, n) : S.WithInsert(at, *a, n), w, "WithPrepend/Append/Insert(String,max)"); } break;
      case 30: { String t; std::string v; const String & a = SArg(v, t); static const char * const seps[] = {" ", ", ", "", "ab", NULL}; const char * sep = seps[R(5)]; std::string sp = sep ? sep : ""; int where = (int)R(3); uint32 at = where == 0 ? 0 : where == 1 ? NOLIM : R((uint32)M.size() + 2);
                if (M.size() + v.size() > maxGrow) break; OP("WithInsertedWord where=%d at=%u sep=%s %s", where, at, Q(sp).c_str(), Q(v, 24).c_str());
                String r = where == 0 ? S.WithPrependedWord(a, sep) : where == 1 ? (R(2) ? S.WithAppendedWord(a, sep) : S.WithAppendedWord(a(), sep)) : S.WithInsertedWord(at, a, sep);
                std::string got(r()); if (!SameS(r, got)) { Fail("result is not a valid string"); break; }
                size_t cut = std::min((size_t)at, M.size()); std::string le = M.substr(0, cut), ri = M.substr(cut); bool ok = false;   // "a separator ... if necessary": each separator may or may not be there
                if (v.empty()) ok = (got == M); else for (int x = 0; x < 4 && !ok; x++) ok = (got == le + ((x & 1) ? sp : "") + v + ((x & 2) ? sp : "") + ri);
                if (!ok) Fail(vh::fmt("got %s from subject %s", Q(got).c_str(), Q(M).c_str())); else if (R(3) == 0 && got.size() <= maxGrow) { S = r; M = got; } } break;
      case 31: case 32: { uint32 n = R(2) ? BoundaryLen() : R((uint32)M.size() + 5); bool right = R(2); char c = R(2) ? ' ' : GenChar(); if (n > maxGrow) break; OP("PaddedBy min=%u right=%d", n, (int)right);
                std::string w = M; if (w.size() < n) w.insert(right ? w.size() : 0, n - w.size(), c); Res(S.PaddedBy(n, right, c), w, "PaddedBy"); } break;
      case 33: { uint32 n = R(5); char c = R(2) ? ' ' : GenChar(); OP("IndentedBy %u", n); String r = S.IndentedBy(n, c); bool oneLine = !M.empty() && M.find('\n') == std::string::npos && M.find('\r') == std::string::npos;
                if (oneLine) Res(r, std::string(n, c) + M, "IndentedBy (single line)"); else { vh::stat("unspecified_indent_multiline"); if (!SameS(r, std::string(r()))) Fail("result is not a valid string"); } } break;
      // ---------------- replace family
      case 34: case 35: { char c1 = (M.size() && R(4)) ? M[R((uint32)M.size())] : GenChar(), c2 = R(8) == 0 ? c1 : GenChar(); uint32 n = Cnt(), from = R(3) ? 0 : Pos(); long c; std::string w = rReplChar(M, c1, c2, n, from, &c); if (c) vh::stat("replacements_made", c);
                if (R(2)) { OP("Replace_char %02x->%02x max=%u from=%u", (unsigned char)c1, (unsigned char)c2, n, from); uint32 got = S.Replace(c1, c2, n, from); if (c1 != c2) EqI(got, c, "returned count"); else vh::stat("unspecified_replace_char_by_itself_count"); M = w; }
                else { OP("WithReplacements_char %02x->%02x max=%u from=%u", (unsigned char)c1, (unsigned char)c2, n, from); Res(S.WithReplacements(c1, c2, n, from), w, "WithReplacements(char)"); } } break;
      case 36: case 37: case 38: { String t1, t2; std::string f, tv; const String & a = SArg(f, t1); const String & b = SArg(tv, t2); uint32 n = Cnt(), from = R(3) ? 0 : Pos(); if (R(3) == 0) n = NOLIM; long c; std::string w = rReplN(M, f, tv, n, from, &c); if (w.size() > maxGrow) break; if (c) vh::stat("replacements_made", c);
                if (R(2)) { OP("Replace_str %s->%s max=%u from=%u", Q(f, 16).c_str(), Q(tv, 16).c_str(), n, from); int32 got = S.Replace(a, b, n, from); EqI(got, c, "returned count"); M = w; }
                else { OP("WithReplacements_str %s->%s max=%u from=%u", Q(f, 16).c_str(), Q(tv, 16).c_str(), n, from); Res(S.WithReplacements(a, b, n, from), w, "WithReplacements(str)"); } } break;
      case 39: case 40: case 41: { Hashtable<String, String> tab; Table v; uint32 nk = 1 + R(4); std::string desc;   // keys: 2-letter alphabet or pieces of the subject, lengths 1..5: self-overlap is the norm
                for (uint32 i = 0; i < nk; i++) { std::string f = (R(2) && !M.empty()) ? M.substr(R((uint32)M.size()), 1 + R(5)) : GenAB(1 + R(5)); std::string tv = R(4) == 0 ? std::string() : R(6) == 0 ? M.substr(0, 20) : R(2) ? GenAB(R(4)) : GenStr(R(6));
                   bool dup = f.empty(); for (size_t j = 0; j < v.size(); j++) if (v[j].first == f) dup = true; if (dup) continue; v.push_back(std::make_pair(f, tv)); if (tab.Put(f.c_str(), tv.c_str()).IsError()) { fprintf(stderr, "HARNESS-ABORT: Hashtable::Put failed\n"); abort(); } desc += "{" + Q(f) + "->" + Q(tv, 12) + "}"; }
                uint32 n = R(3) ? NOLIM : R(5); long c; std::string w = rReplTable(M, v, n, &c); if (w.size() > maxGrow) break; if (c) vh::stat("table_replacements_made", c);
                if (R(2)) { OP("Replace_table max=%u %s", n, desc.c_str()); int32 got = S.Replace(tab, n); EqI(got, c, "returned count"); M = w; }
                else { OP("WithReplacements_table max=%u %s", n, desc.c_str()); Res(S.WithReplacements(tab, n), w, "WithReplacements(table)"); } } break;
      case 42: { std::string chars = R(2) ? Content(M).substr(0, 3) : GenStr(1 + R(3)); char esc = R(3) ? '\\' : GenChar(); bool single = !chars.empty() && R(3) == 0; OP("WithCharsEscaped %s esc=%02x", Q(chars).c_str(), (unsigned char)esc);
                CBuf cb; String r = single ? S.WithCharsEscaped(chars[0], esc) : S.WithCharsEscaped(cb.set(chars), esc); if (single) chars.resize(1);
                if (M.find(esc) != std::string::npos) { vh::stat("unspecified_escape_char_already_present"); if (!SameS(r, std::string(r()))) Fail("result is not a valid string"); break; }
                std::string w; for (size_t i = 0; i < M.size(); i++) { if (chars.find(M[i]) != std::string::npos) w.push_back(esc); w.push_back(M[i]); } if (w.size() <= maxGrow) Res(r, w, "WithCharsEscaped"); else EqS(r, w, "WithCharsEscaped"); } break;
      // ---------------- Arg
      case 43: { uint32 m = 1 + R(R(3) == 0 ? 12 : 4); std::vector<uint32> ord; for (uint32 i = 1; i <= m; i++) ord.push_back(i); for (uint32 i = 0; i < m; i++) std::swap(ord[i], ord[R(m)]); if (R(4) == 0) ord.push_back(ord[R(m)]);   // a number may occur twice
                std::string fm; for (size_t i = 0; i < ord.size(); i++) { std::string lit = GenStr(R(4)); for (size_t j = 0; j < lit.size(); j++) if (lit[j] == '%' || isdig(lit[j])) lit[j] = '_'; fm += lit; fm += vh::fmt("%%%u", ord[i] - (R(10) == 0 ? 1 : 0)); } if (R(2)) fm += "z";
                OP("ArgFormat %s", Q(fm, 60).c_str()); S = fm.c_str(); M = fm; vh::stat("arg_formats"); if (m >= 10) vh::stat("arg_formats_ten_or_more_placeholders"); } break;
      case 44: case 45: case 46: { std::string v = GenStr(R(5)), w; size_t nn = 0; int f = (int)R(8); long num = (long)R(2000) - 500;
                if (f == 3) v = vh::fmt("%i", (int)num); else if (f == 4) v = vh::fmt("%u", (unsigned)R(100000)); else if (f == 5) v = vh::fmt("%lld", (long long)num * 1000003LL); else if (f == 6) v = (num & 1) ? "true" : "false"; else if (f == 7) v = vh::fmt("%i", (int)(char)('a' + (num & 15)));
                OP("Arg form=%d %s", f, Q(v).c_str());
                bool spec = rArg(M, v, w, nn) && (nn <= 1 || ArgValueOk(v)); if (nn) vh::stat("arg_substitutions");
                String r; CBuf cb;
                switch (f) { case 0: case 1: r = S.Arg(cb.set(v)); break; case 2: r = S.Arg(String(v.c_str())); break; case 3: r = S.Arg((int)num); break; case 4: r = S.Arg((unsigned)atol(v.c_str())); break; case 5: r = S.Arg((long long)num * 1000003LL); break; case 6: r = S.Arg((bool)(num & 1)); break; default: r = S.Arg((char)('a' + (num & 15))); break; }
                if (!spec) { vh::stat("unspecified_arg_outside_repertoire"); if (!SameS(r, std::string(r()))) Fail("result is not a valid string"); break; }
                EqS(r, w, "Arg"); if (!caseBad && w.size() <= maxGrow && nn && R(4)) { S = r; M = w; } } break;
      // ---------------- prefix / suffix family
      case 47: case 48: { String t; std::string v; const String & a = SArg(v, t); char c = (M.size() && R(2)) ? (R(2) ? M[0] : M[M.size() - 1]) : GenChar(); int f = (int)R(4); if (M.size() + v.size() > maxGrow) break; OP("WithPrefixSuffix form=%d %s %02x", f, Q(v, 24).c_str(), (unsigned char)c);
                bool ends = M.size() >= v.size() && M.compare(M.size() - v.size(), v.size(), v) == 0, starts = M.size() >= v.size() && M.compare(0, v.size(), v) == 0;
                if (f == 0) Res(S.WithSuffix(a), ends ? M : M + v, "WithSuffix(String)"); else if (f == 1) Res(S.WithPrefix(a), starts ? M : v + M, "WithPrefix(String)");
                else if (f == 2) Res(S.WithSuffix(c), (M.size() && M[M.size() - 1] == c) ? M : M + c, "WithSuffix(char)"); else Res(S.WithPrefix(c), (M.size() && M[0] == c) ? M : c + M, "WithPrefix(char)"); } break;
      case 49: case 50: case 51: { String t; std::string v; const String & a = SArg(v, t); uint32 n = Cnt(); bool ic = R(3) == 0, suffix = R(2), isChar = R(3) == 0; char ch = (M.size() && R(4)) ? (suffix ? M[M.size() - 1] : M[0]) : GenChar(); if (ic && R(2)) ch = Flip(ch);
                if (isChar) v = std::string(1, ch); else if (R(3) == 0 && !v.empty() && v.size() * 3 <= maxGrow && M.size() < 100) { /* make repeats likely */ }
                OP("Without%s%s%s max=%u %s", suffix ? "Suffix" : "Prefix", ic ? "IgnoreCase" : "", isChar ? "_char" : "", n, Q(v, 24).c_str());
                std::string w = M, lv = ic ? lower(v) : v; uint32 c = 0;
                while (!v.empty() && c < n && w.size() >= v.size() && (ic ? lower(suffix ? w.substr(w.size() - v.size()) : w.substr(0, v.size())) : (suffix ? w.substr(w.size() - v.size()) : w.substr(0, v.size()))) == lv) { if (suffix) w.resize(w.size() - v.size()); else w.erase(0, v.size()); c++; }
                if (c) vh::stat("affixes_removed", c);
                String r = isChar ? (suffix ? (ic ? S.WithoutSuffixIgnoreCase(ch, n) : S.WithoutSuffix(ch, n)) : (ic ? S.WithoutPrefixIgnoreCase(ch, n) : S.WithoutPrefix(ch, n)))
                                  : (suffix ? (ic ? S.WithoutSuffixIgnoreCase(a, n) : S.WithoutSuffix(a, n)) : (ic ? S.WithoutPrefixIgnoreCase(a, n) : S.WithoutPrefix(a, n)));
                Res(r, w, "WithoutPrefix/Suffix"); } break;
      case 52: case 53: { OP("NumericSuffix"); size_t e = M.size(); while (e > 0 && isdig(M[e - 1])) e--; std::string dig = M.substr(e); uint32 got = 123, def = R(1000);
                String r = S.WithoutNumericSuffix(R(4) ? &got : NULL); uint32 ps = S.ParseNumericSuffix(def);
                if (dig.size() > 9) vh::stat("unspecified_numeric_suffix_overflow"); else { uint32 val = dig.empty() ? 0 : (uint32)strtoul(dig.c_str(), NULL, 10); if (got != 123 || dig.size()) EqI(got == 123 && dig.empty() ? 0 : got, val, "WithoutNumericSuffix value"); EqI(ps, dig.empty() ? def : val, "ParseNumericSuffix"); if (dig.size()) vh::stat("numeric_suffixes_parsed"); }
                Res(r, M.substr(0, e), "WithoutNumericSuffix"); } break;
//@@OPS3@@
