// h_string -- C17: muscle::String against std::string across the small-buffer boundary.
// One case = one history of 40..300 operations on 1..3 live String objects (each with a std::string model),
// audited after every operation; operands are frequently aliases of the subject (the String itself, s()+k
// pointers into its own buffer, substrings of itself, another live object) and the model always works with a
// detached copy of the operand's value.  Operand lengths concentrate on cap-2..cap+2 (cap = inline capacity).
// modes (--opt mode=): model (default) | regress (fixed witnesses F18 F28 F29, GetDistanceTo(maxResult), documentation examples, boundary sweep)
#include "util/String.h"
#include "util/Hashtable.h"
#include "system/SetupSystem.h"
#include <string>
#include <vector>
#include <set>
#include <algorithm>
#include "vh.h"
using namespace muscle;

static vh::Rng g(1);
static uint32_t R(uint32_t n) { return g.R(n); }
static const uint32 CAP = String::GetMaxShortStringLength();   // 15 on LP64 (7 with 32-bit pointers)
static const uint32 NOLIM = MUSCLE_NO_LIMIT;

// ------------------------------------------------------------------ reporting
static std::vector<std::string> trace;
static bool caseBad;
static std::string opname;

static std::string Q(const std::string & s, size_t maxShow = 70)
{
   std::string o = "'";
   for (size_t i = 0; i < s.size() && i < maxShow; i++) { unsigned char c = (unsigned char)s[i]; if (c >= 0x20 && c < 0x7f && c != '\'' && c != '\\') o += (char)c; else o += vh::fmt("\\x%02x", c); }
   o += "'"; if (s.size() > maxShow) o += vh::fmt("...(%zu)", s.size());
   return o;
}
static void Fail(const std::string & what)
{
   if (caseBad) return;
   caseBad = true;
   std::string d = what + " | cap=" + vh::fmt("%u", CAP) + " | last ops: ";
   size_t from = trace.size() > 30 ? trace.size() - 30 : 0;
   for (size_t i = from; i < trace.size(); i++) { d += trace[i]; d += "; "; }
   std::string key = opname; size_t sp = key.find(' '); if (sp != std::string::npos) key.resize(sp);
   vh::viol("model|" + key, d);
}
#define OP(...) do { opname = vh::fmt(__VA_ARGS__); trace.push_back(vh::fmt("[%d]", si) + opname); vh::stat(std::string("op_") + std::string(opname, 0, opname.find(' '))); } while (0)

static bool SameS(const String & got, const std::string & want) { uint32 n = got.Length(); return n == want.size() && got()[n] == 0 && strlen(got()) == n && memcmp(got(), want.data(), n) == 0; }
static void EqS(const String & got, const std::string & want, const char * what)
{
   if (caseBad) return;
   if (!SameS(got, want)) Fail(vh::fmt("%s: got %s (Length %u) want %s", what, Q(std::string(got(), strnlen(got(), 4000))).c_str(), got.Length(), Q(want).c_str()));
}
static void EqI(long got, long want, const char * what) { if (!caseBad && got != want) Fail(vh::fmt("%s: got %ld want %ld", what, got, want)); }
static void Ok(const status_t & r, const char * what) { if (!caseBad && r.IsError()) Fail(vh::fmt("%s returned error %s", what, r())); }
static int Sgn(long v) { return (v > 0) - (v < 0); }

// ------------------------------------------------------------------ generators
static int flavour;
static const char * const MB[] = {"\xc3\xa9", "\xe2\x82\xac", "\xf0\x9f\x98\x80", "\xc3\x9f", "\xce\xa9", "\xe4\xb8\xad"};
static const int W[4][8] = {   // lower a-d, a/b, space, upper, high byte, digit, multi-byte, special
   {55, 0, 8, 9, 7, 8, 8, 5}, {5, 72, 4, 6, 3, 4, 3, 3}, {35, 0, 8, 7, 15, 5, 28, 2}, {25, 10, 10, 15, 3, 12, 3, 22}};
static void AddChars(std::string & s, uint32 room)
{
   uint32 k = R(100); int cls = 0; for (; cls < 7; cls++) { if (k < (uint32)W[flavour][cls]) break; k -= W[flavour][cls]; }
   switch (cls) {
   case 0: s += (char)('a' + R(4)); break;
   case 1: s += (char)('a' + R(2)); break;
   case 2: s += (R(6) == 0) ? (R(2) ? '\t' : '\n') : ' '; break;
   case 3: s += (char)('A' + R(flavour == 1 ? 2 : 4)); break;
   case 4: s += (char)(0x80 + R(128)); break;
   case 5: s += (char)('0' + R(10)); break;
   case 6: { const char * m = MB[R(6)]; size_t n = strlen(m); if (n > room) n = room; s.append(m, n); } break;   // may be cut: bytes are bytes
   default: { static const char sp[] = "%\\-.,\r_~"; s += sp[R(sizeof(sp) - 1)]; } break;
   }
}
static std::string GenStr(uint32 n) { std::string s; while (s.size() < n) AddChars(s, n - (uint32)s.size()); return s; }
static char GenChar() { std::string s; AddChars(s, 1); return s[0]; }
static std::string GenAB(uint32 n) { std::string s; for (uint32 i = 0; i < n; i++) s += (char)('a' + R(2)); return s; }
static uint32 BoundaryLen()
{
   static const uint32 mult[] = {1, 1, 1, 1, 2, 2, 4};
   uint32 m = mult[R(7)]; uint32 c = CAP * m + (m > 1 ? R(m + 1) : 0);   // 15 | 30..32 | 60..64
   int d = (int)R(5) - 2; return (uint32)((int)c + d);
}
static uint32 GenLen(uint32 cur)
{
   uint32 k = R(100);
   if (k < 30) { uint32 t = BoundaryLen(); return t > cur ? t - cur : R(3); }   // lands the total on a boundary
   if (k < 58) return BoundaryLen();
   if (k < 82) return R(5);
   if (k < 97) return R(50);
   return 60 + R(140);
}
static char Flip(char c) { if (c >= 'a' && c <= 'z') return (char)(c - 32); if (c >= 'A' && c <= 'Z') return (char)(c + 32); return c; }
// operand content related to the subject's current value m
static std::string Content(const std::string & m)
{
   uint32 k = R(100);
   if (k < 38) return GenStr(GenLen((uint32)m.size()));
   if (k < 64 && !m.empty()) { uint32 a = R((uint32)m.size()), n = R(3) ? 1 + R(4) : R((uint32)m.size() + 1); return m.substr(a, n); }
   if (k < 72) return m;
   if (k < 82 && !m.empty()) { uint32 a = R((uint32)m.size()), n = 1 + R(5); std::string t = m.substr(a, n); for (size_t i = 0; i < t.size(); i++) if (R(2)) t[i] = Flip(t[i]); return t; }
   if (k < 90) return GenStr(1 + R(2));
   return GenStr(BoundaryLen());
}
struct CBuf {   // exact-size heap copy, so that an over-read of the operand is seen by ASan/memcheck
   char * p; CBuf() : p(NULL) {} ~CBuf() { free(p); }
   const char * set(const std::string & v) { free(p); p = (char *)malloc(v.size() + 1); memcpy(p, v.data(), v.size()); p[v.size()] = 0; return p; }
};

// ------------------------------------------------------------------ reference semantics (from the doc comments)
static char lc(char c) { return (c >= 'A' && c <= 'Z') ? (char)(c + 32) : c; }
static char ucc(char c) { return (c >= 'a' && c <= 'z') ? (char)(c - 32) : c; }
static std::string lower(std::string s) { for (size_t i = 0; i < s.size(); i++) s[i] = lc(s[i]); return s; }
static std::string upper(std::string s) { for (size_t i = 0; i < s.size(); i++) s[i] = ucc(s[i]); return s; }
static bool isws(char c) { return c == ' ' || c == '\t' || c == '\r' || c == '\n'; }
static bool isdig(char c) { return c >= '0' && c <= '9'; }
static std::string rSub(const std::string & m, uint32 b, uint32 e) { if (e > m.size()) e = (uint32)m.size(); return e > b ? m.substr(b, e - b) : std::string(); }
static std::string rTrim(const std::string & m) { size_t b = 0; while (b < m.size() && isws(m[b])) b++; size_t e = m.size(); while (e > b && isws(m[e - 1])) e--; return m.substr(b, e - b); }
static std::string rInsert(const std::string & m, uint32 idx, const std::string & a, uint32 maxc) { std::string o = m; o.insert(std::min((size_t)idx, m.size()), a.substr(0, std::min((size_t)maxc, a.size()))); return o; }
static std::string rRemoveLast(const std::string & m, const std::string & a) { std::string o = m; if (!a.empty()) { size_t f = o.rfind(a); if (f != std::string::npos) o.erase(f, a.size()); } return o; }
static std::string rReplN(const std::string & s, const std::string & from, const std::string & to, uint32 maxc, uint32 fromIdx, long * cnt)
{
   size_t p = std::min((size_t)fromIdx, s.size()); std::string o = s.substr(0, p); long c = 0;
   while (p < s.size()) { if ((uint32)c < maxc && !from.empty() && s.compare(p, from.size(), from) == 0) { o += to; p += from.size(); c++; } else o.push_back(s[p++]); }
   if (cnt) *cnt = c; return o;
}
static std::string rReplChar(const std::string & s, char c1, char c2, uint32 maxc, uint32 fromIdx, long * cnt)
{
   std::string w = s; long c = 0; for (size_t i = std::min((size_t)fromIdx, w.size()); i < w.size(); i++) if (w[i] == c1 && (uint32)c < maxc) { w[i] = c2; c++; }
   if (cnt) *cnt = c; return w;
}
typedef std::vector<std::pair<std::string, std::string> > Table;
static std::string rReplTable(const std::string & s, const Table & v, uint32 maxc, long * cnt)
{
   std::string o; size_t p = 0; long c = 0;
   while (p < s.size()) { bool hit = false; if ((uint32)c < maxc) for (size_t i = 0; i < v.size(); i++) if (s.compare(p, v[i].first.size(), v[i].first) == 0) { o += v[i].second; p += v[i].first.size(); c++; hit = true; break; } if (!hit) o.push_back(s[p++]); }
   if (cnt) *cnt = c; return o;
}
static long rCount(const std::string & s, const std::string & a, uint32 from, bool overlapping)
{
   long c = 0; size_t p = from; if (a.empty()) return 0; while (p <= s.size() && (p = s.find(a, p)) != std::string::npos) { c++; p += overlapping ? 1 : a.size(); } return c;
}
static uint32 rLev(const std::string & a, const std::string & b)
{
   std::vector<uint32> prev(b.size() + 1), cur(b.size() + 1); for (size_t j = 0; j <= b.size(); j++) prev[j] = (uint32)j;
   for (size_t i = 1; i <= a.size(); i++) { cur[0] = (uint32)i; for (size_t j = 1; j <= b.size(); j++) cur[j] = std::min(std::min(prev[j] + 1, cur[j - 1] + 1), prev[j - 1] + (a[i - 1] == b[j - 1] ? 0 : 1)); prev.swap(cur); }
   return prev[b.size()];
}
// Arg(): replaces every token %N whose number is the lowest present.  false = outside the defined repertoire.
static bool rArg(const std::string & m, const std::string & v, std::string & out, size_t & distinctNums)
{
   std::set<long> nums; size_t i = 0;
   while (i < m.size()) { if (m[i] == '%' && i + 1 < m.size() && isdig(m[i + 1])) { size_t q = i + 1; while (q < m.size() && isdig(m[q])) q++; size_t nd = q - i - 1; if ((m[i + 1] == '0' && nd > 1) || nd > 4) return false; nums.insert(atol(m.substr(i + 1, nd).c_str())); i = q; } else i++; }
   distinctNums = nums.size(); out.clear();
   if (nums.empty()) { out = m; return true; }
   long lowest = *nums.begin(); i = 0;
   while (i < m.size()) { if (m[i] == '%' && i + 1 < m.size() && isdig(m[i + 1])) { size_t q = i + 1; while (q < m.size() && isdig(m[q])) q++; if (atol(m.substr(i + 1, q - i - 1).c_str()) == lowest) out += v; else out += m.substr(i, q - i); i = q; } else out.push_back(m[i++]); }
   return true;
}
static bool ArgValueOk(const std::string & v) { for (size_t i = 0; i < v.size(); i++) if (v[i] == '%' || isdig(v[i])) return false; return true; }

// ------------------------------------------------------------------ live objects
struct Obj { String * s; std::string m; };
static std::vector<Obj> L;
static bool IsInline(const String & s) { const char * p = s(); return p >= (const char *)&s && p < (const char *)(&s + 1); }

static void Audit(size_t i)
{
   if (caseBad) return;
   const String & s = *L[i].s; const std::string & m = L[i].m; vh::stat("audits");
   uint32 len = s.Length();
   if (len != m.size()) { Fail(vh::fmt("object %zu: Length() %u, model %zu (model %s)", i, len, m.size(), Q(m).c_str())); return; }
   const char * p = s();
   if (p[len] != 0) { Fail(vh::fmt("object %zu: Cstr()[Length()] is 0x%02x, not NUL (model %s)", i, (unsigned char)p[len], Q(m).c_str())); return; }
   size_t sl = strlen(p); if (sl != len) { Fail(vh::fmt("object %zu: strlen %zu != Length() %u (model %s)", i, sl, len, Q(m).c_str())); return; }
   if (memcmp(p, m.data(), len) != 0) { Fail(vh::fmt("object %zu: content %s, model %s", i, Q(std::string(p, len)).c_str(), Q(m).c_str())); return; }
   if (s.GetNumAllocatedBytes() < len + 1) { Fail(vh::fmt("object %zu: GetNumAllocatedBytes() %u < Length()+1", i, s.GetNumAllocatedBytes())); return; }
   if (len > CAP && IsInline(s)) { Fail(vh::fmt("object %zu: %u characters reported to live in the inline buffer", i, len)); return; }
}
static void FlattenAudit(size_t i)
{
   if (caseBad) return;
   const String & s = *L[i].s; const std::string & m = L[i].m; vh::stat("flatten_audits");
   uint32 fs = s.FlattenedSize(); if (fs != m.size() + 1) { Fail(vh::fmt("FlattenedSize() %u, want %zu", fs, m.size() + 1)); return; }
   uint8 * buf = (uint8 *)malloc(fs); memset(buf, 0xEE, fs);
   s.FlattenToBytes(buf, fs);
   if (buf[fs - 1] != 0 || memcmp(buf, m.data(), m.size()) != 0) Fail(vh::fmt("flattened bytes %s, want %s + NUL", vh::hex(buf, fs, 80).c_str(), vh::hex(m.data(), m.size(), 80).c_str()));
   String t; if (R(2)) t = "previous content that is longer than cap";
   status_t r = t.UnflattenFromBytes(buf, fs);
   if (r.IsError()) Fail(vh::fmt("Unflatten of own flattened bytes failed: %s", r())); else if (!SameS(t, m) || !(t == s)) Fail(vh::fmt("Unflatten gives %s, want %s", Q(t()).c_str(), Q(m).c_str()));
   if (fs > 1) {   // unterminated input must be rejected (exact-size heap copy without the NUL)
      uint8 * cut = (uint8 *)malloc(fs - 1); memcpy(cut, buf, fs - 1); String u;
      if (u.UnflattenFromBytes(cut, fs - 1).IsOK()) Fail(vh::fmt("Unflatten accepted %u unterminated bytes %s", fs - 1, vh::hex(cut, fs - 1, 60).c_str()));
      free(cut); vh::stat("unterminated_rejected");
   }
   free(buf);
}

#define S (*L[si].s)
#define M (L[si].m)
enum { NUM_OPS = 76 };

static void RunCase(long k, uint64_t cs)
{
   g = vh::Rng(cs); trace.clear(); caseBad = false; L.clear(); opname = "setup";
   { uint32 f = R(100); flavour = f < 40 ? 0 : f < 65 ? 1 : f < 85 ? 2 : 3; }
   const bool big = (R(40) == 0);
   const size_t maxGrow = big ? 9000 : 400;
   const uint32 nobj = 1 + R(3);
   for (uint32 i = 0; i < nobj; i++) { Obj o; o.m = R(2) ? GenStr(GenLen(0)) : std::string(); o.s = new String(o.m.c_str()); L.push_back(o); }
   const uint32 nops = 40 + R(261);
   long i2h = 0, h2i = 0, aliasOps = 0, atCap = 0; uint32 maxLen = 0; int si = 0, argSi = 0, argPending = 0; bool rebuilt = false;

   // ---- operands.  val always receives a detached copy of the operand's value, taken before the operation
   auto Other = [&]() -> int { int j = (int)R((uint32)L.size() - 1); return j >= si ? j + 1 : j; };
   auto CArg = [&](std::string & val, CBuf & buf, bool allowNull) -> const char * {
      uint32 c = R(100);
      if (c < 40) { val = Content(M); return buf.set(val); }
      if (c < 78) { uint32 off = M.size() ? R((uint32)M.size() + 1) : 0; if (R(4) == 0 && M.size() > 2) off = (uint32)M.size() - R(3); val = M.substr(off); aliasOps++; vh::stat("alias_own_pointer"); return S() + off; }
      if (c < 88 && L.size() > 1) { int j = Other(); uint32 off = L[j].m.size() ? R((uint32)L[j].m.size() + 1) : 0; val = L[j].m.substr(off); vh::stat("arg_other_object_pointer"); return (*L[j].s)() + off; }
      if (c < 92 && allowNull) { val.clear(); vh::stat("arg_null_pointer"); return NULL; }
      val = Content(M); return buf.set(val);
   };
   auto SArg = [&](std::string & val, String & tmp) -> const String & {
      uint32 c = R(100);
      if (c < 40) { val = Content(M); tmp = val.c_str(); if (R(4) == 0) (void)tmp.Prealloc(GenLen(0)); return tmp; }
      if (c < 70) { val = M; aliasOps++; vh::stat("alias_self"); return S; }
      if (c < 84 && L.size() > 1) { int j = Other(); val = L[j].m; vh::stat("arg_other_object"); return *L[j].s; }
      { uint32 a = R((uint32)M.size() + 1), b = R((uint32)M.size() + 2); if (a > b) std::swap(a, b); val = rSub(M, a, b); (void)tmp.SetFromString(S, a, b); aliasOps++; vh::stat("alias_substring_of_self"); return tmp; }
   };
   // a String-valued result: compared, and often assigned back to the subject (copy or move)
   auto Res = [&](const String & r, const std::string & wantRef, const char * what) {
      std::string want = wantRef; EqS(r, want, what); if (caseBad || want.size() > maxGrow) return;
      uint32 c = R(4);
      if (c == 0) { S = r; M = want; vh::stat("result_copied_back"); } else if (c == 1) { String t(r); S = std::move(t); M = want; vh::stat("result_moved_back"); }
   };
   auto Pos = [&]() -> uint32 { return R(12) == 0 ? NOLIM : R((uint32)M.size() + 3); };
   auto Cnt = [&]() -> uint32 { return R(4) == 0 ? NOLIM : R(4); };

   for (uint32 it = 0; it < nops && !caseBad; it++) {
      si = (int)R((uint32)L.size()); rebuilt = false;
      int o = (int)R(NUM_OPS); bool forcedArg = false;
      if (argPending > 0 && R(10) < 8) { si = argSi; o = 44; argPending--; forcedArg = true; }   // an Arg chain usually follows its format
      if (big && M.size() < 4500 && R(6) == 0) { std::string v = GenStr(500 + R(2500)); OP("bulk_append %zu", v.size()); S += v.c_str(); M += v; }
      bool inl[3]; for (size_t j = 0; j < L.size(); j++) inl[j] = IsInline(*L[j].s);
      if (!forcedArg && M.size() > (big ? 6000u : 70u) && R(3) == 0) { static const int shrink[] = {0, 2, 3, 60, 61, 63, 64}; o = shrink[R(7)]; }
      switch (o) {
      // ---------------- assignment, construction, move, swap
      case 0: { CBuf b; std::string v; const char * p = CArg(v, b, true); OP("assign_cstr %s", Q(v, 24).c_str()); S = p; M = v; } break;
      case 1: { String t; std::string v; const String & a = SArg(v, t); OP("assign_String %s", Q(v, 24).c_str()); S = a; M = v; } break;
      case 2: { CBuf b; std::string v; const char * p = CArg(v, b, true); uint32 n = R(4) == 0 ? NOLIM : (R(2) ? R((uint32)v.size() + 3) : BoundaryLen()); OP("SetCstr max=%u of %s", n, Q(v, 24).c_str()); Ok(S.SetCstr(p, n), "SetCstr"); M = v.substr(0, std::min((size_t)n, v.size())); } break;
      case 3: { String t; std::string v; const String & a = SArg(v, t); uint32 b0 = R((uint32)v.size() + 3), e0 = R(3) == 0 ? NOLIM : R((uint32)v.size() + 3); OP("SetFromString %u %u of %s", b0, e0, Q(v, 24).c_str()); Ok(S.SetFromString(a, b0, e0), "SetFromString"); M = rSub(v, b0, e0); } break;
      case 4: { String t; std::string v; const String & a = SArg(v, t); uint32 b0 = R((uint32)v.size() + 3), e0 = R(3) == 0 ? NOLIM : R((uint32)v.size() + 3), n = R(3) == 0 ? NOLIM : R((uint32)v.size() + 3); int f = (int)R(5); OP("ctor form=%d %u %u of %s", f, b0, e0, Q(v, 24).c_str());
                switch (f) {
                case 0: { String r(a, b0, e0); Res(r, rSub(v, b0, e0), "String(str,begin,end)"); } break;
                case 1: { String r(a); Res(r, v, "copy constructor"); } break;
                case 2: { String r(a, PreallocatedItemSlotsCount(GenLen((uint32)v.size()))); Res(r, v, "String(str,prealloc)"); } break;
                case 3: { CBuf cb; String r(cb.set(v), n); Res(r, v.substr(0, std::min((size_t)n, v.size())), "String(cstr,maxLen)"); } break;
                default: { CBuf cb; String r(PreallocatedItemSlotsCount(GenLen(0)), cb.set(v), n); Res(r, v.substr(0, std::min((size_t)n, v.size())), "String(prealloc,cstr,maxLen)"); } break;
                } } break;
      case 5: { OP("rebuild"); delete L[si].s; L[si].s = R(2) ? new String(M.c_str()) : new String(PreallocatedItemSlotsCount(GenLen(0)), M.c_str()); rebuilt = true; } break;
      case 6: { OP("move_roundtrip"); String t(std::move(S)); EqS(t, M, "move-constructed copy"); if (S()[S.Length()] != 0 || strlen(S()) != S.Length()) Fail("moved-from String is not a valid string"); if (R(2)) S = std::move(t); else { String u; u = std::move(t); S.SwapContents(u); } } break;
      case 7: { if (L.size() > 1 && R(2)) { int oj = Other(); OP("SwapContents with [%d]", oj); S.SwapContents(*L[oj].s); M.swap(L[oj].m); }
                else if (R(8) == 0) { OP("SwapContents self"); S.SwapContents(S); }
                else { std::string v = Content(M); String t(v.c_str()); if (R(3) == 0) (void)t.Prealloc(GenLen(0)); OP("SwapContents tmp %s", Q(v, 24).c_str()); S.SwapContents(t); EqS(t, M, "swapped-out value"); M = v; } } break;
      // ---------------- append, insert, remove
      case 8: case 9: { CBuf b; std::string v; const char * p = CArg(v, b, true); if (M.size() + v.size() > maxGrow) break; OP("+=cstr %s", Q(v, 24).c_str()); S += p; M += v; } break;
      case 10: case 11: { String t; std::string v; const String & a = SArg(v, t); if (M.size() + v.size() > maxGrow) break; OP("+=String %s", Q(v, 24).c_str()); S += a; M += v; } break;
      case 12: { char c = GenChar(); OP("+=char %02x", (unsigned char)c); S += c; M += c; } break;
      case 13: { int f = (int)R(6); std::string add; if (M.size() > maxGrow) break;
                if (f == 0) { CBuf b; std::string v; const char * p = CArg(v, b, true); if (v.size() > maxGrow) break; OP("<<cstr %s", Q(v, 24).c_str()); S << p; add = v; }
                else if (f == 1) { String t; std::string v; const String & a = SArg(v, t); if (v.size() > maxGrow) break; OP("<<String %s", Q(v, 24).c_str()); S << a; add = v; }
                else if (f == 2) { int iv = R(3) == 0 ? -(int)R(1000) : (int)R(R(2) ? 100 : 1000000); OP("<<int %d", iv); S << iv; add = vh::fmt("%d", iv); }
                else if (f == 3) { bool bv = R(2); OP("<<bool %d", (int)bv); S << bv; add = bv ? "true" : "false"; }
                else if (f == 4) { float fv = (float)R(4000) / 4.0f - 100.0f; OP("<<float %.2f", (double)fv); S << fv; add = vh::fmt("%.2f", (double)fv); }
                else { OP("<<chain"); S << "x" << 7 << true << String("y"); add = "x7truey"; }
                M += add; } break;
      case 14: { CBuf b; std::string v; const char * p = CArg(v, b, true); OP("-=cstr %s", Q(v, 24).c_str()); S -= p; M = rRemoveLast(M, v); } break;
      case 15: { String t; std::string v; const String & a = SArg(v, t); OP("-=String %s", Q(v, 24).c_str()); S -= a; M = rRemoveLast(M, v); } break;
      case 16: { char c = (M.size() && R(3)) ? M[R((uint32)M.size())] : GenChar(); OP("-=char %02x", (unsigned char)c); S -= c; M = rRemoveLast(M, std::string(1, c)); } break;
      case 17: case 18: { CBuf b; std::string v; const char * p = CArg(v, b, true); uint32 at = Pos(), n = R(3) == 0 ? NOLIM : R((uint32)v.size() + 3); if (M.size() + v.size() > maxGrow) break; OP("InsertChars at=%u max=%u %s", at, n, Q(v, 24).c_str()); Ok(S.InsertChars(at, p, n), "InsertChars"); M = rInsert(M, at, v, n); } break;
      case 19: { CBuf b; std::string v; const char * p = CArg(v, b, true); uint32 n = R(3) == 0 ? NOLIM : R((uint32)v.size() + 3); if (M.size() + v.size() > maxGrow) break; bool pre = R(2); OP(pre ? "PrependChars max=%u %s" : "AppendChars max=%u %s", n, Q(v, 24).c_str()); Ok(pre ? S.PrependChars(p, n) : S.AppendChars(p, n), "Prepend/AppendChars"); M = rInsert(M, pre ? 0 : NOLIM, v, n); } break;
      case 20: { if (R(2)) { OP("op++"); S++; M += ' '; } else { OP("op--"); S--; if (M.size()) M.resize(M.size() - 1); } } break;
      case 21: { String t; std::string v, w; const String & a = SArg(v, t); CBuf b; const char * p = CArg(w, b, true); char c = GenChar(); int f = (int)R(6); if (M.size() + v.size() + w.size() > maxGrow) break; OP("operator+ form=%d %s %s", f, Q(v, 16).c_str(), Q(w, 16).c_str());
                switch (f) {
                case 0: { String r = S + a; Res(r, M + v, "String+String"); } break;
                case 1: { String r = S + p; Res(r, M + w, "String+cstr"); } break;
                case 2: { String r = p + S; Res(r, w + M, "cstr+String"); } break;
                case 3: { String r = S + c; Res(r, M + c, "String+char"); } break;
                case 4: { String r = c + S; Res(r, c + M, "char+String"); } break;
                default: { String r = a + S; Res(r, v + M, "String+String (subject on the right)"); } break;
                } } break;
      case 22: { String t; std::string v, w; const String & a = SArg(v, t); CBuf b; const char * p = CArg(w, b, true); char c = (M.size() && R(2)) ? M[R((uint32)M.size())] : GenChar(); int f = (int)R(5); OP("operator- form=%d %s %s", f, Q(v, 16).c_str(), Q(w, 16).c_str());
                switch (f) {
                case 0: { String r = S - a; Res(r, rRemoveLast(M, v), "String-String"); } break;
                case 1: { String r = S - p; Res(r, rRemoveLast(M, w), "String-cstr"); } break;
                case 2: { String r = p - S; Res(r, rRemoveLast(w, M), "cstr-String"); } break;
                case 3: { String r = S - c; Res(r, rRemoveLast(M, std::string(1, c)), "String-char"); } break;
                default: { String r = c - S; Res(r, rRemoveLast(std::string(1, c), M), "char-String"); } break;
                } } break;
      // ---------------- substrings, case, trim, insert/pad forms returning a new String
      case 23: case 24: { uint32 b0 = Pos(), e0 = Pos(); if (R(2)) { OP("Substring b=%u", b0); Res(S.Substring(b0), rSub(M, b0, NOLIM), "Substring(begin)"); } else { OP("Substring b=%u e=%u", b0, e0); Res(S.Substring(b0, e0), rSub(M, b0, e0), "Substring(begin,end)"); } } break;
      case 25: case 26: { String t; std::string v; CBuf cb; bool viaC = R(2); const char * p = NULL; const String * a = NULL; if (viaC) p = CArg(v, cb, false); else a = &SArg(v, t);
                bool withBegin = R(2); uint32 b0 = R((uint32)M.size() + 2); OP(withBegin ? "Substring_begin_marker b=%u %s" : "Substring_marker%.0u %s", withBegin ? b0 : 0, Q(v, 24).c_str());
                if (v.empty()) { vh::stat("unspecified_empty_needle"); String r = withBegin ? (viaC ? S.Substring(b0, p) : S.Substring(b0, *a)) : (viaC ? S.Substring(p) : S.Substring(*a)); (void)r; break; }
                if (withBegin) { std::string want; if (b0 <= M.size()) { size_t f = M.find(v, b0); want = f == std::string::npos ? M.substr(b0) : M.substr(b0, f - b0); if (f != std::string::npos) vh::stat("marker_found"); } Res(viaC ? S.Substring(b0, p) : S.Substring(b0, *a), want, "Substring(begin,marker)"); }
                else { size_t f = M.rfind(v); if (f != std::string::npos) vh::stat("marker_found"); Res(viaC ? S.Substring(p) : S.Substring(*a), f == std::string::npos ? M : M.substr(f + v.size()), "Substring(marker)"); } } break;
      case 27: { int f = (int)R(4); OP(f == 0 ? "ToLowerCase" : f == 1 ? "ToUpperCase" : f == 2 ? "ToMixedCase" : "Trimmed");
                if (f == 0) Res(S.ToLowerCase(), lower(M), "ToLowerCase"); else if (f == 1) Res(S.ToUpperCase(), upper(M), "ToUpperCase"); else if (f == 3) Res(S.Trimmed(), rTrim(M), "Trimmed");
                else { bool plain = true; for (size_t i = 0; i < M.size(); i++) if (isdig(M[i]) || (unsigned char)M[i] >= 0x80) plain = false;
                       std::string w = M; bool prev = false; for (size_t i = 0; i < w.size(); i++) { char c = w[i]; bool letter = (c >= 'a' && c <= 'z') || (c >= 'A' && c <= 'Z') || isdig(c); w[i] = prev ? lc(c) : ucc(c); prev = letter; }
                       if (plain) Res(S.ToMixedCase(), w, "ToMixedCase"); else { vh::stat("unspecified_mixedcase_digits_or_nonascii"); String r = S.ToMixedCase(); if (lower(std::string(r())) != lower(M) || r.Length() != M.size()) Fail("ToMixedCase changed more than letter case"); } } } break;
      case 28: case 29: { int where = (int)R(3), kind = (int)R(3); uint32 at = where == 0 ? 0 : where == 1 ? NOLIM : Pos();
                if (kind == 2) { char c = GenChar(); uint32 n = R(3) == 0 ? GenLen((uint32)M.size()) : R(4); if (M.size() + n > maxGrow) break; OP("WithInsert_char where=%d at=%u count=%u", where, at, n); std::string w = M; w.insert(std::min((size_t)at, M.size()), n, c);
                                 Res(where == 0 ? S.WithPrepend(c, n) : where == 1 ? S.WithAppend(c, n) : S.WithInsert(at, c, n), w, "WithPrepend/Append/Insert(char,count)"); break; }
                String t; std::string v; CBuf cb; const char * p = NULL; const String * a = NULL; if (kind == 1) p = CArg(v, cb, true); else a = &SArg(v, t);
                uint32 n = R(3) == 0 ? NOLIM : R((uint32)v.size() + 3); if (M.size() + v.size() > maxGrow) break; OP(kind == 1 ? "WithInsert_cstr where=%d at=%u max=%u %s" : "WithInsert_String where=%d at=%u max=%u %s", where, at, n, Q(v, 24).c_str());
                std::string w = rInsert(M, at, v, n);
                if (kind == 1) Res(where == 0 ? S.WithPrepend(p, n) : where == 1 ? S.WithAppend(p, n) : S.WithInsert(at, p, n), w, "WithPrepend/Append/Insert(cstr,max)");
                else Res(where == 0 ? S.WithPrepend(*a, n) : where == 1 ? S.WithAppend(*a, n) : S.WithInsert(at, *a, n), w, "WithPrepend/Append/Insert(String,max)"); } break;
      case 30: { String t; std::string v; const String & a = SArg(v, t); static const char * const seps[] = {" ", ", ", "", "ab", NULL}; const char * sep = seps[R(5)]; std::string sp = sep ? sep : ""; int where = (int)R(3); uint32 at = where == 0 ? 0 : where == 1 ? NOLIM : R((uint32)M.size() + 2);
                if (M.size() + v.size() > maxGrow) break; OP("WithInsertedWord where=%d at=%u sep=%s %s", where, at, Q(sp).c_str(), Q(v, 24).c_str());
                String r = where == 0 ? S.WithPrependedWord(a, sep) : where == 1 ? (R(2) ? S.WithAppendedWord(a, sep) : S.WithAppendedWord(a(), sep)) : S.WithInsertedWord(at, a, sep);
                std::string got(r()); if (!SameS(r, got)) { Fail("result is not a valid string"); break; }
                size_t cut = std::min((size_t)at, M.size()); std::string le = M.substr(0, cut), ri = M.substr(cut); bool ok = false;   // "a separator ... if necessary": each separator may or may not be there
                if (v.empty()) ok = (got == M); else for (int x = 0; x < 4 && !ok; x++) ok = (got == le + ((x & 1) ? sp : "") + v + ((x & 2) ? sp : "") + ri);
                if (!ok) Fail(vh::fmt("got %s from subject %s", Q(got).c_str(), Q(M).c_str())); else if (R(3) == 0 && got.size() <= maxGrow) { S = r; M = got; } } break;
      case 31: case 32: { uint32 n = R(2) ? BoundaryLen() : R((uint32)M.size() + 5); bool right = R(2); char c = R(2) ? ' ' : GenChar(); if (n > maxGrow) break; OP("PaddedBy min=%u right=%d", n, (int)right);
                std::string w = M; if (w.size() < n) w.insert(right ? w.size() : 0, n - w.size(), c); Res(S.PaddedBy(n, right, c), w, "PaddedBy"); } break;
      case 33: { uint32 n = R(5); char c = R(2) ? ' ' : GenChar(); OP("IndentedBy %u", n); String r = S.IndentedBy(n, c); bool oneLine = !M.empty() && M.find('\n') == std::string::npos && M.find('\r') == std::string::npos;
                if (oneLine) Res(r, std::string(n, c) + M, "IndentedBy (single line)"); else { vh::stat("unspecified_indent_multiline"); if (!SameS(r, std::string(r()))) Fail("result is not a valid string"); } } break;
      // ---------------- replace family
      case 34: case 35: { char c1 = (M.size() && R(4)) ? M[R((uint32)M.size())] : GenChar(), c2 = R(8) == 0 ? c1 : GenChar(); uint32 n = Cnt(), from = R(3) ? 0 : Pos(); long c; std::string w = rReplChar(M, c1, c2, n, from, &c); if (c) vh::stat("replacements_made", c);
                if (R(2)) { OP("Replace_char %02x->%02x max=%u from=%u", (unsigned char)c1, (unsigned char)c2, n, from); uint32 got = S.Replace(c1, c2, n, from); if (c1 != c2) EqI(got, c, "returned count"); else vh::stat("unspecified_replace_char_by_itself_count"); M = w; }
                else { OP("WithReplacements_char %02x->%02x max=%u from=%u", (unsigned char)c1, (unsigned char)c2, n, from); Res(S.WithReplacements(c1, c2, n, from), w, "WithReplacements(char)"); } } break;
      case 36: case 37: case 38: { String t1, t2; std::string f, tv; const String & a = SArg(f, t1); const String & b = SArg(tv, t2); uint32 n = Cnt(), from = R(3) ? 0 : Pos(); if (R(3) == 0) n = NOLIM; long c; std::string w = rReplN(M, f, tv, n, from, &c); if (w.size() > maxGrow) break; if (c) vh::stat("replacements_made", c);
                if (R(2)) { OP("Replace_str %s->%s max=%u from=%u", Q(f, 16).c_str(), Q(tv, 16).c_str(), n, from); int32 got = S.Replace(a, b, n, from); EqI(got, c, "returned count"); M = w; }
                else { OP("WithReplacements_str %s->%s max=%u from=%u", Q(f, 16).c_str(), Q(tv, 16).c_str(), n, from); Res(S.WithReplacements(a, b, n, from), w, "WithReplacements(str)"); } } break;
      case 39: case 40: case 41: { Hashtable<String, String> tab; Table v; uint32 nk = 1 + R(4); std::string desc;   // keys: 2-letter alphabet or pieces of the subject, lengths 1..5: self-overlap is the norm
                for (uint32 i = 0; i < nk; i++) { std::string f = (R(2) && !M.empty()) ? M.substr(R((uint32)M.size()), 1 + R(5)) : GenAB(1 + R(5)); std::string tv = R(4) == 0 ? std::string() : R(6) == 0 ? M.substr(0, 20) : R(2) ? GenAB(R(4)) : GenStr(R(6));
                   bool dup = f.empty(); for (size_t j = 0; j < v.size(); j++) if (v[j].first == f) dup = true; if (dup) continue; v.push_back(std::make_pair(f, tv)); if (tab.Put(f.c_str(), tv.c_str()).IsError()) { fprintf(stderr, "HARNESS-ABORT: Hashtable::Put failed\n"); abort(); } desc += "{" + Q(f) + "->" + Q(tv, 12) + "}"; }
                uint32 n = R(3) ? NOLIM : R(5); long c; std::string w = rReplTable(M, v, n, &c); if (w.size() > maxGrow) break; if (c) vh::stat("table_replacements_made", c);
                if (R(2)) { OP("Replace_table max=%u %s", n, desc.c_str()); int32 got = S.Replace(tab, n); EqI(got, c, "returned count"); M = w; }
                else { OP("WithReplacements_table max=%u %s", n, desc.c_str()); Res(S.WithReplacements(tab, n), w, "WithReplacements(table)"); } } break;
      case 42: { std::string chars = R(2) ? Content(M).substr(0, 3) : GenStr(1 + R(3)); char esc = R(3) ? '\\' : GenChar(); bool single = !chars.empty() && R(3) == 0; OP("WithCharsEscaped %s esc=%02x", Q(chars).c_str(), (unsigned char)esc);
                CBuf cb; String r = single ? S.WithCharsEscaped(chars[0], esc) : S.WithCharsEscaped(cb.set(chars), esc); if (single) chars.resize(1);
                if (M.find(esc) != std::string::npos) { vh::stat("unspecified_escape_char_already_present"); if (!SameS(r, std::string(r()))) Fail("result is not a valid string"); break; }
                std::string w; for (size_t i = 0; i < M.size(); i++) { if (chars.find(M[i]) != std::string::npos) w.push_back(esc); w.push_back(M[i]); } if (w.size() <= maxGrow) Res(r, w, "WithCharsEscaped"); else EqS(r, w, "WithCharsEscaped"); } break;
      // ---------------- Arg
      case 43: { uint32 m = 1 + R(R(3) == 0 ? 12 : 4); std::vector<uint32> ord; for (uint32 i = 1; i <= m; i++) ord.push_back(i); for (uint32 i = 0; i < m; i++) std::swap(ord[i], ord[R(m)]); if (R(4) == 0) ord.push_back(ord[R(m)]);   // a number may occur twice
                std::string fm; for (size_t i = 0; i < ord.size(); i++) { std::string lit = GenStr(R(4)); for (size_t j = 0; j < lit.size(); j++) if (lit[j] == '%' || isdig(lit[j])) lit[j] = '_'; fm += lit; fm += vh::fmt("%%%u", ord[i] - (R(10) == 0 ? 1 : 0)); } if (R(2)) fm += "z";
                OP("ArgFormat %s", Q(fm, 60).c_str()); S = fm.c_str(); M = fm; vh::stat("arg_formats"); if (m >= 10) vh::stat("arg_formats_ten_or_more_placeholders"); argSi = si; argPending = (int)m; } break;
      case 44: case 45: case 46: { std::string v = GenStr(R(5)), w; size_t nn = 0; int f = (int)R(forcedArg ? 3 : 8); long num = (long)R(2000) - 500; if (forcedArg) for (size_t i = 0; i < v.size(); i++) if (v[i] == '%' || isdig(v[i])) v[i] = '_';
                if (f == 3) v = vh::fmt("%i", (int)num); else if (f == 4) v = vh::fmt("%u", (unsigned)R(100000)); else if (f == 5) v = vh::fmt("%lld", (long long)num * 1000003LL); else if (f == 6) v = (num & 1) ? "true" : "false"; else if (f == 7) v = vh::fmt("%i", (int)(char)('a' + (num & 15)));
                OP("Arg form=%d %s", f, Q(v).c_str());
                bool spec = rArg(M, v, w, nn) && (nn <= 1 || ArgValueOk(v)); if (nn) vh::stat("arg_substitutions");
                if (spec && nn > 1) { for (int lo = 0; lo < 10; lo++) { std::string tk = vh::fmt("%%%d", lo); size_t at = M.find(tk); bool exact = false, longer = false; while (at != std::string::npos) { if (at + 2 < M.size() + 0 && at + 2 <= M.size() - 1 && isdig(M[at + 2])) longer = true; else exact = true; at = M.find(tk, at + 1); } if (exact) { if (longer) vh::stat("arg_substitutions_with_longer_token_sharing_the_prefix"); break; } } }
                String r; CBuf cb;
                switch (f) { case 0: case 1: r = S.Arg(cb.set(v)); break; case 2: r = S.Arg(String(v.c_str())); break; case 3: r = S.Arg((int)num); break; case 4: r = S.Arg((unsigned)atol(v.c_str())); break; case 5: r = S.Arg((long long)num * 1000003LL); break; case 6: r = S.Arg((bool)(num & 1)); break; default: r = S.Arg((char)('a' + (num & 15))); break; }
                if (!spec) { vh::stat("unspecified_arg_outside_repertoire"); if (!SameS(r, std::string(r()))) Fail("result is not a valid string"); break; }
                EqS(r, w, "Arg"); if (!caseBad && w.size() <= maxGrow && nn && R(4)) { S = r; M = w; } } break;
      // ---------------- prefix / suffix family
      case 47: case 48: { String t; std::string v; const String & a = SArg(v, t); char c = (M.size() && R(2)) ? (R(2) ? M[0] : M[M.size() - 1]) : GenChar(); int f = (int)R(4); if (M.size() + v.size() > maxGrow) break;
                if (f < 2 && M.size() > 1 && R(4) == 0) { uint32 n = 2 + R(std::min((uint32)M.size() - 1, 4u)); v = f == 0 ? M.substr(M.size() - n) : M.substr(0, n); size_t at = f == 0 ? 0 : v.size() - 1; char oc = v[at]; do v[at] = GenChar(); while (v[at] == oc); vh::stat("near_affix_operands"); }   // all but one character of an affix
                String nearT(v.c_str()); const String & a2 = (a() == v) ? a : nearT; OP("WithPrefixSuffix form=%d %s %02x", f, Q(v, 24).c_str(), (unsigned char)c);
                bool ends = M.size() >= v.size() && M.compare(M.size() - v.size(), v.size(), v) == 0, starts = M.size() >= v.size() && M.compare(0, v.size(), v) == 0;
                if (f == 0) Res(S.WithSuffix(a2), ends ? M : M + v, "WithSuffix(String)"); else if (f == 1) Res(S.WithPrefix(a2), starts ? M : v + M, "WithPrefix(String)");
                else if (f == 2) Res(S.WithSuffix(c), (M.size() && M[M.size() - 1] == c) ? M : M + c, "WithSuffix(char)"); else Res(S.WithPrefix(c), (M.size() && M[0] == c) ? M : c + M, "WithPrefix(char)"); } break;
      case 49: case 50: case 51: { String t; std::string v; const String & a = SArg(v, t); uint32 n = Cnt(); bool ic = R(3) == 0, suffix = R(2), isChar = R(3) == 0; char ch = (M.size() && R(4)) ? (suffix ? M[M.size() - 1] : M[0]) : GenChar(); if (ic && R(2)) ch = Flip(ch);
                if (isChar) v = std::string(1, ch);
                OP("Without%s%s%s max=%u %s", suffix ? "Suffix" : "Prefix", ic ? "IgnoreCase" : "", isChar ? "_char" : "", n, Q(v, 24).c_str());
                std::string w = M, lv = ic ? lower(v) : v; uint32 c = 0;
                while (!v.empty() && c < n && w.size() >= v.size() && (ic ? lower(suffix ? w.substr(w.size() - v.size()) : w.substr(0, v.size())) : (suffix ? w.substr(w.size() - v.size()) : w.substr(0, v.size()))) == lv) { if (suffix) w.resize(w.size() - v.size()); else w.erase(0, v.size()); c++; }
                if (c) vh::stat("affixes_removed", c);
                String r = isChar ? (suffix ? (ic ? S.WithoutSuffixIgnoreCase(ch, n) : S.WithoutSuffix(ch, n)) : (ic ? S.WithoutPrefixIgnoreCase(ch, n) : S.WithoutPrefix(ch, n)))
                                  : (suffix ? (ic ? S.WithoutSuffixIgnoreCase(a, n) : S.WithoutSuffix(a, n)) : (ic ? S.WithoutPrefixIgnoreCase(a, n) : S.WithoutPrefix(a, n)));
                Res(r, w, "WithoutPrefix/Suffix"); } break;
      case 52: case 53: { OP("NumericSuffix"); size_t e = M.size(); while (e > 0 && isdig(M[e - 1])) e--; std::string dig = M.substr(e); uint32 got = 123, def = R(1000); bool passed = R(4);
                String r = S.WithoutNumericSuffix(passed ? &got : NULL); uint32 ps = S.ParseNumericSuffix(def);
                if (dig.size() > 9) vh::stat("unspecified_numeric_suffix_overflow"); else { uint32 val = dig.empty() ? 0 : (uint32)strtoul(dig.c_str(), NULL, 10); if (passed) EqI(got, val, "WithoutNumericSuffix value"); EqI(ps, dig.empty() ? def : val, "ParseNumericSuffix"); if (dig.size()) vh::stat("numeric_suffixes_parsed"); }
                Res(r, M.substr(0, e), "WithoutNumericSuffix"); } break;
      // ---------------- comparisons and searches
      case 54: case 55: { String t; std::string v; CBuf cb; bool viaC = R(2); const char * p = NULL; const String * a = NULL; if (viaC) p = CArg(v, cb, true); else a = &SArg(v, t);
                if (R(4) == 0) { v = M; if (v.size() && R(2)) v[R((uint32)v.size())] = GenChar(); else if (R(2)) v += GenChar(); else if (v.size()) v[R((uint32)v.size())] = Flip(v[R((uint32)v.size())]); t = v.c_str(); a = &t; p = cb.set(v); }
                OP(viaC ? "compare_cstr %s" : "compare_String %s", Q(v, 24).c_str()); int c = M.compare(v), ci = lower(M).compare(lower(v)); if (c == 0) vh::stat("compared_equal");
                if (viaC) { EqI(S == p, c == 0, "=="); EqI(S != p, c != 0, "!="); EqI(S < p, c < 0, "<"); EqI(S > p, c > 0, ">"); EqI(S <= p, c <= 0, "<="); EqI(S >= p, c >= 0, ">="); EqI(Sgn(S.CompareTo(p)), Sgn(c), "CompareTo sign"); EqI(S.Equals(p), c == 0, "Equals"); EqI(S.EqualsIgnoreCase(p), ci == 0, "EqualsIgnoreCase"); EqI(Sgn(S.CompareToIgnoreCase(p)), Sgn(ci), "CompareToIgnoreCase sign"); }
                else { EqI(S == *a, c == 0, "=="); EqI(S != *a, c != 0, "!="); EqI(S < *a, c < 0, "<"); EqI(S > *a, c > 0, ">"); EqI(S <= *a, c <= 0, "<="); EqI(S >= *a, c >= 0, ">="); EqI(Sgn(S.CompareTo(*a)), Sgn(c), "CompareTo sign"); EqI(S.Equals(*a), c == 0, "Equals"); EqI(S.EqualsIgnoreCase(*a), ci == 0, "EqualsIgnoreCase"); EqI(Sgn(S.CompareToIgnoreCase(*a)), Sgn(ci), "CompareToIgnoreCase sign"); } } break;
      case 56: case 57: case 58: { uint32 from = R(3) == 0 ? 0 : R((uint32)M.size() + 3); int kind = (int)R(3); std::string lm = lower(M);
                if (kind == 2) { char c = (M.size() && R(3)) ? M[R((uint32)M.size())] : GenChar(); if (R(3) == 0) c = Flip(c); OP("IndexOf_char %02x from=%u", (unsigned char)c, from);
                   size_t f = from <= M.size() ? M.find(c, from) : std::string::npos, l = M.rfind(c); long fi = f == std::string::npos ? -1 : (long)f, li = (l != std::string::npos && l >= from) ? (long)l : -1;
                   size_t fl = from <= M.size() ? lm.find(lc(c), from) : std::string::npos, ll = lm.rfind(lc(c)); long fli = fl == std::string::npos ? -1 : (long)fl, lli = (ll != std::string::npos && ll >= from) ? (long)ll : -1; if (fi >= 0) vh::stat("searches_found");
                   EqI(S.IndexOf(c, from), fi, "IndexOf(char,from)"); EqI(S.Contains(c, from), fi >= 0, "Contains(char,from)"); EqI(S.LastIndexOf(c, from), li, "LastIndexOf(char,from)");
                   EqI(S.IndexOfIgnoreCase(c, from), fli, "IndexOfIgnoreCase(char,from)"); EqI(S.ContainsIgnoreCase(c, from), fli >= 0, "ContainsIgnoreCase(char,from)"); EqI(S.LastIndexOfIgnoreCase(c, from), lli, "LastIndexOfIgnoreCase(char,from)"); break; }
                String t; std::string v; CBuf cb; bool viaC = (kind == 1); const char * p = NULL; const String * a = NULL; if (viaC) p = CArg(v, cb, false); else a = &SArg(v, t);
                if (v.size() > 3 && R(2)) { v.resize(1 + R(3)); t = v.c_str(); a = &t; p = cb.set(v); }   // short needles are found more often
                OP(viaC ? "IndexOf_cstr from=%u %s" : "IndexOf_String from=%u %s", from, Q(v, 24).c_str());
                if (v.empty()) {   // empty needle: undocumented, differs from std::string -> not compared
                   vh::stat("unspecified_empty_needle"); int x = viaC ? S.IndexOf(p, from) + S.LastIndexOf(p) + S.LastIndexOf(p, from) + S.IndexOfIgnoreCase(p, from) + S.LastIndexOfIgnoreCase(p, from) : S.IndexOf(*a, from) + S.LastIndexOf(*a) + S.LastIndexOf(*a, from) + S.IndexOfIgnoreCase(*a, from) + S.LastIndexOfIgnoreCase(*a, from); (void)x; break; }
                std::string lv = lower(v);
                size_t f = from <= M.size() ? M.find(v, from) : std::string::npos, l = M.rfind(v), lb = M.rfind(v, from); long fi = f == std::string::npos ? -1 : (long)f, li = l == std::string::npos ? -1 : (long)l;
                long liA = (l != std::string::npos && l >= from) ? (long)l : -1, liB = lb == std::string::npos ? -1 : (long)lb;   // two readings of LastIndexOf(str,fromIndex): "at or after" (summary line) vs. searching backwards from fromIndex (parameter text, Java)
                size_t fl = from <= M.size() ? lm.find(lv, from) : std::string::npos, ll = lm.rfind(lv); long fli = fl == std::string::npos ? -1 : (long)fl, lli = (ll != std::string::npos && ll >= from) ? (long)ll : -1; if (fi >= 0) vh::stat("searches_found");
                long g1, g2, g3, g4, g5, g6, g7;
                if (viaC) { g1 = S.IndexOf(p, from); g2 = S.Contains(p, from); g3 = S.LastIndexOf(p); g4 = S.LastIndexOf(p, from); g5 = S.IndexOfIgnoreCase(p, from); g6 = S.ContainsIgnoreCase(p, from); g7 = S.LastIndexOfIgnoreCase(p, from); }
                else { g1 = S.IndexOf(*a, from); g2 = S.Contains(*a, from); g3 = S.LastIndexOf(*a); g4 = S.LastIndexOf(*a, from); g5 = S.IndexOfIgnoreCase(*a, from); g6 = S.ContainsIgnoreCase(*a, from); g7 = S.LastIndexOfIgnoreCase(*a, from); }
                EqI(g1, fi, "IndexOf(str,from)"); EqI(g2, fi >= 0, "Contains(str,from)"); EqI(g3, li, "LastIndexOf(str)");
                if (liA == liB) EqI(g4, liA, "LastIndexOf(str,from)"); else { vh::stat("unspecified_LastIndexOf_str_fromIndex_direction"); if (g4 != liA && g4 != liB) EqI(g4, liB, "LastIndexOf(str,from) (neither reading)"); }
                EqI(g5, fli, "IndexOfIgnoreCase(str,from)"); EqI(g6, fli >= 0, "ContainsIgnoreCase(str,from)"); EqI(g7, lli, "LastIndexOfIgnoreCase(str,from)"); } break;
      case 59: { String t; std::string v; CBuf cb; int kind = (int)R(3); const char * p = NULL; const String * a = &t; if (kind == 1) p = CArg(v, cb, true); else if (kind == 0) a = &SArg(v, t);
                if (kind != 2 && R(2)) { bool pre = R(2); uint32 n = R((uint32)M.size() + 1) % 6; v = pre ? M.substr(0, n) : M.substr(M.size() - std::min((size_t)n, M.size())); if (R(3) == 0) for (size_t i = 0; i < v.size(); i++) v[i] = Flip(v[i]); t = v.c_str(); a = &t; p = cb.set(v); }
                char c = (M.size() && R(4)) ? (R(2) ? M[0] : M[M.size() - 1]) : GenChar(); if (R(4) == 0) c = Flip(c); if (kind == 2) v = std::string(1, c);
                OP("StartsEndsWith kind=%d %s", kind, Q(v, 24).c_str()); std::string lm = lower(M), lv = lower(v);
                bool sw = M.size() >= v.size() && M.compare(0, v.size(), v) == 0, ew = M.size() >= v.size() && M.compare(M.size() - v.size(), v.size(), v) == 0, swi = M.size() >= v.size() && lm.compare(0, v.size(), lv) == 0, ewi = M.size() >= v.size() && lm.compare(M.size() - v.size(), v.size(), lv) == 0;
                if (sw || ew) vh::stat("affix_tests_true");
                if (kind == 2) { EqI(S.StartsWith(c), sw, "StartsWith(char)"); EqI(S.EndsWith(c), ew, "EndsWith(char)"); EqI(S.StartsWithIgnoreCase(c), swi, "StartsWithIgnoreCase(char)"); EqI(S.EndsWithIgnoreCase(c), ewi, "EndsWithIgnoreCase(char)"); }
                else if (kind == 1) { EqI(S.StartsWith(p), sw, "StartsWith(cstr)"); EqI(S.EndsWith(p), ew, "EndsWith(cstr)"); EqI(S.StartsWithIgnoreCase(p), swi, "StartsWithIgnoreCase(cstr)"); EqI(S.EndsWithIgnoreCase(p), ewi, "EndsWithIgnoreCase(cstr)"); }
                else { EqI(S.StartsWith(*a), sw, "StartsWith(String)"); EqI(S.EndsWith(*a), ew, "EndsWith(String)"); EqI(S.StartsWithIgnoreCase(*a), swi, "StartsWithIgnoreCase(String)"); EqI(S.EndsWithIgnoreCase(*a), ewi, "EndsWithIgnoreCase(String)"); } } break;
      // ---------------- length and buffer management
      case 60: { uint32 n = R(2) ? BoundaryLen() : R((uint32)M.size() + 3); OP("TruncateToLength %u", n); S.TruncateToLength(n); if (M.size() > n) M.resize(n); } break;
      case 61: { uint32 tl = BoundaryLen(), n = (R(2) && M.size() > tl) ? (uint32)M.size() - tl : R(20); OP("TruncateChars %u", n); S.TruncateChars(n); M.resize(M.size() - std::min((size_t)n, M.size())); } break;
      case 62: case 74: { uint32 n = GenLen((uint32)M.size()); OP("Prealloc %u", n); Ok(S.Prealloc(n), "Prealloc"); if (S.GetNumAllocatedBytes() < n + 1) Fail(vh::fmt("GetNumAllocatedBytes() %u after Prealloc(%u)", S.GetNumAllocatedBytes(), n)); } break;
      case 63: { if (R(2)) { OP("Clear"); S.Clear(); } else { OP("ClearAndFlush"); S.ClearAndFlush(); } M.clear(); } break;
      case 64: { uint32 b0 = M.size() ? R((uint32)M.size()) : 0, n = BoundaryLen(); OP("self=Substring %u %u", b0, b0 + n); if (R(2)) S = S.Substring(b0, b0 + n); else Ok(S.SetFromString(S, b0, b0 + n), "SetFromString(self)"); M = rSub(M, b0, b0 + n); } break;
      case 65: case 73: { uint32 len = (uint32)M.size(), tb = CAP + 1 + R(5) - 2, ex = R(3) == 0 ? 0 : R(2) ? R(4) : (tb > len + 1 ? tb - (len + 1) : 0); OP("ShrinkToFit extra=%u", ex); Ok(S.ShrinkToFit(ex), "ShrinkToFit"); if (S.GetNumAllocatedBytes() < len + 1 + ex) Fail(vh::fmt("GetNumAllocatedBytes() %u after ShrinkToFit(%u) with Length %u", S.GetNumAllocatedBytes(), ex, len)); } break;
      case 66: { OP("Reverse"); S.Reverse(); std::reverse(M.begin(), M.end()); } break;
      case 67: { if (M.empty()) break; uint32 at = R(4) == 0 ? (uint32)M.size() - 1 : R((uint32)M.size()); char c = GenChar(); OP("op[]= at=%u %02x", at, (unsigned char)c); S[at] = c; M[at] = c; } break;
      case 68: { String t; std::string v; CBuf cb; int kind = (int)R(3); const char * p = NULL; const String * a = &t; uint32 from = R(3) ? 0 : R((uint32)M.size() + 3); if (kind == 1) p = CArg(v, cb, true); else a = &SArg(v, t);
                if (v.size() > 2 && R(2)) { v.resize(1 + R(2)); t = v.c_str(); a = &t; p = cb.set(v); }
                char c = (M.size() && R(4)) ? M[R((uint32)M.size())] : GenChar(); OP("GetNumInstancesOf kind=%d from=%u %s", kind, from, Q(v, 24).c_str());
                if (kind == 2) { long w = 0; for (size_t i = from; i < M.size(); i++) if (M[i] == c) w++; EqI(S.GetNumInstancesOf(c, from), w, "GetNumInstancesOf(char,from)"); break; }
                long w1 = rCount(M, v, from, false), w2 = rCount(M, v, from, true); long got = kind == 1 ? S.GetNumInstancesOf(p, from) : S.GetNumInstancesOf(*a, from); if (w1) vh::stat("instances_counted", w1);
                if (w1 == w2) EqI(got, w1, "GetNumInstancesOf(str,from)"); else { vh::stat("unspecified_instances_overlapping"); if (got != w1 && got != w2) EqI(got, w1, "GetNumInstancesOf(str,from) (neither overlapping nor non-overlapping count)"); } } break;
      case 69: { OP("hash"); String fresh(M.c_str()); String roomy(S, PreallocatedItemSlotsCount(40 + R(40)));
                EqI(S.HashCode(), fresh.HashCode(), "HashCode vs fresh copy"); EqI((long)(S.HashCode64() == fresh.HashCode64()), 1, "HashCode64 vs fresh copy"); EqI(S.CalculateChecksum(), fresh.CalculateChecksum(), "CalculateChecksum vs fresh copy"); EqI(roomy.HashCode(), fresh.HashCode(), "HashCode of a preallocated copy");
                EqI(S == fresh && fresh == S && roomy == S && !(S != fresh) && S.Equals(roomy), 1, "equality with copies in other storage modes"); } break;
      case 70: { String t; std::string v; CBuf cb; bool viaC = R(2); const char * p = NULL; const String * a = &t; if (viaC) p = CArg(v, cb, true); else a = &SArg(v, t);
                if (R(3) == 0) { v = M; for (uint32 e = 0; e < 1 + R(3) && !v.empty(); e++) { uint32 at = R((uint32)v.size()); if (R(3) == 0) v.erase(at, 1); else if (R(2)) v.insert(at, 1, GenChar()); else v[at] = GenChar(); } t = v.c_str(); a = &t; p = cb.set(v); }
                if (v.size() > 150 || M.size() > 150) break; uint32 mx = R(3) == 0 ? NOLIM : R(12); OP(mx == NOLIM ? "GetDistanceTo %s" : "GetDistanceTo_maxResult %s max=%u", Q(v, 24).c_str(), mx);
                uint32 d = rLev(M, v), want = std::min(d, mx), got = viaC ? S.GetDistanceTo(p, mx) : S.GetDistanceTo(*a, mx);
                if (d < mx && mx != NOLIM) vh::stat("distances_below_a_given_maxResult");
                if (got != want) Fail(vh::fmt("String(%s).GetDistanceTo(%s, %u) returned %u; the distance is %u, so min(distance, maxResult) = %u", Q(M).c_str(), Q(v).c_str(), mx, got, d, want)); } break;
      case 71: { OP("accessors"); uint32 len = (uint32)M.size(); EqI(S.IsEmpty(), M.empty(), "IsEmpty"); EqI(S.HasChars(), !M.empty(), "HasChars"); EqI(S.GetLastValidIndex(), (long)len - 1, "GetLastValidIndex"); EqI(S.IsIndexValid(len), 0, "IsIndexValid(Length())"); EqI(S.FlattenedSize(), len + 1, "FlattenedSize");
                if (len) { uint32 at = R(len); EqI(S.IsIndexValid(len - 1), 1, "IsIndexValid(Length()-1)"); EqI((unsigned char)S.CharAt(at), (unsigned char)M[at], "CharAt"); EqI((unsigned char)const_cast<const String &>(S)[at], (unsigned char)M[at], "operator[] const"); EqI(S.IsCharInLocalArray(S() + at), 1, "IsCharInLocalArray(own)"); EqI(S.Equals(M[0]), len == 1, "Equals(char)"); EqI(S.EqualsIgnoreCase(Flip(M[0])), len == 1, "EqualsIgnoreCase(char)"); }
                static const char outside[] = "x"; EqI(S.IsCharInLocalArray(outside), 0, "IsCharInLocalArray(foreign)");
                bool neg = R(2); EqI(S.StartsWithNumber(neg), len && (isdig(M[0]) || (neg && M[0] == '-' && len > 1 && isdig(M[1]))), "StartsWithNumber"); } break;
      case 72: { std::string p1; for (size_t i = 0; i < M.size() && p1.size() < 4; i++) if ((M[i] >= 'a' && M[i] <= 'z') || (M[i] >= 'A' && M[i] <= 'Z')) p1 += M[i]; long v1 = R(2000), v2 = R(4) ? R(2000) : v1; std::string x = p1 + vh::fmt("%ld", v1), y = p1 + vh::fmt("%ld", v2), yi = p1; for (size_t i = 0; i < yi.size(); i++) yi[i] = Flip(yi[i]); yi += vh::fmt("%ld", v2);
                OP("NumericAwareCompareTo %s %s", Q(x).c_str(), Q(y).c_str()); S = x.c_str(); M = x; String Y(y.c_str());
                EqI(Sgn(S.NumericAwareCompareTo(Y)), Sgn(v1 - v2), "NumericAwareCompareTo(String) sign"); EqI(Sgn(S.NumericAwareCompareTo(y.c_str())), Sgn(v1 - v2), "NumericAwareCompareTo(cstr) sign"); EqI(Sgn(S.NumericAwareCompareTo(S)), 0, "NumericAwareCompareTo(self)");
                if (v1 != v2) { EqI(Sgn(S.NumericAwareCompareToIgnoreCase(yi.c_str())), Sgn(v1 - v2), "NumericAwareCompareToIgnoreCase sign"); EqI(Sgn(S.NumericAwareCompareToIgnoreCase(String(yi.c_str()))), Sgn(v1 - v2), "NumericAwareCompareToIgnoreCase(String) sign"); } } break;
      default: { char c = (M.size() && R(2)) ? M[0] : GenChar(); OP("Equals_char %02x", (unsigned char)c); EqI(S.Equals(c), M.size() == 1 && M[0] == c, "Equals(char)"); EqI(S.EqualsIgnoreCase(c), M.size() == 1 && lc(M[0]) == lc(c), "EqualsIgnoreCase(char)"); } break;
      }
      // ---------------- after every operation
      for (size_t j = 0; j < L.size(); j++) Audit(j);
      if (!caseBad && (it % 10) == 9) FlattenAudit((size_t)si);
      if (caseBad) break;
      for (size_t j = 0; j < L.size(); j++) { if (rebuilt && (int)j == si) continue; bool now = IsInline(*L[j].s); if (inl[j] && !now) i2h++; else if (!inl[j] && now) h2i++; }
      uint32 len = (uint32)M.size(); if (len > maxLen) maxLen = len; if (len == CAP) { atCap++; vh::stat("ops_ending_at_exactly_cap"); } else if (len == CAP + 1) vh::stat("ops_ending_at_cap_plus_1"); else if (len + 1 == CAP) vh::stat("ops_ending_at_cap_minus_1");
      if (len > 9000) { OP("reset_big"); S.Clear(); M.clear(); }
   }
   vh::stat("transitions_inline_to_heap", i2h); vh::stat("transitions_heap_to_inline", h2i); vh::stat("aliased_operands", aliasOps);
   if (i2h) vh::stat("cases_with_inline_to_heap"); if (h2i) vh::stat("cases_with_heap_to_inline"); if (big) vh::stat("cases_big"); vh::statmax("max_length", maxLen); vh::stat(vh::fmt("cases_alphabet_%d", flavour)); vh::stat(vh::fmt("cases_with_%zu_objects", L.size()));
   vh::distinct(vh::fnv(&cs, sizeof(cs)), i2h > 0 && h2i > 0 && aliasOps > 0);
   if (vh::want_sample() && !trace.empty()) { std::string s; for (size_t i = 0; i < trace.size() && i < 14; i++) { s += trace[i]; s += "; "; } vh::sample(vh::fmt("case %ld (%zu objects, alphabet %d): ", k, L.size(), flavour) + s + "..."); }
   for (size_t j = 0; j < L.size(); j++) delete L[j].s;
   L.clear();
}
#undef S
#undef M

// ------------------------------------------------------------------ fixed witnesses and documentation examples
static void RChk(bool ok, const char * key, const std::string & detail) { vh::stat("regress_checks"); if (!ok) vh::viol(std::string("regress-") + key, detail); }
static void REq(const String & got, const char * want, const char * key, const char * what) { RChk(SameS(got, want), key, vh::fmt("%s: got %s want %s", what, Q(got()).c_str(), Q(want).c_str())); }
static void Regress()
{
   vh::begin_case(0);
   { // F18: unterminated and empty input must be rejected by Unflatten
      uint8 * b3 = (uint8 *)malloc(3); memcpy(b3, "abc", 3); String s("old"); status_t r = s.UnflattenFromBytes(b3, 3); RChk(r.IsError(), "F18", "Unflatten of the 3 unterminated bytes 'abc' returned OK"); free(b3);
      uint8 * b17 = (uint8 *)malloc(17); memset(b17, 'q', 17); String t; r = t.UnflattenFromBytes(b17, 17); RChk(r.IsError(), "F18", "Unflatten of 17 unterminated bytes returned OK"); free(b17);
      uint8 * b0 = (uint8 *)malloc(1); String u("old"); r = u.UnflattenFromBytes(b0, 0); RChk(r.IsError(), "F18", "Unflatten of a 0-byte buffer returned OK"); free(b0);
      DataUnflattener un((const uint8 *)"xy", 2); String v; RChk(v.Unflatten(un).IsError(), "F18", "Unflatten(DataUnflattener over 2 unterminated bytes) returned OK");
      const uint8 good[] = {'h', 'i', 0}; String w; RChk(w.UnflattenFromBytes(good, 3).IsOK() && SameS(w, "hi"), "F18", "Unflatten of 'hi\\0' failed");
      const uint8 nul[] = {0}; String e("old"); RChk(e.UnflattenFromBytes(nul, 1).IsOK() && SameS(e, ""), "F18", "Unflatten of a single NUL byte must give the empty String");
   }
   vh::begin_case(1);
   { // F28: Arg chain over ten or more placeholders
      String f("%1 %2 %3 %4 %5 %6 %7 %8 %9 %10 %11"); const char * v[] = {"a", "b", "c", "d", "e", "f", "g", "h", "i", "j", "k"}; for (int i = 0; i < 11; i++) f = f.Arg(v[i]);
      REq(f, "a b c d e f g h i j k", "F28", "Arg chain %1..%11");
      String h("%10-%1-%11-%2"); h = h.Arg("A"); REq(h, "%10-A-%11-%2", "F28", "first Arg on %10-%1-%11-%2"); h = h.Arg("B").Arg("C").Arg("D"); REq(h, "C-A-D-B", "F28", "Arg chain on %10-%1-%11-%2");
   }
   vh::begin_case(2);
   { // F29: simultaneous table replacement with overlapping candidates
      { Hashtable<String, String> t; (void)t.Put("aab", "X"); REq(String("aaab").WithReplacements(t), "aX", "F29", "{aab->X} on aaab"); String m("aaab"); RChk(m.Replace(t) == 1 && SameS(m, "aX"), "F29", "Replace({aab->X}) on aaab: count/result"); }
      { Hashtable<String, String> t; (void)t.Put("bb", "B"); (void)t.Put("-b", "1"); REq(String("a-bbb-").WithReplacements(t), "a1B-", "F29", "{bb->B,-b->1} on a-bbb-"); }
      { Hashtable<String, String> t; (void)t.Put("abab", "X"); REq(String("ababab abaabab").WithReplacements(t), "Xab abaX", "F29", "{abab->X} on 'ababab abaabab'"); }
      { Hashtable<String, String> t; (void)t.Put("1", "2"); (void)t.Put("2", "3"); REq(String("1,2,3,4").WithReplacements(t), "2,3,3,4", "F29", "String.h example {1->2,2->3} on 1,2,3,4"); REq(String("1,2,3,4").WithReplacements("1", "2").WithReplacements("2", "3"), "3,3,3,4", "docex", "chained single replacements"); }
      { Hashtable<String, String> t; (void)t.Put("ab", "1"); (void)t.Put("abc", "2"); REq(String("abcabc").WithReplacements(t), "1c1c", "docex", "prefix key: first in iteration order wins"); Hashtable<String, String> u; (void)u.Put("abc", "2"); (void)u.Put("ab", "1"); REq(String("abcabd").WithReplacements(u), "21d", "docex", "prefix key: first in iteration order wins (longer first)"); }
   }
   vh::begin_case(3);
   { // documentation examples of String.h
      REq(String("this is a test").Substring("is a"), " test", "docex", "Substring(\"is a\")");
      REq(String("this is a test").Substring(1, "is a"), "his ", "docex", "Substring(1,\"is a\")");
      REq(String("%1 is a %2").Arg(13).Arg("bakers dozen"), "13 is a bakers dozen", "docex", "Arg(13).Arg(\"bakers dozen\")");
      RChk(String("Joe-54").ParseNumericSuffix() == 54, "docex", "ParseNumericSuffix(Joe-54) != 54");
      { uint32 v = 0; REq(String("Joe-54").WithoutNumericSuffix(&v), "Joe-", "docex", "WithoutNumericSuffix(Joe-54): the minus is not part of the suffix (the note is the specification)"); RChk(v == 54, "docex", "WithoutNumericSuffix value"); }
      { String s("string"); s.Reverse(); REq(s, "gnirts", "docex", "Reverse"); }
      { String s("abc"); s.TruncateChars(99); REq(s, "", "docex", "TruncateChars beyond the length empties the String"); }
      REq(String("abc").WithInsert(99, "X"), "abcX", "docex", "WithInsert beyond the end appends");
      REq(String("abcabc") - "bc", "abca", "docex", "operator- removes the last instance");
      { String s("x"); s << 5 << true << 1.5f; REq(s, "x5true1.50", "docex", "operator<< int/bool/float(2 decimals)"); }
      REq(String("v=%1").Arg(2.5), "v=2.5", "docex", "Arg(double) drops trailing zeroes"); REq(String("v=%1").Arg(3.0), "v=3", "docex", "Arg(double) drops the decimal point"); REq(String("v=%1").Arg(3.0, 2), "v=3.00", "docex", "Arg(double,minDigits=2)"); REq(String("v=%1").Arg(true), "v=true", "docex", "Arg(bool)");
   }
   { // F32 (found by this harness, repaired): GetDistanceTo with a maxResult returned maxResult for any strings longer than maxResult
      RChk(String("abcdef").GetDistanceTo("abcdef", 3) == 0, "GetDistanceTo_maxResult", vh::fmt("String(abcdef).GetDistanceTo(abcdef,3) = %u, want 0", String("abcdef").GetDistanceTo("abcdef", 3)));
      RChk(String("ab").GetDistanceTo("xab", 2) == 1, "GetDistanceTo_maxResult", vh::fmt("String(ab).GetDistanceTo(xab,2) = %u, want 1", String("ab").GetDistanceTo("xab", 2)));
      RChk(String("xab").GetDistanceTo(String("ab"), 2) == 1 && String("kitten").GetDistanceTo("sitting") == 3 && String("kitten").GetDistanceTo("sitting", 2) == 2 && String("kitten").GetDistanceTo("sitting", 3) == 3 && String("kitten").GetDistanceTo("sitting", 4) == 3, "GetDistanceTo_maxResult", "kitten/sitting with maxResult 2,3,4 or none");
   }
   vh::begin_case(4);
   { // deterministic sweep over every length around the inline capacity and its doubles
      for (uint32 n = 0; n <= 4 * CAP + 8; n++) { std::string m(n, 'x'); for (uint32 i = 0; i < n; i++) m[i] = (char)('a' + i % 26);
         for (uint32 ex = 0; ex < 4; ex++) { String s(m.c_str()); (void)s.Prealloc(100); (void)s.ShrinkToFit(ex); RChk(SameS(s, m), "sweep", vh::fmt("Prealloc(100)+ShrinkToFit(%u) at length %u", ex, n)); s += 'Z'; RChk(SameS(s, m + "Z"), "sweep", vh::fmt("+=char after ShrinkToFit(%u) at length %u", ex, n)); (void)s.ShrinkToFit(); s.TruncateChars(1); (void)s.ShrinkToFit(ex); RChk(SameS(s, m), "sweep", vh::fmt("truncate+ShrinkToFit(%u) back to length %u", ex, n)); }
         { String s(m.c_str()); s += s; RChk(SameS(s, m + m), "sweep", vh::fmt("+=self at length %u", n)); String t(m.c_str()); t += t() + n / 2; RChk(SameS(t, m + m.substr(n / 2)), "sweep", vh::fmt("+=own pointer at length %u", n)); String u(m.c_str()); (void)u.InsertChars(n / 3, u()); RChk(SameS(u, m.substr(0, n / 3) + m + m.substr(n / 3)), "sweep", vh::fmt("InsertChars(own buffer) at length %u", n)); }
         { String s(m.c_str()); uint8 * b = (uint8 *)malloc(n + 1); s.FlattenToBytes(b, n + 1); String t; RChk(s.FlattenedSize() == n + 1 && b[n] == 0 && t.UnflattenFromBytes(b, n + 1).IsOK() && t == s, "sweep", vh::fmt("flatten round trip at length %u", n)); if (n) { String u; RChk(u.UnflattenFromBytes(b, n).IsError(), "F18", vh::fmt("unterminated %u bytes accepted", n)); } free(b); }
      }
   }
   vh::distinct(1); vh::distinct(2); vh::distinct(3); vh::distinct(4); vh::distinct(5);
}

int main(int argc, char ** argv)
{
   CompleteSetupSystem css;
   vh::init(argc, argv);
   vh::Ctx & c = vh::ctx();
   std::string mode = vh::opt("mode", "model");
   if (mode == "regress") { Regress(); return vh::finish(); }
   for (long k = c.from; k < c.from + c.cases; k++) {
      vh::begin_case(k);
      RunCase(k, vh::case_seed(c.seed, 17, (uint64_t)k));
   }
   return vh::finish();
}
