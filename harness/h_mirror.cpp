// h_mirror.cpp -- C04: a subscriber's mirror of the node tree converges to the server's tree (DESIGN.md section 3 C04, 2.5)
//
// One case = one random command history on a fresh stepped ReflectServer (reflectbench.h).  Every client keeps a mirror
// (path -> payload bytes) fed only by the PR_RESULT_DATAITEMS Messages it receives (removals first, then sets).  At every
// quiescent point, for every client c:
//    mirror(c) == { (p, payload(p)) : p not under c's own session root (or under it, if reflect-to-self),
//                                     some subscription s of c:  refwild matches s.path on p  AND  reference filter passes payload(p) }
// where the tree is what an observer client (reflect-to-self) reads back with GETDATA, the path matching is refwild.h and the
// filter evaluation is the hand-written RF evaluator below (written from the class documentation of regex/QueryFilter.h).
// muscle's StringMatcher / QueryFilter never decide an expectation.  In process (Inspector) the per-node subscriber table must
// equal the number of subscription strings of each session that match the node.
//
// modes:  --opt mode=mirror (default)   random histories;  --opt cmds=N (default 60)  --opt longpm=N (per mille of cases with 16x commands)
//         (environment HM_DUMP=1 prints the field names of every PR_RESULT_DATAITEMS a client receives to stderr: replay aid)
//         --opt mode=regress            fixed witnesses (F13, same-size overwrite, set-then-remove flush, ...) + documentation examples
#include "vh.h"
#include "reflectbench.h"
#include "refwild.h"
#include "regex/QueryFilter.h"
#include <algorithm>

using namespace muscle;
typedef vh::Rng Rng;
typedef refwild::Pattern Pat;
typedef refwild::Node PN;
typedef refwild::Seq PSeq;

// ====================================================================================== payload view + reference filter
struct PV { bool ok; uint32 what; std::map<std::string, int32> ints; std::map<std::string, std::string> strs; PV() : ok(false), what(0) {} };
static const PV & Decode(const std::string & bytes)
{
   static std::map<std::string, PV> cache;
   std::map<std::string, PV>::const_iterator it = cache.find(bytes); if (it != cache.end()) return it->second;
   if (cache.size() > 50000) cache.clear();
   PV p; Message m;
   if (m.UnflattenFromBytes((const uint8 *)bytes.data(), (uint32)bytes.size()).IsOK()) {
      p.ok = true; p.what = m.what;
      for (MessageFieldNameIterator f = m.GetFieldNameIterator(); f.HasData(); f++) {
         uint32 tc = 0; if (m.GetInfo(f.GetFieldName(), &tc).IsError()) continue;
         if (tc == B_INT32_TYPE) { int32 v = 0; if (m.FindInt32(f.GetFieldName(), v).IsOK()) p.ints[f.GetFieldName()()] = v; }
         else if (tc == B_STRING_TYPE) { const String * s = NULL; if (m.FindString(f.GetFieldName(), &s).IsOK() && s) p.strs[f.GetFieldName()()] = s->Cstr(); }
      }
   }
   return cache[bytes] = p;
}

// reference filter tree (content filters only; written from the documentation of regex/QueryFilter.h)
enum { RF_INT = 0, RF_STR, RF_EXISTS, RF_WHAT, RF_AND, RF_OR, RF_NAND, RF_NOR, RF_XOR };
enum { OPC_EQ = 0, OPC_LT, OPC_GT, OPC_LE, OPC_GE, OPC_NE, OPC_STARTS, OPC_ENDS, OPC_CONTAINS };
struct RF {
   int k, op; std::string field; int32 iv; bool hasDef; int32 defv; std::string sv; int tc /*0 any, 1 int32, 2 string*/; uint32 lo, hi; std::vector<RF> kids;
   RF() : k(RF_INT), op(OPC_EQ), iv(0), hasDef(false), defv(0), tc(0), lo(0), hi(0) {}
};
static bool CmpOp(int op, int c) { switch (op) { case OPC_EQ: return c == 0; case OPC_LT: return c < 0; case OPC_GT: return c > 0; case OPC_LE: return c <= 0; case OPC_GE: return c >= 0; default: return c != 0; } }
static bool RefEval(const RF & f, const PV & m)
{
   switch (f.k) {
   case RF_INT: {
      std::map<std::string, int32>::const_iterator it = m.ints.find(f.field); int32 v;
      if (it != m.ints.end()) v = it->second; else if (f.hasDef) v = f.defv; else return false;       // "only returns true if the Message has the field item ..."; with a default: "as if the Message contained the default"
      return CmpOp(f.op, v < f.iv ? -1 : v > f.iv ? 1 : 0); }
   case RF_STR: {
      std::map<std::string, std::string>::const_iterator it = m.strs.find(f.field); if (it == m.strs.end()) return false;
      const std::string & s = it->second;
      if (f.op == OPC_STARTS) return s.size() >= f.sv.size() && s.compare(0, f.sv.size(), f.sv) == 0;
      if (f.op == OPC_ENDS) return s.size() >= f.sv.size() && s.compare(s.size() - f.sv.size(), f.sv.size(), f.sv) == 0;
      if (f.op == OPC_CONTAINS) return s.find(f.sv) != std::string::npos;
      const int c = s.compare(f.sv); return CmpOp(f.op, c < 0 ? -1 : c > 0 ? 1 : 0); }
   case RF_EXISTS: {
      const bool isInt = m.ints.count(f.field) > 0, isStr = m.strs.count(f.field) > 0;
      return f.tc == 0 ? (isInt || isStr) : f.tc == 1 ? isInt : isStr; }
   case RF_WHAT: return m.what >= f.lo && m.what <= f.hi;
   default: break;
   }
   size_t t = 0; for (size_t i = 0; i < f.kids.size(); i++) if (RefEval(f.kids[i], m)) t++;
   switch (f.k) { case RF_AND: return t == f.kids.size(); case RF_OR: return t > 0; case RF_NAND: return t < f.kids.size(); case RF_NOR: return t == 0; default: return (t & 1) != 0; }
}
static std::string ShowRF(const RF & f)
{
   static const char * ops[] = {"==", "<", ">", "<=", ">=", "!=", " startswith ", " endswith ", " contains "};
   switch (f.k) {
   case RF_INT: return "(" + f.field + ops[f.op] + vh::fmt("%d", (int)f.iv) + (f.hasDef ? vh::fmt("|default %d", (int)f.defv) : std::string()) + ")";
   case RF_STR: return "(" + f.field + ops[f.op] + "'" + f.sv + "')";
   case RF_EXISTS: return "exists(" + f.field + (f.tc == 1 ? ":int32" : f.tc == 2 ? ":string" : "") + ")";
   case RF_WHAT: return vh::fmt("what[%u,%u]", f.lo, f.hi);
   default: break;
   }
   static const char * nm[] = {"", "", "", "", "and", "or", "nand", "nor", "xor"};
   std::string s = std::string(nm[f.k]) + "("; for (size_t i = 0; i < f.kids.size(); i++) { if (i) s += ","; s += ShowRF(f.kids[i]); } return s + ")";
}
// the real filter object for the command Message (input construction, not oracle)
static ConstQueryFilterRef BuildFilter(const RF & f)
{
   switch (f.k) {
   case RF_INT: {
      uint8 op; switch (f.op) { case OPC_EQ: op = Int32QueryFilter::OP_EQUAL_TO; break; case OPC_LT: op = Int32QueryFilter::OP_LESS_THAN; break; case OPC_GT: op = Int32QueryFilter::OP_GREATER_THAN; break;
                                case OPC_LE: op = Int32QueryFilter::OP_LESS_THAN_OR_EQUAL_TO; break; case OPC_GE: op = Int32QueryFilter::OP_GREATER_THAN_OR_EQUAL_TO; break; default: op = Int32QueryFilter::OP_NOT_EQUAL_TO; break; }
      return f.hasDef ? ConstQueryFilterRef(new Int32QueryFilter(f.field.c_str(), op, f.iv, 0, f.defv)) : ConstQueryFilterRef(new Int32QueryFilter(f.field.c_str(), op, f.iv)); }
   case RF_STR: {
      uint8 op; switch (f.op) { case OPC_EQ: op = StringQueryFilter::OP_EQUAL_TO; break; case OPC_LT: op = StringQueryFilter::OP_LESS_THAN; break; case OPC_GT: op = StringQueryFilter::OP_GREATER_THAN; break;
                                case OPC_LE: op = StringQueryFilter::OP_LESS_THAN_OR_EQUAL_TO; break; case OPC_GE: op = StringQueryFilter::OP_GREATER_THAN_OR_EQUAL_TO; break; case OPC_NE: op = StringQueryFilter::OP_NOT_EQUAL_TO; break;
                                case OPC_STARTS: op = StringQueryFilter::OP_STARTS_WITH; break; case OPC_ENDS: op = StringQueryFilter::OP_ENDS_WITH; break; default: op = StringQueryFilter::OP_CONTAINS; break; }
      return ConstQueryFilterRef(new StringQueryFilter(f.field.c_str(), op, f.sv.c_str())); }
   case RF_EXISTS: return ConstQueryFilterRef(new ValueExistsQueryFilter(f.field.c_str(), f.tc == 0 ? B_ANY_TYPE : f.tc == 1 ? B_INT32_TYPE : B_STRING_TYPE));
   case RF_WHAT: return ConstQueryFilterRef(new WhatCodeQueryFilter(f.lo, f.hi));
   default: break;
   }
   MultiQueryFilter * mq = NULL;
   switch (f.k) { case RF_AND: mq = new AndQueryFilter; break; case RF_OR: mq = new OrQueryFilter; break; case RF_NAND: mq = new NandQueryFilter; break; case RF_NOR: mq = new NorQueryFilter; break; default: mq = new XorQueryFilter; break; }
   ConstQueryFilterRef r(mq);
   for (size_t i = 0; i < f.kids.size(); i++) if (mq->GetChildren().AddTail(BuildFilter(f.kids[i])).IsError()) rb::Abort("cannot add a child filter");
   return r;
}
static MessageRef ArchiveFilter(const RF & f)
{
   ConstQueryFilterRef q = BuildFilter(f); MessageRef m = GetMessageFromPool();
   if (q() == NULL || m() == NULL || q()->SaveToArchive(*m()).IsError()) rb::Abort("cannot archive a filter");
   return m;
}
static RF RFInt(const char * field, int op, int32 v) { RF f; f.k = RF_INT; f.field = field; f.op = op; f.iv = v; return f; }
static RF GenLeaf(Rng & g)
{
   RF f; const uint32 r = g.R(100);
   if (r < 55) { f.k = RF_INT; f.field = g.chance(9, 10) ? "v" : "n"; f.op = (int)g.R(6); f.iv = (int32)g.R(10); if (g.chance(1, 6)) { f.hasDef = true; f.defv = (int32)g.R(10); } }
   else if (r < 75) { static const char * vals[] = {"a", "ab", "b", "ba", "B"}; f.k = RF_STR; f.field = "s"; f.op = (int)g.R(9); f.sv = vals[g.R(5)]; }
   else if (r < 85) { static const char * flds[] = {"v", "s", "pad", "zz"}; f.k = RF_EXISTS; f.field = flds[g.R(4)]; f.tc = (int)g.R(3); }
   else { f.k = RF_WHAT; f.lo = 99 + g.R(3); f.hi = f.lo + g.R(2); }
   return f;
}
static RF GenFilter(Rng & g)
{
   if (!g.chance(1, 4)) return GenLeaf(g);
   RF f; f.k = RF_AND + (int)g.R(5); const uint32 n = 2 + g.R(2);
   for (uint32 i = 0; i < n; i++) f.kids.push_back(GenLeaf(g));
   return f;
}

// ====================================================================================== patterns / subscriptions
static PSeq LitSeq(const std::string & s) { PSeq q; for (size_t i = 0; i < s.size(); i++) q.push_back(PN::Lit((unsigned char)s[i])); return q; }
static Pat PLit(const std::string & s) { Pat p; p.alts.push_back(LitSeq(s)); return p; }
static Pat PStar() { Pat p; PSeq q; q.push_back(PN::Star()); p.alts.push_back(q); return p; }
static Pat PAny(int n) { Pat p; PSeq q; for (int i = 0; i < n; i++) q.push_back(PN::Any1()); p.alts.push_back(q); return p; }
static Pat PClass(const char * members, char lo = 0, char hi = 0)
{
   Pat p; PN n; n.k = PN::CLASS; for (const char * c = members; *c; c++) n.cls.push_back(refwild::ClassItem((unsigned char)*c, (unsigned char)*c));
   if (lo) n.cls.push_back(refwild::ClassItem((unsigned char)lo, (unsigned char)hi));
   PSeq q; q.push_back(n); p.alts.push_back(q); return p;
}
static Pat PGroup(const std::vector<std::string> & v) { Pat p; PN n; n.k = PN::GROUP; for (size_t i = 0; i < v.size(); i++) n.alts.push_back(LitSeq(v[i])); PSeq q; q.push_back(n); p.alts.push_back(q); return p; }
static Pat PComma(const std::vector<std::string> & v) { Pat p; for (size_t i = 0; i < v.size(); i++) p.alts.push_back(LitSeq(v[i])); return p; }
static Pat PNeg(Pat p) { p.negate = true; return p; }
static Pat PPrefix(const std::string & s) { Pat p; PSeq q = LitSeq(s); q.push_back(PN::Star()); p.alts.push_back(q); return p; }
static Pat PSuffix(const std::string & s) { Pat p; PSeq q; q.push_back(PN::Star()); PSeq l = LitSeq(s); q.insert(q.end(), l.begin(), l.end()); p.alts.push_back(q); return p; }
static Pat PRange(bool hasLo, uint64_t lo, bool hasHi, uint64_t hi) { Pat p; p.numeric = true; refwild::NumRange r; r.hasLo = hasLo; r.lo = lo; r.hasHi = hasHi; r.hi = hi; p.ranges.push_back(r); return p; }
static bool IsWild(const Pat & p) { return !refwild::IsPureLiteral(p); }

static const std::vector<std::string> & Segs(const std::string & path)
{
   static std::map<std::string, std::vector<std::string> > cache;
   std::map<std::string, std::vector<std::string> >::const_iterator it = cache.find(path); if (it != cache.end()) return it->second;
   if (cache.size() > 50000) cache.clear();
   return cache[path] = refwild::SplitPath(path);
}

struct Sub {
   std::string name;          // the text after "SUBSCRIBE:"
   std::string canon;         // root-relative normal form ("a" and "/*/*/a" are the same subscription)
   std::vector<Pat> cl;       // one pattern per path level of the normal form
   bool wild, hasFilter, quiet; RF filter;
   Sub() : wild(false), hasFilter(false), quiet(false) {}
};
static bool SubMatchesPath(const Sub & s, const std::string & path)
{
   const std::vector<std::string> & sg = Segs(path);
   if (sg.size() != s.cl.size() || sg.empty()) return false;
   for (size_t i = 0; i < sg.size(); i++) if (!refwild::Match(s.cl[i], sg[i])) return false;
   return true;
}
static bool SubSelects(const Sub & s, const std::string & path, const std::string & payload) { return SubMatchesPath(s, path) && (!s.hasFilter || RefEval(s.filter, Decode(payload))); }
// absolute: cl = host, session, node clauses...; relative: cl = node clauses
static Sub MakeSub(bool absolute, const std::vector<Pat> & cl)
{
   Sub s; std::string txt; for (size_t i = 0; i < cl.size(); i++) { if (i) txt += "/"; txt += refwild::Print(cl[i]); }
   s.name = absolute ? "/" + txt : txt; s.canon = absolute ? txt : "*/*/" + txt;
   if (!absolute) { s.cl.push_back(PStar()); s.cl.push_back(PStar()); }
   s.cl.insert(s.cl.end(), cl.begin(), cl.end());
   for (size_t i = 0; i < cl.size(); i++) if (IsWild(cl[i])) s.wild = true;
   return s;
}
// from subscription text of the documented subset (regress scenarios, documentation examples)
static Sub SubFromText(const std::string & name)
{
   Sub s; s.name = name; s.canon = (name[0] == '/') ? name.substr(1) : "*/*/" + name;
   std::vector<std::string> sg = refwild::SplitPath(s.canon);
   for (size_t i = 0; i < sg.size(); i++) { Pat p; std::string why; if (!refwild::Parse(sg[i], p, &why)) rb::Abort("SubFromText: clause [" + sg[i] + "] refused: " + why); s.cl.push_back(p); if (IsWild(p)) s.wild = true; }
   return s;
}
// backslash before every character the simple syntax treats specially (a literal key for REMOVEPARAMETERS / REMOVEDATA)
static std::string EscapeLiteral(const std::string & s) { std::string o; for (size_t i = 0; i < s.size(); i++) { if (strchr("*?,()[]|\\{}^$", s[i])) o += '\\'; o += s[i]; } return o; }

static const char * NAMES[] = {"a", "b", "c", "x", "y", "ab", "1", "2", "10"};
static std::string RandName(Rng & g)
{
   if (g.chance(1, 40)) { static const char * odd[] = {"a*", "[x]", "q?"}; vh::stat("names_with_metacharacters"); return odd[g.R(3)]; }
   const uint32 a = g.R(9), b = g.R(9); return NAMES[a < b ? a : b];
}
static std::string RandPath(Rng & g) { const uint32 r = g.R(100); const int d = r < 50 ? 1 : r < 85 ? 2 : 3; std::string p; for (int i = 0; i < d; i++) { if (i) p += "/"; p += RandName(g); } return p; }
static Pat RandNodeClause(Rng & g)
{
   const uint32 r = g.R(100);
   if (r < 22) return PStar();
   if (r < 55) return PLit(RandName(g));
   std::vector<std::string> two; two.push_back(RandName(g)); two.push_back(RandName(g)); std::vector<std::string> three = two; three.push_back(RandName(g));
   switch (g.R(16)) {
   case 0: return PAny(1); case 1: return PAny(2); case 2: return PClass("ab"); case 3: return PClass("", 'a', 'c'); case 4: return PClass("", '0', '9');
   case 5: return PGroup(two); case 6: return PGroup(three); case 7: return PComma(two); case 8: return PComma(three);
   case 9: return PNeg(PLit(RandName(g))); case 10: return PNeg(PGroup(two));
   case 11: return PPrefix(RandName(g).substr(0, 1)); case 12: { std::string n = RandName(g); return PSuffix(n.substr(n.size() - 1)); }
   case 13: return PPrefix("I"); case 14: return PClass("xy1"); default: return PNeg(PPrefix(RandName(g).substr(0, 1)));
   }
}

// ====================================================================================== mirror clients and the world
enum { ACT_PRUNE = 1, ACT_CLEAR, ACT_QBEGIN, ACT_QEND, ACT_NONE };
struct PongAct { int kind; std::vector<Sub> snap; PongAct() : kind(ACT_NONE) {} };
struct MC {
   rb::Client * c; int no; size_t cursor; bool left;
   std::map<std::string, std::string> mirror;
   std::map<std::string, Sub> subs;                 // by parameter name (without the SUBSCRIBE: prefix)
   bool self, dsub, enc; int mxup;
   bool taintAll; std::set<std::string> taint;
   std::map<int32, PongAct> acts; bool inQuery; std::map<std::string, std::string> qres; long qRemovals;
   long unimpl, dataMsgs, setsSeen, removalsSeen; long maxNamesInOneUpdate;
   std::map<std::string, std::string> prevExp; bool hasPrev;
   // recogniser of the open finding 'filter-change removal overtaken by a data reply': filter changes made earlier in the top-level Message being built, and (filter change, later data-returning key) pairs not yet judged
   std::vector<Sub> changedInThisMessage; std::vector<std::pair<Sub, Sub> > hazards;
   void NoteDataReturningKey(const Sub & g) { for (size_t i = 0; i < changedInThisMessage.size(); i++) if (changedInThisMessage[i].canon != g.canon) hazards.push_back(std::make_pair(changedInThisMessage[i], g)); }
   MC() : c(NULL), no(0), cursor(0), left(false), self(false), dsub(false), enc(false), mxup(-1), taintAll(false), inQuery(false), qRemovals(0), unimpl(0), dataMsgs(0), setsSeen(0), removalsSeen(0), maxNamesInOneUpdate(0), hasPrev(false) {}
   bool Live() const { return !left && c->alive; }
   bool Own(const std::string & p) const { return rb::Under(p, c->root); }
   bool Selects(const std::string & path, const std::string & payload, const std::vector<Sub> * snap = NULL) const
   {
      if (snap) { for (size_t i = 0; i < snap->size(); i++) if (SubSelects((*snap)[i], path, payload)) return true; return false; }
      for (std::map<std::string, Sub>::const_iterator it = subs.begin(); it != subs.end(); ++it) if (SubSelects(it->second, path, payload)) return true;
      return false;
   }
   std::vector<Sub> SubVec() const { std::vector<Sub> v; for (std::map<std::string, Sub>::const_iterator it = subs.begin(); it != subs.end(); ++it) v.push_back(it->second); return v; }
   // the client's half of the protocol: apply everything received since the last call, in arrival order
   void Drain()
   {
      for (; cursor < c->got.size(); cursor++) {
         const Message & m = *c->got[cursor]();
         if (m.what == PR_RESULT_DATAITEMS) {
            if (getenv("HM_DUMP")) { fprintf(stderr, "c%d <- DATAITEMS:", no); for (MessageFieldNameIterator it = m.GetFieldNameIterator(); it.HasData(); it++) fprintf(stderr, " %s(x%u)", it.GetFieldName()(), m.GetNumValuesInName(it.GetFieldName())); fprintf(stderr, "\n"); }
            dataMsgs++; if ((long)m.GetNumNames() > maxNamesInOneUpdate) maxNamesInOneUpdate = (long)m.GetNumNames();
            std::map<std::string, std::string> & dst = inQuery ? qres : mirror;
            const String * s; for (uint32 i = 0; m.FindString(PR_NAME_REMOVED_DATAITEMS, i, &s).IsOK(); i++) { dst.erase(s->Cstr()); removalsSeen++; if (inQuery) qRemovals++; }
            for (MessageFieldNameIterator it = m.GetFieldNameIterator(B_MESSAGE_TYPE); it.HasData(); it++) { MessageRef p; for (uint32 i = 0; m.FindMessage(it.GetFieldName(), i, p).IsOK(); i++) { dst[it.GetFieldName()()] = rb::FlatBytes(*p()); setsSeen++; } }
         }
         else if (m.what == PR_RESULT_PONG) {
            int32 t = 0; if (m.FindInt32("mt", t).IsError()) continue;
            std::map<int32, PongAct>::iterator a = acts.find(t); if (a == acts.end()) continue;
            switch (a->second.kind) {
            case ACT_PRUNE:   // no unsubscribe notice exists: forget what no remaining subscription (path AND filter) selects
               for (std::map<std::string, std::string>::iterator mi = mirror.begin(); mi != mirror.end();) { if (!Selects(mi->first, mi->second, &a->second.snap)) mirror.erase(mi++); else ++mi; }
               break;
            case ACT_CLEAR: mirror.clear(); break;
            case ACT_QBEGIN: inQuery = true; qres.clear(); qRemovals = 0; break;
            case ACT_QEND: inQuery = false; break;
            default: break;
            }
            acts.erase(a);
         }
         else if (m.what == PR_RESULT_ERRORUNIMPLEMENTED) unimpl++;
      }
   }
};

static MessageRef Batch(const std::vector<MessageRef> & v) { MessageRef b = GetMessageFromPool(PR_COMMAND_BATCH); for (size_t i = 0; i < v.size(); i++) if (b()->AddMessage(PR_NAME_KEYS, v[i]).IsError()) rb::Abort("AddMessage failed"); return b; }
static MessageRef Payload(uint32 what, int v /* <0: none */, const char * s /* NULL: none */, int pad = 0)
{
   MessageRef m = GetMessageFromPool(what); if (v >= 0) (void)m()->AddInt32("v", v); if (s) (void)m()->AddString("s", s);
   if (pad > 0) (void)m()->AddString("pad", std::string((size_t)pad, 'p').c_str());
   return m;
}
static MessageRef RandPayload(Rng & g, int pad = 0)
{
   static const char * ss[] = {"a", "ab", "b", "ba", "B"};
   return Payload(100 + g.R(2), g.chance(85, 100) ? (int)g.R(10) : -1, g.chance(55, 100) ? ss[g.R(5)] : NULL, pad);
}
static std::string ShowPayload(const MessageRef & m)
{
   std::string s = vh::fmt("{%u", m()->what); int32 v; if (m()->FindInt32("v", v).IsOK()) s += vh::fmt(" v=%d", (int)v);
   const String * t; if (m()->FindString("s", &t).IsOK()) s += std::string(" s=") + t->Cstr(); if (m()->HasName("pad")) s += " pad"; return s + "}";
}
enum { FL_DONTCREATE = 1, FL_DONTOVERWRITE = 2, FL_QUIET = 4, FL_ADDTOINDEX = 8, FL_SUPERSEDE = 16 };
static std::string ShowFlags(unsigned f) { std::string s; if (f & FL_DONTCREATE) s += " dontcreate"; if (f & FL_DONTOVERWRITE) s += " dontoverwrite"; if (f & FL_QUIET) s += " QUIET"; if (f & FL_ADDTOINDEX) s += " addtoindex"; if (f & FL_SUPERSEDE) s += " supersede"; return s; }
static MessageRef BuildSet(const std::vector<std::pair<std::string, MessageRef> > & items, unsigned flags)
{
   MessageRef m = GetMessageFromPool(PR_COMMAND_SETDATA);
   for (size_t i = 0; i < items.size(); i++) if (m()->AddMessage(items[i].first.c_str(), items[i].second).IsError()) rb::Abort("AddMessage failed");
   if (flags) {
      SetDataNodeFlags fl;
      if (flags & FL_DONTCREATE) fl.SetBit(SETDATANODE_FLAG_DONTCREATENODE); if (flags & FL_DONTOVERWRITE) fl.SetBit(SETDATANODE_FLAG_DONTOVERWRITEDATA);
      if (flags & FL_QUIET) fl.SetBit(SETDATANODE_FLAG_QUIET); if (flags & FL_ADDTOINDEX) fl.SetBit(SETDATANODE_FLAG_ADDTOINDEX); if (flags & FL_SUPERSEDE) fl.SetBit(SETDATANODE_FLAG_ENABLESUPERCEDE);
      if (m()->AddFlat(PR_NAME_FLAGS, fl).IsError()) rb::Abort("AddFlat failed");
   }
   return m;
}
static MessageRef BuildSet1(const std::string & path, const MessageRef & payload, unsigned flags = 0) { std::vector<std::pair<std::string, MessageRef> > v; v.push_back(std::make_pair(path, payload)); return BuildSet(v, flags); }
static MessageRef BuildRemove(const std::vector<std::string> & keys, const RF * filter, bool quiet)
{
   MessageRef m = GetMessageFromPool(PR_COMMAND_REMOVEDATA);
   for (size_t i = 0; i < keys.size(); i++) (void)m()->AddString(PR_NAME_KEYS, keys[i].c_str());
   if (filter) for (size_t i = 0; i < keys.size(); i++) (void)m()->AddMessage(PR_NAME_FILTERS, ArchiveFilter(*filter));
   if (quiet) (void)m()->AddBool(PR_NAME_REMOVE_QUIETLY, true);
   return m;
}
static MessageRef BuildRemove1(const std::string & key, const RF * filter = NULL, bool quiet = false) { std::vector<std::string> k; k.push_back(key); return BuildRemove(k, filter, quiet); }

struct World {
   rb::Bench B; rb::Client * obs; std::vector<MC *> mcs; std::vector<std::string> log; bool bad; std::string tag; int32 nextTag;
   std::map<std::string, std::string> truth, prevTruth; bool hasPrevTruth; bool anyOverlap;
   long comparisons, nonEmptyComparisons, filteredOverlapSeen;
   World(const std::string & t) : obs(NULL), bad(false), tag(t), nextTag(0), hasPrevTruth(false), anyOverlap(false), comparisons(0), nonEmptyComparisons(0), filteredOverlapSeen(0)
   {
      rb::Options o; o.reflectToSelf = true; obs = B.AddClient(o);     // the observer must reflect to itself or GETDATA omits its own session node
   }
   ~World() { for (size_t i = 0; i < mcs.size(); i++) delete mcs[i]; }
   void Log(const std::string & s) { log.push_back(s); }
   std::string Context() const
   {
      std::string s = " | clients:";
      for (size_t i = 0; i < mcs.size(); i++) { const MC & c = *mcs[i]; if (c.left) continue; s += vh::fmt(" c%d=%s%s%s[", c.no, c.c->root.c_str(), c.self ? "+self" : "", c.c->slow ? "+slow" : "");
         for (std::map<std::string, Sub>::const_iterator it = c.subs.begin(); it != c.subs.end(); ++it) s += it->first + (it->second.hasFilter ? " f=" + ShowRF(it->second.filter) : std::string()) + "; "; s += "]"; }
      s += " | history:"; size_t from = log.size() > 45 ? log.size() - 45 : 0; if (from) s += " ...";
      for (size_t i = from; i < log.size(); i++) s += " ; " + log[i];
      return s.substr(0, 3800);
   }
   void Fail(const std::string & key, const std::string & what) { if (bad) return; bad = true; vh::viol(tag + "|" + key, what + Context()); }
   MC * Join(bool slow = false)
   {
      rb::Options o; o.slow = slow; MC * m = new MC; m->c = B.AddClient(o); m->no = (int)mcs.size(); mcs.push_back(m); DrainAll();
      Log(vh::fmt("c%d joins%s as %s", m->no, slow ? " (2 KB buffers)" : "", m->c->root.c_str())); vh::stat("cmd|join"); if (slow) vh::stat("cmd|join_slow");
      return m;
   }
   void Leave(MC & c) { c.c->Cut(); c.left = true; Log(vh::fmt("c%d leaves", c.no)); vh::stat("cmd|leave"); }
   void DrainAll() { for (size_t i = 0; i < mcs.size(); i++) if (mcs[i]->Live()) mcs[i]->Drain(); }
   void Settle() { B.Settle(); DrainAll(); }
   std::vector<MC *> LiveClients() { std::vector<MC *> v; for (size_t i = 0; i < mcs.size(); i++) if (mcs[i]->Live()) v.push_back(mcs[i]); return v; }
   MessageRef Ping(MC & c, int kind, const std::vector<Sub> * snap = NULL)
   {
      const int32 t = ++nextTag; MessageRef p = GetMessageFromPool(PR_COMMAND_PING); (void)p()->AddInt32("mt", t);
      PongAct a; a.kind = kind; if (snap) a.snap = *snap; c.acts[t] = a; return p;
   }
   // a top-level send: everything built for c since its previous Send travels in this Message / these Messages
   void Send(MC & c, const MessageRef & m) { c.c->Send(m); c.changedInThisMessage.clear(); }
   void Send(MC & c, const std::vector<MessageRef> & v) { for (size_t i = 0; i < v.size(); i++) c.c->Send(v[i]); c.changedInThisMessage.clear(); }

   // ---- command builders with the client's own bookkeeping (the Message is sent by the caller, in order)
   MessageRef MkSubscribe(MC & c, const std::vector<Sub> & entries, int mxup, bool quiet)
   {
      MessageRef sp = GetMessageFromPool(PR_COMMAND_SETPARAMETERS);
      for (size_t i = 0; i < entries.size(); i++) {
         const Sub & e = entries[i]; const std::string key = "SUBSCRIBE:" + e.name;
         if (e.hasFilter) { if (sp()->AddMessage(key.c_str(), ArchiveFilter(e.filter)).IsError()) rb::Abort("AddMessage failed"); } else (void)sp()->AddBool(key.c_str(), true);
         if (!quiet) c.NoteDataReturningKey(e);
         std::map<std::string, Sub>::const_iterator old = c.subs.find(e.name);
         if (old != c.subs.end() && (old->second.hasFilter != e.hasFilter || (e.hasFilter && ShowRF(old->second.filter) != ShowRF(e.filter)))) c.changedInThisMessage.push_back(e);
         c.subs[e.name] = e;
      }
      if (mxup > 0) { (void)sp()->AddInt32(PR_NAME_MAX_UPDATE_MESSAGE_ITEMS, mxup); c.mxup = mxup; }
      if (quiet) (void)sp()->AddBool(PR_NAME_SUBSCRIBE_QUIETLY, true);
      return sp;
   }
   // REMOVEPARAMETERS with one key pattern + the ping whose pong triggers the local prune
   void MkRemoveParams(MC & c, const std::string & keyPattern, std::vector<MessageRef> & out, std::string * optDesc = NULL)
   {
      MessageRef rp = GetMessageFromPool(PR_COMMAND_REMOVEPARAMETERS); (void)rp()->AddString(PR_NAME_KEYS, keyPattern.c_str()); out.push_back(rp);
      Pat p; std::string why; if (!refwild::Parse(keyPattern, p, &why)) rb::Abort("REMOVEPARAMETERS key [" + keyPattern + "] refused: " + why);
      int removed = 0;
      for (std::map<std::string, Sub>::iterator it = c.subs.begin(); it != c.subs.end();) { if (refwild::Match(p, "SUBSCRIBE:" + it->first)) { c.subs.erase(it++); removed++; } else ++it; }
      if (c.self && refwild::Match(p, PR_NAME_REFLECT_TO_SELF)) c.self = false;
      if (c.mxup > 0 && refwild::Match(p, PR_NAME_MAX_UPDATE_MESSAGE_ITEMS)) c.mxup = -1;
      if (c.enc && refwild::Match(p, PR_NAME_REPLY_ENCODING)) c.enc = false;
      if (c.dsub && refwild::Match(p, PR_NAME_DISABLE_SUBSCRIPTIONS)) c.dsub = false;      // the client stays tainted until it resynchronises
      std::vector<Sub> snap = c.SubVec(); out.push_back(Ping(c, ACT_PRUNE, &snap));
      if (optDesc) *optDesc = vh::fmt("c%d removeparams %s (-%d subs)", c.no, keyPattern.c_str(), removed);
      if (removed) vh::stat("subscriptions_removed", removed);
   }
   // explicit refresh: forget everything when the pong arrives, then have the server restate what the subscriptions select
   void MkResync(MC & c, std::vector<MessageRef> & out)
   {
      std::vector<MessageRef> v; v.push_back(Ping(c, ACT_CLEAR));
      if (!c.subs.empty()) v.push_back(MkSubscribe(c, c.SubVec(), -1, false));
      for (std::map<std::string, Sub>::iterator it = c.subs.begin(); it != c.subs.end(); ++it) it->second.quiet = false;
      out.push_back(Batch(v));
      if (!c.dsub) { c.taintAll = false; c.taint.clear(); }
   }
   void ReadTruth() { B.ObserverView(obs, 8); DrainAll(); truth = obs->mirror; }
   std::string CompareClient(MC & c, long * optEntries = NULL, long * optTaintSkipped = NULL);
   bool Check(const char * why);
};

// ====================================================================================== the oracle
// "" or a description of the first difference between c's mirror and what its subscriptions select in `truth`
std::string World::CompareClient(MC & c, long * optEntries, long * optTaintSkipped)
{
   std::map<std::string, std::string> exp, got;
   for (std::map<std::string, std::string>::const_iterator it = truth.begin(); it != truth.end(); ++it) {
      if (!c.self && c.Own(it->first)) continue;
      if (c.taint.count(it->first)) { if (optTaintSkipped) (*optTaintSkipped)++; continue; }
      if (c.Selects(it->first, it->second)) exp[it->first] = it->second;
   }
   for (std::map<std::string, std::string>::const_iterator it = c.mirror.begin(); it != c.mirror.end(); ++it) {
      if (!c.self && c.Own(it->first)) continue;
      if (c.taint.count(it->first)) continue;
      got[it->first] = it->second;
   }
   if (optEntries) *optEntries += (long)exp.size();
   // observation: nodes that entered / left the match set although they existed before and after (payload or filter change)
   if (c.hasPrev && hasPrevTruth && optEntries) {
      for (std::map<std::string, std::string>::const_iterator it = c.prevExp.begin(); it != c.prevExp.end(); ++it) if (!exp.count(it->first) && truth.count(it->first)) { bool pm = false; for (std::map<std::string, Sub>::const_iterator s = c.subs.begin(); s != c.subs.end(); ++s) if (SubMatchesPath(s->second, it->first)) pm = true; if (pm) vh::stat("obs_node_left_match_set_while_path_still_subscribed"); }
      for (std::map<std::string, std::string>::const_iterator it = exp.begin(); it != exp.end(); ++it) if (!c.prevExp.count(it->first) && prevTruth.count(it->first)) vh::stat("obs_existing_node_entered_match_set");
   }
   if (optEntries) { c.prevExp = exp; c.hasPrev = true; }
   if (got == exp) return "";
   for (std::map<std::string, std::string>::const_iterator it = exp.begin(); it != exp.end(); ++it) {
      std::map<std::string, std::string>::const_iterator g = got.find(it->first);
      if (g == got.end()) return "missing|" + vh::fmt("c%d lacks %s (payload %s) although a subscription selects it", c.no, it->first.c_str(), vh::hex(it->second.data(), it->second.size(), 40).c_str());
      if (g->second != it->second) return "stale|" + vh::fmt("c%d holds %s with payload %s, the server has %s", c.no, it->first.c_str(), vh::hex(g->second.data(), g->second.size(), 40).c_str(), vh::hex(it->second.data(), it->second.size(), 40).c_str());
   }
   for (std::map<std::string, std::string>::const_iterator it = got.begin(); it != got.end(); ++it) if (!exp.count(it->first))
      return "extra|" + vh::fmt("c%d holds %s (%s) but %s", c.no, it->first.c_str(), vh::hex(it->second.data(), it->second.size(), 40).c_str(), truth.count(it->first) ? "no subscription of it selects that node" : "the server has no such node");
   return "extra|unknown";
}

// one quiescent point: settle, read the truth through the observer, check every client.  false = a violation was reported
bool World::Check(const char * why)
{
   if (bad) return false;
   Settle();
   if (hasPrevTruth) prevTruth.swap(truth); else prevTruth.clear();
   const bool hadPrev = hasPrevTruth;
   ReadTruth();
   vh::stat("quiescent_points"); vh::statmax("max_tree_nodes", (long)truth.size());
   if (hadPrev) for (std::map<std::string, std::string>::const_iterator it = truth.begin(); it != truth.end(); ++it) { std::map<std::string, std::string>::const_iterator p = prevTruth.find(it->first); if (p != prevTruth.end() && p->second != it->second) { vh::stat("obs_overwrites"); if (p->second.size() == it->second.size()) vh::stat("obs_overwrites_same_size"); } }
   hasPrevTruth = true;
   // the public view must be the in-process tree
   rb::TreeSnap snap; if (!B.insp->Snapshot(snap)) { Fail("truth|inspector_detached", "the inspector session is no longer attached"); return false; }
   for (rb::TreeSnap::const_iterator it = snap.begin(); it != snap.end(); ++it) {
      if (it->first == "/") continue;
      std::map<std::string, std::string>::const_iterator t = truth.find(it->first);
      if (t == truth.end() || t->second != it->second.payload) { Fail("truth|observer_getdata_differs_from_tree", "node " + it->first + (t == truth.end() ? " is absent from the observer's GETDATA view" : " has another payload in the observer's GETDATA view")); return false; }
   }
   if (truth.size() + 1 != snap.size()) { Fail("truth|observer_getdata_differs_from_tree", vh::fmt("the observer's GETDATA view has %zu nodes, the tree %zu", truth.size(), snap.size() - 1)); return false; }
   // subscribers(node)[s] == number of subscription strings of s matching node
   anyOverlap = false;
   for (rb::TreeSnap::const_iterator it = snap.begin(); it != snap.end(); ++it) {
      std::map<uint32, uint32> expect;
      for (size_t i = 0; i < mcs.size(); i++) { MC & c = *mcs[i]; if (!c.Live()) continue; uint32 n = 0; bool filt = false;
         for (std::map<std::string, Sub>::const_iterator s = c.subs.begin(); s != c.subs.end(); ++s) if (SubMatchesPath(s->second, it->first)) { n++; if (s->second.hasFilter) filt = true; }
         if (n) expect[c.c->id] = n; if (n >= 2) { anyOverlap = true; vh::stat("obs_nodes_under_overlapping_subscriptions"); if (filt) { vh::stat("obs_nodes_under_overlapping_subscriptions_with_filter"); filteredOverlapSeen++; } } }
      vh::stat("subscriber_table_checks");
      if (expect != it->second.subs) { Fail("subscriber_table|refcount_differs_from_subscription_strings", "node " + it->first + ": subscriber table is" + rb::ShowSubs(it->second.subs) + ", the subscription strings give" + rb::ShowSubs(expect)); return false; }
   }
   for (size_t i = 0; i < mcs.size(); i++) {
      MC & c = *mcs[i]; if (!c.Live()) continue;
      if (c.c->readPaused) { vh::stat("comparisons_skipped_reader_paused"); const long q = (long)rb::Bench::ServerSideQueueLength(*c.c->session()); vh::statmax("max_server_side_queue_of_paused_reader", q); if (q >= 2) vh::stat("obs_paused_reader_with_2plus_queued_messages"); continue; }
      if (c.taintAll || c.dsub) { vh::stat("comparisons_skipped_tainted_client"); continue; }
      long entries = 0, skipped = 0; const std::string d = CompareClient(c, &entries, &skipped);
      comparisons++; if (entries) nonEmptyComparisons++;
      vh::stat("mirror_comparisons"); vh::stat("mirror_entries_compared", entries); if (skipped) vh::stat("tainted_pairs_excluded", skipped);
      if (c.subs.size() >= 2) vh::stat("mirror_comparisons_with_2plus_subscriptions");
      if (c.self) vh::stat("mirror_comparisons_reflect_to_self");
      if (c.mxup > 0 && c.mxup <= 3) vh::stat("mirror_comparisons_with_small_max_update_items");
      if (!d.empty()) {
         const size_t bar = d.find('|'); std::string key = d.substr(0, bar);
         if (key == "missing") {   // open finding: the removal notice of a filter change overtaken by the data another key of the same command returned
            const size_t b = d.find("lacks ") + 6; const std::string path = d.substr(b, d.find(' ', b) - b); std::map<std::string, std::string>::const_iterator t = truth.find(path);
            if (t != truth.end()) for (size_t h = 0; h < c.hazards.size(); h++) if (SubMatchesPath(c.hazards[h].first, path) && !SubSelects(c.hazards[h].first, path, t->second) && SubSelects(c.hazards[h].second, path, t->second)) key = "missing_after_filter_change_and_data_reply_in_one_command";
         }
         Fail(key, d.substr(bar + 1) + " [at quiescent point: " + why + "]"); return false;
      }
      c.hazards.clear();
   }
   return true;
}

// ====================================================================================== random histories
struct Gen {
   World & W; Rng & g; bool quietHistory;
   Gen(World & w, Rng & r, bool q) : W(w), g(r), quietHistory(q) {}

   static void Cell(const char * kind, bool f, bool w, bool o) { vh::stat(vh::fmt("cell|%s|f%d|w%d|o%d", kind, (int)f, (int)w, (int)o)); }

   Pat SessionClause()
   {
      std::vector<MC *> live = W.LiveClients(); std::vector<std::string> ids; for (size_t i = 0; i < live.size(); i++) ids.push_back(live[i]->c->sid); ids.push_back(W.obs->sid);
      const std::string a = ids[g.R((uint32)ids.size())], b = ids[g.R((uint32)ids.size())]; const uint64_t na = strtoull(a.c_str(), NULL, 10), nb = strtoull(b.c_str(), NULL, 10);
      std::vector<std::string> two; two.push_back(a); two.push_back(b);
      switch (g.R(20)) {
      case 0: case 1: return PLit(a); case 2: return PRange(true, na < nb ? na : nb, true, na < nb ? nb : na); case 3: return PRange(true, na, false, 0); case 4: return PRange(false, 0, true, na);
      case 5: return PNeg(PLit(a)); case 6: return PGroup(two); case 7: return PComma(two); case 8: return PNeg(PGroup(two)); case 9: { Pat p = PRange(true, na, true, na); refwild::NumRange r; r.hasLo = true; r.lo = nb; p.ranges.push_back(r); return p; }
      default: return PStar();
      }
   }
   Sub RandSub()
   {
      const bool absolute = g.chance(35, 100); std::vector<Pat> cl;
      if (absolute) {
         cl.push_back(g.chance(85, 100) ? PStar() : PLit(W.obs->host));
         const uint32 r = g.R(100);
         if (r < 3) return MakeSub(true, cl);                    // "/*": host nodes
         cl.push_back(SessionClause());
         if (r < 10) return MakeSub(true, cl);                   // session nodes
      }
      const uint32 r = g.R(100); const int d = r < 50 ? 1 : r < 85 ? 2 : 3;
      for (int i = 0; i < d; i++) cl.push_back(RandNodeClause(g));
      return MakeSub(absolute, cl);
   }
   // a subscription entry for c: a new pattern, or an existing one with another filter (never two names with one normal form)
   Sub SubEntryFor(MC & c, bool * isResub)
   {
      Sub s; *isResub = false;
      if (!c.subs.empty() && g.chance(35, 100)) { std::map<std::string, Sub>::iterator it = c.subs.begin(); std::advance(it, g.R((uint32)c.subs.size())); s = it->second; *isResub = true; }
      else { s = RandSub(); for (std::map<std::string, Sub>::iterator it = c.subs.begin(); it != c.subs.end(); ++it) if (it->second.canon == s.canon) { s = it->second; *isResub = true; break; } }
      if (*isResub && g.chance(15, 100)) return s;                      // the same path with the same filter again
      s.hasFilter = g.chance(*isResub ? 60 : 45, 100); if (s.hasFilter) s.filter = GenFilter(g); else s.filter = RF();
      return s;
   }
   // how a re-subscription changes the filter of the existing entry
   static const char * ChangeKind(const Sub & old, const Sub & now) { return (!old.hasFilter && !now.hasFilter) ? "same" : (!old.hasFilter) ? "added" : (!now.hasFilter) ? "removed" : (ShowRF(old.filter) == ShowRF(now.filter)) ? "same" : "different"; }
   // PR_NAME_SUBSCRIBE_QUIETLY "disables initial-value-send from new subscriptions": on an EXISTING subscription whose filter changes the
   // enter / leave notices are still owed, only the restating snapshot is not -- the mirror must converge, nothing is tainted.
   // Dedicated operation with an exact view of the tree: counts the nodes on all four sides (selected before x selected after).
   void QuietFilterChange()
   {
      std::vector<MC *> live = W.LiveClients(), cand; for (size_t i = 0; i < live.size(); i++) if (!live[i]->subs.empty() && !live[i]->dsub) cand.push_back(live[i]);
      if (cand.empty()) return;
      if (!W.Check("before a quiet filter change")) return;
      MC & c = *cand[g.R((uint32)cand.size())]; std::map<std::string, Sub>::iterator it = c.subs.begin(); std::advance(it, g.R((uint32)c.subs.size()));
      const Sub old = it->second; Sub s = old; const uint32 r = g.R(100);
      if (r < 10) {} else if (r < 30 && old.hasFilter) { s.hasFilter = false; s.filter = RF(); } else { s.hasFilter = true; s.filter = (g.chance(1, 2) ? RFInt("v", (int)g.R(6), (int32)g.R(10)) : GenFilter(g)); }
      long tt = 0, tf = 0, ft = 0, ff = 0, ftAlone = 0, tfAlone = 0;
      for (std::map<std::string, std::string>::const_iterator t = W.truth.begin(); t != W.truth.end(); ++t) {
         if ((!c.self && c.Own(t->first)) || !SubMatchesPath(old, t->first)) continue;
         const bool before = SubSelects(old, t->first, t->second), after = SubSelects(s, t->first, t->second); bool other = false;
         for (std::map<std::string, Sub>::const_iterator o = c.subs.begin(); o != c.subs.end(); ++o) if (o->first != old.name && SubSelects(o->second, t->first, t->second)) other = true;
         if (before && after) tt++; else if (before) { tf++; if (!other) tfAlone++; } else if (after) { ft++; if (!other) ftAlone++; } else ff++;
      }
      const bool quiet = !g.chance(1, 6); std::vector<Sub> e; e.push_back(s); W.Send(c, W.MkSubscribe(c, e, -1, quiet));
      W.Log(vh::fmt("c%d subscribe [%s]%s (again, filter %s)%s", c.no, s.name.c_str(), s.hasFilter ? (" f=" + ShowRF(s.filter)).c_str() : "", ChangeKind(old, s), quiet ? " QUIETLY" : ""));
      vh::stat(std::string("resub|") + ChangeKind(old, s) + (quiet ? "|quiet" : "|loud")); vh::stat("cmd|subscribe"); vh::stat("cmd|resubscribe");
      if (quiet) { vh::stat("quiet_filter_changes"); if (ft) vh::stat("quiet_filter_changes_with_nodes_entering_the_match_set"); if (ftAlone) vh::stat("quiet_filter_changes_with_nodes_entering_the_mirror"); if (tf) vh::stat("quiet_filter_changes_with_nodes_leaving_the_match_set"); if (tfAlone) vh::stat("quiet_filter_changes_with_nodes_leaving_the_mirror");
                   if (tt) vh::stat("quiet_filter_changes_with_nodes_staying_in"); if (ff) vh::stat("quiet_filter_changes_with_nodes_staying_out"); if (tt && tf && ft && ff) vh::stat("quiet_filter_changes_with_nodes_on_all_four_sides"); }
      else if (ft) vh::stat("loud_filter_changes_with_nodes_entering_the_match_set");
      (void)W.Check(quiet ? "after a quiet filter change" : "after a filter change");
   }
   bool OverlapsOther(MC & c, const Sub & s)
   {
      for (std::map<std::string, std::string>::const_iterator t = W.truth.begin(); t != W.truth.end(); ++t) if (SubMatchesPath(s, t->first))
         for (std::map<std::string, Sub>::const_iterator o = c.subs.begin(); o != c.subs.end(); ++o) if (o->second.canon != s.canon && SubMatchesPath(o->second, t->first)) return true;
      return false;
   }
   std::string RandKey(bool * wild)     // REMOVEDATA / INSERTORDEREDDATA / GETDATA style relative key
   {
      if (g.chance(45, 100)) { *wild = false; return EscapeLiteral(RandPath(g)); }
      const uint32 r = g.R(100); const int d = r < 55 ? 1 : r < 90 ? 2 : 3; std::string k; *wild = false;
      for (int i = 0; i < d; i++) { Pat p = RandNodeClause(g); if (IsWild(p)) *wild = true; if (i) k += "/"; k += refwild::Print(p); }
      return k;
   }
   std::vector<std::string> IndexNamesOf(MC & c)   // names of indexed children this client was told about (never hard-coded)
   {
      std::vector<std::string> v;
      for (std::map<std::string, std::vector<std::string> >::const_iterator it = c.c->idx.begin(); it != c.c->idx.end(); ++it) if (rb::Under(it->first, c.c->root)) v.insert(v.end(), it->second.begin(), it->second.end());
      return v;
   }

   // one ordinary command of client c (usable inside a BATCH): Messages to send in order + a description
   void Command(MC & c, std::vector<MessageRef> & out, std::string & desc)
   {
      const uint32 op = g.R(100);
      if (op < 36) {               // SETDATA
         const uint32 nr = g.R(100); const uint32 n = nr < 70 ? 1 : nr < 90 ? 2 + g.R(2) : 4 + g.R(5); std::vector<std::pair<std::string, MessageRef> > items; std::set<std::string> used; unsigned flags = 0;
         const uint32 fr = g.R(100); if (fr < 8) flags = FL_DONTCREATE; else if (fr < 16) flags = FL_DONTOVERWRITE; else if (fr < 28) flags = FL_SUPERSEDE; else if (fr < 34) flags = FL_ADDTOINDEX; else if (fr < 36) flags = FL_SUPERSEDE | FL_DONTCREATE;
         desc = vh::fmt("c%d set", c.no);
         bool f = false, w = false, o = false;
         for (uint32 i = 0; i < n; i++) { std::string p = RandPath(g); if (!used.insert(p).second) continue; MessageRef pl = RandPayload(g); items.push_back(std::make_pair(p, pl)); desc += " " + p + "=" + ShowPayload(pl);
            // several values in one field: the server applies them in order inside ONE command, the only way a set and a filter-leave removal of one path meet in one pending update
            if (g.chance(1, 8)) { const uint32 more = 1 + g.R(2); for (uint32 j = 0; j < more; j++) { MessageRef p2 = RandPayload(g); items.push_back(std::make_pair(p, p2)); desc += "," + ShowPayload(p2); } vh::stat("cmd|set_field_with_several_values"); }
            const std::string full = c.c->root + "/" + p;
            for (size_t j = 0; j < W.mcs.size(); j++) { MC & s = *W.mcs[j]; if (!s.Live() || (&s == &c && !s.self)) continue; int hits = 0; for (std::map<std::string, Sub>::const_iterator it = s.subs.begin(); it != s.subs.end(); ++it) if (SubMatchesPath(it->second, full)) { hits++; if (it->second.hasFilter) f = true; if (it->second.wild) w = true; } if (hits >= 2) o = true; } }
         desc += ShowFlags(flags); out.push_back(BuildSet(items, flags)); vh::stat("cmd|set"); if (flags) vh::stat("cmd|set_with_flags"); Cell("set", f, w, o);
      }
      else if (op < 49) {          // REMOVEDATA
         const uint32 n = g.chance(80, 100) ? 1 : 2; std::vector<std::string> keys; bool wild = false;
         for (uint32 i = 0; i < n; i++) { bool w1 = false; keys.push_back(RandKey(&w1)); wild |= w1; }
         const bool filt = g.chance(25, 100); RF f; if (filt) f = GenFilter(g);
         desc = vh::fmt("c%d remove", c.no); for (size_t i = 0; i < keys.size(); i++) desc += " " + keys[i]; if (filt) desc += " f=" + ShowRF(f);
         out.push_back(BuildRemove(keys, filt ? &f : NULL, false)); vh::stat("cmd|remove"); if (filt) vh::stat("cmd|remove_with_filter"); if (wild) vh::stat("cmd|remove_wildcard"); Cell("remove", filt, wild, W.anyOverlap);
      }
      else if (op < 72) {          // SETPARAMETERS with SUBSCRIBE: entries
         const uint32 n = g.chance(80, 100) ? 1 : 2; std::vector<Sub> entries; desc = vh::fmt("c%d subscribe", c.no); bool allResub = true; std::vector<const char *> kinds;
         for (uint32 i = 0; i < n; i++) {
            bool resub = false; Sub s = SubEntryFor(c, &resub); bool dup = false; for (size_t j = 0; j < entries.size(); j++) if (entries[j].canon == s.canon) dup = true; if (dup) continue;
            const bool o = OverlapsOther(c, s);
            allResub = allResub && resub;
            if (resub) { const Sub & old = c.subs[s.name]; vh::stat("cmd|resubscribe"); kinds.push_back(ChangeKind(old, s)); if (old.hasFilter != s.hasFilter || s.hasFilter) { vh::stat("cmd|resubscribe_with_other_filter"); if (o) vh::stat("cmd|resubscribe_with_other_filter_while_overlapping"); } }
            entries.push_back(s); desc += " [" + s.name + "]" + (s.hasFilter ? " f=" + ShowRF(s.filter) : std::string()) + (resub ? " (again)" : "");
            Cell(resub ? "resubscribe" : "subscribe", s.hasFilter, s.wild, o);
         }
         int mx = -1; if (g.chance(20, 100)) { mx = g.chance(60, 100) ? 1 + (int)g.R(4) : 5 + (int)g.R(46); desc += vh::fmt(" !MxUp=%d", mx); vh::stat("cmd|max_update_items"); }
         // existing paths only: the quiet flag withholds nothing that is owed (see QuietFilterChange), so it belongs to the ordinary mix
         const bool quiet = allResub && !entries.empty() && g.chance(35, 100); if (quiet) { desc += " QUIETLY"; vh::stat("cmd|resubscribe_quietly"); }
         for (size_t i = 0; i < kinds.size(); i++) vh::stat(std::string("resub|") + kinds[i] + (quiet ? "|quiet" : "|loud"));
         out.push_back(W.MkSubscribe(c, entries, mx, quiet)); vh::stat("cmd|subscribe");
      }
      else if (op < 80) {          // REMOVEPARAMETERS
         std::string key; const uint32 r = g.R(100); bool wild = false;
         if (r < 65 && !c.subs.empty()) { std::map<std::string, Sub>::iterator it = c.subs.begin(); std::advance(it, g.R((uint32)c.subs.size())); key = EscapeLiteral("SUBSCRIBE:" + it->first); }
         else if (r < 72) key = "SUBSCRIBE:nosuch";
         else { static const char * pats[] = {"SUBSCRIBE:*", "SUBSCRIBE:a*", "SUBSCRIBE:/\\*", "SUBSCRIBE:*x", "SUBSCRIBE:?", "SUBSCRIBE:*/\\*", "SUBSCRIBE:/*", "SUBSCRIBE:[a-c]*", "SUBSCRIBE:(a|b|\\*)", "*", "!*", "SUBSCRIBE:~a*", "S*E:*/*"}; key = pats[g.R(13)]; wild = true; }
         W.MkRemoveParams(c, key, out, &desc); vh::stat("cmd|removeparams"); if (wild) vh::stat("cmd|removeparams_wildcard"); Cell("removeparams", false, wild, W.anyOverlap);
      }
      else if (op < 84) {          // other parameters
         const uint32 r = g.R(6);
         if (r == 0 && !c.dsub) { MessageRef sp = GetMessageFromPool(PR_COMMAND_SETPARAMETERS); (void)sp()->AddBool(PR_NAME_REFLECT_TO_SELF, true); out.push_back(sp); c.self = true; W.MkResync(c, out); desc = vh::fmt("c%d sets !Self and resynchronises", c.no); vh::stat("cmd|reflect_to_self_on"); }
         else if (r == 1) { std::vector<MessageRef> v; W.MkRemoveParams(c, PR_NAME_REFLECT_TO_SELF, v); out.insert(out.end(), v.begin(), v.end()); desc = vh::fmt("c%d removes !Self", c.no); vh::stat("cmd|reflect_to_self_off"); }
         else if (r == 2) { const int mx = g.chance(70, 100) ? 1 + (int)g.R(4) : 5 + (int)g.R(46); MessageRef sp = GetMessageFromPool(PR_COMMAND_SETPARAMETERS); (void)sp()->AddInt32(PR_NAME_MAX_UPDATE_MESSAGE_ITEMS, mx); c.mxup = mx; out.push_back(sp); desc = vh::fmt("c%d !MxUp=%d", c.no, mx); vh::stat("cmd|max_update_items"); }
         else if (r == 3) { W.MkRemoveParams(c, PR_NAME_MAX_UPDATE_MESSAGE_ITEMS, out); desc = vh::fmt("c%d removes !MxUp", c.no); }
         else if (r == 4) { MessageRef sp = GetMessageFromPool(PR_COMMAND_SETPARAMETERS); (void)sp()->AddInt32(PR_NAME_REPLY_ENCODING, MUSCLE_MESSAGE_ENCODING_ZLIB_6); c.enc = true; out.push_back(sp); desc = vh::fmt("c%d !Enc=zlib6", c.no); vh::stat("cmd|reply_encoding"); }
         else { out.push_back(GetMessageFromPool(PR_COMMAND_NOOP)); desc = vh::fmt("c%d noop", c.no); }
      }
      else if (op < 87) {          // GETDATA restating one of the client's own subscriptions (an explicit refresh)
         if (c.subs.empty()) { out.push_back(GetMessageFromPool(PR_COMMAND_NOOP)); desc = vh::fmt("c%d noop", c.no); return; }
         std::map<std::string, Sub>::iterator it = c.subs.begin(); std::advance(it, g.R((uint32)c.subs.size()));
         MessageRef gd = GetMessageFromPool(PR_COMMAND_GETDATA); (void)gd()->AddString(PR_NAME_KEYS, it->first.c_str()); if (it->second.hasFilter) (void)gd()->AddMessage(PR_NAME_FILTERS, ArchiveFilter(it->second.filter));
         c.NoteDataReturningKey(it->second);
         out.push_back(gd); desc = vh::fmt("c%d getdata [%s] (own subscription)", c.no, it->first.c_str()); vh::stat("cmd|getdata_refresh"); Cell("getdata", it->second.hasFilter, it->second.wild, W.anyOverlap);
      }
      else if (op < 93) {          // INSERTORDEREDDATA
         bool wild = false; std::string key = RandKey(&wild); std::vector<std::string> known = IndexNamesOf(c);
         MessageRef m = GetMessageFromPool(PR_COMMAND_INSERTORDEREDDATA); (void)m()->AddString(PR_NAME_KEYS, key.c_str()); const uint32 n = 1 + g.R(3);
         desc = vh::fmt("c%d insertordered under %s:", c.no, key.c_str());
         for (uint32 i = 0; i < n; i++) { std::string before = (!known.empty() && g.chance(1, 2)) ? known[g.R((uint32)known.size())] : std::string(); MessageRef pl = RandPayload(g); if (m()->AddMessage(before.c_str(), pl).IsError()) rb::Abort("AddMessage failed"); desc += " before'" + before + "'" + ShowPayload(pl); }
         out.push_back(m); vh::stat("cmd|insertordered"); Cell("insertordered", false, wild, W.anyOverlap);
      }
      else if (op < 96) {          // REORDERDATA
         std::vector<std::string> known = IndexNamesOf(c); bool wild = true; std::string par = NAMES[g.R(3)];
         std::string field = par + "/" + ((!known.empty() && g.chance(1, 2)) ? (wild = false, known[g.R((uint32)known.size())]) : std::string("*"));
         std::string before = g.chance(1, 10) ? std::string(PR_NAME_REMOVE_FROM_INDEX) : (!known.empty() && g.chance(1, 2)) ? known[g.R((uint32)known.size())] : std::string();
         MessageRef m = GetMessageFromPool(PR_COMMAND_REORDERDATA); (void)m()->AddString(field.c_str(), before.c_str()); out.push_back(m);
         desc = vh::fmt("c%d reorder %s before '%s'", c.no, field.c_str(), before.c_str()); vh::stat("cmd|reorder"); Cell("reorder", false, wild, W.anyOverlap);
      }
      else if (op < 98 && !c.dsub) { W.MkResync(c, out); desc = vh::fmt("c%d resynchronises", c.no); vh::stat("cmd|resync"); }
      else { MessageRef p = GetMessageFromPool(PR_COMMAND_PING); out.push_back(p); desc = vh::fmt("c%d ping", c.no); vh::stat("cmd|ping"); }
   }

   MessageRef RandomBatch(MC & c, int depth, std::string & desc)
   {
      std::vector<MessageRef> v; const uint32 n = 2 + g.R(4); desc += "batch{";
      for (uint32 i = 0; i < n; i++) {
         if (depth < 3 && g.chance(1, 6)) { std::string d; v.push_back(RandomBatch(c, depth + 1, d)); desc += d; vh::stat("cmd|batch_nested"); vh::statmax("max_batch_depth", depth + 1); }
         else { std::vector<MessageRef> o; std::string d; Command(c, o, d); v.insert(v.end(), o.begin(), o.end()); desc += d; }
         desc += " ; ";
      }
      desc += "}"; return Batch(v);
   }

   // ---- top-level operations that need a settled server around them
   // commands documented NOT to notify: assert exactly that, then taint the affected (client, path) pairs until a resync
   void QuietOp()
   {
      std::vector<MC *> live = W.LiveClients(); if (live.empty()) return;
      if (!W.Check("before a quiet operation")) return;
      MC & c = *live[g.R((uint32)live.size())];
      std::map<int, std::map<std::string, std::string> > before; for (size_t i = 0; i < live.size(); i++) before[live[i]->no] = live[i]->mirror;
      const std::map<std::string, std::string> truth0 = W.truth; const uint32 r = g.R(100); bool assertSilent = true; Sub qs; bool isSub = false;
      if (r < 40) { std::string p = RandPath(g); MessageRef pl = RandPayload(g); W.Send(c, BuildSet1(p, pl, FL_QUIET | (g.chance(1, 5) ? FL_ADDTOINDEX : 0))); W.Log(vh::fmt("c%d set %s=%s QUIET", c.no, p.c_str(), ShowPayload(pl).c_str())); vh::stat("cmd|quiet_set"); }
      else if (r < 65) { bool w = false; std::string k = RandKey(&w); W.Send(c, BuildRemove1(k, NULL, true)); W.Log(vh::fmt("c%d remove %s QUIETLY", c.no, k.c_str())); vh::stat("cmd|quiet_remove"); }
      else if (r < 88) {
         bool resub = false; qs = SubEntryFor(c, &resub); qs.quiet = true; isSub = true; if (resub) assertSilent = false;    // a quiet re-subscription may still announce filter transitions
         std::vector<Sub> e; e.push_back(qs); W.Send(c, W.MkSubscribe(c, e, -1, true)); W.Log(vh::fmt("c%d subscribe [%s]%s QUIETLY", c.no, qs.name.c_str(), qs.hasFilter ? (" f=" + ShowRF(qs.filter)).c_str() : "")); vh::stat("cmd|quiet_subscribe");
      }
      else if (!c.dsub) { MessageRef sp = GetMessageFromPool(PR_COMMAND_SETPARAMETERS); (void)sp()->AddBool(PR_NAME_DISABLE_SUBSCRIPTIONS, true); W.Send(c, sp); c.dsub = true; c.taintAll = true; W.Log(vh::fmt("c%d sets !Dsub", c.no)); vh::stat("cmd|disable_subscriptions"); }
      else { std::vector<MessageRef> v; W.MkRemoveParams(c, PR_NAME_DISABLE_SUBSCRIPTIONS, v); if (g.chance(2, 3)) W.MkResync(c, v); W.Send(c, v); W.Log(vh::fmt("c%d removes !Dsub", c.no)); vh::stat("cmd|enable_subscriptions"); assertSilent = false; }
      W.Settle(); W.ReadTruth();
      if (assertSilent) for (size_t i = 0; i < live.size(); i++) { MC & o = *live[i]; if (!o.Live() || o.c->readPaused) continue; if (o.mirror != before[o.no]) { W.Fail("quiet|operation_documented_as_silent_changed_a_mirror", vh::fmt("the mirror of c%d changed", o.no)); return; } vh::stat("quiet_operations_seen_silent"); }
      if (isSub) { if (assertSilent) for (std::map<std::string, std::string>::const_iterator t = W.truth.begin(); t != W.truth.end(); ++t) if (SubMatchesPath(qs, t->first)) c.taint.insert(t->first); }   // only a NEW quiet subscription withholds data
      else {   // every path whose presence or payload changed is stale everywhere
         std::set<std::string> changed;
         for (std::map<std::string, std::string>::const_iterator t = truth0.begin(); t != truth0.end(); ++t) { std::map<std::string, std::string>::const_iterator n = W.truth.find(t->first); if (n == W.truth.end() || n->second != t->second) changed.insert(t->first); }
         for (std::map<std::string, std::string>::const_iterator t = W.truth.begin(); t != W.truth.end(); ++t) if (!truth0.count(t->first)) changed.insert(t->first);
         if (!changed.empty()) { vh::stat("quiet_operations_that_changed_the_tree"); for (size_t i = 0; i < W.mcs.size(); i++) if (W.mcs[i]->Live()) W.mcs[i]->taint.insert(changed.begin(), changed.end()); }
      }
   }
   // PR_COMMAND_SETDATATREES is not implemented by the server: error reply, tree unchanged
   void SetTrees()
   {
      std::vector<MC *> live = W.LiveClients(); if (live.empty()) return; MC & c = *live[g.R((uint32)live.size())]; if (c.c->readPaused) return;
      W.Settle(); rb::TreeSnap s0, s1; (void)W.B.insp->Snapshot(s0); const long u0 = c.unimpl;
      MessageRef m = GetMessageFromPool(PR_COMMAND_SETDATATREES); MessageRef tree = GetMessageFromPool(); (void)tree()->AddMessage(PR_NAME_NODEDATA, RandPayload(g)); (void)m()->AddMessage(RandPath(g).c_str(), tree);
      W.Send(c, m); W.Log(vh::fmt("c%d setdatatrees", c.no)); vh::stat("cmd|setdatatrees"); W.Settle(); (void)W.B.insp->Snapshot(s1);
      if (c.unimpl != u0 + 1) { W.Fail("setdatatrees|no_error_reply", "PR_COMMAND_SETDATATREES was not answered with PR_RESULT_ERRORUNIMPLEMENTED"); return; }
      std::vector<std::string> d = rb::DiffSnap(s0, s1); if (!d.empty()) W.Fail("setdatatrees|tree_changed", d[0]);
   }
   // one-shot GETDATA bracketed by pings inside a BATCH: the reply must be the matching nodes (own subtree left out on both sides unless reflect-to-self)
   void Query()
   {
      std::vector<MC *> live = W.LiveClients(); if (live.empty()) return; MC & c = *live[g.R((uint32)live.size())]; if (c.c->readPaused) return;
      if (!W.Check("before a GETDATA query")) return;
      std::vector<Sub> keys; const bool filt = g.chance(1, 3); const uint32 n = filt ? 1 : 1 + g.R(3); for (uint32 i = 0; i < n; i++) { Sub s = RandSub(); if (filt) { s.hasFilter = true; s.filter = GenFilter(g); } keys.push_back(s); }
      MessageRef gd = GetMessageFromPool(PR_COMMAND_GETDATA); std::string d = vh::fmt("c%d query", c.no); bool wild = false;
      for (size_t i = 0; i < keys.size(); i++) { (void)gd()->AddString(PR_NAME_KEYS, keys[i].name.c_str()); if (filt) (void)gd()->AddMessage(PR_NAME_FILTERS, ArchiveFilter(keys[i].filter)); d += " [" + keys[i].name + "]"; wild |= keys[i].wild; }
      if (filt) d += " f=" + ShowRF(keys[0].filter);
      std::vector<MessageRef> v; v.push_back(W.Ping(c, ACT_QBEGIN)); v.push_back(gd); v.push_back(W.Ping(c, ACT_QEND)); W.Send(c, Batch(v)); W.Log(d); vh::stat("cmd|getdata_query"); Cell("query", filt, wild, W.anyOverlap);
      W.Settle();
      std::map<std::string, std::string> exp, got;
      for (std::map<std::string, std::string>::const_iterator t = W.truth.begin(); t != W.truth.end(); ++t) { if (!c.self && c.Own(t->first)) continue; if (c.Selects(t->first, t->second, &keys)) exp[t->first] = t->second; }
      for (std::map<std::string, std::string>::const_iterator t = c.qres.begin(); t != c.qres.end(); ++t) { if (!c.self && c.Own(t->first)) continue; got[t->first] = t->second; }
      vh::stat("getdata_query_entries_compared", (long)exp.size());
      if (c.inQuery) { W.Fail("query|bracket_not_closed", "the pong behind the GETDATA did not arrive"); return; }
      if (got != exp) { std::string what = vh::fmt("reply has %zu nodes, the reference selects %zu;", got.size(), exp.size());
         for (std::map<std::string, std::string>::const_iterator t = exp.begin(); t != exp.end(); ++t) if (!got.count(t->first)) { what += " missing " + t->first; break; }
         for (std::map<std::string, std::string>::const_iterator t = got.begin(); t != got.end(); ++t) if (!exp.count(t->first)) { what += " extra " + t->first; break; }
         W.Fail("query|getdata_reply_differs_from_reference", what); }
   }
   // many updates of a few nodes in a row (pads make them big enough to fill 2 KB socket buffers of a reader that does not read)
   void Burst()
   {
      std::vector<MC *> live = W.LiveClients(); if (live.empty()) return; MC & c = *live[g.R((uint32)live.size())];
      const uint32 n = 8 + g.R(28), np = 1 + g.R(3); std::vector<std::string> paths; for (uint32 i = 0; i < np; i++) paths.push_back(RandPath(g)); const bool sup = g.chance(65, 100); const bool oneBatch = g.chance(1, 4);
      std::vector<MessageRef> v;
      for (uint32 i = 0; i < n; i++) v.push_back(BuildSet1(paths[g.R(np)], RandPayload(g, 80 + (int)g.R(300)), (sup && !g.chance(1, 8)) ? FL_SUPERSEDE : 0));
      if (oneBatch) W.Send(c, Batch(v)); else W.Send(c, v);
      std::string d = vh::fmt("c%d burst of %u sets on", c.no, n); for (uint32 i = 0; i < np; i++) d += " " + paths[i]; if (sup) d += " supersede"; if (oneBatch) d += " in one batch"; W.Log(d);
      vh::stat("cmd|burst"); vh::stat("cmd|set", n); if (sup) vh::stat("cmd|burst_supersede");
      bool paused = false; for (size_t i = 0; i < live.size(); i++) if (live[i]->c->readPaused && !live[i]->subs.empty()) paused = true; if (paused) vh::stat("bursts_while_a_subscribed_reader_is_paused");
   }

   void Step()
   {
      std::vector<MC *> live = W.LiveClients(); const uint32 op = g.R(1000);
      if (live.empty() || (op < 40 && live.size() < 6)) { MC * m = W.Join(g.chance(40, 100)); if (g.chance(1, 2)) { std::vector<MessageRef> o; std::string d; bool rs; Sub s = SubEntryFor(*m, &rs); std::vector<Sub> e; e.push_back(s); W.Send(*m, W.MkSubscribe(*m, e, -1, false)); W.Log(vh::fmt("c%d subscribe [%s]%s", m->no, s.name.c_str(), s.hasFilter ? (" f=" + ShowRF(s.filter)).c_str() : "")); vh::stat("cmd|subscribe"); } return; }
      if (op < 75 && live.size() > 1) { W.Leave(*live[g.R((uint32)live.size())]); return; }
      if (op < 125) { MC & c = *live[g.R((uint32)live.size())]; c.c->readPaused = !c.c->readPaused; W.Log(vh::fmt("c%d %s reading", c.no, c.c->readPaused ? "stops" : "resumes")); vh::stat(c.c->readPaused ? "cmd|pause_reading" : "cmd|resume_reading"); return; }
      if (op < 160) { Burst(); return; }
      if (op < 170) { SetTrees(); return; }
      if (op < 200) { Query(); return; }
      if (op < 235) { QuietFilterChange(); return; }
      if (quietHistory && op < 290) { QuietOp(); return; }
      MC & c = *live[g.R((uint32)live.size())];
      if (op < 400) { std::string d = vh::fmt("c%d ", c.no); MessageRef b = RandomBatch(c, 1, d); W.Send(c, b); W.Log(d); vh::stat("cmd|batch"); return; }
      std::vector<MessageRef> o; std::string d; Command(c, o, d); W.Send(c, o); W.Log(d);
   }
};

static const uint64_t STREAM_MIRROR = 4;
static void RunCase(long k, uint64_t seed)
{
   Rng g(seed); World W("mirror");
   const bool quiet = g.chance(1, 10); if (quiet) vh::stat("histories_with_quiet_operations");
   long ncmd = vh::optl("cmds", 60); if ((long)g.R(1000) < vh::optl("longpm", 0)) { ncmd *= 16; vh::stat("long_histories"); }
   Gen G(W, g, quiet);
   const uint32 nc = 2 + g.R(3); for (uint32 i = 0; i < nc; i++) (void)W.Join(g.chance(40, 100));
   for (long i = 0; i < ncmd && !W.bad; i++) {
      G.Step(); vh::stat("commands");
      if (!W.bad && g.chance(1, 3)) (void)W.Check("after the last command listed");
   }
   if (!W.bad) {   // at the end everybody reads again
      for (size_t i = 0; i < W.mcs.size(); i++) if (W.mcs[i]->Live() && W.mcs[i]->c->readPaused) { W.mcs[i]->c->readPaused = false; W.Log(vh::fmt("c%d resumes reading", W.mcs[i]->no)); }
      (void)W.Check("end of history");
   }
   long maxNames = 0; for (size_t i = 0; i < W.mcs.size(); i++) { vh::stat("data_item_messages_received", W.mcs[i]->dataMsgs); vh::stat("sets_received", W.mcs[i]->setsSeen); vh::stat("removal_notices_received", W.mcs[i]->removalsSeen); if (W.mcs[i]->maxNamesInOneUpdate > maxNames) maxNames = W.mcs[i]->maxNamesInOneUpdate; }
   vh::statmax("max_names_in_one_update", maxNames); vh::statmax("max_sessions_in_one_history", (long)W.mcs.size());
   uint64_t dig = vh::fnv(&seed, sizeof(seed)); for (size_t i = 0; i < W.log.size(); i++) dig = vh::fnvs(W.log[i], dig);
   const bool nontrivial = W.nonEmptyComparisons >= 5 && W.filteredOverlapSeen > 0;
   vh::distinct(dig, nontrivial); if (nontrivial) vh::stat("histories_nontrivial");
   if (vh::want_sample() && k % 5 == 0) { std::string s; for (size_t i = 0; i < W.log.size() && i < 12; i++) s += W.log[i] + " ; "; vh::sample(s.substr(0, 900)); }
}

// ====================================================================================== fixed witnesses and documentation examples
struct Script {
   World W; 
   // every scripted command is processed by the server before the next one is issued (sequential semantics across clients)
   Script(const std::string & name) : W("regress") { W.Log("scenario " + name); }
   MC & Join(bool slow = false) { return *W.Join(slow); }
   void Sub_(MC & c, const std::string & name, const RF * f = NULL, int mxup = -1) { Sub s = SubFromText(name); if (f) { s.hasFilter = true; s.filter = *f; } std::vector<Sub> e; e.push_back(s); W.Send(c, W.MkSubscribe(c, e, mxup, false)); W.Log(vh::fmt("c%d subscribe [%s]%s", c.no, name.c_str(), f ? (" f=" + ShowRF(*f)).c_str() : "")); W.Settle(); }
   void Unsub(MC & c, const std::string & name) { std::vector<MessageRef> v; std::string d; W.MkRemoveParams(c, EscapeLiteral("SUBSCRIBE:" + name), v, &d); W.Send(c, v); W.Log(d); W.Settle(); }
   void Set(MC & c, const std::string & path, int v, const char * s = NULL, unsigned flags = 0, int pad = 0) { W.Send(c, BuildSet1(path, Payload(100, v, s, pad), flags)); W.Log(vh::fmt("c%d set %s v=%d%s", c.no, path.c_str(), v, ShowFlags(flags).c_str())); W.Settle(); }
   void Remove(MC & c, const std::string & key) { W.Send(c, BuildRemove1(key)); W.Log(vh::fmt("c%d remove %s", c.no, key.c_str())); W.Settle(); }
   bool Check(const char * why) { return W.Check(why); }
   bool Holds(MC & c, MC & owner, const std::string & path, int v = -1) { std::map<std::string, std::string>::const_iterator it = c.mirror.find(owner.c->root + "/" + path); if (it == c.mirror.end()) return false; if (v < 0) return true; const PV & p = Decode(it->second); std::map<std::string, int32>::const_iterator i = p.ints.find("v"); return i != p.ints.end() && i->second == v; }
   void Expect(bool cond, const std::string & key, const std::string & what) { if (!cond) W.Fail(key, what); }
};

static void Regress()
{
   const RF ge5 = RFInt("v", OPC_GE, 5);
   vh::begin_case(0);
   {  // F13: changing one subscription's filter must not retract a node another subscription still selects
      Script S("F13"); MC & a = S.Join(); MC & c = S.Join();
      S.Set(a, "a", 1); S.Sub_(c, "*"); S.Sub_(c, "a"); S.Check("both subscriptions in place");
      S.Expect(S.Holds(c, a, "a", 1), "F13_setup", "c does not hold a after subscribing");
      S.Sub_(c, "a", &ge5); S.Check("filter of SUBSCRIBE:a changed to one the node fails");
      S.Expect(S.Holds(c, a, "a", 1), "F13_filter_change_retracts_node_still_selected_by_other_subscription", "SUBSCRIBE:* (no filter) + SUBSCRIBE:a changed to v>=5 while a has v=1: c no longer holds a");
      S.Set(a, "a", 7); S.Check("payload now passes the filter too"); S.Expect(S.Holds(c, a, "a", 7), "F13_followup_update_lost", "update after the filter change did not arrive");
      S.Sub_(c, "a"); S.Unsub(c, "*"); S.Sub_(c, "a", &ge5); S.Set(a, "a", 2); S.Check("single filtered subscription, node stops matching");
      S.Expect(!S.Holds(c, a, "a"), "filter_leave_not_announced", "node a (v=2) left the only subscription's filter v>=5 but c still holds it");
   }
   vh::begin_case(1);
   {  // filter change with no other subscription: the node must leave and re-enter
      Script S("filter-change-alone"); MC & a = S.Join(); MC & c = S.Join();
      S.Set(a, "a", 1); S.Set(a, "b", 8); S.Sub_(c, "*"); S.Check("unfiltered");
      S.Sub_(c, "*", &ge5); S.Check("filter added"); S.Expect(!S.Holds(c, a, "a") && S.Holds(c, a, "b", 8), "filter_change_diff", "after adding filter v>=5 the mirror must hold b (8) and not a (1)");
      const RF lt5 = RFInt("v", OPC_LT, 5); S.Sub_(c, "*", &lt5); S.Check("filter inverted"); S.Expect(S.Holds(c, a, "a", 1) && !S.Holds(c, a, "b"), "filter_change_diff", "after changing the filter to v<5 the mirror must hold a (1) and not b (8)");
      S.Sub_(c, "*"); S.Check("filter removed"); S.Expect(S.Holds(c, a, "a", 1) && S.Holds(c, a, "b", 8), "filter_change_diff", "after removing the filter both nodes must be held");
   }
   vh::begin_case(2);
   {  // trial scenario: overwrite with a payload of the same flattened size
      Script S("same-size-overwrite"); MC & a = S.Join(); MC & c = S.Join();
      S.Sub_(c, "a"); S.Set(a, "a", 1); S.Check("created"); S.Set(a, "a", 2); S.Check("overwritten with a same-size payload");
      S.Expect(S.Holds(c, a, "a", 2), "same_size_overwrite_not_announced", "a: v=1 -> v=2 (same flattened size): c does not hold v=2");
      S.Sub_(c, "a", &ge5); S.Set(a, "a", 6); S.Check("enters the filter"); S.Set(a, "a", 7); S.Check("same size inside the filter"); S.Expect(S.Holds(c, a, "a", 7), "same_size_overwrite_not_announced", "a: v=6 -> v=7 under filter v>=5");
   }
   vh::begin_case(3);
   {  // trial scenario: a set and a removal of one path inside ONE pending update Message (forces the flush in NodeChangedAux): several
      // values in one SETDATA field are applied in order within one command; under a filter the second value makes the node leave
      Script S("set-then-remove"); MC & a = S.Join(); MC & c = S.Join();
      S.Sub_(c, "a", &ge5); S.Sub_(c, "b"); S.Check("subscribed");
      { std::vector<std::pair<std::string, MessageRef> > v; v.push_back(std::make_pair(std::string("a"), Payload(100, 7, NULL))); v.push_back(std::make_pair(std::string("a"), Payload(100, 2, NULL))); S.W.Send(a, BuildSet(v, 0)); S.W.Log("c0 set a={v=7},{v=2} in one field"); }
      S.Check("enter then leave in one command"); S.Expect(!S.Holds(c, a, "a"), "set_then_remove_in_one_update", "a entered (v=7) and left (v=2) the filter v>=5 inside one command: c must not hold it");
      { std::vector<std::pair<std::string, MessageRef> > v; v.push_back(std::make_pair(std::string("a"), Payload(100, 7, NULL))); v.push_back(std::make_pair(std::string("a"), Payload(100, 2, NULL))); v.push_back(std::make_pair(std::string("a"), Payload(100, 8, NULL))); v.push_back(std::make_pair(std::string("b"), Payload(100, 1, NULL))); v.push_back(std::make_pair(std::string("b"), Payload(100, 3, NULL))); S.W.Send(a, BuildSet(v, 0)); S.W.Log("c0 set a={7},{2},{8} b={1},{3} in one command"); }
      S.Check("enter, leave, enter in one command"); S.Expect(S.Holds(c, a, "a", 8) && S.Holds(c, a, "b", 3), "set_then_remove_in_one_update", "after a=7,2,8 and b=1,3 in one command the mirror must hold a=8 and b=3");
      { std::vector<MessageRef> v; v.push_back(BuildSet1("b", Payload(100, 4, NULL))); v.push_back(BuildRemove1("*")); v.push_back(BuildSet1("b", Payload(100, 5, NULL))); S.W.Send(a, Batch(v)); S.W.Log("c0 batch{set b 4; remove *; set b 5}"); }
      S.Check("set/remove/set in one batch"); S.Expect(!S.Holds(c, a, "a") && S.Holds(c, a, "b", 5), "set_then_remove_in_one_batch", "after batch{set b=4, remove *, set b=5} the mirror must hold only b=5");
   }
   vh::begin_case(4);
   {  // unsubscribe keeps the marks of the other subscriptions; the last one gone means silence
      Script S("unsubscribe-refcount"); MC & a = S.Join(); MC & c = S.Join();
      S.Set(a, "a", 1); S.Sub_(c, "*"); S.Sub_(c, "a"); S.Sub_(c, "/*/*/[a-c]"); S.Check("three overlapping subscriptions");
      S.Unsub(c, "a"); S.Set(a, "a", 2); S.Check("one of three removed"); S.Expect(S.Holds(c, a, "a", 2), "unsubscribe_lost_other_subscription", "after removing SUBSCRIBE:a the update of a must still arrive through SUBSCRIBE:*");
      S.Unsub(c, "*"); S.Set(a, "a", 3); S.Check("two of three removed"); S.Expect(S.Holds(c, a, "a", 3), "unsubscribe_lost_other_subscription", "after removing SUBSCRIBE:* the update of a must still arrive through SUBSCRIBE:/*/*/[a-c]");
      S.Unsub(c, "/*/*/[a-c]"); S.Check("all removed"); const long before = c.dataMsgs; S.Set(a, "a", 4); S.Check("update after the last unsubscribe"); S.Expect(c.dataMsgs == before && !S.Holds(c, a, "a"), "update_after_last_unsubscribe", "c was sent an update although it has no subscription left");
   }
   vh::begin_case(5);
   {  // !MxUp boundary: every item must arrive, no update Message may exceed the limit
      Script S("max-update-items"); MC & a = S.Join(); MC & c = S.Join();
      S.Sub_(c, "*", NULL, 2); S.Check("subscribed with !MxUp=2"); c.maxNamesInOneUpdate = 0;
      { std::vector<std::pair<std::string, MessageRef> > v; const char * n[] = {"a", "b", "c", "x", "y"}; for (int i = 0; i < 5; i++) v.push_back(std::make_pair(std::string(n[i]), Payload(100, i, NULL))); S.W.Send(a, BuildSet(v, 0)); S.W.Log("c0 set a b c x y in one command"); }
      S.Check("five nodes in one command"); S.Expect(S.Holds(c, a, "a", 0) && S.Holds(c, a, "b", 1) && S.Holds(c, a, "c", 2) && S.Holds(c, a, "x", 3) && S.Holds(c, a, "y", 4), "max_update_items_lost_item", "five nodes set in one command with !MxUp=2: not all arrived");
      S.Expect(c.maxNamesInOneUpdate <= 2, "max_update_items_exceeded", vh::fmt("an update Message carried %ld field names with !MxUp=2", c.maxNamesInOneUpdate));
      S.Remove(a, "*"); S.Check("all removed again"); S.Expect(!S.Holds(c, a, "a") && !S.Holds(c, a, "y"), "max_update_items_lost_item", "removals lost");
   }
   vh::begin_case(6);
   {  // supersede: a reader that does not read gets the latest value of each node, and other nodes' queued updates survive
      Script S("supersede"); MC & a = S.Join(); MC & c = S.Join(true);
      S.Sub_(c, "*"); S.Check("slow subscriber"); c.c->readPaused = true; S.W.Log("c1 stops reading");
      S.Set(a, "b", 1, NULL, 0, 300);
      for (int i = 0; i < 40; i++) { S.W.Send(a, BuildSet1("a", Payload(100, i % 10, NULL, 300), FL_SUPERSEDE)); if (i == 20) S.W.Send(a, BuildSet1("x", Payload(100, 9, NULL, 300), 0)); S.W.Settle(); }
      S.W.Log("c0 set a x40 supersede (300-byte pads), x once in between"); S.W.Settle();
      const long q = (long)rb::Bench::ServerSideQueueLength(*c.c->session()); vh::stat("regress_supersede_queue_len", q);
      c.c->readPaused = false; S.W.Log("c1 resumes reading"); S.Check("after resuming");
      S.Expect(S.Holds(c, a, "a", 9) && S.Holds(c, a, "b", 1) && S.Holds(c, a, "x", 9), "supersede_lost_update", "after 40 superseding sets of a (last v=9) with b and x set once: the slow reader must hold a=9, b=1, x=9");
      S.Expect(c.setsSeen < 30, "supersede_selfcheck_nothing_was_superseded", vh::fmt("the slow reader was sent %ld sets: no queued update was superseded (bench precondition)", c.setsSeen));
   }
   vh::begin_case(7);
   {  // SETDATATREES is unimplemented; quiet set is silent; reflect-to-self; session departure
      Script S("misc"); MC & a = S.Join(); MC & c = S.Join();
      S.Sub_(c, "*"); S.Sub_(c, "/*/*"); S.Set(a, "a", 1); S.Check("setup");
      { MessageRef m = GetMessageFromPool(PR_COMMAND_SETDATATREES); MessageRef t = GetMessageFromPool(); (void)t()->AddMessage(PR_NAME_NODEDATA, Payload(100, 5, NULL)); (void)m()->AddMessage("q", t); const long u = a.unimpl; S.W.Send(a, m); S.W.Log("c0 setdatatrees q"); S.Check("after SETDATATREES");
        S.Expect(a.unimpl == u + 1, "setdatatrees_no_error_reply", "no PR_RESULT_ERRORUNIMPLEMENTED"); S.Expect(!S.W.truth.count(a.c->root + "/q"), "setdatatrees_changed_tree", "node q exists"); }
      S.Set(a, "a", 2, NULL, FL_QUIET); S.W.Settle(); S.Expect(S.Holds(c, a, "a", 1), "quiet_set_was_announced", "SETDATANODE_FLAG_QUIET: the subscriber must not be told"); c.taint.insert(a.c->root + "/a");
      S.Set(a, "a", 3); S.Check("loud set after quiet set"); S.Expect(S.Holds(c, a, "a", 3), "update_after_quiet_set_lost", "v=3 did not arrive"); c.taint.clear();
      S.Sub_(a, "a"); S.Set(a, "a", 4); S.Check("own node without reflect-to-self"); S.Expect(!S.Holds(a, a, "a"), "own_update_without_reflect_to_self", "a session was sent its own update without !Self");
      { MessageRef sp = GetMessageFromPool(PR_COMMAND_SETPARAMETERS); (void)sp()->AddBool(PR_NAME_REFLECT_TO_SELF, true); std::vector<MessageRef> v; v.push_back(sp); a.self = true; S.W.MkResync(a, v); S.W.Send(a, v); S.W.Log("c0 sets !Self and resynchronises"); }
      S.Set(a, "a", 5); S.Check("own node with reflect-to-self"); S.Expect(S.Holds(a, a, "a", 5), "reflect_to_self_update_lost", "with !Self the owner must be sent its own update");
      const std::string ar = a.c->root; S.W.Leave(a); S.Check("owner left"); S.Expect(!c.mirror.count(ar + "/a") && !c.mirror.count(ar), "departure_not_announced", "after the owner left c still holds its nodes");
   }
   vh::begin_case(8);
   {  // documentation examples of StorageReflectConstants.h: SUBSCRIBE:/*/*/Joe ; GETDATA keys j* == /*/*/j* ; shape/* == /*/*/shape/*
      Script S("docex"); MC & a = S.Join(); MC & b = S.Join(); MC & c = S.Join();
      S.Set(a, "Joe", 1); S.Set(b, "Joe", 2); S.Set(b, "jim", 3); S.Set(a, "shape/red", 4); S.Set(a, "shape", 5);
      S.Sub_(c, "/*/*/Joe"); S.Check("SUBSCRIBE:/*/*/Joe"); S.Expect(S.Holds(c, a, "Joe", 1) && S.Holds(c, b, "Joe", 2) && c.mirror.size() == 2, "docex_subscribe_joe", "SUBSCRIBE:/*/*/Joe must deliver exactly the two Joe nodes");
      S.Sub_(c, "j*"); S.Sub_(c, "shape/*"); S.Check("relative keys"); S.Expect(S.Holds(c, b, "jim", 3) && S.Holds(c, a, "shape/red", 4) && !S.Holds(c, a, "shape") && c.mirror.size() == 4, "docex_relative_keys", "j* and shape/* are documented as /*/*/j* and /*/*/shape/*");
      S.Set(b, "Joe", 6); S.Remove(a, "Joe"); S.Check("modified / deleted"); S.Expect(S.Holds(c, b, "Joe", 6) && !S.Holds(c, a, "Joe"), "docex_subscribe_joe", "'any time these nodes are modified or deleted ... another PR_RESULT_DATAITEMS message will be sent'");
      // oracle self-test: a mirror entry dropped behind the client's back must be noticed
      const std::string victim = b.c->root + "/Joe"; const std::string keep = c.mirror[victim]; c.mirror.erase(victim); if (!S.W.CompareClient(c).empty()) vh::stat("selftest_oracle_fired");
      c.mirror[victim] = keep + "x"; if (!S.W.CompareClient(c).empty()) vh::stat("selftest_oracle_fired"); c.mirror[victim] = keep; c.mirror["/nowhere/0/zz"] = keep; if (!S.W.CompareClient(c).empty()) vh::stat("selftest_oracle_fired"); c.mirror.erase("/nowhere/0/zz");
      S.Check("after the self-test");
   }
   vh::begin_case(9);
   {  // found by this harness: one SETPARAMETERS that changes the filter of SUBSCRIBE:a (the node now fails it) and adds SUBSCRIBE:* --
      // the removal notice waits in the pending update Message while the data for the new subscription is sent at once, so it arrives last
      Script S("filter-change-removal-overtaken"); MC & a = S.Join(); MC & c = S.Join();
      S.Set(a, "a", 1); S.Sub_(c, "a"); S.Check("subscribed to a");
      { Sub f = SubFromText("a"); f.hasFilter = true; f.filter = ge5; Sub g = SubFromText("*"); std::vector<Sub> e; e.push_back(f); e.push_back(g); S.W.Send(c, S.W.MkSubscribe(c, e, -1, false)); S.W.Log("c1 subscribe [a] f=(v>=5) (again) [*]   (one SETPARAMETERS)"); }
      S.W.Settle(); const bool holds = S.Holds(c, a, "a", 1); c.hazards.clear();
      S.Expect(holds, "filter_change_removal_overtakes_data_reply_of_same_command", "SUBSCRIBE:a changed to v>=5 (a has v=1) and SUBSCRIBE:* added in one SETPARAMETERS: c is sent a, then told a was removed; its mirror lacks a node that SUBSCRIBE:* selects");
      if (holds) S.Check("after the combined command");
   }
   vh::begin_case(10);
   {  // PR_NAME_SUBSCRIBE_QUIETLY on an EXISTING subscription whose filter changes: enter and leave notices are still owed (only a new
      // subscription's initial send is disabled); item_low must enter, item_high must leave, item_mid stays
      Script S("quiet-filter-change"); MC & a = S.Join(); MC & c = S.Join();
      S.Set(a, "item_low", 1); S.Set(a, "item_mid", 5); S.Set(a, "item_high", 9);
      const RF lt3 = RFInt("v", OPC_LT, 3), gt3 = RFInt("v", OPC_GT, 3), lt7 = RFInt("v", OPC_LT, 7);
      S.Sub_(c, "/*/*/item_*", &lt3); S.Check("v<3"); S.Expect(S.Holds(c, a, "item_low", 1) && c.mirror.size() == 1, "quiet_filter_change_setup", "v<3 must select item_low only");
      S.Sub_(c, "/*/*/item_*", &gt3); S.Check("changed to v>3, not quiet"); S.Expect(S.Holds(c, a, "item_mid", 5) && S.Holds(c, a, "item_high", 9) && c.mirror.size() == 2, "quiet_filter_change_setup", "v>3 must select item_mid and item_high");
      { Sub s = SubFromText("/*/*/item_*"); s.hasFilter = true; s.filter = lt7; std::vector<Sub> e; e.push_back(s); S.W.Send(c, S.W.MkSubscribe(c, e, -1, true)); S.W.Log("c1 subscribe [/*/*/item_*] f=(v<7) (again) QUIETLY"); S.W.Settle(); }
      const bool low = S.Holds(c, a, "item_low", 1), mid = S.Holds(c, a, "item_mid", 5), high = S.Holds(c, a, "item_high");
      S.Expect(low, "quiet_filter_change_enter_not_announced", "filter changed quietly from v>3 to v<7: item_low (v=1) entered the match set but the subscriber was not sent it");
      S.Expect(!high, "quiet_filter_change_leave_not_announced", "filter changed quietly from v>3 to v<7: item_high (v=9) left the match set but the subscriber still holds it");
      S.Expect(mid, "quiet_filter_change_lost_node", "item_mid (v=5) matches before and after");
      S.Check("after the quiet filter change");
      { Sub s = SubFromText("/*/*/item_*"); std::vector<Sub> e; e.push_back(s); S.W.Send(c, S.W.MkSubscribe(c, e, -1, true)); S.W.Log("c1 subscribe [/*/*/item_*] (again, filter removed) QUIETLY"); S.W.Settle(); }
      S.Expect(S.Holds(c, a, "item_high", 9), "quiet_filter_change_enter_not_announced", "filter removed quietly: item_high must enter"); S.Check("after the quiet filter removal");
   }
   vh::distinct(1); vh::distinct(2); vh::distinct(3);
}

// Session ids come from a process-wide counter and appear in every node path.  All cases of a process run with 7-digit ids
// (and every id-dependent pattern clause is built relative to the ids of the case), so a case behaves the same whichever
// cases ran before it in the same process: byte counts, buffer fill and matching are identical.
class IdBurner : public AbstractReflectSession { public: virtual void MessageReceivedFromGateway(const MessageRef &, void *) {} };
static void BurnSessionIdsTo(uint32 base) { while (true) { IdBurner b; if (b.GetSessionID() + 1 >= base) break; } }

int main(int argc, char ** argv)
{
   CompleteSetupSystem css; SetConsoleLogLevel(MUSCLE_LOG_NONE);
   BurnSessionIdsTo(1000000);
   vh::init(argc, argv);
   vh::Ctx & c = vh::ctx();
   const std::string mode = vh::opt("mode", "mirror");
   if (mode == "regress") { Regress(); return vh::finish(); }
   for (long k = c.from; k < c.from + c.cases; k++) { vh::begin_case(k); RunCase(k, vh::case_seed(c.seed, STREAM_MIRROR, (uint64_t)k)); }
   return vh::finish();
}
