// reflectbench.h -- the reflector bench of DESIGN.md section 2.5 (header only; used by C04 C05 C06 C07 C13 harnesses)
//
// WHAT IT IS
//   One real muscle::ReflectServer with StorageReflectSessions, *stepped single-threaded*:
//   ReflectServer::ServerProcessLoop(0) runs exactly one non-blocking event-loop iteration, so the
//   bench alternates "every client pumps its gateway / the server takes one step / clients pump again"
//   until nothing moved for N (default 6) consecutive rounds = a QUIESCENT POINT (rb::Bench::Settle()).
//   No threads, no sleeps, no clocks: a run is a pure function of the command history.
//   The server side is the production path byte for byte: every client is a socketpair whose far end is
//   handed to ReflectServer::AddNewSession(session, socket), the call DoAccept() makes.
//
// PIECES (all in namespace rb)
//   Bench            owns the server, the inspector, the clients and raw peers; Settle(), Step(), teardown.
//                    Make a fresh Bench per case (cost: well under 1 ms plus ~0.2 ms per client).
//   Client           a real MessageIOGateway over the near socket end.
//                      Send(msg)            queue a Message on the gateway (goes out at the next pump)
//                      SendRaw(bytes)       write bytes directly to the socket, bypassing the gateway (hostile frames)
//                      got                  every Message received, in arrival order (the receive queue)
//                      params               the latest PR_RESULT_PARAMETERS
//                      mirror / idx         C04-style mirror maintained from PR_RESULT_DATAITEMS (removals first, then
//                                           updates, last value of a path wins) and PR_RESULT_INDEXUPDATED (c / i / r ops);
//                                           idxReplayErrors counts index ops that did not fit the mirrored index
//                      readPaused           true = the client does not read (a "slow" client); see Options::slow
//                      CutAfter(n)          the connection is closed as soon as n bytes of the client's outgoing stream
//                                           (counted from now, gateway and SendRaw together) have been written
//                      Cut()                close the connection now
//                    Options::slow creates the socketpair with 2 KB SO_SNDBUF/SO_RCVBUF on both ends: with default
//                    buffers the kernel absorbs ~200 KB and the server-side *gateway queue* never builds (C07).
//                    Options::reflectToSelf sets PR_NAME_REFLECT_TO_SELF: an observer needs it, otherwise GETDATA omits
//                    the observer's own session node.
//   RawPeer          a bare socket end (no gateway): Write() hand-made bytes, Drain() what the server sent,
//                    Close()/HalfClose().  Used for the byte-prefix cuts of C06 and for hostile frames.
//   Inspector        a StorageReflectSession subclass attached *without* a socket; it sits in the server as one more
//                    (silent) session and reads state no command exposes, in process:
//                      Snapshot(TreeSnap&)  walk of GetGlobalRoot(): path -> payload bytes, ordered index, subscriber table, depth
//                                           (returns false if the inspector itself was detached, e.g. kicked by a client)
//                      NodeCountOf(session) the session's private node counter (_currentNodeCount)
//                      CachedTablesWithKey  how many tables of the shared subscriber-table cache mention a session id
//                    Because the inspector is attached first and never leaves, the global root never becomes empty,
//                    so StorageReflectSession::Cleanup() of any other session takes the "neighbours remain" branch.
//                    NOTE the inspector has a session node of its own (under a host node of its own) in every snapshot.
//   TreeSnap/NodeSnap, DiffSnap()   snapshot comparison with the two exclusions C06 needs (a subtree, a session id in
//                    subscriber tables); DiffSnap returns human-readable lines "node removed|created|changed(...): path".
//   RefPathMatch()   independent 20-line reference for subscription paths made only of literals (a backslash makes the next
//                    character literal: EscapeClause()), `*`, `(a|b)` and `a,b` clauses (relative paths get the */*/ prefix); CheckSubscriberInvariant() checks
//                    subscribers(node)[s] == #{subscription strings of s that match node} over ALL nodes of a snapshot.
//   Frame()/FrameStream()           Message -> wire bytes (8-byte header: LE body size, LE encoding; then the flattened body).
//   ParamSnap()      GETPARAMETERS reply minus the seven volatile PR_NAME_SERVER_* clock/memory fields, as bytes.
//   Ping()           PR_COMMAND_PING with a unique tag; true iff the PONG carrying the tag came back.
//   ObserverView()   the public-command view: GETDATA /*, /*/*, ... one pattern per depth into the observer's mirror.
//
// PROTOCOL FACTS THAT CAUSE FALSE ALARMS (learnt from the prototypes; keep in mind when writing an oracle)
//   * an observer must set reflect-to-self or GETDATA omits its own session node;
//   * there is no unsubscribe notice (a mirror must prune locally after REMOVEPARAMETERS);
//   * SUBSCRIBE:a and SUBSCRIBE:/*/*/a are ONE subscription (one ref count): never generate both (CanonSub());
//   * index updates are sent to the owning session too, data updates are not (unless reflect-to-self);
//   * PR_COMMAND_SETDATATREES is not implemented by the server (bounced PR_RESULT_ERRORUNIMPLEMENTED);
//   * within one PR_RESULT_DATAITEMS removals come first, then updates (the server splits add-then-remove).
//
// PRIVATE STATE.  _currentNodeCount, _sharedData->_cachedSubscribersTables and the pool's _lruCache are private in
//   muscle.  They are read through explicit template instantiation (access checking does not apply to the names used
//   in an explicit instantiation, [temp.spec]/6): standard C++, no change to /repo, no hook.  See namespace rbpriv.
//
// HARNESS PRECONDITIONS (socketpair cannot be made, AddNewSession fails, ...) end in rb::Abort() = "HARNESS-ABORT: why".
#ifndef VERIF_REFLECTBENCH_H
#define VERIF_REFLECTBENCH_H
#include "reflector/ReflectServer.h"
#include "reflector/StorageReflectSession.h"
#include "reflector/StorageReflectConstants.h"
#include "reflector/DataNode.h"
#include "iogateway/MessageIOGateway.h"
#include "dataio/TCPSocketDataIO.h"
#include "system/SetupSystem.h"
#include "syslog/SysLog.h"
#include "util/NetworkUtilityFunctions.h"
#include "regex/StringMatcher.h"
#include <vector>
#include <map>
#include <set>
#include <string>
#include <cstdio>
#include <cstdlib>
#include <cstring>
#include <cerrno>
#include <unistd.h>
#include <sys/socket.h>

// ---- access to three private members, by explicit instantiation (see PRIVATE STATE above) ------------------------
namespace rbpriv {
using namespace muscle;
struct NodeCountTag {}; struct CacheTag {}; struct LruTag {};
typedef Hashtable<uint64, ConstDataNodeSubscribersTableRef> LruT;
uint32 SessionNodeCount(NodeCountTag, const StorageReflectSession & s);
int CachedTablesWithKey(CacheTag, const StorageReflectSession & s, uint32 key, uint32 * optTotal);
const LruT & PoolLru(LruTag, const DataNodeSubscribersTablePool & p);
template<typename T, T M> struct RobCount { friend uint32 SessionNodeCount(NodeCountTag, const StorageReflectSession & s) { return s.*M; } };
template struct RobCount<decltype(&StorageReflectSession::_currentNodeCount), &StorageReflectSession::_currentNodeCount>;
template<typename T, T M> struct RobLru { friend const LruT & PoolLru(LruTag, const DataNodeSubscribersTablePool & p) { return p.*M; } };
template struct RobLru<decltype(&DataNodeSubscribersTablePool::_lruCache), &DataNodeSubscribersTablePool::_lruCache>;
template<class SD> static inline int CountIn(SD * sd, uint32 key, uint32 * optTotal)
{
   if (sd == NULL) return -1;   // session not attached
   const LruT & l = PoolLru(LruTag(), sd->_cachedSubscribersTables); int n = 0; if (optTotal) *optTotal = l.GetNumItems();
   for (ConstHashtableIterator<uint64, ConstDataNodeSubscribersTableRef> it(l); it.HasData(); it++) if (it.GetValue()() && it.GetValue()()->GetTable().ContainsKey(key)) n++;
   return n;
}
template<typename T, T M> struct RobShared { friend int CachedTablesWithKey(CacheTag, const StorageReflectSession & s, uint32 key, uint32 * optTotal) { return CountIn(s.*M, key, optTotal); } };
template struct RobShared<decltype(&StorageReflectSession::_sharedData), &StorageReflectSession::_sharedData>;
}  // namespace rbpriv

namespace rb {
using namespace muscle;

static inline void Abort(const std::string & why) { fprintf(stderr, "HARNESS-ABORT: %s\n", why.c_str()); fflush(stderr); _exit(2); }

// ---- wire helpers ------------------------------------------------------------------------------------------------
static inline std::string FlatBytes(const Message & m) { ByteBufferRef b = m.FlattenToByteBuffer(); if (b() == NULL) Abort("FlattenToByteBuffer failed"); return std::string((const char *)b()->GetBuffer(), b()->GetNumBytes()); }
static inline std::string Frame(const Message & m, uint32 encoding = MUSCLE_MESSAGE_ENCODING_DEFAULT)
{
   std::string body = FlatBytes(m); uint32 hdr[2] = {B_HOST_TO_LENDIAN_INT32((uint32)body.size()), B_HOST_TO_LENDIAN_INT32(encoding)};
   std::string out((const char *)hdr, 8); out += body; return out;
}
// concatenated frames; optFrameStarts receives the offset of every frame start plus the total length as last element
static inline std::string FrameStream(const std::vector<MessageRef> & ms, std::vector<size_t> * optFrameStarts = NULL)
{
   std::string out; for (size_t i = 0; i < ms.size(); i++) { if (optFrameStarts) optFrameStarts->push_back(out.size()); out += Frame(*ms[i]()); }
   if (optFrameStarts) optFrameStarts->push_back(out.size());
   return out;
}

// ---- subscription-path reference (literals, *, (a|b), a,b only) -------------------------------------------------------
static inline std::vector<std::string> SplitPath(const std::string & s) { std::vector<std::string> v; size_t st = 0; while (true) { size_t k = s.find('/', st); v.push_back(s.substr(st, k == std::string::npos ? k : k - st)); if (k == std::string::npos) break; st = k + 1; } return v; }
// canonical (root-relative, no leading slash) form of a subscription / key path: "a" -> "*/*/a", "/x/y" -> "x/y"
static inline std::string CanonSub(const std::string & p) { if (p.empty()) return p; return (p[0] == '/') ? p.substr(1) : ("*/*/" + p); }
// clause grammar: `*` | alternatives separated by unescaped `|` or `,`, optionally wrapped in unescaped ( ) ; every alternative is a
// literal in which a backslash makes the next character literal (so `we\*rd` names the node `we*rd`, `com\,ma` the node `com,ma`)
static inline bool RefClauseMatch(const std::string & pat, const std::string & name)
{
   if (pat == "*") return true;
   size_t b = 0, e = pat.size();
   if (e >= 2 && pat[0] == '(' && pat[e - 1] == ')' && pat[e - 2] != '\\') { b = 1; e--; }
   std::string alt;
   for (size_t i = b; i <= e; i++) {
      if (i == e || pat[i] == '|' || pat[i] == ',') { if (alt == name) return true; alt.clear(); continue; }
      if (pat[i] == '\\' && i + 1 < e) i++;
      alt += pat[i];
   }
   return false;
}
// `name` with every wildcard metacharacter backslash-escaped: the clause that names exactly this node
static inline std::string EscapeClause(const std::string & name) { std::string o; for (size_t i = 0; i < name.size(); i++) { if (strchr("*?[](),|\\", name[i])) o += '\\'; o += name[i]; } return o; }
static inline bool HasMeta(const std::string & s) { return s.find_first_of("*?[](),|\\") != std::string::npos; }
static inline bool RefPathMatch(const std::string & subscription, const std::string & nodePath)
{
   if (subscription.empty() || nodePath.size() < 2 || nodePath[0] != '/') return false;       // the root node "/" matches nothing
   std::vector<std::string> a = SplitPath(CanonSub(subscription)), b = SplitPath(nodePath.substr(1));
   if (a.size() != b.size()) return false;
   for (size_t i = 0; i < a.size(); i++) if (!RefClauseMatch(a[i], b[i])) return false;
   return true;
}

// ---- snapshots ---------------------------------------------------------------------------------------------------
struct NodeSnap {
   std::string payload;                 // flattened payload Message ("" if the node has none)
   bool hasIndex; std::vector<std::string> index;   // ordered child index (names)
   std::map<uint32, uint32> subs;       // subscriber table: session id -> reference count
   uint32 depth;
   NodeSnap() : hasIndex(false), depth(0) {}
};
typedef std::map<std::string, NodeSnap> TreeSnap;

static inline bool Under(const std::string & path, const std::string & root) { return !root.empty() && (path == root || path.compare(0, root.size() + 1, root + "/") == 0); }
static inline long CountUnder(const TreeSnap & s, const std::string & root, bool includeRootItself) { long n = 0; for (TreeSnap::const_iterator it = s.begin(); it != s.end(); ++it) if (Under(it->first, root) && (includeRootItself || it->first != root)) n++; return n; }
static inline long MarksOf(const TreeSnap & s, uint32 id) { long n = 0; for (TreeSnap::const_iterator it = s.begin(); it != s.end(); ++it) { std::map<uint32, uint32>::const_iterator j = it->second.subs.find(id); if (j != it->second.subs.end()) n += j->second; } return n; }

// Differences between two snapshots, ignoring every path at or under skipRoot and the entry of skipId in subscriber tables
// (pass "" / 0xFFFFFFFF for no exclusion).  Lines: "node removed: P", "node created: P", "node changed(payload,index,subs): P".
static inline std::vector<std::string> DiffSnap(const TreeSnap & before, const TreeSnap & after, const std::string & skipRoot = "", uint32 skipId = 0xFFFFFFFFu)
{
   std::vector<std::string> out;
   for (TreeSnap::const_iterator it = before.begin(); it != before.end(); ++it) {
      if (Under(it->first, skipRoot)) continue;
      TreeSnap::const_iterator j = after.find(it->first);
      if (j == after.end()) { out.push_back("node removed: " + it->first); continue; }
      const NodeSnap & a = it->second; const NodeSnap & b = j->second; std::string what;
      if (a.payload != b.payload) what += "payload,";
      if (a.hasIndex != b.hasIndex || a.index != b.index) what += "index,";
      std::map<uint32, uint32> sa = a.subs, sb = b.subs; sa.erase(skipId); sb.erase(skipId);
      if (sa != sb) what += "subs,";
      if (!what.empty()) { what.resize(what.size() - 1); out.push_back("node changed(" + what + "): " + it->first); }
   }
   for (TreeSnap::const_iterator it = after.begin(); it != after.end(); ++it) if (!Under(it->first, skipRoot) && !before.count(it->first)) out.push_back("node created: " + it->first);
   return out;
}
static inline std::string ShowSubs(const std::map<uint32, uint32> & m) { std::string s; char b[48]; for (std::map<uint32, uint32>::const_iterator it = m.begin(); it != m.end(); ++it) { snprintf(b, sizeof(b), " %u:%u", it->first, it->second); s += b; } return s.empty() ? " (none)" : s; }

// subscribers(node)[s] == number of subscription strings of s that match node, for every node of the snapshot and every
// session id that is not in ignoreIds.  subsBySession must list EVERY session that may hold marks (ids absent from it are
// expected to have no mark anywhere).  Returns "" or a description of the first mismatch.  *optChecked += nodes checked.
static inline std::string CheckSubscriberInvariant(const TreeSnap & snap, const std::map<uint32, std::vector<std::string> > & subsBySession, const std::set<uint32> & ignoreIds = std::set<uint32>(), long * optChecked = NULL)
{
   for (TreeSnap::const_iterator it = snap.begin(); it != snap.end(); ++it) {
      std::map<uint32, uint32> expect;
      for (std::map<uint32, std::vector<std::string> >::const_iterator s = subsBySession.begin(); s != subsBySession.end(); ++s) {
         if (ignoreIds.count(s->first)) continue;
         uint32 c = 0; for (size_t i = 0; i < s->second.size(); i++) if (RefPathMatch(s->second[i], it->first)) c++;
         if (c) expect[s->first] = c;
      }
      std::map<uint32, uint32> actual = it->second.subs; for (std::set<uint32>::const_iterator g = ignoreIds.begin(); g != ignoreIds.end(); ++g) actual.erase(*g);
      if (optChecked) (*optChecked)++;
      if (actual != expect) return "node " + it->first + ": subscriber table is" + ShowSubs(actual) + ", the subscription strings give" + ShowSubs(expect);
   }
   return "";
}

// ---- inspector -----------------------------------------------------------------------------------------------------
class Inspector : public StorageReflectSession {
public:
   DataNode & Root() { return GetGlobalRoot(); }
   // false (and an empty snapshot) when the inspector itself is no longer attached -- it was kicked: treat as a violation
   bool Snapshot(TreeSnap & out) { out.clear(); if (!Attached()) return false; Walk(GetGlobalRoot(), out); return true; }
   bool Attached() const { return IsAttachedToServer() && GetSessionNode()() != NULL; }
   uint32 NodeCountOf(const StorageReflectSession & s) const { return rbpriv::SessionNodeCount(rbpriv::NodeCountTag(), s); }
   // number of tables in the shared subscriber-table cache that contain an entry for session id `id` (-1: not attached)
   int CachedTablesWithKey(uint32 id, uint32 * optTotal = NULL) const { return Attached() ? rbpriv::CachedTablesWithKey(rbpriv::CacheTag(), *this, id, optTotal) : -1; }
   AbstractReflectSessionRef SessionById(uint32 id) const { return GetSession(id); }
   uint32 NumSessions() const { return GetSessions().GetNumItems(); }
   // the SUBSCRIBE: parameter names of a session, prefix stripped (what the session itself believes it subscribed to)
   static std::vector<std::string> SubscriptionsOf(const StorageReflectSession & s)
   {
      std::vector<std::string> v;
      for (MessageFieldNameIterator it = s.GetParametersConst().GetFieldNameIterator(); it.HasData(); it++) { const String & fn = it.GetFieldName(); if (fn.StartsWith("SUBSCRIBE:")) v.push_back(fn.Substring(10)()); }
      return v;
   }
private:
   static void Walk(DataNode & n, TreeSnap & out)
   {
      String p; if (n.GetNodePath(p).IsError()) Abort("GetNodePath failed");
      NodeSnap & s = out[p()]; s.depth = n.GetDepth();
      if (n.GetData()()) s.payload = FlatBytes(*n.GetData()());
      if (n.GetIndex()) { s.hasIndex = true; for (uint32 i = 0; i < n.GetIndex()->GetNumItems(); i++) s.index.push_back((*n.GetIndex())[i]() ? (*n.GetIndex())[i]()->GetNodeName()() : "<null>"); }
      for (ConstHashtableIterator<uint32, uint32> it(n.GetSubscribers()); it.HasData(); it++) s.subs[it.GetKey()] = it.GetValue();
      for (DataNodeRefIterator it = n.GetChildIterator(); it.HasData(); it++) if (it.GetValue()()) Walk(*it.GetValue()(), out);
   }
};

// ---- clients -------------------------------------------------------------------------------------------------------
// DataIO that lets at most `budget` more bytes out (budget < 0: unlimited)
class BudgetDataIO : public TCPSocketDataIO {
public:
   BudgetDataIO(const ConstSocketRef & s) : TCPSocketDataIO(s, false), budget(-1), written(0) {}
   virtual io_status_t Write(const void * buffer, uint32 size)
   {
      if (budget == 0) return io_status_t();                                     // nothing may leave any more (the client is about to be cut)
      if (budget > 0 && (int64)size > budget) size = (uint32)budget;
      io_status_t r = TCPSocketDataIO::Write(buffer, size);
      if (r.GetByteCount() > 0) { written += r.GetByteCount(); if (budget > 0) budget -= r.GetByteCount(); }
      return r;
   }
   int64 budget; uint64 written;
};

struct Options {
   bool slow;            // 2 KB socket buffers on both ends
   bool reflectToSelf;   // send SETPARAMETERS {PR_NAME_REFLECT_TO_SELF} right after joining
   bool handshake;       // GETPARAMETERS round trip after joining (checks the link and that !Root equals the in-process root)
   Options() : slow(false), reflectToSelf(false), handshake(true) {}
};

class Bench;
class Client : public AbstractGatewayMessageReceiver {
public:
   MessageIOGateway gw; BudgetDataIO * io; DataIORef ioRef; ConstSocketRef sock;
   StorageReflectSessionRef session;          // the server-side session object (stays valid after it was detached)
   std::string root, sid, host; uint32 id;
   bool alive, readPaused, slow;
   std::vector<MessageRef> got; MessageRef params;
   std::map<std::string, std::string> mirror; std::map<std::string, std::vector<std::string> > idx; long idxReplayErrors; long removalNotices; uint64 finalWritten;
   Client() : io(NULL), finalWritten(0), id(0), alive(true), readPaused(false), slow(false), idxReplayErrors(0), removalNotices(0) {}

   virtual void MessageReceivedFromGateway(const MessageRef & m, void *)
   {
      got.push_back(m);
      switch (m()->what) {
      case PR_RESULT_PARAMETERS: params = m; break;
      case PR_RESULT_DATAITEMS: {
         const String * s; for (uint32 i = 0; m()->FindString(PR_NAME_REMOVED_DATAITEMS, i, &s).IsOK(); i++) { mirror.erase(s->Cstr()); idx.erase(s->Cstr()); removalNotices++; }
         for (MessageFieldNameIterator it = m()->GetFieldNameIterator(B_MESSAGE_TYPE); it.HasData(); it++) { MessageRef p; for (uint32 i = 0; m()->FindMessage(it.GetFieldName(), i, p).IsOK(); i++) mirror[it.GetFieldName()()] = FlatBytes(*p()); }
      } break;
      case PR_RESULT_INDEXUPDATED:
         for (MessageFieldNameIterator it = m()->GetFieldNameIterator(B_STRING_TYPE); it.HasData(); it++) {
            std::vector<std::string> & v = idx[it.GetFieldName()()]; const String * s;
            for (uint32 i = 0; m()->FindString(it.GetFieldName(), i, &s).IsOK(); i++) {
               const char * c = s->Cstr(); const char op = c[0];
               if (op == INDEX_OP_CLEARED) { v.clear(); continue; }
               const char * colon = strchr(c, ':'); if (colon == NULL) { idxReplayErrors++; continue; }
               size_t pos = (size_t)strtoul(c + 1, NULL, 10); std::string key = colon + 1;
               if (op == INDEX_OP_ENTRYINSERTED) { if (pos > v.size()) { idxReplayErrors++; pos = v.size(); } v.insert(v.begin() + pos, key); }
               else if (op == INDEX_OP_ENTRYREMOVED) { if (pos >= v.size() || v[pos] != key) idxReplayErrors++; else v.erase(v.begin() + pos); }
               else idxReplayErrors++;
            }
         }
         break;
      default: break;
      }
   }
   void Send(const MessageRef & m) { if (alive && gw.AddOutgoingMessage(m).IsError()) Abort("AddOutgoingMessage failed"); }
   // bytes straight to the socket (honours CutAfter); returns how many were accepted by the kernel
   size_t SendRaw(const std::string & bytes) { if (!alive || io == NULL) return 0; size_t off = 0; while (off < bytes.size()) { io_status_t r = io->Write(bytes.data() + off, (uint32)(bytes.size() - off)); if (r.GetByteCount() <= 0) break; off += (size_t)r.GetByteCount(); } CheckBudget(); return off; }
   void CutAfter(uint64 nBytes) { if (io) { io->budget = (int64)nBytes; CheckBudget(); } }
   void Cut() { if (!alive) return; alive = false; if (io) finalWritten = io->written; gw.SetDataIO(DataIORef()); ioRef.Reset(); io = NULL; sock.Reset(); }
   uint64 BytesWritten() const { return io ? io->written : finalWritten; }
   bool Pump()
   {
      if (!alive) return false;
      bool any = false;
      while (alive && gw.DoOutput().GetByteCount() > 0) { any = true; CheckBudget(); }
      if (alive && !readPaused) { io_status_t r; while ((r = gw.DoInput(*this)).GetByteCount() > 0) any = true; if (r.IsError()) { alive = false; any = true; } }
      return any;
   }
   long CountWhat(uint32 what, size_t from = 0) const { long n = 0; for (size_t i = from; i < got.size(); i++) if (got[i]()->what == what) n++; return n; }
private:
   void CheckBudget() { if (io && io->budget == 0) Cut(); }
};

class RawPeer {
public:
   ConstSocketRef sock; int fd; StorageReflectSessionRef session; std::string root, sid, host; uint32 id; bool open, wrOpen, readPaused; std::string rx; uint64 written;
   RawPeer() : fd(-1), id(0), open(true), wrOpen(true), readPaused(false), written(0) {}
   size_t Write(const void * p, size_t n) { if (!open || !wrOpen) return 0; ssize_t w = send(fd, p, n, MSG_NOSIGNAL); if (w > 0) { written += (uint64)w; return (size_t)w; } return 0; }
   bool Drain() { if (!open || readPaused) return false; bool any = false; char b[4096]; while (true) { ssize_t r = recv(fd, b, sizeof(b), 0); if (r > 0) { rx.append(b, (size_t)r); any = true; } else break; } return any; }
   void HalfClose() { if (open && wrOpen) { (void)shutdown(fd, SHUT_WR); wrOpen = false; } }
   void Close() { if (open) { open = false; wrOpen = false; fd = -1; sock.Reset(); } }
};

class Bench {
public:
   ReflectServer server; Inspector * insp; AbstractReflectSessionRef inspRef;
   std::vector<Client *> clients; std::vector<RawPeer *> raws; long rounds; uint32 pingTag;

   Bench() : insp(NULL), rounds(0), pingTag(0)
   {
      insp = new Inspector; inspRef.SetRef(insp);
      if (server.AddNewSession(inspRef).IsError()) Abort("cannot attach the inspector session");
   }
   ~Bench()
   {
      for (size_t i = 0; i < clients.size(); i++) clients[i]->Cut();
      for (size_t i = 0; i < raws.size(); i++) raws[i]->Close();
      Settle();
      server.Cleanup();
      for (size_t i = 0; i < clients.size(); i++) delete clients[i];
      for (size_t i = 0; i < raws.size(); i++) delete raws[i];
      inspRef.Reset();
   }

   Client * AddClient(const Options & o = Options())
   {
      ConstSocketRef a, b; MakePair(a, b, o.slow);
      Client * c = new Client; c->slow = o.slow; c->sock = a; c->io = new BudgetDataIO(a); c->ioRef.SetRef(c->io); c->gw.SetDataIO(c->ioRef);
      c->session.SetRef(new StorageReflectSession);
      if (server.AddNewSession(c->session, b).IsError()) Abort("AddNewSession failed");
      Identify(*c->session(), c->root, c->sid, c->host, c->id);
      clients.push_back(c);
      if (o.reflectToSelf) { MessageRef sp = GetMessageFromPool(PR_COMMAND_SETPARAMETERS); (void)sp()->AddBool(PR_NAME_REFLECT_TO_SELF, true); c->Send(sp); }
      if (o.handshake) {
         c->Send(GetMessageFromPool(PR_COMMAND_GETPARAMETERS)); Settle();
         if (c->params() == NULL) Abort("no PR_RESULT_PARAMETERS on a fresh connection");
         if (c->root != c->params()->GetString(PR_NAME_SESSION_ROOT)()) Abort("!Root differs from the in-process session root");
      }
      return c;
   }
   RawPeer * AddRaw(bool slow = false)
   {
      ConstSocketRef a, b; MakePair(a, b, slow);
      RawPeer * r = new RawPeer; r->sock = a; r->fd = a.GetFileDescriptor();
      r->session.SetRef(new StorageReflectSession);
      if (server.AddNewSession(r->session, b).IsError()) Abort("AddNewSession failed");
      Identify(*r->session(), r->root, r->sid, r->host, r->id);
      raws.push_back(r);
      return r;
   }
   // one round; true iff any byte moved at a client / raw peer
   bool Step()
   {
      bool any = false;
      for (size_t i = 0; i < clients.size(); i++) any |= clients[i]->Pump();
      for (size_t i = 0; i < raws.size(); i++) any |= raws[i]->Drain();
      (void)server.ServerProcessLoop(0);
      for (size_t i = 0; i < clients.size(); i++) any |= clients[i]->Pump();
      for (size_t i = 0; i < raws.size(); i++) any |= raws[i]->Drain();
      rounds++;
      return any;
   }
   // pump until nothing moved for quietRounds consecutive rounds; returns the number of rounds taken
   long Settle(int quietRounds = 6) { long n = 0; int idle = 0; while (idle < quietRounds) { idle = Step() ? 0 : idle + 1; n++; } return n; }

   bool SessionAttached(uint32 id) const { return server.GetSessionsByIDNumber().ContainsKey(id); }
   uint32 NumSessions() const { return server.GetSessions().GetNumItems(); }

   // GETPARAMETERS reply of c minus the seven volatile server clock/memory fields, flattened ("<no reply>" if none came)
   std::string ParamSnap(Client * c)
   {
      c->params.Reset(); c->Send(GetMessageFromPool(PR_COMMAND_GETPARAMETERS)); Settle();
      if (c->params() == NULL) return "<no reply>";
      Message m(*c->params());
      static const char * vol[] = {PR_NAME_SERVER_CURRENTTIMELOCAL, PR_NAME_SERVER_CURRENTTIMEUTC, PR_NAME_SERVER_MEM_AVAILABLE, PR_NAME_SERVER_MEM_USED, PR_NAME_SERVER_MEM_MAX, PR_NAME_SERVER_RUNTIME, PR_NAME_SERVER_UPTIME};
      for (size_t i = 0; i < sizeof(vol) / sizeof(vol[0]); i++) (void)m.RemoveName(vol[i]);
      return FlatBytes(m);
   }
   bool Ping(Client * c)
   {
      if (!c->alive) return false;
      const int32 tag = (int32)(++pingTag); const size_t from = c->got.size();
      MessageRef p = GetMessageFromPool(PR_COMMAND_PING); (void)p()->AddInt32("rbtag", tag); c->Send(p); Settle();
      for (size_t i = from; i < c->got.size(); i++) if (c->got[i]()->what == PR_RESULT_PONG && c->got[i]()->GetInt32("rbtag") == tag) return true;
      return false;
   }
   // public-command view of the whole tree through an observer (which must have reflect-to-self): fills obs->mirror / obs->idx
   void ObserverView(Client * obs, int maxDepth = 6)
   {
      obs->mirror.clear(); obs->idx.clear();
      MessageRef gd = GetMessageFromPool(PR_COMMAND_GETDATA); std::string p;
      for (int d = 1; d <= maxDepth; d++) { p += "/*"; (void)gd()->AddString(PR_NAME_KEYS, p.c_str()); }
      obs->Send(gd); Settle();
   }
   // number of Messages waiting in the server-side gateway of a session (what a slow client makes grow)
   static uint32 ServerSideQueueLength(const StorageReflectSession & s) { return s.GetGateway()() ? s.GetGateway()()->GetOutgoingMessageQueue().GetNumItems() : 0; }

private:
   static void MakePair(ConstSocketRef & a, ConstSocketRef & b, bool slow)
   {
      if (CreateConnectedSocketPair(a, b, false).IsError()) Abort("CreateConnectedSocketPair failed");
      if (slow) { (void)SetSocketSendBufferSize(a, 2048); (void)SetSocketReceiveBufferSize(a, 2048); (void)SetSocketSendBufferSize(b, 2048); (void)SetSocketReceiveBufferSize(b, 2048); }
   }
   static void Identify(const StorageReflectSession & s, std::string & root, std::string & sid, std::string & host, uint32 & id)
   {
      root = s.GetSessionRootPath()(); sid = s.GetSessionIDString()(); host = s.GetHostName()(); id = s.GetSessionID();
      if (root.empty() || root != "/" + host + "/" + sid) Abort("unexpected session root path '" + root + "'");
   }
};

}  // namespace rb
#endif
