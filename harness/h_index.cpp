// h_index -- C13: an ordered child index replayed from its update log equals the server's index.
// Built on reflectbench.h (one real ReflectServer stepped single-threaded, real MessageIOGateways over socketpairs).
// modes (--opt mode=):
//   index    one case = one history (default 80 operations, --opt ops=N) on a fresh server: 1-3 sessions (later up to 5, joining and
//            leaving at any point) run INSERTORDEREDDATA (before a named sibling / at the end / several nodes / wildcard keys),
//            SETDATA with and without the add-to-index flag (explicit names), REORDERDATA (before a sibling, to the end, !Rmv out of
//            the index, onto itself, wildcard targets, the index node itself => an index in the session node), REMOVEDATA of indexed
//            and non-indexed children, of whole index nodes and re-creation, BATCHes of these, GETDATA snapshots mid-history, and
//            the in-process subtree operations (CloneDataNodeSubtree, SaveNodeTreeToMessage, RestoreNodeTreeFromMessage incl.
//            hostile tree Messages, SetDataNode with an insert-before name) which the session subclass IdxSession runs when its
//            client sends one of four harness command codes (the way customised muscle daemons use that protected API), plus
//            PR_COMMAND_GETDATATREES (the public face of SaveNodeTreeToMessage) and PR_COMMAND_SETDATATREES (must be bounced).
//            A third of the sessions use only ONE index-creating operation all their life (insert / add-to-index / reorder / clone /
//            restore / SetDataNode): which server path made a session's indexes decides whether it gets own-node snapshots (F15).
//            A quarter of the histories run on a server with small limits in its central state (3-6 children per node and/or 6-30 nodes
//            per session, possibly different for sessions joining later), 3% have index nodes at depths 99 and 100 (MUSCLE_MAX_NODE_DEPTH),
//            so that ordered inserts by every path are REFUSED at arbitrary points; a refused insert must leave no trace.
//            SETDATA may carry SETDATANODE_FLAG_ENABLESUPERCEDE (a third of the re-uploads of index nodes, a quarter of the plain child sets);
//            the "supercede" operation interleaves index changes of one node with superceding re-uploads of that node's own payload, back to
//            back in one server cycle or in one BATCH; 30% of the sessions have 2 KB socket buffers and any subscriber may stop reading for
//            3-16 steps, so that its server-side gateway queue holds unsent Messages when a supercede prunes it (a paused reader is audited
//            after it has drained; all are drained before the final audit).  IdxSession::ObserveSupercede counts, in process, how often a
//            node was superceded while an index update of it was still queued for a subscriber.
//            The "snapbatch" operation is ONE BATCH {index change(s) of one of the sender's nodes; GETDATA of it | the same subscription again | a
//            wider subscription covering it} (20% in the reverse order) by a session that may already be subscribed to that node.
//            Every session may subscribe (plain, two patterns at once, or BATCH{quiet subscribe, GETDATA}) to its OWN and to foreign
//            index nodes and unsubscribe again; each keeps per node path a list and applies every PR_RESULT_INDEXUPDATED string
//            in arrival order (c / i<pos>:<name> / r<pos>:<name>; a remove that does not fit, an insert beyond the end or a
//            malformed string is a violation by itself).  A subscription counts from the pong of a PING sent just before it (so the
//            late reply to an earlier one-shot GETDATA is not mistaken for its snapshot: none is sent for an empty index), an
//            unsubscription from the pong of a PING sent just behind REMOVEPARAMETERS (there is no unsubscribe notice).
//            At every quiescent point (after ~1/3 of the operations and at the end):
//              struct    in-process walk: every index entry is THE child object of that name of that node, no duplicates;
//              observer  the observer's fresh GETDATA snapshot (one pattern per depth) shows the same node set and, per node, the
//                        same index as the in-process walk; at 1/4 of the points also its GETDATATREES view (saved index per node);
//              replay    for every live session and every existing node one of its subscription strings selects (independent
//                        matcher rb::RefPathMatch): replayed list == true index; lists of vanished nodes are empty.
//            A fraction of the inserts / reorders is "checked": quiescent before and after, and the new index must be what
//            StorageReflectConstants.h documents (before the named indexed sibling, else at the end; !Rmv removes).
//            Excluded and counted: nodes at/under ".../Q" (the quiet zone: PR_NAME_REMOVE_QUIETLY / SETDATANODE_FLAG_QUIET with
//            !Rmv change an index silently by design) are compared structurally and through the observer only.
//   regress  fixed witnesses: F15 (index created only by REORDERDATA, own-node subscription), F32 (generated child names are a
//            function of the node's history, not of the process's), repeated add-to-index, hostile tree restore + save/restore
//            round trip, SETDATATREES bounce, the documentation examples of INSERTORDEREDDATA / REORDERDATA, oracle self-tests,
//            refused ordered inserts (child limit, node limit, depth limit) leave no trace, a superceding re-upload of an indexed node's
//            payload (one BATCH, back to back, behind a backlog) leaves the node's queued index updates alone,
//            and the two defects this harness found in CloneDataNodeSubtree (fixed in /repo by "fix: CloneDataNodeSubtree() could
//            list a child twice in the clone's index, and did not set _indexingPresent"); both keep their own keys (clone|...) and
//            their classification in mode=index, so that a regression is reported as what it is and the history goes on.
#include "reflectbench.h"
#include "regex/StringMatcher.h"
#include "vh.h"
#include <algorithm>
using namespace muscle;
using namespace rb;

static vh::Rng g(1);
static uint32_t R(uint32_t n) { return g.R(n); }
enum { STREAM_INDEX = 1301 };
enum { HC_CLONE = 0x68636c6f, HC_RESTORE = 0x68727374, HC_SAVE = 0x68736176, HC_SETNODE = 0x68736574, HC_RESULT = 0x68726573 };   // 'hclo' 'hrst' 'hsav' 'hset' 'hres'
enum { HF_ADDTOINDEX = 1, HF_QUIET = 2 };

// two findings of this harness, meanwhile repaired in /repo (described where they are detected); each has its own key
static const char * KEY_CLONE_DUP = "clone|duplicate_index_entry_when_destination_already_indexed";
static const char * KEY_CLONE_FLAG = "clone|no_snapshot_for_own_index_created_by_clone";
typedef std::vector<std::string> Names;
static std::string Join(const Names & v, size_t maxItems = 40) { std::string s = "["; for (size_t i = 0; i < v.size() && i < maxItems; i++) { if (i) s += ","; s += v[i]; } if (v.size() > maxItems) s += vh::fmt(",...(%zu)", v.size()); return s + "]"; }
static MessageRef Pay(int32 v) { MessageRef m = GetMessageFromPool(1000); if (m() == NULL || m()->AddInt32("v", v).IsError()) Abort("cannot build a payload Message"); return m; }

// StorageReflectSession::_indexingPresent is private; it is read (never written) through an explicit template instantiation, the
// standard-C++ technique reflectbench.h uses for _currentNodeCount ([temp.spec]/6: no access check on explicit-instantiation arguments).
namespace idxpriv {
struct FlagTag {};
bool IndexingPresent(FlagTag, const StorageReflectSession & s);
template<typename T, T M> struct RobFlag { friend bool IndexingPresent(FlagTag, const StorageReflectSession & s) { return s.*M; } };
template struct RobFlag<decltype(&StorageReflectSession::_indexingPresent), &StorageReflectSession::_indexingPresent>;
}

// ---- the server-side session: StorageReflectSession plus four commands that call its protected subtree API --------------------
// Refusals.  A server configured with PR_NAME_MAX_CHILDREN_PER_NODE / PR_NAME_MAX_NODES_PER_SESSION (central state, read by a session
// when it attaches) refuses to create a node beyond the limit, and no node may be deeper than MUSCLE_MAX_NODE_DEPTH.  A refused
// ORDERED insert must leave no trace in the index.  IdxSession knows the limits it attached under (the harness set them) and counts
// the refused add-to-index calls that pass through the virtual SetDataNode(); refused INSERTORDEREDDATA is counted by the checked inserts.
static const char * RefusalKind(bool nodeLimitHit, uint32 parentDepth) { return nodeLimitHit ? "by_node_limit" : parentDepth >= MUSCLE_MAX_NODE_DEPTH ? "by_depth_limit" : "by_child_limit"; }
class IdxSession : public StorageReflectSession {
public:
   uint32 childLimit, nodeLimit;   // MUSCLE_NO_LIMIT = none
   IdxSession() : childLimit(MUSCLE_NO_LIMIT), nodeLimit(MUSCLE_NO_LIMIT) {}
   // Superceding updates.  SETDATANODE_FLAG_ENABLESUPERCEDE lets a node's new payload replace the node's previous, still UNSENT update in a
   // subscriber's outgoing queue.  PR_RESULT_INDEXUPDATED Messages use the node path as field name too and must survive that pruning.
   // This observes (in process, just before the payload of an existing node is replaced with the flag set) what the notified subscribers'
   // server-side gateway queues hold, so that the check can prove the state "index update of N still queued while N is superceded" was reached.
   void ObserveSupercede(const String & nodePath)
   {
      const DataNode * n = (nodePath.HasChars() && nodePath[0] != '/') ? GetDataNode(nodePath) : NULL; String np;
      if (n == NULL || n->GetNodePath(np).IsError()) return;
      vh::stat("supercede_sets_on_existing_node"); if (n->GetIndex() == NULL || n->GetIndex()->IsEmpty()) return;
      vh::stat("supercede_sets_on_indexed_node");
      bool any = false, newest = false;
      for (ConstHashtableIterator<uint32, uint32> it(n->GetSubscribers()); it.HasData(); it++) {
         AbstractReflectSessionRef sr = GetSession(it.GetKey()); StorageReflectSession * s = dynamic_cast<StorageReflectSession *>(sr());
         if (s == NULL || (s == this && !IsRoutingFlagSet(MUSCLE_ROUTING_FLAG_REFLECT_TO_SELF)) || s->GetGateway()() == NULL) continue;   // not notified of this change
         const Queue<MessageRef> & q = s->GetGateway()()->GetOutgoingMessageQueue(); vh::statmax("max_subscriber_queue_depth_at_supercede", (long)q.GetNumItems());
         bool sawMention = false;
         for (int32 i = q.GetLastValidIndex(); i >= 0; i--) { const Message * m = q[i](); if (m == NULL || !m->HasName(np)) continue; if (m->what == PR_RESULT_INDEXUPDATED) { any = true; if (!sawMention) newest = true; } sawMention = true; }
      }
      if (any) vh::stat("supercede_sets_on_indexed_node_with_queued_index_update");
      if (newest) vh::stat("supercede_sets_with_index_update_as_newest_queued_mention");   // exactly where a pruning that ignores the Message type would strike
   }
   virtual status_t SetDataNode(const String & nodePath, const ConstMessageRef & dataMsgRef, SetDataNodeFlags flags = SetDataNodeFlags(), const String & optInsertBefore = GetEmptyString())
   {
      const bool nodeLimitHit = rbpriv::SessionNodeCount(rbpriv::NodeCountTag(), *this) >= nodeLimit;
      if (flags.IsBitSet(SETDATANODE_FLAG_ENABLESUPERCEDE) && !flags.IsBitSet(SETDATANODE_FLAG_QUIET) && !flags.IsBitSet(SETDATANODE_FLAG_ADDTOINDEX)) ObserveSupercede(nodePath);
      const status_t r = StorageReflectSession::SetDataNode(nodePath, dataMsgRef, flags, optInsertBefore);
      if (r == B_RESOURCE_LIMIT && flags.IsBitSet(SETDATANODE_FLAG_ADDTOINDEX) && nodePath.HasChars() && nodePath[0] != '/') {
         const int32 slash = nodePath.LastIndexOf('/'); const DataNode * parent = (slash < 0) ? GetSessionNode()() : GetDataNode(nodePath.Substring(0, slash));
         if (parent && GetDataNode(nodePath) == NULL) vh::stat(std::string("ordered_inserts_refused_") + RefusalKind(nodeLimitHit, parent->GetDepth()));   // it was the ordered child itself that was refused
      }
      return r;
   }
   virtual void MessageReceivedFromGateway(const MessageRef & msgRef, void * ud)
   {
      const Message & m = *msgRef();
      if (m.what != HC_CLONE && m.what != HC_RESTORE && m.what != HC_SAVE && m.what != HC_SETNODE) { StorageReflectSession::MessageReceivedFromGateway(msgRef, ud); return; }
      SetDataNodeFlags f; const int32 fb = m.GetInt32("flags");
      if (fb & HF_ADDTOINDEX) f.SetBit(SETDATANODE_FLAG_ADDTOINDEX);
      if (fb & HF_QUIET) f.SetBit(SETDATANODE_FLAG_QUIET);
      const String src = m.GetString("src"), dst = m.GetString("dst"), before = m.GetString("before");
      const uint32 maxDepth = m.HasName("maxdepth") ? (uint32)m.GetInt32("maxdepth") : MUSCLE_NO_LIMIT;
      MessageRef reply = GetMessageFromPool(HC_RESULT); if (reply() == NULL) Abort("no reply Message");
      (void)reply()->AddInt32("cmd", (int32)m.what);
      status_t r;
      switch (m.what) {
      case HC_CLONE:   { const DataNode * n = GetDataNode(src); if (n) r = CloneDataNodeSubtree(*n, dst, f, before); else r = B_DATA_NOT_FOUND; } break;
      case HC_RESTORE: { MessageRef t; r = m.FindMessage("tree", t); if (r.IsOK()) r = RestoreNodeTreeFromMessage(*t(), dst, true, f, maxDepth); } break;
      case HC_SAVE:    { const DataNode * n = GetDataNode(src); MessageRef t = GetMessageFromPool(); if (n && t()) r = SaveNodeTreeToMessage(*t(), n, "", true, maxDepth); else r = B_DATA_NOT_FOUND; if (r.IsOK()) (void)reply()->AddMessage("tree", t); } break;
      case HC_SETNODE: { MessageRef p; r = m.FindMessage("data", p); if (r.IsOK()) r = SetDataNode(dst, p, f, before); } break;
      }
      (void)reply()->AddBool("ok", r.IsOK()); (void)reply()->AddString("status", r());
      (void)AddOutgoingMessage(reply);
   }
};

// ---- in-process truth ----------------------------------------------------------------------------------------------------------
struct TNode { bool hasIndex; Names index; std::set<std::string> kids; uint32 depth; TNode() : hasIndex(false), depth(0) {} };
typedef std::map<std::string, TNode> Truth;
// fills out; bad receives, per node with a structurally wrong index, "key\ndetail" of its first defect
typedef std::map<std::string, std::string> BadNodes;
static void WalkTruth(DataNode & n, Truth & out, BadNodes & badNodes)
{
   String p; if (n.GetNodePath(p).IsError()) Abort("GetNodePath failed");
   TNode & t = out[p()]; t.depth = n.GetDepth(); std::string bad;
   for (DataNodeRefIterator it = n.GetChildIterator(); it.HasData(); it++) if (it.GetValue()()) t.kids.insert(it.GetValue()()->GetNodeName()());
   const Queue<DataNodeRef> * ix = n.GetIndex();
   if (ix) {
      t.hasIndex = true; std::set<std::string> seen; std::set<const DataNode *> seenObj;
      for (uint32 i = 0; i < ix->GetNumItems(); i++) {
         const DataNode * e = (*ix)[i]();
         if (e == NULL) { t.index.push_back("<null>"); if (bad.empty()) bad = "struct|null_index_entry\nnode " + std::string(p()) + vh::fmt(" index position %u holds a NULL reference", i); continue; }
         const std::string nm = e->GetNodeName()(); t.index.push_back(nm);
         DataNodeRef c;
         if (!bad.empty()) continue;
         if (!seen.insert(nm).second || !seenObj.insert(e).second) bad = "struct|duplicate_index_entry\nnode " + std::string(p()) + " lists " + nm + " twice";
         else if (n.GetChild(e->GetNodeName(), c).IsError()) bad = "struct|index_entry_is_not_a_child\nnode " + std::string(p()) + " lists " + nm + " which is not among its children";
         else if (c() != e) bad = "struct|index_entry_is_a_stale_node_object\nnode " + std::string(p()) + " lists a node object named " + nm + " that is not the child object of that name";
         else if (e->GetParent() != &n) bad = "struct|index_entry_has_another_parent\nnode " + std::string(p()) + " lists " + nm + " whose parent pointer is another node";
      }
      if (!bad.empty()) badNodes[p()] = bad + "; index " + Join(t.index) + " children " + Join(Names(t.kids.begin(), t.kids.end()));
   }
   for (DataNodeRefIterator it = n.GetChildIterator(); it.HasData(); it++) if (it.GetValue()()) WalkTruth(*it.GetValue()(), out, badNodes);
}
static const Names & IndexOf(const Truth & t, const std::string & path) { static const Names none; Truth::const_iterator it = t.find(path); return it == t.end() ? none : it->second.index; }

// ---- the replaying client ------------------------------------------------------------------------------------------------------
// one index-update string applied to one list; returns "" or the kind of misfit (the list is left as a tolerant client would leave it)
static const char * ApplyOp(Names & L, const char * s, char * opOut)
{
   const char op = s[0]; *opOut = op;
   if (op == INDEX_OP_CLEARED) { L.clear(); return ""; }
   if (op != INDEX_OP_ENTRYINSERTED && op != INDEX_OP_ENTRYREMOVED) return "malformed_op";
   const char * colon = strchr(s, ':'); if (colon == NULL || colon == s + 1) return "malformed_op";
   for (const char * d = s + 1; d < colon; d++) if (*d < '0' || *d > '9') return "malformed_op";
   const unsigned long pos = strtoul(s + 1, NULL, 10); const std::string name = colon + 1;
   if (op == INDEX_OP_ENTRYINSERTED) { if (pos > L.size()) { L.push_back(name); return "insert_beyond_end"; } L.insert(L.begin() + pos, name); return ""; }
   if (pos >= L.size()) return "remove_beyond_end";
   if (L[pos] != name) return "remove_names_another_entry";
   L.erase(L.begin() + pos); return "";
}
static bool g_trace = false;
static bool InQuietZone(const std::string & path) { std::vector<std::string> v = SplitPath(path); return v.size() >= 4 && v[3] == "Q"; }   // "", host, sid, Q, ...

struct Actor {
   Client * c; int id; bool reflect, gone; Names subs; std::map<std::string, Names> lists; size_t cursor;
   std::map<int32, std::string> pendingUnsub; std::map<int32, Names> pendingSub; std::string errKey, errDetail; long settreesSent, settreesBounced; long hcSent, hcAnswered;
   bool cloneFlagHazard, ownPoisoned;   // see KEY_CLONE_FLAG
   int pauseLeft; bool slow;            // pauseLeft > 0: the client does not read for that many more steps (the server-side queue of a slow one builds up)
   int style;                           // 0: every operation; k>0: the only index-creating operation this session ever uses is STYLE_KIND[k] (the others become plain SETDATA)
   Actor() : c(NULL), id(0), reflect(false), gone(false), cursor(0), cloneFlagHazard(false), ownPoisoned(false), pauseLeft(0), slow(false), style(0), settreesSent(0), settreesBounced(0), hcSent(0), hcAnswered(0) {}
   bool Tracked(const std::string & path) const
   {
      const long slashes = (long)std::count(path.begin(), path.end(), '/');   // cheap rejection by depth first (paths can be 100 levels deep)
      for (size_t i = 0; i < subs.size(); i++) { const std::string c = CanonSub(subs[i]); if ((long)std::count(c.begin(), c.end(), '/') + 1 == slashes && RefPathMatch(subs[i], path)) return true; }
      return false;
   }
   bool Own(const std::string & path) const { return Under(path, c->root); }
   void ForgetUntracked() { for (std::map<std::string, Names>::iterator it = lists.begin(); it != lists.end(); ) { if (Tracked(it->first)) ++it; else lists.erase(it++); } }
};

struct Hist {
   Bench * b; Client * obs; std::vector<Actor *> actors; std::vector<std::string> log; Names seen; std::vector<MessageRef> vault;
   std::set<std::string> tainted;   // nodes whose index holds duplicates because of the clone-onto-indexed-destination defect (reported under its own key): structure not judged there
   bool bad, selfTest, reportedCloneDup, reportedCloneFlag, styles; int32 tag;
   uint32 childLimit, nodeLimit;   // what the next joining session will attach under (MUSCLE_NO_LIMIT = none)
   long cmpNonEmpty, idxOps, checks; int nextId;
   Hist() : b(NULL), obs(NULL), bad(false), selfTest(false), reportedCloneDup(false), reportedCloneFlag(false), styles(false), tag(0), childLimit(MUSCLE_NO_LIMIT), nodeLimit(MUSCLE_NO_LIMIT), cmpNonEmpty(0), idxOps(0), checks(0), nextId(0) {}
   ~Hist() { for (size_t i = 0; i < actors.size(); i++) delete actors[i]; }
};
// index nodes at the depth limit: a chain d/d/.../d below the session node; g_deep[0] ends at depth MUSCLE_MAX_NODE_DEPTH-1 (its ordered
// children are the deepest nodes there can be), g_deep[1] at MUSCLE_MAX_NODE_DEPTH (every insert under it is refused).  Empty = not a deep history.
static Names g_deep;
static std::string Chain(uint32 n) { std::string p; for (uint32 i = 0; i < n; i++) { if (i) p += "/"; p += "d"; } return p; }
static std::string Shorten(std::string s) { if (g_deep.empty()) return s; for (int i = 1; i >= 0; i--) { size_t k; while ((k = s.find(g_deep[i])) != std::string::npos) s.replace(k, g_deep[i].size(), i ? "<d*98>" : "<d*97>"); } return s; }
static void SetLimits(Hist & h, uint32 childLimit, uint32 nodeLimit)
{
   Message & cs = h.b->server.GetCentralState(); h.childLimit = childLimit; h.nodeLimit = nodeLimit;
   (void)cs.RemoveName(PR_NAME_MAX_CHILDREN_PER_NODE); (void)cs.RemoveName(PR_NAME_MAX_NODES_PER_SESSION);
   if (childLimit != MUSCLE_NO_LIMIT && cs.AddInt32(PR_NAME_MAX_CHILDREN_PER_NODE, (int32)childLimit).IsError()) Abort("cannot set the child limit");
   if (nodeLimit != MUSCLE_NO_LIMIT && cs.AddInt32(PR_NAME_MAX_NODES_PER_SESSION, (int32)nodeLimit).IsError()) Abort("cannot set the node limit");
}
static void Fail(Hist & h, const std::string & key, const std::string & detail)
{
   if (h.bad) return;
   h.bad = true; if (h.selfTest) return;   // the oracle self-test only wants to know that it fired
   std::string d = detail + " | history (" + vh::fmt("%zu", h.log.size()) + " steps, last 70): ";
   for (size_t i = (h.log.size() > 70 ? h.log.size() - 70 : 0); i < h.log.size(); i++) { d += h.log[i]; d += " ; "; }
   vh::viol(key, Shorten(d));
}
static void FailNL(Hist & h, const std::string & keyNlDetail) { size_t k = keyNlDetail.find('\n'); Fail(h, keyNlDetail.substr(0, k), k == std::string::npos ? "" : keyNlDetail.substr(k + 1)); }

// Second finding (the F15 pattern on the third index-creating path): CloneDataNodeSubtree() writes the clone's index with
// InsertIndexEntryAt() and does not set _indexingPresent.  A session whose ONLY index-creating action so far was such a clone, and
// which has not set reflect-to-self, gets no snapshot for its own index nodes (GetDataCallback skips its whole subtree) but does
// get their later updates.  The state "flag unset although the session's subtree holds an index" is read in process right after
// every clone (Actor::cloneFlagHazard); a replay failure at an own node of such a session is reported under KEY_CLONE_FLAG (once per
// case), that session's own nodes are no longer compared, and the case goes on.  Without the hazard mark the generic keys apply.
static void ReportCloneFlag(Hist & h, Actor & a, const std::string & detail)
{
   a.ownPoisoned = true; vh::stat("known_defect_clone_flag_symptoms");
   if (h.reportedCloneFlag || h.selfTest) return;
   h.reportedCloneFlag = true; std::string d = detail + " | last steps: ";
   for (size_t i = (h.log.size() > 25 ? h.log.size() - 25 : 0); i < h.log.size(); i++) { d += h.log[i]; d += " ; "; }
   vh::viol(KEY_CLONE_FLAG, d);
}

// in-process walk; structural defects at nodes that are not tainted fail the case
static bool TruthNow(Hist & h, Truth & T, BadNodes * optBad = NULL)
{
   BadNodes bad; T.clear(); WalkTruth(h.b->insp->Root(), T, bad);
   if (optBad) { *optBad = bad; return true; }
   for (BadNodes::const_iterator it = bad.begin(); it != bad.end() && !h.bad; ++it) { if (h.tainted.count(it->first)) vh::stat("known_defect_tainted_nodes_not_judged"); else FailNL(h, it->second); }
   return !h.bad;
}

// consume everything the actor's client received since the last call, in arrival order
static void Process(Hist & h, Actor & a)
{
   std::vector<MessageRef> & got = a.c->got;
   for (; a.cursor < got.size(); a.cursor++) {
      const Message & m = *got[a.cursor]();
      switch (m.what) {
      case PR_RESULT_INDEXUPDATED:
         for (MessageFieldNameIterator it = m.GetFieldNameIterator(B_STRING_TYPE); it.HasData(); it++) {
            const std::string path = it.GetFieldName()();
            if (!a.Tracked(path)) { vh::stat("index_updates_for_unsubscribed_paths_ignored"); continue; }   // reply to a one-shot GETDATA of a node the actor is not subscribed to
            const bool quiet = InQuietZone(path); Names & L = a.lists[path]; const String * s;
            if (g_trace) { std::string all; for (uint32 i = 0; m.FindString(it.GetFieldName(), i, &s).IsOK(); i++) { all += s->Cstr(); all += " "; } fprintf(stderr, "   a%d <- %s : %s\n", a.id, path.c_str(), all.c_str()); }
            for (uint32 i = 0; m.FindString(it.GetFieldName(), i, &s).IsOK(); i++) {
               char op = '?'; const Names before = L; const char * misfit = ApplyOp(L, s->Cstr(), &op);
               vh::stat(op == 'c' ? "idxop_c" : op == 'i' ? "idxop_i" : op == 'r' ? "idxop_r" : "idxop_other"); h.idxOps++;
               if (op == 'c') vh::stat(a.Own(path) ? "snapshots_own_node" : "snapshots_foreign_node");
               if (misfit[0] && quiet) { vh::stat("unspecified_quiet_zone_misfits"); continue; }
               if (misfit[0] && h.tainted.count(path)) { vh::stat("known_defect_tainted_nodes_not_judged"); continue; }
               if (misfit[0] && a.Own(path) && (a.ownPoisoned || a.cloneFlagHazard)) {
                  if (!a.ownPoisoned) ReportCloneFlag(h, a, vh::fmt("session a%d (root %s), whose only index was made by CloneDataNodeSubtree, received '%s' for its own node %s without ever having received a snapshot of it; its replayed list was ", a.id, a.c->root.c_str(), s->Cstr(), path.c_str()) + Join(before));
                  continue;
               }
               if (misfit[0] && a.errKey.empty()) {
                  a.errKey = std::string("replay|") + misfit + (a.Own(path) ? "|own_node" : "|foreign_node");
                  a.errDetail = vh::fmt("session a%d (root %s%s) received '%s' for %s while its replayed list was ", a.id, a.c->root.c_str(), a.reflect ? ", reflect-to-self" : "", s->Cstr(), path.c_str()) + Join(before);
               }
            }
         }
         break;
      case PR_RESULT_DATAITEMS: { const String * s; for (uint32 i = 0; m.FindString(PR_NAME_REMOVED_DATAITEMS, i, &s).IsOK(); i++) vh::stat("removal_notices"); } break;
      case PR_RESULT_PONG: {
         // a subscription counts from the pong of the PING sent just before it: what arrived earlier (e.g. the reply to a one-shot GETDATA) is not its snapshot
         std::map<int32, Names>::iterator ps = a.pendingSub.find(m.GetInt32("xtag"));
         if (ps != a.pendingSub.end()) { a.ForgetUntracked(); a.subs.insert(a.subs.end(), ps->second.begin(), ps->second.end()); a.pendingSub.erase(ps); break; }
         std::map<int32, std::string>::iterator it = a.pendingUnsub.find(m.GetInt32("xtag"));
         if (it != a.pendingUnsub.end()) {
            if (it->second.empty()) a.subs.clear(); else { Names::iterator w = std::find(a.subs.begin(), a.subs.end(), it->second); if (w != a.subs.end()) a.subs.erase(w); }
            a.ForgetUntracked(); a.pendingUnsub.erase(it); vh::stat("unsubscribes_completed");
         }
      } break;
      case PR_RESULT_ERRORUNIMPLEMENTED: a.settreesBounced++; vh::stat("settrees_bounced"); break;
      case PR_RESULT_DATATREES:
         for (MessageFieldNameIterator it = m.GetFieldNameIterator(B_MESSAGE_TYPE); it.HasData(); it++) { MessageRef t; if (m.FindMessage(it.GetFieldName(), t).IsOK()) { vh::stat("trees_saved_by_getdatatrees"); if (h.vault.size() < 12) h.vault.push_back(t); else h.vault[R(12)] = t; } }
         break;
      case HC_RESULT: {
         a.hcAnswered++; const bool ok = m.GetBool("ok"); const uint32 cmd = (uint32)m.GetInt32("cmd");
         vh::stat(std::string(cmd == HC_CLONE ? "clone" : cmd == HC_RESTORE ? "restore" : cmd == HC_SAVE ? "save" : "setnode") + (ok ? "_ok" : "_refused"));
         MessageRef t; if (m.FindMessage("tree", t).IsOK()) { if (h.vault.size() < 12) h.vault.push_back(t); else h.vault[R(12)] = t; }
      } break;
      default: break;
      }
   }
   got.clear(); a.cursor = 0;
}

static const char * OPNAME_OF_STYLE[] = {"", "insert", "setidx", "reorder", "clone", "restore", "setnode"};
static Actor * AddActor(Hist & h, bool reflect)
{
   Bench & b = *h.b; ConstSocketRef x, y;
   if (CreateConnectedSocketPair(x, y, false).IsError()) Abort("CreateConnectedSocketPair failed");
   const bool slow = h.styles && R(10) < 3;   // small socket buffers: when this client stops reading, its server-side gateway queue builds up after a few KB
   if (slow) { (void)SetSocketSendBufferSize(x, 2048); (void)SetSocketReceiveBufferSize(x, 2048); (void)SetSocketSendBufferSize(y, 2048); (void)SetSocketReceiveBufferSize(y, 2048); vh::stat("sessions_with_small_socket_buffers"); }
   Client * c = new Client; c->slow = slow; c->sock = x; c->io = new BudgetDataIO(x); c->ioRef.SetRef(c->io); c->gw.SetDataIO(c->ioRef);
   { IdxSession * is = new IdxSession; is->childLimit = h.childLimit; is->nodeLimit = h.nodeLimit; c->session.SetRef(is); }
   if (b.server.AddNewSession(c->session, y).IsError()) Abort("AddNewSession failed");
   const StorageReflectSession & s = *c->session();
   c->root = s.GetSessionRootPath()(); c->sid = s.GetSessionIDString()(); c->host = s.GetHostName()(); c->id = s.GetSessionID();
   if (c->root.empty() || c->root != "/" + c->host + "/" + c->sid) Abort("unexpected session root path '" + c->root + "'");
   b.clients.push_back(c);
   if (reflect) { MessageRef sp = GetMessageFromPool(PR_COMMAND_SETPARAMETERS); (void)sp()->AddBool(PR_NAME_REFLECT_TO_SELF, true); c->Send(sp); }
   c->Send(GetMessageFromPool(PR_COMMAND_GETPARAMETERS)); b.Settle();
   if (c->params() == NULL || c->root != c->params()->GetString(PR_NAME_SESSION_ROOT)()) Abort("handshake of a new session failed");
   Actor * a = new Actor; a->c = c; a->id = h.nextId++; a->reflect = reflect; a->slow = slow; h.actors.push_back(a);
   if (h.childLimit != MUSCLE_NO_LIMIT) vh::stat("sessions_with_child_limit"); if (h.nodeLimit != MUSCLE_NO_LIMIT) vh::stat("sessions_with_node_limit");
   if (c->params()->GetInt32(PR_NAME_MAX_CHILDREN_PER_NODE) != (int32)h.childLimit || c->params()->GetInt32(PR_NAME_MAX_NODES_PER_SESSION) != (int32)h.nodeLimit) Abort("the session did not attach under the limits the harness set");
   if (h.styles && R(3) == 0) { a->style = 1 + (int)R(6); vh::stat(std::string("sessions_with_only_") + OPNAME_OF_STYLE[a->style]); }
   return a;
}

// ---- the oracle at a quiescent point -------------------------------------------------------------------------------------------
static void CompareTreeView(Hist & h, const Message & tree, const std::string & path, const Truth & T)
{
   if (h.bad) return;
   Truth::const_iterator it = T.find(path); if (it == T.end()) { Fail(h, "treeview|node_not_in_process", "GETDATATREES shows " + path + " which the in-process walk does not have"); return; }
   Names saved; MessageRef ix, kids; const String * s;
   if (tree.FindMessage(PR_NAME_NODEINDEX, ix).IsOK()) for (uint32 i = 0; ix()->FindString(PR_NAME_KEYS, i, &s).IsOK(); i++) saved.push_back(s->Cstr());
   vh::stat("treeview_nodes_compared");
   if (!it->second.kids.empty() && saved != it->second.index) { Fail(h, "treeview|saved_index_differs", "node " + path + ": saved tree has index " + Join(saved) + ", in-process index is " + Join(it->second.index)); return; }
   std::set<std::string> k;
   if (tree.FindMessage(PR_NAME_NODECHILDREN, kids).IsOK()) for (MessageFieldNameIterator f = kids()->GetFieldNameIterator(B_MESSAGE_TYPE); f.HasData(); f++) { k.insert(f.GetFieldName()()); MessageRef sub; if (kids()->FindMessage(f.GetFieldName(), sub).IsOK()) CompareTreeView(h, *sub(), path + "/" + f.GetFieldName()(), T); }
   if (!h.bad && k != it->second.kids) Fail(h, "treeview|saved_children_differ", "node " + path + ": saved tree has children " + Join(Names(k.begin(), k.end())) + ", in process " + Join(Names(it->second.kids.begin(), it->second.kids.end())));
}

static bool Check(Hist & h, Truth * optOut = NULL, bool light = false)
{
   Bench & b = *h.b; b.Settle();
   if (g_trace) { static size_t shown = 0; if (shown > h.log.size()) shown = 0; for (; shown < h.log.size(); shown++) fprintf(stderr, "%s\n", h.log[shown].c_str()); }
   for (size_t i = 0; i < h.actors.size(); i++) if (!h.actors[i]->gone && h.actors[i]->pauseLeft == 0) Process(h, *h.actors[i]);
   for (size_t i = 0; i < h.actors.size() && !h.bad; i++) if (!h.actors[i]->errKey.empty()) Fail(h, h.actors[i]->errKey, h.actors[i]->errDetail);
   if (h.bad) return false;
   Truth T; if (!TruthNow(h, T)) return false;
   if (optOut) *optOut = T;
   h.checks++; vh::stat(light ? "quiescent_points_light" : "quiescent_points");
   // names a later command may refer to: read from the snapshot, never assumed
   uint32 maxDepth = 1;
   {
      std::set<std::string> u;
      for (Truth::const_iterator it = T.begin(); it != T.end(); ++it) {
         if (it->second.depth >= 3) u.insert(it->second.kids.begin(), it->second.kids.end());
         if (it->second.depth > maxDepth) maxDepth = it->second.depth;
         vh::statmax("max_index_length", (long)it->second.index.size()); if (it->second.hasIndex) vh::stat("struct_index_nodes_checked");
      }
      h.seen.assign(u.begin(), u.end()); vh::statmax("max_node_depth", maxDepth); vh::statmax("max_nodes", (long)T.size());
   }
   if (!light) {
      // observer (public commands only) against the in-process walk
      const long errBefore = h.obs->idxReplayErrors; b.ObserverView(h.obs, (int)maxDepth + 1);
      if (!h.obs->alive) Abort("the observer lost its connection");
      if (h.obs->idxReplayErrors != errBefore) { Fail(h, "observer|snapshot_not_replayable", "the index part of the observer's GETDATA reply is not a clear followed by inserts at 0,1,2,..."); return false; }
      for (Truth::const_iterator it = T.begin(); it != T.end(); ++it) {
         if (it->first == "/") continue;
         vh::stat("observer_nodes_compared");
         if (!h.obs->mirror.count(it->first)) { Fail(h, "observer|node_missing_in_getdata", "node " + it->first + " exists in process but the observer's GETDATA did not return it"); return false; }
         std::map<std::string, Names>::const_iterator oi = h.obs->idx.find(it->first); const Names & ov = (oi == h.obs->idx.end()) ? IndexOf(T, "") : oi->second;
         if (ov != it->second.index) { Fail(h, "observer|snapshot_differs_from_inprocess_index", "node " + it->first + ": GETDATA snapshot " + Join(ov) + ", in-process index " + Join(it->second.index)); return false; }
      }
      if (h.obs->mirror.size() != T.size() - 1) { Fail(h, "observer|extra_node_in_getdata", vh::fmt("observer sees %zu nodes, in process %zu", h.obs->mirror.size(), T.size() - 1)); return false; }
      if (R(4) == 0) {
         h.obs->got.clear(); MessageRef gt = GetMessageFromPool(PR_COMMAND_GETDATATREES); (void)gt()->AddString(PR_NAME_KEYS, "/*/*/*"); (void)gt()->AddString(PR_NAME_TREE_REQUEST_ID, "obs"); h.obs->Send(gt); b.Settle();
         bool any = false;
         for (size_t i = 0; i < h.obs->got.size() && !h.bad; i++) if (h.obs->got[i]()->what == PR_RESULT_DATATREES) { any = true; const Message & m = *h.obs->got[i](); for (MessageFieldNameIterator f = m.GetFieldNameIterator(B_MESSAGE_TYPE); f.HasData(); f++) { MessageRef t; if (m.FindMessage(f.GetFieldName(), t).IsOK()) CompareTreeView(h, *t(), f.GetFieldName()(), T); } }
         if (!any) Abort("no PR_RESULT_DATATREES reply for the observer");
         vh::stat("treeviews");
         if (h.bad) return false;
      }
      h.obs->got.clear();
   }
   // every live session's replay against the truth
   for (size_t i = 0; i < h.actors.size(); i++) {
      Actor & a = *h.actors[i]; if (a.gone) continue;
      if (!a.c->alive) Abort("a live session's client lost its connection");
      if (a.pauseLeft > 0) { vh::stat("audits_skipped_reader_paused"); vh::statmax("max_server_side_queue_of_paused_reader", (long)Bench::ServerSideQueueLength(*a.c->session())); continue; }   // audited after it has drained
      if (a.settreesSent != a.settreesBounced) { Fail(h, "settrees|not_bounced", vh::fmt("session a%d sent %ld PR_COMMAND_SETDATATREES, got %ld PR_RESULT_ERRORUNIMPLEMENTED", a.id, a.settreesSent, a.settreesBounced)); return false; }
      if (a.hcSent != a.hcAnswered) Abort("a harness subtree command got no reply");
      if (a.subs.empty()) continue;
      for (Truth::const_iterator it = T.begin(); it != T.end(); ++it) {
         if (it->first == "/" || !a.Tracked(it->first)) continue;
         if (InQuietZone(it->first)) { vh::stat("unspecified_quiet_zone_nodes_not_compared"); continue; }
         if (h.tainted.count(it->first)) { vh::stat("known_defect_tainted_nodes_not_judged"); continue; }
         std::map<std::string, Names>::const_iterator li = a.lists.find(it->first); const Names & lv = (li == a.lists.end()) ? IndexOf(T, "") : li->second;
         const bool own = a.Own(it->first);
         vh::stat("comparisons"); vh::stat(own ? "comparisons_own_node" : "comparisons_foreign_node"); vh::stat("entries_compared", (long)it->second.index.size());
         if (!it->second.index.empty()) { vh::stat(own ? "comparisons_nonempty_own_node" : "comparisons_nonempty_foreign_node"); h.cmpNonEmpty++; }
         if (own && a.ownPoisoned) { vh::stat("known_defect_poisoned_own_nodes_not_compared"); continue; }
         if (lv != it->second.index && own && a.cloneFlagHazard) { ReportCloneFlag(h, a, vh::fmt("session a%d (root %s), whose only index was made by CloneDataNodeSubtree, subscribed to its own node ", a.id, a.c->root.c_str()) + it->first + ": replayed " + Join(lv) + ", true index " + Join(it->second.index)); continue; }
         if (lv != it->second.index) {
            Fail(h, std::string("replay|list_differs_from_index|") + (own ? "own_node" : "foreign_node"), vh::fmt("session a%d (root %s%s, subscriptions ", a.id, a.c->root.c_str(), a.reflect ? ", reflect-to-self" : "") + Join(a.subs) + ") node " + it->first + ": replayed " + Join(lv) + ", true index " + Join(it->second.index));
            return false;
         }
      }
      for (std::map<std::string, Names>::const_iterator li = a.lists.begin(); li != a.lists.end(); ++li) if (!li->second.empty() && !T.count(li->first) && !InQuietZone(li->first) && !h.tainted.count(li->first) && a.Tracked(li->first)) {
         Fail(h, "replay|entries_left_for_a_removed_node", vh::fmt("session a%d: node ", a.id) + li->first + " no longer exists but the replayed list still holds " + Join(li->second)); return false;
      }
   }
   return !h.bad;
}

// ---- command builders ----------------------------------------------------------------------------------------------------------
static const char * EXPL[] = {"k1", "k2", "k3", "zz"};
static std::string PickIdx(bool allowQ = true) { if (!g_deep.empty() && R(10) < 4) return g_deep[R(3) == 0]; const uint32 r = R(allowQ ? 12 : 10); return r < 5 ? "L" : r < 8 ? "M" : r < 10 ? "C" : "Q"; }
static std::string PickName(Hist & h) { if (h.seen.empty() || R(2) == 0) return EXPL[R(4)]; return h.seen[R((uint32)h.seen.size())]; }
static const char * SUBPOOL[] = {"*", "L", "M", "C", "(L|M)", "L/*", "*/*", "/*/*", "Q", "C/*"};
static const uint32 NSUBPOOL = sizeof(SUBPOOL) / sizeof(SUBPOOL[0]);
static std::string PickSub() { if (!g_deep.empty() && R(10) < 4) { const uint32 r = R(4); return r == 0 ? g_deep[1] : r == 1 ? g_deep[0] + "/*" : g_deep[0]; } return SUBPOOL[R(NSUBPOOL)]; }

static MessageRef CmdSet(const std::string & path, bool addToIndex, bool quiet, int32 v, bool supercede = false)
{
   MessageRef m = GetMessageFromPool(PR_COMMAND_SETDATA); SetDataNodeFlags f; if (addToIndex) f.SetBit(SETDATANODE_FLAG_ADDTOINDEX); if (quiet) f.SetBit(SETDATANODE_FLAG_QUIET); if (supercede) f.SetBit(SETDATANODE_FLAG_ENABLESUPERCEDE);
   if (addToIndex || quiet || supercede) (void)m()->AddFlat(PR_NAME_FLAGS, f);
   (void)m()->AddMessage(path.c_str(), Pay(v)); return m;
}
static MessageRef CmdInsert(const Names & keys, const Names & befores)
{
   MessageRef m = GetMessageFromPool(PR_COMMAND_INSERTORDEREDDATA);
   for (size_t i = 0; i < keys.size(); i++) (void)m()->AddString(PR_NAME_KEYS, keys[i].c_str());
   for (size_t i = 0; i < befores.size(); i++) (void)m()->AddMessage(befores[i].c_str(), Pay(2000 + (int32)i));
   return m;
}
static MessageRef CmdReorder(const std::string & key, const std::string & value) { MessageRef m = GetMessageFromPool(PR_COMMAND_REORDERDATA); (void)m()->AddString(key.c_str(), value.c_str()); return m; }
static MessageRef CmdRemove(const std::string & key, bool quiet) { MessageRef m = GetMessageFromPool(PR_COMMAND_REMOVEDATA); (void)m()->AddString(PR_NAME_KEYS, key.c_str()); if (quiet) (void)m()->AddBool(PR_NAME_REMOVE_QUIETLY, true); return m; }
static MessageRef CmdSubscribe(const Names & pats, bool quietly) { MessageRef m = GetMessageFromPool(PR_COMMAND_SETPARAMETERS); for (size_t i = 0; i < pats.size(); i++) (void)m()->AddBool(("SUBSCRIBE:" + pats[i]).c_str(), true); if (quietly) (void)m()->AddBool(PR_NAME_SUBSCRIBE_QUIETLY, true); return m; }
static MessageRef CmdGetData(const std::string & pat) { MessageRef m = GetMessageFromPool(PR_COMMAND_GETDATA); (void)m()->AddString(PR_NAME_KEYS, pat.c_str()); return m; }
static MessageRef CmdBatch(const std::vector<MessageRef> & v) { MessageRef m = GetMessageFromPool(PR_COMMAND_BATCH); for (size_t i = 0; i < v.size(); i++) (void)m()->AddMessage(PR_NAME_KEYS, v[i]); return m; }
static MessageRef CmdHarness(uint32 what, const std::string & src, const std::string & dst, int32 flags, const std::string & before, const MessageRef & tree = MessageRef(), int32 maxDepth = -1)
{
   MessageRef m = GetMessageFromPool(what); (void)m()->AddString("src", src.c_str()); (void)m()->AddString("dst", dst.c_str()); (void)m()->AddInt32("flags", flags); (void)m()->AddString("before", before.c_str());
   if (tree()) (void)m()->AddMessage(what == HC_SETNODE ? "data" : "tree", tree);
   if (maxDepth >= 0) (void)m()->AddInt32("maxdepth", maxDepth);
   return m;
}
static MessageRef TreeOf(const Names & kids, const Names & index, bool withData = true)
{
   MessageRef t = GetMessageFromPool(); if (withData) (void)t()->AddMessage(PR_NAME_NODEDATA, Pay(3000));
   MessageRef k = GetMessageFromPool(); for (size_t i = 0; i < kids.size(); i++) { MessageRef c = GetMessageFromPool(); (void)c()->AddMessage(PR_NAME_NODEDATA, Pay(3001 + (int32)i)); (void)k()->AddMessage(kids[i].c_str(), c); }
   (void)t()->AddMessage(PR_NAME_NODECHILDREN, k);
   if (!index.empty()) { MessageRef ix = GetMessageFromPool(); for (size_t i = 0; i < index.size(); i++) (void)ix()->AddString(PR_NAME_KEYS, index[i].c_str()); (void)t()->AddMessage(PR_NAME_NODEINDEX, ix); }
   return t;
}
// a tree Message no SaveNodeTreeToMessage would produce: index entries twice, strangers, children twice, parts missing or of the wrong type
static MessageRef HostileTree(Hist & h, int depth, std::string & desc)
{
   MessageRef t = GetMessageFromPool(); desc += "{";
   if (R(12) != 0) (void)t()->AddMessage(PR_NAME_NODEDATA, Pay(4000)); else desc += "nodata ";
   Names kids; const uint32 nk = R(5); MessageRef k = GetMessageFromPool();
   for (uint32 i = 0; i < nk; i++) {
      std::string nm = R(4) == 0 ? vh::fmt("I%u", R(4)) : PickName(h); kids.push_back(nm); desc += nm; std::string sub;
      MessageRef c; if (depth > 0 && R(3) == 0) c = HostileTree(h, depth - 1, sub); else { c = GetMessageFromPool(); if (R(15) != 0) (void)c()->AddMessage(PR_NAME_NODEDATA, Pay(4001 + (int32)i)); else sub = "{nodata}"; }
      desc += sub + " "; (void)k()->AddMessage(nm.c_str(), c);
   }
   if (R(10) != 0) (void)t()->AddMessage(PR_NAME_NODECHILDREN, k); else desc += "nokids ";
   if (R(6) != 0) {
      MessageRef ix = GetMessageFromPool(); desc += "index=";
      if (R(15) == 0) { (void)ix()->AddInt32(PR_NAME_KEYS, 7); desc += "<int32>"; }
      else { const uint32 n = R(8); std::string prev; for (uint32 i = 0; i < n; i++) { const uint32 r = R(10); std::string nm = (r < 6 && !kids.empty()) ? kids[R((uint32)kids.size())] : (r < 8 || prev.empty()) ? std::string(R(2) ? "stranger" : "") + PickName(h) : prev; prev = nm; (void)ix()->AddString(PR_NAME_KEYS, nm.c_str()); desc += nm + ","; } }
      (void)t()->AddMessage(PR_NAME_NODEINDEX, ix);
   }
   desc += "}"; return t;
}

// ---- documented positional semantics (StorageReflectConstants.h), used by the "checked" operations and the regress examples --------
// expected index after INSERTORDEREDDATA of ONE sub-message with field name `before` into a node whose index was B (x = the new name)
static Names ExpectInsert(const Names & B, const std::string & before, const std::string & x) { Names e = B; Names::iterator p = std::find(e.begin(), e.end(), before); e.insert(p, x); return e; }   // find()==end() appends
// expected index after REORDERDATA of child X with value V; returns false when the documentation does not say
static bool ExpectReorder(const Names & B, const std::set<std::string> & kids, const std::string & X, const std::string & V, Names & e)
{
   e = B; if (!kids.count(X)) return true;                         // no such node: the path matches nothing
   if (V == X) return false;                                       // before itself: not specified
   Names::iterator px = std::find(e.begin(), e.end(), X); if (px != e.end()) e.erase(px);
   if (V == PR_NAME_REMOVE_FROM_INDEX) return true;
   Names::iterator pv = std::find(e.begin(), e.end(), V);
   if (pv != e.end()) { e.insert(pv, X); return true; }             // "just before the node specified in the string value"
   if (kids.count(V)) return false;                                // a child, but not an indexed one: not specified
   e.push_back(X); return true;                                    // "not the name of a child ... moved to the end of the index"
}

// A finding of this harness (not in DESIGN.md section 7): CloneDataNodeSubtree() onto a destination that already has an index
// naming a child the source's index names too inserts that child a SECOND time (its index pass calls InsertIndexEntryAt()
// without looking at what the clone's index already holds), so e.g. cloning the same subtree twice to the same place yields
// [I0,I0,I1,I1].  Every clone is therefore bracketed by two in-process walks: the nodes where the defect must strike are computed
// from the tree before the call; a duplicate found exactly there afterwards is reported under KEY_CLONE_DUP (once per case), the
// node path is "tainted" for the rest of the case (a duplicate entry outlives its child, even the node's removal leaves the
// subscribers with an entry no 'r' ever retracts: nothing but the observer-vs-in-process comparison is judged there) and the case goes on.  Duplicates anywhere else remain struct|duplicate_index_entry.
static void PredictCloneDup(const Truth & T, const std::string & src, const std::string & dst, std::set<std::string> & out)
{
   Truth::const_iterator s = T.find(src); if (s == T.end()) return;
   if (s->second.hasIndex) {
      const std::set<std::string> names(s->second.index.begin(), s->second.index.end());
      bool dup = names.size() != s->second.index.size();   // the source is itself a damaged node
      Truth::const_iterator d = T.find(dst); if (d != T.end()) for (size_t i = 0; i < d->second.index.size(); i++) if (names.count(d->second.index[i])) dup = true;
      if (dup) out.insert(dst);
   }
   for (std::set<std::string>::const_iterator k = s->second.kids.begin(); k != s->second.kids.end(); ++k) PredictCloneDup(T, src + "/" + *k, dst + "/" + *k, out);
}

// ---- one history ---------------------------------------------------------------------------------------------------------------
enum OpKind { OP_ENSURE, OP_INSERT, OP_SETIDX, OP_SETPLAIN, OP_REORDER, OP_REMOVE, OP_SUBSCRIBE, OP_UNSUBSCRIBE, OP_GETDATA, OP_JOIN, OP_LEAVE, OP_CLONE, OP_SAVE, OP_RESTORE, OP_SETNODE,
              OP_SETTREES, OP_MAXITEMS, OP_INSERT_CHECKED, OP_REORDER_CHECKED, OP_QUIET, OP_SUPERCEDE, OP_PAUSE, OP_SNAPBATCH, NUM_OPS };
static const char * OPNAME[NUM_OPS] = {"ensure", "insert", "setidx", "setplain", "reorder", "remove", "subscribe", "unsubscribe", "getdata", "join", "leave", "clone", "save", "restore", "setnode",
              "settrees", "maxitems", "insert_checked", "reorder_checked", "quiet", "supercede", "pause", "snapbatch"};
static const uint32 OPWEIGHT[NUM_OPS] = {5, 17, 9, 6, 13, 10, 8, 3, 4, 2, 2, 4, 3, 4, 3, 1, 1, 2, 2, 2, 5, 3, 5};

// Which server path created a session's indexes matters (F15: the per-session flag that enables own-node snapshots is set on each
// index-creating path separately), so a third of the sessions stick to ONE index-creating operation for their whole life.
static const OpKind STYLE_KIND[] = {NUM_OPS, OP_INSERT, OP_SETIDX, OP_REORDER, OP_CLONE, OP_RESTORE, OP_SETNODE};
static bool CreatesIndex(int kind) { return kind == OP_INSERT || kind == OP_SETIDX || kind == OP_REORDER || kind == OP_CLONE || kind == OP_RESTORE || kind == OP_SETNODE || kind == OP_INSERT_CHECKED || kind == OP_REORDER_CHECKED || kind == OP_QUIET; }
static int Restrict(const Actor & a, int kind)
{
   if (a.style == 0 || !CreatesIndex(kind)) return kind;
   const OpKind only = STYLE_KIND[a.style];
   if (kind == only || (kind == OP_INSERT_CHECKED && only == OP_INSERT) || (kind == OP_REORDER_CHECKED && only == OP_REORDER)) return kind;
   return (R(3) == 0) ? (int)only : (int)OP_SETPLAIN;
}
static Actor * PickLive(Hist & h) { std::vector<Actor *> v; for (size_t i = 0; i < h.actors.size(); i++) if (!h.actors[i]->gone) v.push_back(h.actors[i]); return v.empty() ? NULL : v[R((uint32)v.size())]; }
static size_t NumLive(Hist & h) { size_t n = 0; for (size_t i = 0; i < h.actors.size(); i++) if (!h.actors[i]->gone) n++; return n; }

// a data command (insert / set / reorder / remove) of the kind asked for, with its description
static MessageRef DataCommand(Hist & h, OpKind k, std::string & what, const std::string * forceIx = NULL)
{
   const std::string ix = forceIx ? *forceIx : PickIdx();
   switch (k) {
   case OP_ENSURE: { const bool sup = R(3) == 0; what = std::string(sup ? "SETDATA+supercede " : "SETDATA ") + ix; return CmdSet(ix, false, false, (int32)R(100), sup); }
   case OP_INSERT: {
      Names keys, bef; const uint32 r = R(10);
      if (r < 7 || forceIx) keys.push_back(ix); else if (r == 7) keys.push_back("*"); else if (r == 8) keys.push_back(ix + "/*"); else { keys.push_back(ix); keys.push_back(PickIdx()); }
      const uint32 n = 1 + (R(3) == 0) + (R(6) == 0); for (uint32 i = 0; i < n; i++) bef.push_back(R(4) == 0 ? std::string("atEnd") : PickName(h));
      what = "INSERTORDERED keys=" + Join(keys) + " before=" + Join(bef); return CmdInsert(keys, bef);
   }
   case OP_SETIDX: { std::string p = ix + "/" + (R(5) == 0 ? vh::fmt("n%u", R(6)) : PickName(h)); const bool q = R(5) == 0; what = "SETDATA+index" + std::string(q ? "+quietflag " : " ") + p; return CmdSet(p, true, q, (int32)R(100)); }
   case OP_SETPLAIN: { std::string p = ix + "/" + (R(5) == 0 ? vh::fmt("p%u", R(4)) : PickName(h)); if (R(8) == 0) p += "/" + PickName(h); const bool sup = R(4) == 0; what = std::string(sup ? "SETDATA+supercede " : "SETDATA ") + p; return CmdSet(p, false, false, (int32)R(100), sup); }
   case OP_REORDER: {
      const uint32 r = forceIx ? R(16) : R(20); std::string key = r < 12 ? ix + "/" + PickName(h) : r < 16 ? ix + "/*" : r < 18 ? "*/" + PickName(h) : r < 19 ? ix : ix + "/*/*";
      const uint32 v = R(20); std::string val = v < 10 ? PickName(h) : v < 14 ? std::string(PR_NAME_REMOVE_FROM_INDEX) : v < 17 ? std::string("nosuchchild") : v < 19 ? std::string("") : PickIdx();
      what = "REORDER " + key + " before '" + val + "'"; MessageRef m = CmdReorder(key, val);
      if (R(6) == 0) { std::string k2 = PickIdx() + "/" + PickName(h), v2 = PickName(h); if (k2 != key) { (void)m()->AddString(k2.c_str(), v2.c_str()); what += " and " + k2 + " before '" + v2 + "'"; } }
      return m;
   }
   default: {
      const uint32 r = forceIx ? R(14) : R(20); std::string key = r < 11 ? ix + "/" + PickName(h) : r < 14 ? ix + "/*" : r < 18 ? ix : r < 19 ? std::string("*") : ix + "/" + PickName(h) + "/*";
      what = "REMOVE " + key; return CmdRemove(key, false);
   }
   }
}

static void RunHistory(long k, uint64_t seed, long nOps)
{
   g = vh::Rng(seed);
   Bench bench; Hist h; h.b = &bench; h.styles = true; g_deep.clear();
   { Options o; o.reflectToSelf = true; h.obs = bench.AddClient(o); }
   // a quarter of the histories run on a server with small limits (they may change between joins), a few have index nodes at the depth limit
   const uint32 flavour = R(100); const bool limited = flavour < 25, deep = flavour >= 25 && flavour < 28;
   if (limited) { const uint32 m = R(10); SetLimits(h, m < 8 ? 3 + R(4) : MUSCLE_NO_LIMIT, (m >= 6) ? 6 + R(25) : MUSCLE_NO_LIMIT); vh::stat("histories_with_limits"); }
   if (deep) { g_deep.push_back(Chain(MUSCLE_MAX_NODE_DEPTH - 3)); g_deep.push_back(Chain(MUSCLE_MAX_NODE_DEPTH - 2)); vh::stat("histories_with_deep_index_nodes"); }
   const uint32 nInit = 1 + R(3);
   for (uint32 i = 0; i < nInit; i++) { Actor * a = AddActor(h, R(4) == 0); h.log.push_back(vh::fmt("a%d joins%s%s%s", a->id, a->reflect ? " (reflect-to-self)" : "", a->style ? " only-" : "", OPNAME_OF_STYLE[a->style])); if (R(4) != 0) { a->c->Send(CmdSet("L", false, false, 1)); h.log.push_back(vh::fmt("a%d SETDATA L", a->id)); } if (deep && (i == 0 || R(2))) { a->c->Send(CmdSet(g_deep[1], false, false, 1)); h.log.push_back(vh::fmt("a%d SETDATA ", a->id) + g_deep[1]); } }
   uint32 totalW = 0; for (int i = 0; i < NUM_OPS; i++) totalW += OPWEIGHT[i];
   std::set<int> kindsUsed; long spotChecks = 0;

   for (long step = 0; step < nOps && !h.bad; step++) {
      Actor * a = PickLive(h);
      if (a == NULL) { a = AddActor(h, R(4) == 0); h.log.push_back(vh::fmt("a%d joins (nobody was left)", a->id)); vh::stat("sessions_joined"); }
      uint32 r = R(totalW); int kind = 0; while (r >= OPWEIGHT[kind]) { r -= OPWEIGHT[kind]; kind++; }
      kind = Restrict(*a, kind);
      for (size_t i = 0; i < h.actors.size(); i++) if (!h.actors[i]->gone && h.actors[i]->pauseLeft > 0 && --h.actors[i]->pauseLeft == 0) { h.actors[i]->c->readPaused = false; h.log.push_back(vh::fmt("a%d reads again", h.actors[i]->id)); }
      if ((limited || deep) && kind == OP_INSERT && R(4) == 0) kind = OP_INSERT_CHECKED;   // the checked insert is what counts refused INSERTORDEREDDATA
      std::string what; bool counted = true;
      switch (kind) {
      case OP_ENSURE: case OP_INSERT: case OP_SETIDX: case OP_SETPLAIN: case OP_REORDER: case OP_REMOVE: {
         if (R(10) == 0) {   // a BATCH of 2-4 data commands, the first of the drawn kind
            std::vector<MessageRef> v; v.push_back(DataCommand(h, (OpKind)kind, what)); const uint32 more = 1 + R(3);
            static const OpKind dk[] = {OP_INSERT, OP_INSERT, OP_SETIDX, OP_REORDER, OP_REORDER, OP_REMOVE, OP_SETPLAIN, OP_ENSURE};
            for (uint32 i = 0; i < more; i++) { std::string w; v.push_back(DataCommand(h, (OpKind)Restrict(*a, dk[R(8)]), w)); what += " + " + w; }
            what = "BATCH{" + what + "}"; a->c->Send(CmdBatch(v)); vh::stat("batches");
         } else a->c->Send(DataCommand(h, (OpKind)kind, what));
      } break;
      case OP_SUPERCEDE: {
         // index changes of ONE node interleaved with superceding re-uploads of that node's own payload, back to back (one server cycle) or in one BATCH:
         // the index updates are still in the subscribers' outgoing queues when the supercede prunes those queues
         const std::string ix = PickIdx(false); std::vector<MessageRef> v; static const OpKind ik[] = {OP_INSERT, OP_INSERT, OP_SETIDX, OP_REORDER, OP_REORDER, OP_REMOVE};
         if (R(3) == 0) { v.push_back(CmdSet(ix, false, false, (int32)R(100), R(2) == 0)); what = "SETDATA " + ix + " + "; }
         const uint32 n = 1 + R(3);
         for (uint32 i = 0; i < n; i++) {
            std::string w; v.push_back(DataCommand(h, (OpKind)Restrict(*a, ik[R(6)]), w, &ix)); what += w + " + ";
            if (R(10) < 7 || i + 1 == n) { v.push_back(CmdSet(ix, false, false, (int32)R(100), true)); what += "SETDATA+supercede " + ix + " + "; }
            if (R(4) == 0) { const std::string kid = ix + "/" + PickName(h); v.push_back(CmdSet(kid, false, false, (int32)R(100), true)); what += "SETDATA+supercede " + kid + " + "; }
         }
         what.resize(what.size() - 3);
         if (R(2)) { what = "BATCH{" + what + "}"; a->c->Send(CmdBatch(v)); vh::stat("batches"); } else { what = "back to back: " + what; for (size_t i = 0; i < v.size(); i++) a->c->Send(v[i]); }
      } break;
      case OP_SNAPBATCH: {
         // ONE BATCH that changes the index of one of the sender's nodes and asks for a snapshot of it (GETDATA, the same subscription again, a
         // wider subscription), in either order, by a session that may already be subscribed to that node: the snapshot inside the update stream is
         // clear + inserts, and whatever index update of the batch is still pending for the sender must not be applied on top of a snapshot that has it
         const std::string ix = PickIdx(false), own = a->c->root + "/" + ix; std::vector<MessageRef> v; static const OpKind ik[] = {OP_INSERT, OP_INSERT, OP_SETIDX, OP_REORDER, OP_REMOVE};
         Names eff = a->subs; for (std::map<int32, Names>::const_iterator ps = a->pendingSub.begin(); ps != a->pendingSub.end(); ++ps) eff.insert(eff.end(), ps->second.begin(), ps->second.end());
         bool subscribed = false; for (size_t i = 0; i < eff.size(); i++) if (RefPathMatch(eff[i], own)) subscribed = true;
         if (R(4) == 0) { v.push_back(CmdSet(ix, false, false, (int32)R(100))); what = "SETDATA " + ix + " + "; }
         const uint32 n = 1 + R(3); std::string chg; for (uint32 i = 0; i < n; i++) { std::string w; v.push_back(DataCommand(h, (OpKind)Restrict(*a, ik[R(5)]), w, &ix)); chg += w + " + "; }
         // the snapshot request
         MessageRef req; std::string rq; const uint32 r = R(10); const bool shallow = std::count(ix.begin(), ix.end(), '/') == 0;
         if (r < 4) { const std::string p = (R(3) == 0 && shallow) ? std::string("*") : (R(4) == 0) ? own : ix; req = CmdGetData(p); rq = "GETDATA " + p; }
         else {
            std::string p = ix; if (r >= 7 && shallow) p = (R(2) && (ix == "L" || ix == "M")) ? "(L|M)" : "*";
            const bool again = std::find(eff.begin(), eff.end(), p) != eff.end();
            if (!again) { MessageRef pg = GetMessageFromPool(PR_COMMAND_PING); const int32 t = ++h.tag; (void)pg()->AddInt32("xtag", t); a->c->Send(pg); a->pendingSub[t] = Names(1, p); vh::stat("subscriptions_made"); }
            req = CmdSubscribe(Names(1, p), false); rq = std::string(again ? "subscribes AGAIN " : "subscribes ") + p;
         }
         const bool reverse = R(5) == 0;
         if (reverse) { v.insert(v.begin(), req); what = rq + " + " + what + chg; what.resize(what.size() - 3); } else { v.push_back(req); what += chg + rq; }
         what = "BATCH{" + what + "}"; a->c->Send(CmdBatch(v)); vh::stat("batches");
         vh::stat(reverse ? "batches_with_snapshot_request_then_index_change" : subscribed ? "batches_with_index_change_then_snapshot_request_by_subscribed_session" : "batches_with_index_change_then_snapshot_request_by_unsubscribed_session");
      } break;
      case OP_PAUSE: {
         Actor * p = PickLive(h); if (p == NULL || p->pauseLeft > 0 || p->subs.empty()) { counted = false; break; }
         if (R(3) != 0) { p->c->Send(CmdGetData(R(2) ? "*" : "*/*")); }   // a large reply first, so that the socket buffers are full sooner
         p->c->Pump(); p->c->readPaused = true; p->pauseLeft = 3 + (int)R(14); vh::stat(p->slow ? "reader_pauses_small_buffers" : "reader_pauses");
         h.log.push_back(vh::fmt("a%d stops reading for %d steps%s", p->id, p->pauseLeft, p->slow ? " (small socket buffers)" : "")); what.clear();
      } break;
      case OP_QUIET: {   // silent index changes, only at/under Q (excluded from replay comparison)
         const uint32 q = R(3);
         if (q == 0) { std::string key = R(3) == 0 ? "Q/*" : "Q/" + PickName(h); what = "REMOVE quietly " + key; a->c->Send(CmdRemove(key, true)); }
         else if (q == 1) { std::string p = "Q/" + PickName(h); what = "SetDataNode quiet !Rmv " + p; a->c->Send(CmdHarness(HC_SETNODE, "", p, HF_QUIET, PR_NAME_REMOVE_FROM_INDEX, Pay(7))); a->hcSent++; }
         else { Names keys(1, "Q"), bef(1, PickName(h)); what = "INSERTORDERED keys=[Q] before=" + Join(bef); a->c->Send(CmdInsert(keys, bef)); }
      } break;
      case OP_SUBSCRIBE: {
         Names taken = a->subs; for (std::map<int32, Names>::const_iterator ps = a->pendingSub.begin(); ps != a->pendingSub.end(); ++ps) taken.insert(taken.end(), ps->second.begin(), ps->second.end());
         Names pats; for (int tries = 0; tries < 6 && pats.size() < (size_t)(1 + (R(6) == 0)); tries++) { std::string p = PickSub(); if (std::find(taken.begin(), taken.end(), p) == taken.end() && std::find(pats.begin(), pats.end(), p) == pats.end()) pats.push_back(p); }
         if (pats.empty()) { counted = false; break; }
         const bool viaBatch = R(6) == 0;
         { MessageRef pg = GetMessageFromPool(PR_COMMAND_PING); const int32 t = ++h.tag; (void)pg()->AddInt32("xtag", t); a->c->Send(pg); a->pendingSub[t] = pats; }
         if (viaBatch) { std::vector<MessageRef> v; v.push_back(CmdSubscribe(pats, true)); for (size_t i = 0; i < pats.size(); i++) v.push_back(CmdGetData(pats[i])); a->c->Send(CmdBatch(v)); }
         else a->c->Send(CmdSubscribe(pats, false));
         what = std::string(viaBatch ? "BATCH{subscribe quietly, GETDATA} " : "subscribes ") + Join(pats); vh::stat("subscriptions_made");
      } break;
      case OP_UNSUBSCRIBE: {
         if (a->subs.empty()) { counted = false; break; }
         if (a->pauseLeft > 0) { a->pauseLeft = 0; a->c->readPaused = false; h.log.push_back(vh::fmt("a%d reads again", a->id)); }   // it waits for the pong
         const bool all = R(8) == 0; const std::string p = all ? std::string() : a->subs[R((uint32)a->subs.size())];
         MessageRef rm = GetMessageFromPool(PR_COMMAND_REMOVEPARAMETERS);
         if (all) (void)rm()->AddString(PR_NAME_KEYS, "SUBSCRIBE:*"); else (void)rm()->AddString(PR_NAME_KEYS, EscapeRegexTokens(String(("SUBSCRIBE:" + p).c_str())));
         a->c->Send(rm); MessageRef pg = GetMessageFromPool(PR_COMMAND_PING); const int32 t = ++h.tag; (void)pg()->AddInt32("xtag", t); a->c->Send(pg); a->pendingUnsub[t] = p;
         what = all ? std::string("unsubscribes everything (wildcard)") : "unsubscribes " + p;
         h.log.push_back(vh::fmt("a%d ", a->id) + what); what.clear();
         bench.Settle(); Process(h, *a);
         if (!a->pendingUnsub.empty()) Abort("no PONG behind REMOVEPARAMETERS");
      } break;
      case OP_GETDATA: { const std::string p = PickSub(); what = "GETDATA " + p; a->c->Send(CmdGetData(p)); } break;
      case OP_JOIN: { if (NumLive(h) >= 5) { counted = false; break; }
         if (limited && R(3) == 0) { const uint32 m = R(10); SetLimits(h, m < 8 ? 3 + R(4) : MUSCLE_NO_LIMIT, (m >= 6) ? 6 + R(25) : MUSCLE_NO_LIMIT); }
         Actor * n = AddActor(h, R(4) == 0); what.clear(); h.log.push_back(vh::fmt("a%d joins%s%s%s", n->id, n->reflect ? " (reflect-to-self)" : "", n->style ? " only-" : "", OPNAME_OF_STYLE[n->style])); vh::stat("sessions_joined"); } break;
      case OP_LEAVE: { if (NumLive(h) <= 1 && R(3) != 0) { counted = false; break; } Process(h, *a); a->c->Cut(); a->gone = true; h.log.push_back(vh::fmt("a%d leaves", a->id)); vh::stat("sessions_left"); if (!a->subs.empty()) vh::stat("subscribers_left"); } break;
      case OP_CLONE: case OP_SAVE: {
         // source: an L or M node (or one child of it), own (relative) or of another session (absolute)
         std::string srcRoot = R(3) == 0 ? "M" : "L", src = srcRoot; if (R(4) == 0) src += "/" + PickName(h);
         bool foreign = false; if (R(2) == 0) { Actor * o = PickLive(h); if (o && o != a) { src = o->c->root + "/" + src; foreign = true; } }
         if (kind == OP_SAVE) {
            if (R(2) == 0) { MessageRef gt = GetMessageFromPool(PR_COMMAND_GETDATATREES); const char * pats[] = {"L", "M", "(L|M)", "L/*"}; const std::string p = pats[R(4)]; (void)gt()->AddString(PR_NAME_KEYS, p.c_str()); (void)gt()->AddString(PR_NAME_TREE_REQUEST_ID, "t"); if (R(4) == 0) (void)gt()->AddInt32(PR_NAME_MAXDEPTH, (int32)R(3)); a->c->Send(gt); what = "GETDATATREES " + p; }
            else { const int32 md = R(4) == 0 ? (int32)R(3) : -1; a->c->Send(CmdHarness(HC_SAVE, src, "", 0, "", MessageRef(), md)); a->hcSent++; what = "SaveNodeTreeToMessage " + src + vh::fmt(" maxdepth=%d", md); }
            break;
         }
         const uint32 d = R(20); std::string dst;
         if (d < 5) dst = "C"; else if (d < 14) dst = "C/" + PickName(h); else if (d < 16) dst = "T/" + PickName(h); else if (d < 18) dst = (!foreign && srcRoot == "L") ? "M" : "L"; else dst = "Q/" + PickName(h);
         const int32 fl = R(3) == 0 ? HF_ADDTOINDEX : 0; const std::string bef = R(2) ? PickName(h) : std::string();
         Truth t1, t2; if (!Check(h, &t1, true)) break;
         const std::string srcAbs = foreign ? src : a->c->root + "/" + src, dstAbs = a->c->root + "/" + dst; std::set<std::string> predicted; PredictCloneDup(t1, srcAbs, dstAbs, predicted);
         a->c->Send(CmdHarness(HC_CLONE, src, dst, fl, bef)); a->hcSent++;
         h.log.push_back(vh::fmt("a%d CloneDataNodeSubtree ", a->id) + src + " -> " + dst + (fl ? " addtoindex before '" + bef + "'" : ""));
         bench.Settle(); BadNodes bad; TruthNow(h, t2, &bad);
         if (!a->reflect && !a->cloneFlagHazard && !idxpriv::IndexingPresent(idxpriv::FlagTag(), *a->c->session())) {
            bool hadIndex = false, hasIndex = false;   // the hazard is the clone's doing only if the session's subtree held no index before it
            for (Truth::const_iterator it = t1.begin(); it != t1.end(); ++it) if (it->second.hasIndex && Under(it->first, a->c->root)) hadIndex = true;
            for (Truth::const_iterator it = t2.begin(); it != t2.end(); ++it) if (!it->second.index.empty() && Under(it->first, a->c->root)) hasIndex = true;
            if (hasIndex && !hadIndex) { a->cloneFlagHazard = true; vh::stat("known_defect_clone_flag_hazard_states"); }
         }
         if (t1.count(dstAbs)) vh::stat("clones_onto_existing_destination"); if (t1.count(srcAbs) && t1[srcAbs].hasIndex) vh::stat("clones_of_indexed_source");
         for (BadNodes::const_iterator it = bad.begin(); it != bad.end(); ++it) if (predicted.count(it->first) && !h.tainted.count(it->first) && it->second.compare(0, 29, "struct|duplicate_index_entry\n") == 0) {
            h.tainted.insert(it->first); vh::stat("known_defect_clone_duplicates");
            if (!h.reportedCloneDup) {
               h.reportedCloneDup = true; std::string dd = "CloneDataNodeSubtree " + srcAbs + " -> " + dstAbs + ": " + it->second.substr(29) + "; before the call the destination node's index was " + Join(IndexOf(t1, it->first)) + " | last steps: ";
               for (size_t i = (h.log.size() > 25 ? h.log.size() - 25 : 0); i < h.log.size(); i++) { dd += h.log[i]; dd += " ; "; }
               vh::viol(KEY_CLONE_DUP, dd);
            }
         }
      } break;
      case OP_RESTORE: {
         const uint32 d = R(20); std::string dst; if (d < 4) dst = "C"; else if (d < 11) dst = "C/" + PickName(h); else if (d < 14) dst = "T/" + PickName(h); else if (d < 16) dst = "T"; else if (d < 19) dst = R(2) ? "L" : "M"; else dst = "Q";
         MessageRef tree; std::string desc;
         if (!h.vault.empty() && R(2) == 0) { tree = h.vault[R((uint32)h.vault.size())]; desc = "a saved tree"; vh::stat("restores_of_saved_trees"); }
         else { tree = HostileTree(h, 2, desc); desc = "hostile tree " + desc; vh::stat("restores_of_hostile_trees"); }
         const int32 fl = R(4) == 0 ? HF_ADDTOINDEX : 0; const int32 md = R(6) == 0 ? (int32)R(3) : -1;
         a->c->Send(CmdHarness(HC_RESTORE, "", dst, fl, "", tree, md)); a->hcSent++;
         what = "RestoreNodeTreeFromMessage " + desc + " -> " + dst + vh::fmt(" flags=%d maxdepth=%d", fl, md);
      } break;
      case OP_SETNODE: {
         const std::string p = PickIdx(false) + "/" + (R(3) == 0 ? vh::fmt("e%u", R(6)) : PickName(h)); const uint32 v = R(10);
         const std::string bef = v < 6 ? PickName(h) : v < 8 ? std::string() : std::string(PR_NAME_REMOVE_FROM_INDEX); const int32 fl = (bef == PR_NAME_REMOVE_FROM_INDEX && R(2)) ? 0 : HF_ADDTOINDEX;
         a->c->Send(CmdHarness(HC_SETNODE, "", p, fl, bef, Pay(8))); a->hcSent++;
         what = "SetDataNode " + p + (fl ? " addtoindex" : "") + " before '" + bef + "'";
      } break;
      case OP_SETTREES: {
         // must be bounced as unimplemented and change nothing
         Truth t1, t2; if (!Check(h, &t1, true)) break;
         MessageRef st = GetMessageFromPool(PR_COMMAND_SETDATATREES); Names kids; kids.push_back("k1"); kids.push_back("k2"); (void)st()->AddMessage(R(2) ? "L" : "S", TreeOf(kids, kids)); a->c->Send(st); a->settreesSent++;
         h.log.push_back(vh::fmt("a%d SETDATATREES", a->id));
         if (!Check(h, &t2, true)) break;
         if (t1.size() != t2.size()) { Fail(h, "settrees|changed_the_tree", "PR_COMMAND_SETDATATREES changed the number of nodes"); break; }
         for (Truth::const_iterator i1 = t1.begin(), i2 = t2.begin(); i1 != t1.end(); ++i1, ++i2) if (i1->first != i2->first || i1->second.index != i2->second.index) { Fail(h, "settrees|changed_the_tree", "PR_COMMAND_SETDATATREES changed node " + i1->first); break; }
      } break;
      case OP_MAXITEMS: { MessageRef sp = GetMessageFromPool(PR_COMMAND_SETPARAMETERS); const int32 n = 1 + (int32)R(4); (void)sp()->AddInt32(PR_NAME_MAX_UPDATE_MESSAGE_ITEMS, n); a->c->Send(sp); what = vh::fmt("sets max update items %d", n); } break;
      case OP_INSERT_CHECKED: {
         Truth t1, t2; if (!Check(h, &t1, true)) break;
         const std::string ix = PickIdx(false), path = a->c->root + "/" + ix; Truth::const_iterator n1 = t1.find(path);
         if (n1 == t1.end()) { a->c->Send(CmdSet(ix, false, false, 1)); what = "SETDATA " + ix + " (for a checked insert)"; break; }
         if (h.tainted.count(path)) { vh::stat("known_defect_tainted_nodes_not_judged"); break; }
         const Names B = n1->second.index; const uint32 r = R(10);
         const std::string bef = (r < 6 && !B.empty()) ? B[R((uint32)B.size())] : (r < 8 && !n1->second.kids.empty()) ? *n1->second.kids.begin() : std::string("nosuchchild");
         const IdxSession * is = static_cast<const IdxSession *>(a->c->session());
         const bool nodeLimitHit = h.b->insp->NodeCountOf(*is) >= is->nodeLimit, refuse = nodeLimitHit || n1->second.depth >= MUSCLE_MAX_NODE_DEPTH || n1->second.kids.size() >= is->childLimit;
         a->c->Send(CmdInsert(Names(1, ix), Names(1, bef))); h.log.push_back(vh::fmt("a%d checked INSERTORDERED %s before '%s'%s", a->id, ix.c_str(), bef.c_str(), refuse ? " (to be refused)" : ""));
         if (!Check(h, &t2, true)) break;
         const TNode & n2 = t2[path]; Names fresh; for (size_t i = 0; i < n2.index.size(); i++) if (!n1->second.kids.count(n2.index[i])) fresh.push_back(n2.index[i]);
         if (refuse) {   // a refused insert leaves no trace
            vh::stat(std::string("ordered_inserts_refused_") + RefusalKind(nodeLimitHit, n1->second.depth)); vh::stat("semantic_checks_refused_insert");
            if (n2.index != B || n2.kids != n1->second.kids) Fail(h, "semantics|refused_insert_left_a_trace", "INSERTORDEREDDATA under " + path + vh::fmt(" (%zu children, depth %u, limits: %u children per node, %u nodes per session of which %u used) had to be refused: index before ", n1->second.kids.size(), n1->second.depth, is->childLimit, is->nodeLimit, h.b->insp->NodeCountOf(*is)) + Join(B) + ", after " + Join(n2.index));
            break;
         }
         spotChecks++; vh::stat("semantic_checks_insert"); if (std::find(B.begin(), B.end(), bef) != B.end()) vh::stat("semantic_checks_insert_before_existing_sibling");
         if (fresh.size() != 1) { Fail(h, "semantics|insert_creates_one_child_per_submessage", "INSERTORDEREDDATA with one sub-message under " + path + ": index before " + Join(B) + ", after " + Join(n2.index)); break; }
         if (n2.index != ExpectInsert(B, bef, fresh[0])) Fail(h, "semantics|insert_position", "INSERTORDEREDDATA under " + path + " with field name '" + bef + "': index before " + Join(B) + ", after " + Join(n2.index) + ", documented " + Join(ExpectInsert(B, bef, fresh[0])));
      } break;
      case OP_REORDER_CHECKED: {
         Truth t1, t2; if (!Check(h, &t1, true)) break;
         const std::string ix = PickIdx(false), path = a->c->root + "/" + ix; Truth::const_iterator n1 = t1.find(path);
         if (n1 == t1.end() || n1->second.kids.empty()) { a->c->Send(CmdSet(ix + "/" + PickName(h), R(2) == 0 && a->style == 0, false, 1)); what = "SETDATA under " + ix + " (for a checked reorder)"; break; }
         if (h.tainted.count(path)) { vh::stat("known_defect_tainted_nodes_not_judged"); break; }
         const Names B = n1->second.index; Names kv(n1->second.kids.begin(), n1->second.kids.end());
         const std::string X = kv[R((uint32)kv.size())]; const uint32 r = R(10);
         const std::string V = (r < 5 && !B.empty()) ? B[R((uint32)B.size())] : r < 7 ? std::string(PR_NAME_REMOVE_FROM_INDEX) : r < 9 ? std::string("nosuchchild") : kv[R((uint32)kv.size())];
         a->c->Send(CmdReorder(ix + "/" + X, V)); h.log.push_back(vh::fmt("a%d checked REORDER %s/%s before '%s'", a->id, ix.c_str(), X.c_str(), V.c_str()));
         if (!Check(h, &t2, true)) break;
         Names e; if (!ExpectReorder(B, n1->second.kids, X, V, e)) { vh::stat("unspecified_reorder_target_not_documented"); break; }
         spotChecks++; vh::stat("semantic_checks_reorder");
         if (t2[path].index != e) Fail(h, "semantics|reorder_position", "REORDERDATA " + path + "/" + X + " with value '" + V + "': index before " + Join(B) + ", after " + Join(t2[path].index) + ", documented " + Join(e));
      } break;
      }
      if (counted) { vh::stat(std::string("op_") + OPNAME[kind]); kindsUsed.insert(kind); }
      if (!what.empty()) h.log.push_back(vh::fmt("a%d ", a->id) + what);
      if (!h.bad && R(3) == 0) { h.log.push_back("--check--"); Check(h); }
   }
   for (size_t i = 0; i < h.actors.size(); i++) if (!h.actors[i]->gone && h.actors[i]->pauseLeft > 0) { h.actors[i]->pauseLeft = 0; h.actors[i]->c->readPaused = false; }   // everything drains before the last audit
   if (!h.bad) { h.log.push_back("--final check--"); Check(h); }
   vh::statmax("max_op_kinds_in_one_history", (long)kindsUsed.size());
   const bool nontrivial = h.cmpNonEmpty >= 1 && h.idxOps >= 10;
   vh::distinct(seed, nontrivial);
   if (nontrivial) vh::stat("histories_nontrivial");
   if (vh::want_sample() && nontrivial) { std::string s = vh::fmt("case %ld: ", k); for (size_t i = 0; i < h.log.size() && i < 40; i++) { s += h.log[i]; s += " ; "; } vh::sample(Shorten(s)); }
   h.vault.clear(); g_deep.clear();
}

// ---- regress -------------------------------------------------------------------------------------------------------------------
static Names TrueIndex(Hist & h, const std::string & path, std::set<std::string> * kids = NULL) { Truth T; TruthNow(h, T); if (kids) *kids = T[path].kids; return T[path].index; }
#define EXPECT(h, cond, key, detail) do { if (!(cond)) Fail(h, key, detail); } while (0)

static void RegressF15()
{
   Bench bench; Hist h; h.b = &bench; { Options o; o.reflectToSelf = true; h.obs = bench.AddClient(o); }
   Actor * a = AddActor(h, false); const std::string L = a->c->root + "/L";
   a->c->Send(CmdSet("L/a", false, false, 1)); a->c->Send(CmdSet("L/b", false, false, 2)); a->c->Send(CmdSet("L/c", false, false, 3));
   a->c->Send(CmdReorder("L/a", "nosuchchild")); a->c->Send(CmdReorder("L/b", "a")); h.log.push_back("SETDATA L/a L/b L/c; REORDER L/a to end; REORDER L/b before a");
   bench.Settle();
   a->c->Send(CmdSubscribe(Names(1, "L"), false)); a->subs.push_back("L"); h.log.push_back("subscribes to its own L");
   bench.Settle(); Process(h, *a);
   Names want; want.push_back("b"); want.push_back("a");
   EXPECT(h, TrueIndex(h, L) == want, "regress|reorder_creates_index", "index of " + L + " is " + Join(TrueIndex(h, L)));
   EXPECT(h, a->lists[L] == want, "regress|F15_no_snapshot_for_own_index_created_by_reorder", "the session subscribed to its own index node and holds " + Join(a->lists[L]) + " instead of the snapshot " + Join(want));
   Check(h);
   a->c->Send(CmdReorder("L/c", "a")); a->c->Send(CmdRemove("L/b", false)); a->c->Send(CmdInsert(Names(1, "L"), Names(1, "a"))); h.log.push_back("REORDER L/c before a; REMOVE L/b; INSERTORDERED L before a");
   Check(h);
   EXPECT(h, a->lists[L].size() == 3 && a->lists[L] == TrueIndex(h, L), "regress|F15_followup", "replayed " + Join(a->lists[L]) + ", true index " + Join(TrueIndex(h, L)));
   vh::stat("regress_F15");
}
static Names GeneratedNames(int variant)
{
   Bench bench; Hist h; h.b = &bench; { Options o; o.reflectToSelf = true; h.obs = bench.AddClient(o); }
   Actor * a = AddActor(h, false);
   if (variant) { a->c->Send(CmdSet("X", false, false, 1)); Names bb(7, "atEnd"); a->c->Send(CmdInsert(Names(1, "X"), bb)); a->c->Send(CmdRemove("X", false)); bench.Settle(); }   // use up and recycle node objects first
   a->c->Send(CmdSet("L", false, false, 1)); Names b3(3, "atEnd"); a->c->Send(CmdInsert(Names(1, "L"), b3));
   Check(h); return TrueIndex(h, a->c->root + "/L");
}
static void RegressGeneratedNames()
{
   Hist h; Names n1 = GeneratedNames(0), n2 = GeneratedNames(1), n3 = GeneratedNames(0);
   EXPECT(h, n1.size() == 3 && n1 == n2 && n1 == n3, "regress|F32_generated_names_depend_on_recycled_node_objects", "the same three inserts into a fresh node gave " + Join(n1) + " / " + Join(n2) + " / " + Join(n3));
   vh::stat("regress_F32");
}
static void RegressStructure()
{
   Bench bench; Hist h; h.b = &bench; { Options o; o.reflectToSelf = true; h.obs = bench.AddClient(o); }
   Actor * a = AddActor(h, false); Actor * w = AddActor(h, false); const std::string root = a->c->root;
   w->c->Send(CmdSubscribe(Names(1, "*"), false)); w->subs.push_back("*");
   // 1) the same child added to the index three times
   for (int i = 0; i < 3; i++) { a->c->Send(CmdSet("A/x", true, false, i)); bench.Settle(); }
   h.log.push_back("SETDATA+index A/x three times"); Check(h);
   EXPECT(h, TrueIndex(h, root + "/A") == Names(1, "x"), "regress|repeated_add_to_index", "index of A is " + Join(TrueIndex(h, root + "/A")));
   // 2) a hostile tree: children {k1,k2}, index [k1,k1,zz,k2,k1]
   Names kids; kids.push_back("k1"); kids.push_back("k2"); const char * hx[] = {"k1", "k1", "zz", "k2", "k1"}; Names hostile(hx, hx + 5);
   a->c->Send(CmdHarness(HC_RESTORE, "", "t", 0, "", TreeOf(kids, hostile))); a->hcSent++; h.log.push_back("RestoreNodeTreeFromMessage children {k1,k2} index [k1,k1,zz,k2,k1] -> t"); Check(h);
   EXPECT(h, TrueIndex(h, root + "/t") == kids, "regress|hostile_tree_index", "index of t is " + Join(TrueIndex(h, root + "/t")) + ", expected [k1,k2]");
   // 3) save -> restore under another name reproduces the index; a clone too
   a->c->Send(CmdReorder("t/k2", "k1")); a->c->Send(CmdInsert(Names(1, "t"), Names(1, "k1"))); a->c->Send(CmdSet("t/plain", false, false, 5)); Check(h);
   h.vault.clear(); a->c->Send(CmdHarness(HC_SAVE, "t", "", 0, "")); a->hcSent++; Check(h);
   EXPECT(h, h.vault.size() == 1, "regress|save_tree", "SaveNodeTreeToMessage returned no tree");
   if (!h.bad) { a->c->Send(CmdHarness(HC_RESTORE, "", "t2", 0, "", h.vault[0])); a->hcSent++; a->c->Send(CmdHarness(HC_CLONE, "t", "t3", 0, "")); a->hcSent++; h.log.push_back("save t; restore -> t2; clone t -> t3"); Check(h); }
   std::set<std::string> k1, k2, k3; const Names i1 = TrueIndex(h, root + "/t", &k1), i2 = TrueIndex(h, root + "/t2", &k2), i3 = TrueIndex(h, root + "/t3", &k3);
   EXPECT(h, i1.size() == 3 && i1 == i2 && k1 == k2, "regress|save_restore_round_trip", "t has index " + Join(i1) + ", restored copy " + Join(i2));
   EXPECT(h, i1 == i3 && k1 == k3, "regress|clone_index", "t has index " + Join(i1) + ", clone " + Join(i3));
   EXPECT(h, w->lists[root + "/t2"] == i2 && w->lists[root + "/t3"] == i3, "regress|subscriber_replay_of_restored_index", "a subscriber replayed " + Join(w->lists[root + "/t2"]) + " / " + Join(w->lists[root + "/t3"]));
   // 4) PR_COMMAND_SETDATATREES is bounced and changes nothing
   Truth t1, t2; Check(h, &t1, true);
   MessageRef st = GetMessageFromPool(PR_COMMAND_SETDATATREES); (void)st()->AddMessage("t", TreeOf(kids, kids)); (void)st()->AddMessage("u", TreeOf(kids, kids)); a->c->Send(st); a->settreesSent++; h.log.push_back("SETDATATREES t,u"); Check(h, &t2, true);
   EXPECT(h, a->settreesBounced == 1, "settrees|not_bounced", "no PR_RESULT_ERRORUNIMPLEMENTED for PR_COMMAND_SETDATATREES");
   EXPECT(h, t1.size() == t2.size() && t2[root + "/t"].index == i1, "settrees|changed_the_tree", "PR_COMMAND_SETDATATREES changed the tree");
   // 5) after the pong behind REMOVEPARAMETERS nothing more arrives for the node (there is no unsubscribe notice: the client forgets by itself)
   MessageRef rm = GetMessageFromPool(PR_COMMAND_REMOVEPARAMETERS); (void)rm()->AddString(PR_NAME_KEYS, EscapeRegexTokens(String("SUBSCRIBE:*"))); w->c->Send(rm);
   MessageRef pg = GetMessageFromPool(PR_COMMAND_PING); (void)pg()->AddInt32("xtag", ++h.tag); w->c->Send(pg); w->pendingUnsub[h.tag] = "*"; h.log.push_back("the subscriber unsubscribes"); Check(h);
   EXPECT(h, w->subs.empty() && w->lists.empty() && w->pendingUnsub.empty(), "regress|unsubscribe", "the subscriber still tracks " + Join(w->subs));
   a->c->Send(CmdInsert(Names(1, "t"), Names(1, "atEnd"))); bench.Settle();
   EXPECT(h, w->c->CountWhat(PR_RESULT_INDEXUPDATED) == 0, "regress|index_update_after_unsubscribe", "an index update arrived after the pong behind REMOVEPARAMETERS");
   Check(h);
   vh::stat("regress_structure");
}
static void RegressDocExamples()
{
   Bench bench; Hist h; h.b = &bench; { Options o; o.reflectToSelf = true; h.obs = bench.AddClient(o); }
   Actor * a = AddActor(h, false); const std::string L = a->c->root + "/L";
   a->c->Send(CmdSubscribe(Names(1, "L"), false)); a->subs.push_back("L");
   a->c->Send(CmdSet("L", false, false, 1)); Names two(2, "whatever"); a->c->Send(CmdInsert(Names(1, "L"), two)); h.log.push_back("INSERTORDERED L two sub-messages"); Check(h);
   Names B = TrueIndex(h, L);
   EXPECT(h, B.size() == 2, "semantics|insert_creates_one_child_per_submessage", "two sub-messages gave index " + Join(B));
   if (h.bad) return;
   // "if the field name happens to be the name of a currently indexed child, the new message node will be inserted *before* the specified child"
   a->c->Send(CmdInsert(Names(1, "L"), Names(1, B[1]))); h.log.push_back("INSERTORDERED L before " + B[1]); Check(h);
   Names A = TrueIndex(h, L);
   EXPECT(h, A.size() == 3 && A[0] == B[0] && A[2] == B[1], "semantics|insert_position", "insert before " + B[1] + " into " + Join(B) + " gave " + Join(A));
   if (h.bad) return;
   // "Otherwise, it will be appended to the end of the index."
   a->c->Send(CmdInsert(Names(1, "L"), Names(1, "nosuchchild"))); Check(h);
   Names A2 = TrueIndex(h, L);
   EXPECT(h, A2.size() == 4 && Names(A2.begin(), A2.begin() + 3) == A, "semantics|insert_position", "insert with an unknown field name into " + Join(A) + " gave " + Join(A2));
   if (h.bad) return;
   // REORDERDATA: "reordered in the index to appear just before the node specified in the string value"
   a->c->Send(CmdReorder("L/" + A2[3], A2[1])); Check(h); Names e; std::set<std::string> kids(A2.begin(), A2.end()); ExpectReorder(A2, kids, A2[3], A2[1], e);
   Names A3 = TrueIndex(h, L);
   EXPECT(h, A3 == e && A3[1] == A2[3] && A3[2] == A2[1], "semantics|reorder_position", "reorder " + A2[3] + " before " + A2[1] + " in " + Join(A2) + " gave " + Join(A3));
   // "If the string field's value is not the name of a child of the matching node, then the nodes ... will be moved to the end of the index."
   a->c->Send(CmdReorder("L/" + A3[0], "nosuchchild")); Check(h);
   Names A4 = TrueIndex(h, L);
   EXPECT(h, A4.size() == 4 && A4[3] == A3[0] && A4[0] == A3[1], "semantics|reorder_position", "reorder " + A3[0] + " to the end of " + Join(A3) + " gave " + Join(A4));
   // PR_NAME_REMOVE_FROM_INDEX: "the affected nodes will be removed from their parent's ordered-node-index" (the node itself stays)
   a->c->Send(CmdReorder("L/*", PR_NAME_REMOVE_FROM_INDEX)); Check(h); std::set<std::string> k5;
   Names A5 = TrueIndex(h, L, &k5);
   EXPECT(h, A5.empty() && k5.size() == 4, "semantics|reorder_position", "reorder L/* with !Rmv left index " + Join(A5) + vh::fmt(" and %zu children", k5.size()));
   EXPECT(h, a->lists[L].empty(), "replay|list_differs_from_index|own_node", "after !Rmv of everything the replayed list is " + Join(a->lists[L]));
   vh::stat("regress_doc_examples");
}
// the F15 pattern on the third index-creating path: the index of a clone is written with InsertIndexEntryAt()
static void RegressCloneOwnSubscription()
{
   Bench bench; Hist h; h.b = &bench; { Options o; o.reflectToSelf = true; h.obs = bench.AddClient(o); }
   Actor * src = AddActor(h, false); Actor * a = AddActor(h, false); const std::string C = a->c->root + "/C";
   src->c->Send(CmdSet("L", false, false, 1)); src->c->Send(CmdInsert(Names(1, "L"), Names(3, "atEnd"))); bench.Settle();
   a->c->Send(CmdHarness(HC_CLONE, src->c->root + "/L", "C", 0, "")); a->hcSent++; h.log.push_back("a1's only index is the one CloneDataNodeSubtree(foreign L -> C) made"); bench.Settle();
   a->cloneFlagHazard = !idxpriv::IndexingPresent(idxpriv::FlagTag(), *a->c->session());
   a->c->Send(CmdSubscribe(Names(1, "C"), false)); a->subs.push_back("C"); h.log.push_back("a1 subscribes to its own C");
   Check(h);
   const Names want = TrueIndex(h, C);
   EXPECT(h, want.size() == 3, "regress|clone_index", "the clone's index is " + Join(want));
   if (!h.bad && !a->ownPoisoned) { a->c->Send(CmdRemove("C/" + want[1], false)); h.log.push_back("a1 REMOVE C/" + want[1]); Check(h); }
   vh::stat("regress_clone_own_subscription");
}
static void RegressCloneTwice()
{
   Bench bench; Hist h; h.b = &bench; { Options o; o.reflectToSelf = true; h.obs = bench.AddClient(o); }
   Actor * a = AddActor(h, true); const std::string C = a->c->root + "/C";
   a->c->Send(CmdSet("L", false, false, 1)); a->c->Send(CmdInsert(Names(1, "L"), Names(2, "atEnd"))); Check(h);
   for (int i = 0; i < 2; i++) { a->c->Send(CmdHarness(HC_CLONE, "L", "C", 0, "")); a->hcSent++; }
   h.log.push_back("INSERTORDERED L x2; CloneDataNodeSubtree L -> C; CloneDataNodeSubtree L -> C"); bench.Settle();
   Truth T; BadNodes bad; TruthNow(h, T, &bad);
   if (bad.count(C)) { h.tainted.insert(C); vh::viol(KEY_CLONE_DUP, "cloning the same subtree twice to the same destination: " + bad[C].substr(bad[C].find('\n') + 1)); }
   else EXPECT(h, T[C].index == T[a->c->root + "/L"].index, "regress|clone_index", "L has index " + Join(T[a->c->root + "/L"].index) + ", its clone " + Join(T[C].index));
   Check(h);
   vh::stat("regress_clone_twice");
}
// a refused ordered insert (children-per-node limit, nodes-per-session limit, depth limit) leaves no trace in the index
static void RegressRefusals()
{
   Bench bench; Hist h; h.b = &bench; { Options o; o.reflectToSelf = true; h.obs = bench.AddClient(o); }
   SetLimits(h, 4, MUSCLE_NO_LIMIT);
   Actor * a = AddActor(h, false); Actor * w = AddActor(h, false); const std::string L = a->c->root + "/L";
   w->c->Send(CmdSubscribe(Names(1, "L"), false)); w->subs.push_back("L");
   a->c->Send(CmdSet("L", false, false, 1)); a->c->Send(CmdInsert(Names(1, "L"), Names(4, "atEnd"))); h.log.push_back("child limit 4; INSERTORDERED L x4"); Check(h);
   std::set<std::string> kids; const Names B = TrueIndex(h, L, &kids);
   EXPECT(h, B.size() == 4, "regress|refusals_setup", "index " + Join(B)); if (h.bad) return;
   a->c->Send(CmdInsert(Names(1, "L"), Names(1, B[1]))); h.log.push_back("INSERTORDERED L before " + B[1] + " (a fifth child: to be refused)"); Check(h);
   EXPECT(h, TrueIndex(h, L, &kids) == B && kids.size() == 4, "regress|refused_insert_left_a_trace", "children-per-node limit: index before " + Join(B) + ", after " + Join(TrueIndex(h, L)));
   a->c->Send(CmdSet("L/x", true, false, 1)); h.log.push_back("SETDATA+index L/x (to be refused)"); Check(h);
   EXPECT(h, TrueIndex(h, L, &kids) == B && kids.size() == 4, "regress|refused_insert_left_a_trace", "children-per-node limit, SETDATA with add-to-index: index before " + Join(B) + ", after " + Join(TrueIndex(h, L)));
   a->c->Send(CmdRemove("L/" + B[3], false)); a->c->Send(CmdInsert(Names(1, "L"), Names(1, "atEnd"))); h.log.push_back("REMOVE L/" + B[3] + "; INSERTORDERED L at the end"); Check(h);
   Actor * late = AddActor(h, false); late->c->Send(CmdSubscribe(Names(1, "L"), false)); late->subs.push_back("L"); h.log.push_back("a late subscriber takes the snapshot"); Check(h);
   EXPECT(h, TrueIndex(h, L).size() == 4 && w->lists[L] == late->lists[L], "regress|refusals_replay", "early subscriber " + Join(w->lists[L]) + ", late subscriber " + Join(late->lists[L]));
   // nodes-per-session limit
   SetLimits(h, MUSCLE_NO_LIMIT, 3); Actor * b = AddActor(h, false); const std::string Lb = b->c->root + "/L";
   b->c->Send(CmdSet("L", false, false, 1)); b->c->Send(CmdInsert(Names(1, "L"), Names(3, "atEnd"))); h.log.push_back("node limit 3: SETDATA L; INSERTORDERED L x3 (the third to be refused)"); Check(h);
   EXPECT(h, TrueIndex(h, Lb, &kids).size() == 2 && kids.size() == 2, "regress|refused_insert_left_a_trace", "nodes-per-session limit: index " + Join(TrueIndex(h, Lb)));
   // depth limit
   SetLimits(h, MUSCLE_NO_LIMIT, MUSCLE_NO_LIMIT); Actor * d = AddActor(h, false); const std::string c99 = Chain(MUSCLE_MAX_NODE_DEPTH - 3), c100 = Chain(MUSCLE_MAX_NODE_DEPTH - 2);
   w->c->Send(CmdSubscribe(Names(1, c99), false)); w->subs.push_back(c99); d->c->Send(CmdSubscribe(Names(1, c100), false)); d->subs.push_back(c100);
   d->c->Send(CmdSet(c100, false, false, 1)); Names both; both.push_back(c99); both.push_back(c100); d->c->Send(CmdInsert(both, Names(2, "atEnd"))); d->c->Send(CmdSet(c100 + "/y", true, false, 1));
   h.log.push_back("a chain down to depth 100; INSERTORDERED x2 under the node at depth 99 (allowed) and under the node at depth 100 (to be refused); SETDATA+index under depth 100"); Check(h);
   EXPECT(h, TrueIndex(h, d->c->root + "/" + c99).size() == 2 && TrueIndex(h, d->c->root + "/" + c100, &kids).empty() && kids.empty(), "regress|refused_insert_left_a_trace", "depth limit: index at depth 99 " + Join(TrueIndex(h, d->c->root + "/" + c99)) + ", at depth 100 " + Join(TrueIndex(h, d->c->root + "/" + c100)));
   vh::stat("regress_refusals");
}
// a superceding re-upload of an indexed node's payload must not take the node's still-queued index updates with it
static void RegressSupercede()
{
   Bench bench; Hist h; h.b = &bench; h.styles = false; { Options o; o.reflectToSelf = true; h.obs = bench.AddClient(o); }
   Actor * a = AddActor(h, false); Actor * w = AddActor(h, false); const std::string L = a->c->root + "/L";
   Names two; two.push_back("L"); two.push_back("L/*"); w->c->Send(CmdSubscribe(two, false)); w->subs = two;
   a->c->Send(CmdSet("L", false, false, 1)); a->c->Send(CmdInsert(Names(1, "L"), Names(2, "atEnd"))); h.log.push_back("SETDATA L; INSERTORDERED L x2"); Check(h);
   // 1) the scenario of seeded/C13-3: one BATCH {INSERTORDEREDDATA L; SETDATA L with ENABLESUPERCEDE}
   { std::vector<MessageRef> v; v.push_back(CmdInsert(Names(1, "L"), Names(1, "atEnd"))); v.push_back(CmdSet("L", false, false, 2, true)); a->c->Send(CmdBatch(v)); h.log.push_back("BATCH{INSERTORDERED L + SETDATA+supercede L}"); }
   Check(h);
   EXPECT(h, TrueIndex(h, L).size() == 3 && w->lists[L] == TrueIndex(h, L), "regress|supercede_pruned_a_queued_index_update", "replayed " + Join(w->lists[L]) + ", true index " + Join(TrueIndex(h, L)));
   // 2) the same back to back in one server cycle, with a reorder and a removal
   const Names B = TrueIndex(h, L); if (h.bad || B.size() != 3) return;
   a->c->Send(CmdReorder("L/" + B[2], B[0])); a->c->Send(CmdSet("L", false, false, 3, true)); a->c->Send(CmdRemove("L/" + B[1], false)); a->c->Send(CmdSet("L", false, false, 4, true));
   h.log.push_back("back to back: REORDER + SETDATA+supercede L + REMOVE + SETDATA+supercede L"); Check(h);
   EXPECT(h, TrueIndex(h, L).size() == 2 && w->lists[L] == TrueIndex(h, L), "regress|supercede_pruned_a_queued_index_update", "replayed " + Join(w->lists[L]) + ", true index " + Join(TrueIndex(h, L)));
   // 3) a backlog: the subscriber (small socket buffers) stops reading while the writer alternates inserts and superceding re-uploads in separate server cycles
   h.styles = true; Actor * s = NULL; for (int tries = 0; tries < 64 && (s == NULL || !s->slow); tries++) { if (s) { s->c->Cut(); s->gone = true; } s = AddActor(h, false); } h.styles = false;
   if (s == NULL || !s->slow) Abort("no session with small socket buffers");
   s->style = 0; s->c->Send(CmdSubscribe(two, false)); s->subs = two; Check(h);
   s->c->Send(CmdGetData("/*/*")); s->c->Send(CmdGetData("*")); s->c->Pump(); s->c->readPaused = true; s->pauseLeft = 1000;
   MessageRef big = GetMessageFromPool(1000); (void)big()->AddString("pad", std::string(700, 'x').c_str()); (void)big()->AddInt32("v", 1);
   for (int i = 0; i < 40; i++) {
      a->c->Send(CmdInsert(Names(1, "L"), Names(1, i % 3 ? B[0] : std::string("atEnd")))); bench.Settle();
      MessageRef sd = GetMessageFromPool(PR_COMMAND_SETDATA); SetDataNodeFlags f; f.SetBit(SETDATANODE_FLAG_ENABLESUPERCEDE); (void)sd()->AddFlat(PR_NAME_FLAGS, f); (void)sd()->AddMessage("L", big); a->c->Send(sd); bench.Settle();
      if (i % 5 == 4) { a->c->Send(CmdSet("L/pad", false, false, i)); bench.Settle(); }
   }
   vh::statmax("regress_backlog_queue_depth", (long)Bench::ServerSideQueueLength(*s->c->session()));
   h.log.push_back("a slow subscriber stops reading; 40 x (INSERTORDERED L; settle; SETDATA+supercede L; settle); it reads again"); s->pauseLeft = 0; s->c->readPaused = false; Check(h);
   EXPECT(h, s->lists[L] == TrueIndex(h, L) && w->lists[L] == TrueIndex(h, L), "regress|supercede_pruned_a_queued_index_update", "replayed " + Join(s->lists[L]) + ", true index " + Join(TrueIndex(h, L)));
   vh::stat("regress_supercede");
}
// inside ONE BATCH: an index change followed by a snapshot request of the same node by a session subscribed to it (seeded/C13-7)
static void RegressSnapshotInBatch()
{
   Bench bench; Hist h; h.b = &bench; { Options o; o.reflectToSelf = true; h.obs = bench.AddClient(o); }
   Actor * a = AddActor(h, false); Actor * w = AddActor(h, false); const std::string L = a->c->root + "/L";
   a->c->Send(CmdSubscribe(Names(1, "L"), false)); a->subs.push_back("L"); w->c->Send(CmdSubscribe(Names(1, "L"), false)); w->subs.push_back("L");
   a->c->Send(CmdSet("L", false, false, 1)); a->c->Send(CmdInsert(Names(1, "L"), Names(2, "atEnd"))); h.log.push_back("the owner and a witness subscribe to L; SETDATA L; INSERTORDERED L x2"); Check(h);
   for (int round = 0; round < 5 && !h.bad; round++) {
      const Names B = TrueIndex(h, L); if (B.empty()) break;
      std::vector<MessageRef> v; std::string what;
      MessageRef chg = round == 2 ? CmdReorder("L/" + B[B.size() - 1], B[0]) : round == 3 ? CmdRemove("L/" + B[0], false) : CmdInsert(Names(1, "L"), Names(1, round ? B[0] : std::string("atEnd")));
      MessageRef req = (round == 0 || round == 3) ? CmdGetData("L") : round == 1 ? CmdSubscribe(Names(1, "L"), false) : CmdSubscribe(Names(1, round == 2 ? "*" : "(L|M)"), false);
      if (round == 2) a->subs.push_back("*"); if (round == 4) a->subs.push_back("(L|M)");
      if (round == 4) { v.push_back(req); v.push_back(chg); } else { v.push_back(chg); v.push_back(req); }
      a->c->Send(CmdBatch(v)); h.log.push_back(vh::fmt("round %d: BATCH{index change of L %s snapshot request covering L} by the owner", round, round == 4 ? "after" : "then"));
      bench.Settle(); Process(h, *a); Process(h, *w);
      EXPECT(h, a->errKey.empty() && a->lists[L] == TrueIndex(h, L), "regress|snapshot_overtook_pending_index_update", "the owner replayed " + Join(a->lists[L]) + " (" + a->errKey + "), the witness " + Join(w->lists[L]) + ", true index " + Join(TrueIndex(h, L)));
      Check(h);
   }
   vh::stat("regress_snapshot_in_batch");
}
static void RegressOracleSelfTest()
{
   // the replay function must object to every kind of misfit, and the comparison to a wrong list
   struct { const char * op; const char * want; } t[] = {{"r0:b", "remove_names_another_entry"}, {"i5:x", "insert_beyond_end"}, {"r2:a", "remove_beyond_end"}, {"x1:a", "malformed_op"}, {"i:a", "malformed_op"}, {"i1a", "malformed_op"}, {"i-1:a", "malformed_op"},
                                                  {"i1:x", ""}, {"r0:a", ""}, {"c", ""}};
   for (size_t i = 0; i < sizeof(t) / sizeof(t[0]); i++) { Names L; L.push_back("a"); L.push_back("b"); char op; const std::string got = ApplyOp(L, t[i].op, &op); if (got != t[i].want) Abort(std::string("oracle self-test: ApplyOp(") + t[i].op + ") said '" + got + "'"); vh::stat("selftest_oracle_fired"); }
   // a subscriber whose list is tampered with must be reported by Check()
   Bench bench; Hist h; h.b = &bench; { Options o; o.reflectToSelf = true; h.obs = bench.AddClient(o); }
   Actor * a = AddActor(h, false); Actor * w = AddActor(h, false);
   w->c->Send(CmdSubscribe(Names(1, "L"), false)); w->subs.push_back("L");
   a->c->Send(CmdSet("L", false, false, 1)); Names b3(3, "atEnd"); a->c->Send(CmdInsert(Names(1, "L"), b3));
   if (!Check(h)) return;   // a genuine violation: already reported
   Names & l = w->lists[a->c->root + "/L"]; if (l.size() != 3) Abort("oracle self-test: the subscriber did not replay three inserts");
   std::swap(l[0], l[1]);
   h.selfTest = true; const bool ok = Check(h);
   if (ok) Abort("oracle self-test: a tampered replay list was not reported");
   vh::stat("selftest_oracle_fired");
}

int main(int argc, char ** argv)
{
   CompleteSetupSystem css;
   SetConsoleLogLevel(MUSCLE_LOG_NONE);
   vh::init(argc, argv);
   vh::Ctx & c = vh::ctx(); const std::string mode = vh::opt("mode", "index"); g_trace = vh::has_opt("trace");
   if (mode == "regress") {
      vh::begin_case(0); RegressOracleSelfTest();
      vh::begin_case(1); RegressF15();
      vh::begin_case(2); RegressGeneratedNames();
      vh::begin_case(3); RegressStructure();
      vh::begin_case(4); RegressDocExamples();
      vh::begin_case(5); RegressCloneOwnSubscription();
      vh::begin_case(6); RegressCloneTwice();
      vh::begin_case(7); RegressRefusals();
      vh::begin_case(8); RegressSupercede();
      vh::begin_case(9); RegressSnapshotInBatch();
      vh::distinct(1, true);
   } else if (mode == "index") {
      const long nOps = vh::optl("ops", 80);
      for (long k = c.from; k < c.from + c.cases; k++) { vh::begin_case(k); RunHistory(k, vh::case_seed(c.seed, STREAM_INDEX, (uint64_t)k), nOps); }
   } else { fprintf(stderr, "h_index: unknown mode %s\n", mode.c_str()); return 3; }
   return vh::finish();
}
