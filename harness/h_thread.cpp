// h_thread -- C11: Thread <-> owner messaging: exactly once, per-sender FIFO, no lost wake-up, shutdown+join returns,
// Messages queued before a start (and behind a shutdown token) are delivered after the (next) start.
//
// One case = one scenario on a fresh Thread object: the owner (main thread) and 0-3 helper threads send uniquely numbered
// Messages to the internal thread, which replies (echo / bursts / sparse / none) and logs what it saw; the owner receives in
// four modes (poll, timed wait, untimed blocking wait, untimed select on GetOwnerWakeupSocket() followed by polls) and runs
// shutdown / join / restart cycles with Messages queued before the start, behind the shutdown token and while stopped.
// k -> placement (k % 32: 27 single (site,role,kind) delay placements, none, 2x jitter, pair, triple; hookrt.h delay bounding)
//   -> combination ((k / 32) % 9: socket pair or wait-condition x internal-thread style default / select-first / mixed waits
//      x owner woken directly or through an ICallbackMechanism of the harness: the owner blocks untimed on the mechanism's own
//      primitive, then calls its DispatchCallbacks(), which hands the replies to Thread::MessageReceivedFromInternalThread()).
// The checker runs inside the harness at the end of each case on the two event logs (internal thread's, owner's).
// HANGS are never decided here: all waiting for completion is UNTIMED (join, blocking GetNextReplyFromInternalThread, select),
// so a lost wake-up leaves every thread blocked without a timeout and the driver proves the deadlock (key <leg>|deadlock).
// modes (--opt mode=): run (default) | regress (fixed tiny scenarios + documentation examples of Thread.h)
// other options: msgs=<target Messages per case, default 200>  pl=<force placement 0..31>  combo=<force combination 0..4>
#include "system/Thread.h"
#include "util/SocketMultiplexer.h"
#include "util/ICallbackMechanism.h"
#include "util/NetworkUtilityFunctions.h"
#include <sys/socket.h>
#include "system/SetupSystem.h"
#include "util/TimeUtilityFunctions.h"
#include <pthread.h>
#include <signal.h>
#include <memory>
#include <sched.h>
#include <thread>
#include <atomic>
#include <mutex>
#include <condition_variable>
#include <vector>
#include <string>
#include "vh.h"
#include "hookrt.h"
using namespace muscle;

enum { ROLE_OWNER = 0, ROLE_HELPER = 1, ROLE_INTERNAL = 2, ROLE_SIGNALLER = 3 };
enum { STYLE_DEFAULT = 0, STYLE_SELFIRST = 1, STYLE_MIXED = 2 };
enum { REPLY_ECHO = 0, REPLY_BURST = 1, REPLY_SPARSE = 2, REPLY_NONE = 3 };
enum { WHAT_MSG = 0x6d736721, WHAT_REPLY = 0x72706c79 };
static const uint32_t LOG_TOKEN = 0xFFFFFFFFu, LOG_INVALID = 0xFFFFFFFEu;
static const char * StyleName(int s) { return s == STYLE_DEFAULT ? "default" : s == STYLE_SELFIRST ? "selectfirst" : "mixedwaits"; }
static const char * ReplyName(int m) { return m == REPLY_ECHO ? "echo" : m == REPLY_BURST ? "burst" : m == REPLY_SPARSE ? "sparse" : "none"; }

// how many replies the internal thread sends for Message #seq of sender snd: a pure function, so the owner knows what is due
static int NumReplies(int mode, int snd, int seq)
{
   switch (mode) {
   case REPLY_ECHO:   return 1;
   case REPLY_BURST:  return (seq % 7 == 0) ? 3 : (seq % 5 == 0) ? 0 : ((seq + snd) % 11 == 0) ? 6 : 1;
   case REPLY_SPARSE: return (seq % 4 == 0) ? 1 : 0;
   default:           return 0;
   }
}

static MessageRef MakeMsg(uint32 what, int snd, int seq, int b = -1)
{
   MessageRef m = GetMessageFromPool(what);
   if (m() == NULL || m()->AddInt32("snd", snd).IsError() || m()->AddInt32("seq", seq).IsError() || (b >= 0 && m()->AddInt32("b", b).IsError())) { fprintf(stderr, "HARNESS-ABORT: cannot build a Message\n"); abort(); }
   return m;
}

// ---- blocking-point bookkeeping, fed by the hooked sites (wrapper around hookrt::hook) and by the harness's own blocking calls.
// g_block[role] == 1: that thread passed "queue found empty, about to block" (or a harness wait) and has not come back yet.
static std::atomic<int> g_block[4];
static std::atomic<long> g_ownerNotifies;          // empty->non-empty transitions of the reply queue announced so far (SEND_AFTER_ENQUEUE with the notify bit, internal thread)
static long g_ownerFlushMark = 0;                   // owner thread only: g_ownerNotifies when an owner wait last came back from blocking
static bool g_ownerLastWasBlock = false, g_ownerPassedBlock = false, g_ownerStaleAtBlock = false;   // owner thread only, reset before each receive call
static pthread_t g_ownerTid;
static bool g_internalPassedBlock = false;       // internal thread only (one incarnation at a time)
static void MyHook(int site, const void * obj, long arg)
{
   const int r = hookrt::role();
   if (r == ROLE_OWNER || r == ROLE_INTERNAL) {
      if (site == MVH_THREAD_WAIT_BEFORE_BLOCK) {
         if (r == ROLE_OWNER) { if (!g_ownerPassedBlock) g_ownerStaleAtBlock = (g_ownerNotifies.load(std::memory_order_relaxed) > g_ownerFlushMark); g_ownerPassedBlock = true; g_ownerLastWasBlock = true; }
         else g_internalPassedBlock = true;
         g_block[r].store(1, std::memory_order_relaxed);
      }
      else if (site == MVH_THREAD_WAIT_AFTER_DRAIN) {
         if (r == ROLE_OWNER) { if (g_ownerLastWasBlock) g_ownerFlushMark = g_ownerNotifies.load(std::memory_order_relaxed); g_ownerLastWasBlock = false; }
         g_block[r].store(0, std::memory_order_relaxed);
      }
      else if (site == MVH_THREAD_SEND_AFTER_ENQUEUE && r == ROLE_INTERNAL && (arg & 1)) g_ownerNotifies.fetch_add(1, std::memory_order_relaxed);
   }
   hookrt::hook(site, obj, arg);
}
static void BeforeOwnerReceive() { g_ownerLastWasBlock = false; g_ownerPassedBlock = false; g_ownerStaleAtBlock = false; }
extern "C" void NoOpSignalHandler(int) {}          // async-signal-safe: does nothing; installed for SIGUSR1 without SA_RESTART

// ---- user sockets registered with the Thread's socket sets (socket-pair mechanism only): one end ("mine") is watched by the internal thread or
// by the owner in SOCKET_SET_READ / WRITE / EXCEPTION, the other end ("peer") is the harness's handle to make it ready.  A ready one may end a wait
// early with B_IO_READY (the waiter then makes it unready again: reads what is there / fills the send buffer); an unready one must never keep a
// Message from waking the waiter.
enum { US_INTERNAL = 0, US_OWNER = 1, MAX_US = 4 };
struct UserSock {
   ConstSocketRef mine, peer; int side, set; bool toggling, late; std::atomic<int> active, unready; long fd;
   UserSock() : side(0), set(0), toggling(false), late(false), active(0), unready(1), fd(-1) {}
};
static void MakeUnready(UserSock & u)      // called by the thread that watches it
{
   const int fd = u.mine.GetFileDescriptor(); char buf[4096]; memset(buf, 'u', sizeof(buf));
   if (u.set == Thread::SOCKET_SET_READ) { while (recv(fd, buf, sizeof(buf), MSG_DONTWAIT) > 0) {} }
   else if (u.set == Thread::SOCKET_SET_WRITE) { while (send(fd, buf, sizeof(buf), MSG_DONTWAIT | MSG_NOSIGNAL) > 0) {} }
   u.unready.store(1, std::memory_order_relaxed);
}
static void MakeReady(UserSock & u)        // called by the owner (the only thread that touches the peer ends)
{
   const int fd = u.peer.GetFileDescriptor(); char buf[4096];
   if (u.set == Thread::SOCKET_SET_READ) { buf[0] = 'r'; if (send(fd, buf, 1, MSG_DONTWAIT | MSG_NOSIGNAL) < 0) {} }
   else if (u.set == Thread::SOCKET_SET_WRITE) { while (recv(fd, buf, sizeof(buf), MSG_DONTWAIT) > 0) {} }
   else return;                             // nothing raises an exception on a local socket pair
   u.unready.store(0, std::memory_order_relaxed);
}

// ---- the harness's ICallbackMechanism: a latched flag under a mutex; the dispatch thread (= the owner) waits for it UNTIMED
class HarnessCallbackMechanism : public ICallbackMechanism {
public:
   HarnessCallbackMechanism() : _count(0), _inDispatch(0), _signalsFromOthers(0), _signalsDuringDispatch(0), _signalsFromDispatcher(0) {}
   std::mutex _mu; std::condition_variable _cv; long _count;
   std::atomic<int> _inDispatch; std::atomic<long> _signalsFromOthers, _signalsDuringDispatch, _signalsFromDispatcher;   // relaxed, observation only
   void WaitUntilSignalled() { std::unique_lock<std::mutex> lk(_mu); while (_count == 0) _cv.wait(lk); _count = 0; }
   bool TryConsume() { std::lock_guard<std::mutex> g(_mu); if (_count == 0) return false; _count = 0; return true; }
   void Dispatch() { _inDispatch.store(1, std::memory_order_relaxed); DispatchCallbacks(); _inDispatch.store(0, std::memory_order_relaxed); }
private:
   virtual void SignalDispatchThreadImplementation()
   {
      if (hookrt::role() == ROLE_OWNER) _signalsFromDispatcher.fetch_add(1, std::memory_order_relaxed);
      else { _signalsFromOthers.fetch_add(1, std::memory_order_relaxed); if (_inDispatch.load(std::memory_order_relaxed)) _signalsDuringDispatch.fetch_add(1, std::memory_order_relaxed); }
      { std::lock_guard<std::mutex> g(_mu); _count++; }
      _cv.notify_one();
   }
};

struct Scenario;
// ---- the Thread under test.  Everything the internal thread writes here is plain data that the owner reads only after a join.
class EchoThread : public Thread {
public:
   EchoThread(bool sockets, int style, int replyMode, uint64_t seed, ICallbackMechanism * mech, Scenario * sink) : Thread(sockets, mech), _style(style), _replyMode(replyMode), _seed(seed), _incarnation(0), _waitError(false), _sendError(false), _idleWakeups(0), _recvCount(0), _sink(sink), _announce(false), _repliedTo(0), _ptid(0), _ptidValid(0), _repliesSent(0), _stampCap(0), _gateSeq(-1), _gateOpen(false), _us(NULL), _ioReadyWakeups(0), _wakeupsWithUnreadyUserSockets(0), _userSocksRegistered(0) {}
   int _style, _replyMode; uint64_t _seed; int _incarnation;
   std::vector<uint32_t> _log;        // (snd << 24 | seq) per Message in arrival order, LOG_TOKEN for the NULL shutdown token
   bool _waitError; std::string _waitErrorText; bool _sendError;
   long _idleWakeups;                  // wake-ups that found nothing (B_TIMED_OUT on an untimed wait / select that polled nothing)
   std::atomic<long> _recvCount;       // relaxed, only for progress notes
   Scenario * _sink;                   // where MessageReceivedFromInternalThread() (owner thread, inside DispatchCallbacks) puts the replies
   bool _announce; std::mutex _rmu; std::condition_variable _rcv; long _repliedTo;   // regress witnesses only: "the replies to n Messages have been sent"
   std::atomic<unsigned long> _ptid; std::atomic<int> _ptidValid;   // pthread id of the running incarnation (valid from its entry until the owner joined it)
   std::atomic<long> _repliesSent; std::unique_ptr<std::atomic<uint64_t>[]> _stamp; long _stampCap;   // relaxed: GetRunTime64() after the i-th SendMessageToOwner() returned
   void AllocStamps(long cap) { _stamp.reset(new std::atomic<uint64_t>[cap]); for (long i = 0; i < cap; i++) _stamp[i].store(0); _stampCap = cap; }
   uint64_t StampOf(long i) const { return (i >= 0 && i < _stampCap) ? _stamp[i].load(std::memory_order_relaxed) : 0; }
   UserSock * _us; long _ioReadyWakeups, _wakeupsWithUnreadyUserSockets, _userSocksRegistered;   // internal thread only
   bool Mine(int i, int minActive) const { return _us[i].active.load(std::memory_order_acquire) >= minActive && _us[i].side == US_INTERNAL; }   // acquire first: the owner fills a slot, then publishes it
   int InternalWakeupFd() { return GetInternalThreadWakeupSocket().GetFileDescriptor(); }
   status_t TryRegisterInternal(const ConstSocketRef & s, uint32 set) { return RegisterInternalThreadSocket(s, set); }
   bool AnyUnreadyInternalUserSocket() const { if (_us) for (int i = 0; i < MAX_US; i++) if (Mine(i, 2) && _us[i].unready.load(std::memory_order_relaxed)) return true; return false; }
   int _gateSeq; bool _gateOpen;   // regress witnesses only: the replies to owner Message #_gateSeq are held back until OpenGate()
   void CloseGateFor(int seq) { std::lock_guard<std::mutex> g(_rmu); _gateOpen = false; _gateSeq = seq; }
   void OpenGate() { { std::lock_guard<std::mutex> g(_rmu); _gateOpen = true; } _rcv.notify_all(); }
   void WaitUntilRepliedTo(long n) { std::unique_lock<std::mutex> lk(_rmu); while (_repliedTo < n) _rcv.wait(lk); }
   virtual void MessageReceivedFromInternalThread(const MessageRef & m, uint32 numLeft);   // defined after Scenario

   virtual void InternalThreadEntry()
   {
      hookrt::set_role(ROLE_INTERNAL); hookrt::t_rng ^= (uint32_t)(_seed >> 7) * 2u + (uint32_t)_incarnation * 977u; if (hookrt::t_rng == 0) hookrt::t_rng = 1;
      _incarnation++;
      _ptid.store((unsigned long)pthread_self(), std::memory_order_relaxed); _ptidValid.store(1, std::memory_order_release);
      g_internalPassedBlock = false;
      if (_us) {
         for (uint32 set = 0; set < NUM_SOCKET_SETS; set++) UnregisterAllInternalThreadSocketsInSet(set);
         for (int i = 0; i < MAX_US; i++) if (Mine(i, 1)) {
            if (RegisterInternalThreadSocket(_us[i].mine, (uint32)_us[i].set).IsError()) { _waitError = true; _waitErrorText = "RegisterInternalThreadSocket failed"; return; }
            if (i == 0 && _incarnation > 1) { (void)UnregisterInternalThreadSocket(_us[i].mine, (uint32)_us[i].set); (void)RegisterInternalThreadSocket(_us[i].mine, (uint32)_us[i].set); }
            _us[i].active.store(2, std::memory_order_relaxed); _userSocksRegistered++;
         }
      }
      if (_style == STYLE_DEFAULT) { Thread::InternalThreadEntry(); return; }
      if (_style == STYLE_SELFIRST) {
         // the pattern of MessageTransceiverThread: block on the wake-up socket, then poll until the queue is empty
         SocketMultiplexer sm; const int fd = GetInternalThreadWakeupSocket().GetFileDescriptor();
         if (fd < 0) { _waitError = true; _waitErrorText = "GetInternalThreadWakeupSocket() has no file descriptor"; return; }
         while (true) {
            (void)sm.RegisterSocketForReadReady(fd);
            if (_us) for (int i = 0; i < MAX_US; i++) if (Mine(i, 2)) (void)sm.RegisterSocketForEventsByTypeIndex(_us[i].mine.GetFileDescriptor(), (uint32)_us[i].set);   // all never ready in this style
            g_internalPassedBlock = true; g_block[ROLE_INTERNAL].store(1, std::memory_order_relaxed);
            io_status_t w = sm.WaitForEvents();
            g_block[ROLE_INTERNAL].store(0, std::memory_order_relaxed);
            if (w.IsError()) { _waitError = true; _waitErrorText = std::string("SocketMultiplexer::WaitForEvents on the wake-up socket: ") + w.GetStatus()(); return; }
            MessageRef m; uint32 nl = 0; long n = 0; status_t s;
            while ((s = WaitForNextMessageFromOwner(m, 0, &nl)).IsOK()) { n++; if (MessageReceivedFromOwner(m, nl).IsError()) return; }
            if (n == 0) _idleWakeups++;
         }
      }
      // mixed: the loop of the default implementation, but alternating untimed, timed and polling waits
      vh::Rng r(_seed ^ (0x51ED27ULL * (uint64_t)_incarnation));
      while (true) {
         MessageRef m; uint32 nl = 0; const uint32_t c = r.R(10);
         const uint64 w = (c < 5) ? MUSCLE_TIME_NEVER : (c < 8) ? (GetRunTime64() + r.R(400)) : 0;
         status_t s = WaitForNextMessageFromOwner(m, w, &nl);
         if (s.IsOK()) { if (MessageReceivedFromOwner(m, nl).IsError()) return; }
         else if (s == B_TIMED_OUT) { if (w == MUSCLE_TIME_NEVER) _idleWakeups++; else if (w == 0) sched_yield(); }
         else if (s == B_IO_READY && _us) { _ioReadyWakeups++; for (int i = 0; i < MAX_US; i++) if (Mine(i, 2) && IsInternalThreadSocketReady(_us[i].mine, (uint32)_us[i].set)) MakeUnready(_us[i]); }
         else { _waitError = true; _waitErrorText = std::string("WaitForNextMessageFromOwner: ") + s(); return; }
      }
   }

   virtual status_t MessageReceivedFromOwner(const MessageRef & m, uint32)
   {
      const status_t dflt = Thread::MessageReceivedFromOwner(m, 0);   // the default implementation: an error exactly for the NULL token
      if ((m() == NULL) != dflt.IsError()) _log.push_back(LOG_INVALID);
      if (m() == NULL) { _log.push_back(LOG_TOKEN); return dflt.IsError() ? dflt : B_ERROR; }
      int32 snd = -1, seq = -1;
      if (m()->what != WHAT_MSG || m()->FindInt32("snd", snd).IsError() || m()->FindInt32("seq", seq).IsError() || snd < 0 || snd > 100 || seq < 1 || seq >= (1 << 24)) { _log.push_back(LOG_INVALID); return B_NO_ERROR; }
      _log.push_back(((uint32_t)snd << 24) | (uint32_t)seq);
      _recvCount.fetch_add(1, std::memory_order_relaxed);
      if (g_internalPassedBlock) { g_internalPassedBlock = false; if (AnyUnreadyInternalUserSocket()) _wakeupsWithUnreadyUserSockets++; }
      if (_announce && snd == 0) { std::unique_lock<std::mutex> lk(_rmu); while (seq == _gateSeq && !_gateOpen) _rcv.wait(lk); }
      const int n = NumReplies(_replyMode, snd, seq);
      for (int b = 0; b < n; b++) {
         if (SendMessageToOwner(MakeMsg(WHAT_REPLY, snd, seq, b)).IsError()) _sendError = true;
         const long i = _repliesSent.load(std::memory_order_relaxed); if (i < _stampCap) _stamp[i].store(GetRunTime64(), std::memory_order_relaxed);
         _repliesSent.store(i + 1, std::memory_order_relaxed);   // only after the send returned: the reply is in the queue and announced
      }
      if (_announce) { { std::lock_guard<std::mutex> g(_rmu); _repliedTo++; } _rcv.notify_all(); }
      return B_NO_ERROR;
   }
};

// ---- placements
struct SiteRole { int site; int role; const char * name; };
static const SiteRole SR[9] = {
   { MVH_THREAD_SEND_AFTER_ENQUEUE, ROLE_OWNER,    "send_after_enqueue.owner" },
   { MVH_THREAD_SEND_AFTER_ENQUEUE, ROLE_HELPER,   "send_after_enqueue.helper" },
   { MVH_THREAD_SEND_AFTER_ENQUEUE, ROLE_INTERNAL, "send_after_enqueue.internal" },
   { MVH_THREAD_WAIT_AFTER_DRAIN,   ROLE_OWNER,    "wait_after_drain.owner" },
   { MVH_THREAD_WAIT_AFTER_DRAIN,   ROLE_INTERNAL, "wait_after_drain.internal" },
   { MVH_THREAD_WAIT_BEFORE_BLOCK,  ROLE_OWNER,    "wait_before_block.owner" },
   { MVH_THREAD_WAIT_BEFORE_BLOCK,  ROLE_INTERNAL, "wait_before_block.internal" },
   { MVH_THREAD_INTERNAL_ENTRY,     -2,            "internal_entry.any" },      // the internal thread has no role yet at this site
   { MVH_THREAD_INTERNAL_EXIT,      -2,            "internal_exit.any" },
};
static const int SITES[5] = { MVH_THREAD_SEND_AFTER_ENQUEUE, MVH_THREAD_WAIT_AFTER_DRAIN, MVH_THREAD_WAIT_BEFORE_BLOCK, MVH_THREAD_INTERNAL_ENTRY, MVH_THREAD_INTERNAL_EXIT };
enum { NPL = 32, PL_NONE = 27, PL_JITTER_LIGHT = 28, PL_JITTER_HEAVY = 29, PL_PAIR = 30, PL_TRIPLE = 31, NCOMBO = 9 };
static const struct { bool sockets; int style; bool callback; } COMBO[NCOMBO] = { { true, STYLE_DEFAULT, false }, { false, STYLE_DEFAULT, false }, { true, STYLE_SELFIRST, false }, { false, STYLE_MIXED, false }, { true, STYLE_MIXED, false },
   { true, STYLE_DEFAULT, true }, { false, STYLE_DEFAULT, true }, { true, STYLE_SELFIRST, true }, { false, STYLE_MIXED, true } };
static const char * KindName(int k) { return k == hookrt::K_YIELD ? "yield" : k == hookrt::K_SLEEP ? "sleep" : "spin"; }

struct Params {
   long k; uint64_t cs; bool sockets; int style; int replyMode; int nHelpers; int perSender; int pre; int maxRestarts; bool epilogue; bool callback, cbPure; int cbScript; bool signals; int sigTarget; int nUser;
   std::string placement;
   Params() : k(0), cs(1), sockets(true), style(STYLE_DEFAULT), replyMode(REPLY_ECHO), nHelpers(0), perSender(10), pre(0), maxRestarts(0), epilogue(false), callback(false), cbPure(false), cbScript(0), signals(false), sigTarget(0), nUser(0) {}
   std::string Show() const { return vh::fmt("mech=%s owner=%s signals=%s usersockets=%d style=%s reply=%s helpers=%d perSender=%d prequeued=%d placement=[%s]", sockets ? "socketpair" : "waitcondition", callback ? (cbPure ? "callback-only" : "callback+direct") : "direct", !signals ? "no" : sigTarget == 0 ? "internal" : sigTarget == 1 ? "owner" : "both", nUser, StyleName(style), ReplyName(replyMode), nHelpers, perSender, pre, placement.c_str()); }
};

// arms one (site, role) in slot; returns its description
static std::string ArmOne(int slot, int sr, int kind, vh::Rng & g)
{
   int micros = 0, oneIn = 1;
   const bool rare = (SR[sr].site == MVH_THREAD_INTERNAL_ENTRY || SR[sr].site == MVH_THREAD_INTERNAL_EXIT);   // passed once per incarnation
   if (kind == hookrt::K_SLEEP) { static const int M[4] = { 50, 200, 800, 2000 }, O[4] = { 1, 1, 3, 8 }; const int i = g.R(4); micros = M[i]; oneIn = rare ? 1 : O[i]; if (rare) micros = 2000; }
   else if (kind == hookrt::K_SPIN) { static const int M[3] = { 10, 50, 200 }, O[3] = { 1, 1, 2 }; const int i = g.R(3); micros = M[i]; oneIn = rare ? 1 : O[i]; if (rare) micros = 500; }
   hookrt::arm(slot, SR[sr].site, SR[sr].role, kind, micros, oneIn);
   return vh::fmt("%s/%s/%dus/1in%d", SR[sr].name, KindName(kind), micros, oneIn);
}

struct Rep { int snd, seq, b; };

// seqs = the numbers (1..n were sent) of one sender in arrival order -> "" | not_sent | duplicate | lost | reorder
static std::string Classify(const std::vector<int> & got, int n, std::string & why)
{
   std::vector<char> seen((size_t)n + 1, 0); bool gap = false; int prev = 0;
   for (size_t i = 0; i < got.size(); i++) {
      const int x = got[i];
      if (x < 1 || x > n) { why = vh::fmt("arrival %zu is #%d but only #1..#%d were sent", i, x, n); return "not_sent"; }
      if (seen[x]) { why = vh::fmt("#%d arrived twice (second time as arrival %zu)", x, i); return "duplicate"; }
      seen[x] = 1;
      if (x != prev + 1 && !gap) { gap = true; why = vh::fmt("#%d arrived directly after #%d (arrival %zu)", x, prev, i); }
      prev = x;
   }
   int missing = 0, firstMissing = 0; for (int x = 1; x <= n; x++) if (!seen[x]) { if (!missing) firstMissing = x; missing++; }
   if (missing) { why = vh::fmt("%d of %d never arrived, first #%d; ", missing, n, firstMissing) + why; return "lost"; }
   return gap ? "reorder" : "";
}

static bool g_longTimedDisabled = false;   // after the first timed-wait violation of this process: no more multi-second waits (one witness per worker is enough)
static const uint64_t LONG_WAIT_MICROS = 3000000, LONG_WAIT_MARGIN_MICROS = 1000000;

struct Scenario {
   Params P; HarnessCallbackMechanism mech; EchoThread t; pthread_rwlock_t life; vh::Rng r;   // mech outlives t
   std::atomic<long> helperDue, helperSent, helpersDone, helperSendErrors;
   std::vector<std::thread> helpers;
   UserSock us[MAX_US]; int nUs; bool userLowerFdWriteExceptUnready; long nIoReadyOwner, nOwnerWakeupsUnready, nUserBelow, nUserAbove, nToggles, nReRegister;
   std::thread signaller; bool signallerStarted; std::atomic<int> sigStop; std::atomic<long> sigBlockedInternal, sigBlockedOwner, sigElsewhere;
   int ownerSeq; long ownerDue, got; bool running, tokenPending, lastRecvEmpty, bad, giveUp;
   std::vector<Rep> replyLog; std::vector<int> ownerSeqAtToken;
   long idleInARow;
   // observation counters of this case
   long nPollOk, nPollEmpty, nTimedOk, nTimedOut, nBlockOk, nBlockIdle, nSelect, nSelectIdle, nRestarts, nStarts, nSentAfterRequest, nSentWhileStopped, nPre, nRepliesWhileStopped, nUnspecTimedStopped, nCbDispatch, nCbReplies, nCbIdle, nCbWaits, nCbSendsInside, nCbScriptFired, nLongTimed, nLongTimedOk, nLongTimedAlreadyQueued, nTimedAlreadyQueued, nStaleHist, nLongTimedUnjudged, nLongTimedIdleSockets;

   Scenario(const Params & p) : P(p), t(p.sockets, p.style, p.replyMode, p.cs, p.callback ? &mech : NULL, this), r(p.cs ^ 0xC11C11ULL), helperDue(0), helperSent(0), helpersDone(0), helperSendErrors(0), nUs(0), userLowerFdWriteExceptUnready(false), nIoReadyOwner(0), nOwnerWakeupsUnready(0), nUserBelow(0), nUserAbove(0), nToggles(0), nReRegister(0), signallerStarted(false), sigStop(0), sigBlockedInternal(0), sigBlockedOwner(0), sigElsewhere(0),
      ownerSeq(0), ownerDue(0), got(0), running(false), tokenPending(false), lastRecvEmpty(true), bad(false), giveUp(false), idleInARow(0),
      nPollOk(0), nPollEmpty(0), nTimedOk(0), nTimedOut(0), nBlockOk(0), nBlockIdle(0), nSelect(0), nSelectIdle(0), nRestarts(0), nStarts(0), nSentAfterRequest(0), nSentWhileStopped(0), nPre(0), nRepliesWhileStopped(0), nUnspecTimedStopped(0), nCbDispatch(0), nCbReplies(0), nCbIdle(0), nCbWaits(0), nCbSendsInside(0), nCbScriptFired(0), nLongTimed(0), nLongTimedOk(0), nLongTimedAlreadyQueued(0), nTimedAlreadyQueued(0), nStaleHist(0), nLongTimedUnjudged(0), nLongTimedIdleSockets(0)
   {
      pthread_rwlockattr_t a; pthread_rwlockattr_init(&a); pthread_rwlockattr_setkind_np(&a, PTHREAD_RWLOCK_PREFER_WRITER_NONRECURSIVE_NP);
      if (pthread_rwlock_init(&life, &a) != 0) { fprintf(stderr, "HARNESS-ABORT: pthread_rwlock_init\n"); abort(); }
      pthread_rwlockattr_destroy(&a);
      t._us = us;
      t.AllocStamps(((long)P.perSender * (1 + P.nHelpers) + 64) * 6 + 64);
      for (int i = 0; i < 4; i++) g_block[i].store(0); g_ownerNotifies.store(0); g_ownerFlushMark = 0; BeforeOwnerReceive();
   }
   ~Scenario() { pthread_rwlock_destroy(&life); }

   void Fail(const std::string & key, const std::string & detail) { if (bad) return; bad = true; vh::viol(key, detail + " | " + P.Show() + " | " + State()); }
   std::string State() { return vh::fmt("owner sent %d, helpers sent %ld, replies got %ld of %ld due so far, internal thread saw >= %ld, starts %ld, shutdown requests %zu", ownerSeq, helperSent.load(std::memory_order_relaxed), got, Due(), t._recvCount.load(std::memory_order_relaxed), nStarts, ownerSeqAtToken.size()); }
   void Note(const char * what) { vh::note(std::string(what) + " | " + P.Show() + " | " + State()); }
   long Due() { return ownerDue + helperDue.load(std::memory_order_relaxed); }
   void Lock() { pthread_rwlock_wrlock(&life); }
   void Unlock() { pthread_rwlock_unlock(&life); }

   void OwnerSend()
   {
      ++ownerSeq;
      if (t.SendMessageToInternalThread(MakeMsg(WHAT_MSG, 0, ownerSeq)).IsError()) Fail("send|error", vh::fmt("SendMessageToInternalThread failed for owner Message #%d", ownerSeq));
      ownerDue += NumReplies(P.replyMode, 0, ownerSeq);
      if (!running) nSentWhileStopped++; else if (tokenPending) nSentAfterRequest++;
   }
   void HandleReply(const MessageRef & m)
   {
      Rep e; e.snd = -1; e.seq = -1; e.b = -1; int32 a = -1, s = -1, b = -1;
      if (m() && m()->what == WHAT_REPLY && m()->FindInt32("snd", a).IsOK() && m()->FindInt32("seq", s).IsOK() && m()->FindInt32("b", b).IsOK()) { e.snd = a; e.seq = s; e.b = b; }
      replyLog.push_back(e); got++; lastRecvEmpty = false; idleInARow = 0; if (!running) nRepliesWhileStopped++;
   }
   void Idle(const char * how)
   {
      // a wake-up that finds nothing needs a signal that outlived its Message; that many in a row without a single Message means the
      // wake-up channel is permanently readable (closed?) while the thread counts as running -- a logical bound, not a time bound
      if (++idleInARow > 200000) { Fail("untimed_wait|returns_without_message_forever", vh::fmt("%s returned without a Message 200000 times in a row while replies are due", how)); giveUp = true; }
   }
   bool MayBlock() { return running && !tokenPending && !giveUp && got < Due(); }
   void Poll()
   {
      const long sentBefore = t._repliesSent.load(std::memory_order_relaxed), gotBefore = got;   // sent (send returned) but not yet received => it is in the queue
      MessageRef rep; uint32 nl = 0; status_t s = t.GetNextReplyFromInternalThread(rep, 0, &nl);
      if (s.IsOK()) { HandleReply(rep); nPollOk++; }
      else if (s == B_TIMED_OUT) { lastRecvEmpty = true; nPollEmpty++; if (sentBefore > gotBefore) Fail("poll|empty_with_message_queued", vh::fmt("GetNextReplyFromInternalThread(0) found nothing although %ld replies had been sent (SendMessageToOwner returned) and only %ld received before the call", sentBefore, gotBefore)); } else Fail("poll|unexpected_status", std::string("GetNextReplyFromInternalThread(0) returned ") + s());
   }
   void Timed()
   {
      if (!running) { nUnspecTimedStopped++; Poll(); return; }   // unspecified corner: a timed wait on a stopped socket-pair Thread has no socket to wait on
      if (MayBlock() && !g_longTimedDisabled && !bad && r.R(3) == 0) {
         if (r.R(2)) { while (!lastRecvEmpty && !bad) Poll(); }   // the history the timed wait is sensitive to: replies picked up without blocking, then block on an empty queue
         LongTimed(false); return;
      }
      const long sentBefore = t._repliesSent.load(std::memory_order_relaxed), gotBefore = got;
      BeforeOwnerReceive();
      MessageRef rep; status_t s = t.GetNextReplyFromInternalThread(rep, GetRunTime64() + r.R(400));
      g_block[ROLE_OWNER].store(0, std::memory_order_relaxed);
      if (s.IsOK()) { HandleReply(rep); nTimedOk++; if (!g_ownerPassedBlock) nTimedAlreadyQueued++; }
      else if (s == B_TIMED_OUT) { lastRecvEmpty = true; nTimedOut++; if (sentBefore > gotBefore) Fail("timed_wait|timed_out_with_message_queued", vh::fmt("GetNextReplyFromInternalThread(soon) returned B_TIMED_OUT although %ld replies had been sent (SendMessageToOwner returned) and only %ld received before the call began", sentBefore, gotBefore)); } else if (s == B_IO_READY && nUs > 0) OwnerIoReady(); else Fail("timed_wait|unexpected_status", std::string("GetNextReplyFromInternalThread(soon) returned ") + s());
   }
   // a timed wait with a deadline seconds away, begun only when a reply is due (so it returns at once on a healthy tree).  Verdicts by RETURN
   // CODE, never by lateness: (A) B_TIMED_OUT although a reply was already queued before the call; (B) wait-condition mechanism only, where
   // B_TIMED_OUT is returned at the deadline and never earlier: B_TIMED_OUT although the next reply's send had returned (enqueued and notified,
   // time-stamped by the sender afterwards) more than a second before the deadline the receiver chose itself.  A slow sender only makes the
   // stamp later (no verdict); a slow receiver still finds the notification pending and gets the Message, however late it runs.
   void LongTimed(bool force)
   {
      if (!force && !MayBlock()) { Poll(); return; }
      const long sentBefore = t._repliesSent.load(std::memory_order_relaxed), gotBefore = got;
      const uint64 deadline = GetRunTime64() + LONG_WAIT_MICROS;
      Note("owner in GetNextReplyFromInternalThread(now + 3 s), a reply is due");
      BeforeOwnerReceive();
      MessageRef rep; status_t s = t.GetNextReplyFromInternalThread(rep, deadline);
      g_block[ROLE_OWNER].store(0, std::memory_order_relaxed);
      nLongTimed++; if (!P.sockets && g_ownerPassedBlock && g_ownerStaleAtBlock) nStaleHist++;
      if (s.IsOK() && g_ownerPassedBlock && AnyUnreadyOwnerUserSocket()) nOwnerWakeupsUnready++;
      if (s.IsOK()) { HandleReply(rep); nLongTimedOk++; if (!g_ownerPassedBlock) nLongTimedAlreadyQueued++; }
      else if (s == B_TIMED_OUT) {
         lastRecvEmpty = true;
         const long sentNow = t._repliesSent.load(std::memory_order_relaxed); const uint64_t st = t.StampOf(gotBefore);
         if (sentBefore > gotBefore) { g_longTimedDisabled = true; Fail("timed_wait|timed_out_with_message_queued", vh::fmt("GetNextReplyFromInternalThread(now + 3 s) returned B_TIMED_OUT although %ld replies had been sent (SendMessageToOwner returned) and only %ld received before the call began", sentBefore, gotBefore)); }
         else if (!P.sockets && sentNow > gotBefore && st != 0 && st + LONG_WAIT_MARGIN_MICROS < deadline) { g_longTimedDisabled = true; Fail("timed_wait|timed_out_with_message_queued", vh::fmt("wait-condition Thread: GetNextReplyFromInternalThread(deadline) returned B_TIMED_OUT although the next reply (#%ld in sending order) was queued and announced %llu us before that deadline (its SendMessageToOwner had returned by then); stale notification pending when the owner blocked: %s", gotBefore + 1, (unsigned long long)(deadline - st), g_ownerStaleAtBlock ? "yes" : "no")); }
         else if (P.sockets) nLongTimedIdleSockets++;   // socket pair: an early return without a Message is legal (stale signal byte, interrupted select)
         else nLongTimedUnjudged++;
      }
      else if (s == B_IO_READY && nUs > 0) OwnerIoReady();
      else Fail("timed_wait|unexpected_status", std::string("GetNextReplyFromInternalThread(now + 3 s) returned ") + s());
   }
   void Block()
   {
      if (!MayBlock()) { Poll(); return; }
      BeforeOwnerReceive();
      Note("owner in GetNextReplyFromInternalThread(MUSCLE_TIME_NEVER)");
      MessageRef rep; status_t s = t.GetNextReplyFromInternalThread(rep, MUSCLE_TIME_NEVER);
      g_block[ROLE_OWNER].store(0, std::memory_order_relaxed);
      if (s.IsOK() && g_ownerPassedBlock && AnyUnreadyOwnerUserSocket()) nOwnerWakeupsUnready++;
      if (s.IsOK()) { HandleReply(rep); nBlockOk++; } else if (s == B_TIMED_OUT) { nBlockIdle++; lastRecvEmpty = true; Idle("GetNextReplyFromInternalThread(MUSCLE_TIME_NEVER)"); } else if (s == B_IO_READY && nUs > 0) OwnerIoReady(); else { Fail("blocking_wait|unexpected_status", std::string("GetNextReplyFromInternalThread(MUSCLE_TIME_NEVER) returned ") + s()); giveUp = true; }
   }
   // owner-side select-first (the way a ReflectServer owns a Thread): sound only when the owner's last dequeue attempt found the queue
   // empty, because then the next enqueue is an empty->non-empty transition and must signal
   void Select()
   {
      if (!MayBlock() || !P.sockets) { Block(); return; }
      while (!lastRecvEmpty && !bad) Poll();                // "poll until the queue is empty, then select"
      if (bad || !MayBlock()) return;
      const int fd = t.GetOwnerWakeupSocket().GetFileDescriptor();
      if (fd < 0) { Fail("owner_wakeup_socket|missing", "GetOwnerWakeupSocket() has no file descriptor while the internal thread is running"); giveUp = true; return; }
      Note("owner in untimed select on GetOwnerWakeupSocket()");
      SocketMultiplexer sm; (void)sm.RegisterSocketForReadReady(fd);
      g_block[ROLE_OWNER].store(1, std::memory_order_relaxed);
      io_status_t w = sm.WaitForEvents();
      g_block[ROLE_OWNER].store(0, std::memory_order_relaxed);
      if (w.IsError()) { Fail("owner_wakeup_socket|wait_error", std::string("WaitForEvents: ") + w.GetStatus()()); giveUp = true; return; }
      nSelect++; long n = 0;
      while (true) { MessageRef rep; status_t s = t.GetNextReplyFromInternalThread(rep, 0); if (s.IsOK()) { HandleReply(rep); n++; } else { if (s != B_TIMED_OUT) Fail("poll|unexpected_status", std::string("GetNextReplyFromInternalThread(0) returned ") + s()); break; } }
      lastRecvEmpty = true;
      if (n == 0) { nSelectIdle++; Idle("select on GetOwnerWakeupSocket() + poll"); }
   }

   // ---- user sockets in the Thread's socket sets
   void CreateUser(bool late)
   {
      if (nUs >= MAX_US || !P.sockets) return;
      const int side = r.R(2) ? US_OWNER : US_INTERNAL, set = (int)r.R(3);
      CreateUserWith(side, set, r.R(6), late);
   }
   void CreateUserWith(int side, int set, uint32_t st /* 0-2 never ready, 3 ready at the start, 4-5 toggling */, bool late)
   {
      if (nUs >= MAX_US || !P.sockets) return;
      UserSock & u = us[nUs];
      u.side = side; u.set = set; u.late = late;
      bool readyAtStart = (st == 3) || (st == 5); u.toggling = (st >= 3);
      if (u.side == US_INTERNAL && P.style != STYLE_MIXED) { readyAtStart = false; u.toggling = false; }   // only the mixed-waits loop of the harness handles B_IO_READY (see report: the default loop treats it as fatal)
      if (u.set == Thread::SOCKET_SET_EXCEPTION) { readyAtStart = false; u.toggling = false; }
      if (CreateConnectedSocketPair(u.mine, u.peer, false).IsError()) { fprintf(stderr, "HARNESS-ABORT: CreateConnectedSocketPair\n"); abort(); }
      u.fd = u.mine.GetFileDescriptor();
      { int sz = 4096; (void)setsockopt(u.mine.GetFileDescriptor(), SOL_SOCKET, SO_SNDBUF, &sz, sizeof(sz)); }
      if (readyAtStart) { if (u.set == Thread::SOCKET_SET_READ) MakeReady(u); else u.unready.store(0); } else MakeUnready(u);
      if (u.side == US_OWNER) { if (t.RegisterOwnerThreadSocket(u.mine, (uint32)u.set).IsError()) Fail("user_socket|register_failed", "RegisterOwnerThreadSocket failed"); }   // active stays 0: the internal thread never looks at an owner-side slot
      else u.active.store(1, std::memory_order_release);   // the next incarnation of the internal thread registers it
      nUs++;
   }
   bool AnyUnreadyOwnerUserSocket() const { for (int i = 0; i < nUs; i++) if (us[i].side == US_OWNER && us[i].unready.load(std::memory_order_relaxed)) return true; return false; }
   void OwnerIoReady()   // a wait ended early with B_IO_READY: legal when one of the owner's user sockets is ready; make it unready again
   {
      nIoReadyOwner++; lastRecvEmpty = true; bool any = false;
      for (int i = 0; i < nUs; i++) if (us[i].side == US_OWNER && t.IsOwnerThreadSocketReady(us[i].mine, (uint32)us[i].set)) { any = true; MakeUnready(us[i]); }
      if (!any) Fail("user_socket|io_ready_without_ready_socket", "GetNextReplyFromInternalThread returned B_IO_READY but IsOwnerThreadSocketReady() is false for every registered socket");
   }
   void ToggleUser()
   {
      if (nUs == 0) { sched_yield(); return; }
      UserSock & u = us[r.R((uint32_t)nUs)];
      if (u.side == US_OWNER && r.R(4) == 0) { if (t.UnregisterOwnerThreadSocket(u.mine, (uint32)u.set).IsError() || t.RegisterOwnerThreadSocket(u.mine, (uint32)u.set).IsError()) Fail("user_socket|register_failed", "Unregister/RegisterOwnerThreadSocket failed"); nReRegister++; }
      if (u.toggling && u.unready.load(std::memory_order_relaxed)) { MakeReady(u); nToggles++; }
   }
   void ClassifyUserFds()   // after the first start: where do the registered fds lie relative to the wake-up sockets
   {
      const int wi = t.InternalWakeupFd(), wo = t.GetOwnerWakeupSocket().GetFileDescriptor();
      for (int i = 0; i < nUs; i++) {
         const int w = (us[i].side == US_OWNER) ? wo : wi; if (us[i].fd < w) nUserBelow++; else nUserAbove++;
         if (us[i].fd < w && us[i].set != Thread::SOCKET_SET_READ && us[i].unready.load(std::memory_order_relaxed)) userLowerFdWriteExceptUnready = true;
      }
   }

   // ---- owner woken through the ICallbackMechanism.  Sound without any precondition on earlier direct receives: every empty->non-empty
   // transition of the reply queue requests a callback, a request either signals the primitive or finds one still owed, and the owner
   // consumes the primitive only here, always followed by a full dispatch.
   void OnCallbackReply(const MessageRef & m, uint32)
   {
      HandleReply(m); nCbReplies++;
      if (P.cbScript == 1 && replyLog.back().seq == 1 && nCbScriptFired == 0) {
         // witness: while the owner is inside the drain loop of Thread::DispatchCallbacks() the queue becomes empty and then non-empty again
         nCbScriptFired++; OwnerSend();
         Note("owner inside MessageReceivedFromInternalThread() waits (untimed) until the internal thread has sent the reply to #2");
         t.WaitUntilRepliedTo(2);
      }
      else if (P.cbScript == 0) { const uint32_t c = r.R(16); if (c < 2 && ownerSeq < P.perSender) { OwnerSend(); nCbSendsInside++; } else if (c < 4) sched_yield(); }
   }
   void DoDispatch()
   {
      const long before = got; mech.Dispatch(); nCbDispatch++;
      if (got == before) { nCbIdle++; if (MayBlock()) Idle("wait on the callback primitive + ICallbackMechanism::DispatchCallbacks()"); }
   }
   void TryDispatch() { if (!P.callback) { Poll(); return; } if (mech.TryConsume()) DoDispatch(); }
   void Callback()
   {
      if (!P.callback) { Block(); return; }
      if (!MayBlock()) { TryDispatch(); return; }
      Note("owner blocked (untimed) on the harness ICallbackMechanism's primitive");
      g_block[ROLE_OWNER].store(1, std::memory_order_relaxed);
      mech.WaitUntilSignalled(); nCbWaits++;
      g_block[ROLE_OWNER].store(0, std::memory_order_relaxed);
      DoDispatch();
   }
   void PollAny() { if (P.callback && P.cbPure) TryDispatch(); else Poll(); }
   void TimedAny() { if (P.callback && P.cbPure) TryDispatch(); else Timed(); }
   void DrainStep()
   {
      if (!P.callback) { const uint32_t c = r.R(10); if (c < 6) Block(); else if (c < 9) Select(); else Timed(); }
      else if (P.cbPure) Callback();
      else { const uint32_t c = r.R(10); if (c < 2) Block(); else if (c < 3) Select(); else if (c < 9) Callback(); else Timed(); }
   }

   // lifecycle (owner only; callers hold the exclusive lock)
   bool StartL()
   {
      status_t s = t.StartInternalThread();
      if (s.IsError()) { Fail("lifecycle|start_failed", std::string("StartInternalThread returned ") + s()); giveUp = true; return false; }
      running = true; tokenPending = false; nStarts++; return true;
   }
   void RequestL() { t.ShutdownInternalThread(false); tokenPending = true; ownerSeqAtToken.push_back(ownerSeq); }
   void JoinL()
   {
      Note("owner in WaitForInternalThreadToExit()");
      status_t s = t.WaitForInternalThreadToExit();
      if (s.IsError()) Fail("lifecycle|join_failed", std::string("WaitForInternalThreadToExit returned ") + s());
      running = false; tokenPending = false; AfterJoin();
   }
   void ShutdownJoinL()
   {
      ownerSeqAtToken.push_back(ownerSeq); tokenPending = true;
      Note("owner in ShutdownInternalThread(true)");
      t.ShutdownInternalThread(true);
      running = false; tokenPending = false; AfterJoin();
   }
   void AfterJoin()
   {
      // the internal thread is gone: its log may be read.  It leaves only on the token, and one token per request.
      t._ptidValid.store(0, std::memory_order_relaxed);
      if (t._waitError) { Fail("internal_wait|error", t._waitErrorText); return; }
      size_t tokens = 0; for (size_t i = 0; i < t._log.size(); i++) if (t._log[i] == LOG_TOKEN) tokens++;
      if (t._log.empty() || t._log.back() != LOG_TOKEN || tokens != ownerSeqAtToken.size()) Fail("lifecycle|exit_without_token", vh::fmt("after the join the internal thread's log holds %zu tokens for %zu shutdown requests (last entry %08x)", tokens, ownerSeqAtToken.size(), t._log.empty() ? 0u : t._log.back()));
   }

   void HelperMain(int id)
   {
      hookrt::set_role(ROLE_HELPER); hookrt::t_rng ^= (uint32_t)(P.cs >> 11) * 2u + (uint32_t)id * 7919u; if (hookrt::t_rng == 0) hookrt::t_rng = 1;
      vh::Rng hr(P.cs ^ (0xA5A5ULL * (uint64_t)id));
      int rush = 0;
      for (int i = 1; i <= P.perSender; i++) {
         pthread_rwlock_rdlock(&life);
         if (t.SendMessageToInternalThread(MakeMsg(WHAT_MSG, id, i)).IsError()) helperSendErrors.fetch_add(1, std::memory_order_relaxed);
         helperDue.fetch_add(NumReplies(P.replyMode, id, i), std::memory_order_relaxed);   // after the send returned: Due() never over-approximates
         helperSent.fetch_add(1, std::memory_order_relaxed);
         pthread_rwlock_unlock(&life);
         if (rush > 0) { rush--; continue; }
         const uint32_t c = hr.R(40);
         if (c < 12) sched_yield(); else if (c < 15) usleep(hr.R(250)); else if (c == 15) rush = 3 + hr.R(10);
      }
      helpersDone.fetch_add(1, std::memory_order_relaxed);
   }
   static void HelperEntry(Scenario * s, int id) { s->HelperMain(id); }

   // fault dimension: SIGUSR1 (no-op handler, no SA_RESTART) thrown at the internal thread / the owner, preferably while it is at its blocking
   // point.  Bounded (a few signals, a bounded number of looks), so that it cannot keep a deadlocked process "running" for the driver.
   void SignallerMain()
   {
      hookrt::set_role(ROLE_SIGNALLER);
      vh::Rng sr(P.cs ^ 0x5167ULL);
      int toSend = 3 + (int)sr.R(6), budget = 3000;
      while (toSend > 0 && budget-- > 0 && !sigStop.load(std::memory_order_relaxed)) {
         const int target = (P.sigTarget == 2) ? (sr.R(2) ? ROLE_OWNER : ROLE_INTERNAL) : (P.sigTarget == 1) ? ROLE_OWNER : ROLE_INTERNAL;
         const bool atBlock = g_block[target].load(std::memory_order_relaxed) == 1;
         if (atBlock || sr.R(200) == 0) {
            if (atBlock) usleep(30 + sr.R(200));      // from the hook into the wait call
            pthread_rwlock_rdlock(&life);              // the owner joins the internal thread only under the exclusive lock: the id stays valid in here
            const bool still = g_block[target].load(std::memory_order_relaxed) == 1; bool sent = false;
            if (target == ROLE_OWNER) { pthread_kill(g_ownerTid, SIGUSR1); sent = true; }
            else if (t._ptidValid.load(std::memory_order_acquire)) { pthread_kill((pthread_t)t._ptid.load(std::memory_order_relaxed), SIGUSR1); sent = true; }
            pthread_rwlock_unlock(&life);
            if (sent) { toSend--; if (atBlock && still) (target == ROLE_OWNER ? sigBlockedOwner : sigBlockedInternal).fetch_add(1, std::memory_order_relaxed); else sigElsewhere.fetch_add(1, std::memory_order_relaxed); }
            usleep(sr.R(400));
         }
         else if (sr.R(4) == 0) usleep(10 + sr.R(40)); else sched_yield();
      }
   }
   static void SignallerEntry(Scenario * s) { s->SignallerMain(); }
   void StopSignaller() { if (signallerStarted) { sigStop.store(1, std::memory_order_relaxed); Note("owner joins the signaller thread"); signaller.join(); signallerStarted = false; } }

   void Restart()
   {
      nRestarts++;
      const int v = r.R(4), q1 = r.R(4), q2 = r.R(3);
      switch (v) {
      case 0:   // shutdown+join in one call, Messages queued while stopped, start
         Lock(); ShutdownJoinL(); for (int i = 0; i < q1; i++) OwnerSend(); if (r.R(2)) PollAny(); StartL(); Unlock(); break;
      case 1:   // request; owner (and helpers) keep sending behind the token; join; more Messages while stopped; start
         Lock(); RequestL(); Unlock();
         for (int i = 0; i < q1; i++) { OwnerSend(); if (r.R(3) == 0) PollAny(); else if (r.R(4) == 0) TimedAny(); }
         Lock(); JoinL(); for (int i = 0; i < q2; i++) OwnerSend(); StartL(); Unlock(); break;
      case 2:   // request, sends, join, start -- all inside one exclusive section
         Lock(); RequestL(); for (int i = 0; i < q1; i++) OwnerSend(); JoinL(); StartL(); Unlock(); break;
      default:  // stay down for a while: helpers send into the stopped object, the owner polls the replies that are left
         Lock(); ShutdownJoinL(); Unlock();
         for (int i = 0, n = 2 + r.R(12); i < n; i++) { const uint32_t c = r.R(4); if (c == 0) OwnerSend(); else if (c == 1) PollAny(); else sched_yield(); }
         Lock(); StartL(); Unlock(); break;
      }
   }

   void Run()
   {
      for (int i = 0; i < P.pre; i++) OwnerSend();      // queued before the first start
      nPre = P.pre;
      const int nLate = P.nUser ? (int)r.R((uint32_t)P.nUser + 1) / 2 : 0;
      for (int i = 0; i < P.nUser - nLate; i++) CreateUser(false);      // before the Thread allocates its socket pair: lower fds
      Lock(); const bool ok = StartL(); Unlock();
      if (ok) {
         for (int i = 0; i < nLate; i++) CreateUser(true);               // after: higher fds (internal-side ones are registered by the next incarnation)
         if (P.sockets) ClassifyUserFds();
         for (int h = 1; h <= P.nHelpers; h++) helpers.push_back(std::thread(HelperEntry, this, h));
         if (P.signals) { signaller = std::thread(SignallerEntry, this); signallerStarted = true; }
         int restartsLeft = P.maxRestarts;
         // about one restart per (quota / (maxRestarts+1)) owner sends, so that restarts are spread over the run
         const int restartEvery = P.maxRestarts ? (P.perSender / (P.maxRestarts + 1)) + 1 : 0; int nextRestartAt = restartEvery;
         while (!giveUp && (ownerSeq < P.perSender || helpersDone.load(std::memory_order_relaxed) < P.nHelpers)) {
            const uint32_t c = r.R(100);
            if (restartsLeft > 0 && ownerSeq >= nextRestartAt) { restartsLeft--; nextRestartAt += restartEvery; Restart(); }
            else if (c < 35) { if (ownerSeq < P.perSender) OwnerSend(); else sched_yield(); }
            else if (P.callback && P.cbPure) { if (c < 50) TryDispatch(); else if (c < 80) Callback(); else if (c < 86 && nUs > 0) ToggleUser(); else sched_yield(); }
            else if (P.callback && c >= 62 && c < 80) { if (c < 66) Block(); else if (c < 68) Select(); else if (c < 78) Callback(); else TryDispatch(); }
            else if (c < 52) Poll();
            else if (c < 62) Timed();
            else if (c < 74) Block();
            else if (c < 80) Select();
            else if (c < 81 && r.R(6) == 0 && P.maxRestarts > 0) Restart();
            else if (c < 86 && nUs > 0) ToggleUser();
            else sched_yield();
         }
         Note("owner joins the helper threads");
         for (size_t i = 0; i < helpers.size(); i++) helpers[i].join();
         if (helperSendErrors.load() > 0) Fail("send|error", vh::fmt("%ld helper SendMessageToInternalThread calls failed", helperSendErrors.load()));
         // every reply must now arrive: untimed waits, so that a lost wake-up is a provable hang and nothing else
         while (!giveUp && got < Due()) DrainStep();
         if (running) { Lock(); ShutdownJoinL(); Unlock(); }
         if (P.epilogue && !giveUp) {
            // a used, stopped object: Messages queued now must be delivered by the next start (sockets were closed by the join)
            const int q = 1 + r.R(3); for (int i = 0; i < q; i++) OwnerSend();
            Lock(); const bool ok2 = StartL(); Unlock();
            if (ok2) { while (!giveUp && got < Due()) DrainStep(); Lock(); ShutdownJoinL(); Unlock(); }
         }
         { MessageRef extra; status_t s = t.GetNextReplyFromInternalThread(extra, 0); if (s.IsOK()) HandleReply(extra); }   // one more than due -> the checker below says duplicate/not_sent
      }
      else for (size_t i = 0; i < helpers.size(); i++) helpers[i].join();
      StopSignaller();
      FinalCheck();
   }

   std::string TailOfInternalLog(size_t n)
   {
      std::string s = "tail of the internal thread's log:"; const std::vector<uint32_t> & L = t._log;
      for (size_t i = L.size() > n ? L.size() - n : 0; i < L.size(); i++) s += (L[i] == LOG_TOKEN) ? " TOKEN" : (L[i] == LOG_INVALID) ? " INVALID" : vh::fmt(" %u#%u", L[i] >> 24, L[i] & 0xFFFFFF);
      return s;
   }
   std::string TailOfReplyLog(size_t n)
   {
      std::string s = "tail of the owner's reply log:";
      for (size_t i = replyLog.size() > n ? replyLog.size() - n : 0; i < replyLog.size(); i++) s += vh::fmt(" %d#%d.%d", replyLog[i].snd, replyLog[i].seq, replyLog[i].b);
      return s;
   }

   void FinalCheck()
   {
      if (bad || running) return;
      if (t._sendError) { Fail("send|error", "SendMessageToOwner failed"); return; }
      const int nS = P.nHelpers + 1;
      std::vector<int> sent((size_t)nS, P.perSender); sent[0] = ownerSeq;
      // (1) what the internal thread saw: per sender exactly #1..#n in order; the owner's stream includes the shutdown tokens
      std::vector<std::vector<int> > per((size_t)nS); size_t epoch = 0;
      for (size_t i = 0; i < t._log.size(); i++) {
         const uint32_t e = t._log[i];
         if (e == LOG_TOKEN) { epoch++; continue; }
         if (e == LOG_INVALID || (int)(e >> 24) >= nS) { Fail("recv_internal|not_sent", vh::fmt("arrival %zu at the internal thread is not a Message of this scenario (%08x); ", i, e) + TailOfInternalLog(30)); return; }
         const int snd = (int)(e >> 24), seq = (int)(e & 0xFFFFFF);
         per[snd].push_back(seq);
         if (snd == 0 && !bad) {
            const int lo = epoch ? ownerSeqAtToken[epoch - 1] : 0, hi = epoch < ownerSeqAtToken.size() ? ownerSeqAtToken[epoch] : -1;
            if (hi < 0 || seq > hi || seq <= lo) { Fail("recv_internal|order_vs_shutdown_token", vh::fmt("owner Message #%d was received after %zu shutdown tokens, but the owner sent token %zu after #%d and token %zu after #%d; ", seq, epoch, epoch, lo, epoch + 1, hi) + TailOfInternalLog(40)); return; }
         }
      }
      for (int s = 0; s < nS; s++) {
         std::string why; const std::string c = Classify(per[s], sent[s], why);
         if (!c.empty()) { Fail("recv_internal|" + c, vh::fmt("Messages of sender %d at the internal thread: ", s) + why + "; " + TailOfInternalLog(40)); return; }
      }
      // (2) what the owner saw: per sender exactly the replies due, in order
      std::vector<std::vector<int> > pre((size_t)nS), ord((size_t)nS);
      for (int s = 0; s < nS; s++) { pre[s].assign((size_t)sent[s] + 2, 0); for (int q = 1; q <= sent[s]; q++) pre[s][q + 1] = pre[s][q] + NumReplies(P.replyMode, s, q); }
      for (size_t i = 0; i < replyLog.size(); i++) {
         const Rep & e = replyLog[i];
         if (e.snd < 0 || e.snd >= nS || e.seq < 1 || e.seq > sent[e.snd] || e.b < 0 || e.b >= NumReplies(P.replyMode, e.snd, e.seq)) { Fail("reply|not_sent", vh::fmt("reply %zu at the owner (%d#%d.%d) is not one the internal thread sends in this scenario; ", i, e.snd, e.seq, e.b) + TailOfReplyLog(30)); return; }
         ord[e.snd].push_back(pre[e.snd][e.seq] + e.b + 1);
      }
      for (int s = 0; s < nS; s++) {
         std::string why; const std::string c = Classify(ord[s], pre[s][sent[s] + 1], why);
         if (!c.empty()) { Fail("reply|" + c, vh::fmt("replies for sender %d at the owner (numbered in sending order): ", s) + why + "; " + TailOfReplyLog(40)); return; }
      }
   }
};

void EchoThread::MessageReceivedFromInternalThread(const MessageRef & m, uint32 numLeft) { if (_sink) _sink->OnCallbackReply(m, numLeft); }

static void Publish(Scenario & sc, const long * hits0, const long * delays0)
{
   const Params & P = sc.P;
   long blockHits = 0;
   for (int i = 0; i < 5; i++) {
      const long h = hookrt::hits(SITES[i]) - hits0[i], d = hookrt::delays(SITES[i]) - delays0[i];
      vh::stat(std::string("hits_") + hookrt::site_name(SITES[i]), h); vh::stat(std::string("delays_") + hookrt::site_name(SITES[i]), d);
      if (SITES[i] == MVH_THREAD_WAIT_BEFORE_BLOCK) blockHits = h;
   }
   vh::stat(P.sockets ? "cases_socketpair" : "cases_waitcondition"); vh::stat(std::string("cases_style_") + StyleName(P.style)); vh::stat(std::string("cases_reply_") + ReplyName(P.replyMode));
   vh::stat(vh::fmt("cases_helpers_%d", P.nHelpers));
   const long sent = sc.ownerSeq + sc.helperSent.load(); long recvInt = 0, tokens = 0; for (size_t i = 0; i < sc.t._log.size(); i++) { if (sc.t._log[i] == LOG_TOKEN) tokens++; else recvInt++; }
   vh::stat("msgs_sent", sent); vh::stat("msgs_received_by_internal_thread", recvInt); vh::stat("replies_received_by_owner", (long)sc.replyLog.size()); vh::stat("shutdown_tokens_received", tokens);
   vh::stat("msgs_queued_before_first_start", sc.nPre); vh::stat("msgs_sent_after_shutdown_request", sc.nSentAfterRequest); vh::stat("msgs_sent_while_stopped", sc.nSentWhileStopped);
   vh::stat("replies_collected_while_stopped", sc.nRepliesWhileStopped);
   vh::stat("restarts", sc.nRestarts); vh::stat("starts", sc.nStarts);
   vh::stat("owner_poll_ok", sc.nPollOk); vh::stat("owner_poll_empty", sc.nPollEmpty); vh::stat("owner_timed_ok", sc.nTimedOk); vh::stat("owner_timed_out", sc.nTimedOut);
   vh::stat("owner_untimed_wait_ok", sc.nBlockOk); vh::stat("owner_untimed_wait_idle_return", sc.nBlockIdle); vh::stat("owner_select_wakeups", sc.nSelect); vh::stat("owner_select_idle_wakeup", sc.nSelectIdle);
   vh::stat("internal_idle_wakeups", sc.t._idleWakeups); vh::stat("unspecified_timed_wait_on_stopped_thread_polled_instead", sc.nUnspecTimedStopped);
   if (P.callback) {
      vh::stat(P.cbPure ? "cases_owner_callback_only" : "cases_owner_callback_and_direct"); vh::stat(P.sockets ? "cases_callback_socketpair" : "cases_callback_waitcondition");
      vh::stat("callback_dispatches", sc.nCbDispatch); vh::stat("callback_untimed_waits", sc.nCbWaits); vh::stat("callback_idle_dispatches", sc.nCbIdle); vh::stat("replies_via_callback", sc.nCbReplies);
      vh::stat("callback_signals_from_other_threads", sc.mech._signalsFromOthers.load()); vh::stat("callbacks_requested_during_drain", sc.mech._signalsDuringDispatch.load());
      vh::stat("callback_resignals_by_dispatcher", sc.mech._signalsFromDispatcher.load()); vh::stat("msgs_sent_from_inside_callback", sc.nCbSendsInside);
   }
   if (P.signals) {
      vh::stat("cases_with_signals"); vh::stat(P.sockets ? "cases_with_signals_socketpair" : "cases_with_signals_waitcondition");
      vh::stat("signals_delivered_to_blocked_internal_thread", sc.sigBlockedInternal.load()); vh::stat("signals_delivered_to_blocked_owner_thread", sc.sigBlockedOwner.load()); vh::stat("signals_delivered_elsewhere", sc.sigElsewhere.load());
   }
   if (sc.nUs > 0) {
      vh::stat("cases_with_user_sockets"); vh::stat("user_sockets_registered", sc.nUs); vh::stat("user_sockets_fd_below_wakeup_socket", sc.nUserBelow); vh::stat("user_sockets_fd_above_wakeup_socket", sc.nUserAbove);
      for (int i = 0; i < sc.nUs; i++) vh::stat(std::string("user_socket_") + (sc.us[i].side == US_OWNER ? "owner_" : "internal_") + (sc.us[i].set == 0 ? "read" : sc.us[i].set == 1 ? "write" : "except") + (sc.us[i].toggling ? "_toggling" : "_never_ready"));
      if (sc.userLowerFdWriteExceptUnready) vh::stat("cases_with_user_socket_in_write_or_except_set_lower_fd_not_ready");
      vh::stat("wakeups_for_message_with_unready_user_sockets", sc.nOwnerWakeupsUnready + sc.t._wakeupsWithUnreadyUserSockets);
      vh::stat("wakeups_for_message_with_unready_user_sockets_internal_thread", sc.t._wakeupsWithUnreadyUserSockets); vh::stat("wakeups_for_message_with_unready_user_sockets_owner", sc.nOwnerWakeupsUnready);
      vh::stat("early_wakeups_by_ready_user_socket_owner", sc.nIoReadyOwner); vh::stat("early_wakeups_by_ready_user_socket_internal_thread", sc.t._ioReadyWakeups);
      vh::stat("user_socket_toggles_to_ready", sc.nToggles); vh::stat("user_socket_unregister_reregister", sc.nReRegister); vh::stat("user_socket_registrations_by_internal_thread", sc.t._userSocksRegistered);
   }
   vh::stat("long_timed_waits", sc.nLongTimed); vh::stat("long_timed_waits_ok", sc.nLongTimedOk); vh::stat("timed_waits_started_with_message_already_queued", sc.nLongTimedAlreadyQueued + sc.nTimedAlreadyQueued);
   vh::stat("stale_notification_histories", sc.nStaleHist); vh::stat("long_timed_wait_timeouts_unjudged", sc.nLongTimedUnjudged); vh::stat("long_timed_wait_early_returns_socketpair", sc.nLongTimedIdleSockets);
   if (sc.P.epilogue) vh::stat("cases_with_epilogue_start");
   vh::statmax("max_msgs_in_a_case", sent);
   // non-trivial: Messages were exchanged and at least one receiver reached the point of blocking on an empty queue, or the owner blocked on
   // the callback mechanism's primitive (a wake-up was needed)
   vh::distinct(hookrt::order_signature() ^ vh::mix64(P.cs), sent >= 20 && (blockHits > 0 || sc.nCbWaits > 0));
   if (vh::want_sample()) vh::sample(vh::fmt("case %ld: ", P.k) + P.Show() + " | " + sc.State());
}

static void RunCase(long k, uint64_t seed)
{
   Params P; P.k = k; P.cs = vh::case_seed(seed, 11, (uint64_t)k);
   vh::Rng g(P.cs);
   const int pl = vh::has_opt("pl") ? (int)vh::optl("pl") % NPL : (int)(k % NPL);
   const int combo = vh::has_opt("combo") ? (int)vh::optl("combo") % NCOMBO : (int)((k / NPL) % NCOMBO);
   P.sockets = COMBO[combo].sockets; P.style = COMBO[combo].style; P.callback = COMBO[combo].callback;
   P.nHelpers = g.R(4); P.replyMode = (int)g.R(8); if (P.replyMode > 3) P.replyMode = (P.replyMode & 1) ? REPLY_BURST : REPLY_ECHO;
   P.pre = g.R(2) ? 1 + g.R(4) : 0; P.maxRestarts = g.R(3) ? g.R(4) : 0; P.epilogue = (g.R(4) == 0); P.cbPure = P.callback && g.R(2); P.signals = (g.R(3) == 0); P.sigTarget = (int)g.R(3); P.nUser = (P.sockets && g.R(3) != 0) ? 1 + (int)g.R(3) : 0;
   const long target = vh::optl("msgs", 200); const int total = (int)(target / 2 + g.R((uint32_t)target));
   // ---- arm the placement of this case (no muscle thread is running now)
   hookrt::disarm_all(); hookrt::reset_ring();
   int armedSR[3] = { -1, -1, -1 };
   if (pl < 27) { armedSR[0] = pl / 3; P.placement = ArmOne(0, armedSR[0], pl % 3, g); vh::stat(std::string("pl_") + (P.sockets ? "sock." : "wcond.") + SR[armedSR[0]].name); vh::stat(std::string("pl_kind_") + KindName(pl % 3)); }
   else if (pl == PL_NONE) { P.placement = "none"; vh::stat("pl_none"); }
   else if (pl == PL_JITTER_LIGHT) { hookrt::jitter(8, 100); P.placement = "jitter 1in8 <100us"; vh::stat("pl_jitter"); }
   else if (pl == PL_JITTER_HEAVY) { hookrt::jitter(2, 400); P.placement = "jitter 1in2 <400us"; vh::stat("pl_jitter"); }
   else { const int n = (pl == PL_PAIR) ? 2 : 3; for (int i = 0; i < n; i++) { armedSR[i] = g.R(9); P.placement += (i ? " + " : "") + ArmOne(i, armedSR[i], g.R(3), g); } vh::stat(n == 2 ? "pl_pair" : "pl_triple"); }
   // make sure the armed placement is passed in this scenario
   for (int i = 0; i < 3; i++) if (armedSR[i] >= 0) {
      const SiteRole & s = SR[armedSR[i]];
      if (s.role == ROLE_HELPER && P.nHelpers == 0) P.nHelpers = 1 + g.R(3);
      if (s.site == MVH_THREAD_SEND_AFTER_ENQUEUE && s.role == ROLE_INTERNAL && (P.replyMode == REPLY_NONE || P.replyMode == REPLY_SPARSE)) P.replyMode = g.R(2) ? REPLY_BURST : REPLY_ECHO;
      if (s.site == MVH_THREAD_WAIT_AFTER_DRAIN && s.role == ROLE_OWNER && P.replyMode == REPLY_NONE) P.replyMode = REPLY_BURST;
      if (s.site == MVH_THREAD_WAIT_BEFORE_BLOCK && s.role == ROLE_OWNER && P.replyMode == REPLY_NONE) P.replyMode = REPLY_ECHO;
      if (s.site == MVH_THREAD_WAIT_BEFORE_BLOCK && s.role == ROLE_OWNER && P.cbPure) P.cbPure = false;   // a callback-only owner never reaches that window
      if (s.site == MVH_THREAD_INTERNAL_ENTRY || s.site == MVH_THREAD_INTERNAL_EXIT) { if (P.maxRestarts < 2) P.maxRestarts = 2 + g.R(2); if (P.pre == 0) P.pre = 1 + g.R(3); }
   }
   if (P.callback && P.replyMode == REPLY_NONE) P.replyMode = REPLY_BURST;   // nothing would ever wake the owner
   P.perSender = total / (1 + P.nHelpers); if (P.perSender < 4) P.perSender = 4;
   long hits0[5], delays0[5]; for (int i = 0; i < 5; i++) { hits0[i] = hookrt::hits(SITES[i]); delays0[i] = hookrt::delays(SITES[i]); }
   hookrt::set_role(ROLE_OWNER); hookrt::t_rng ^= (uint32_t)(P.cs >> 3) * 2u; if (hookrt::t_rng == 0) hookrt::t_rng = 1;
   Scenario sc(P);
   sc.Run();
   hookrt::disarm_all();
   Publish(sc, hits0, delays0);
}

// ---- fixed tiny scenarios (deterministic in what is sent; the interleaving is the OS's) and documentation examples of Thread.h
static void DrainAllDue(Scenario & sc, bool useSelect) { while (!sc.giveUp && sc.got < sc.Due()) { if (sc.P.callback) sc.Callback(); else if (useSelect) sc.Select(); else sc.Block(); } }
static void Regress()
{
   hookrt::disarm_all(); hookrt::set_role(ROLE_OWNER);
   long kase = 0;
   for (int combo = 0; combo < NCOMBO; combo++) {
      Params P; P.sockets = COMBO[combo].sockets; P.style = COMBO[combo].style; P.callback = P.cbPure = COMBO[combo].callback; P.cbScript = 2 /* nothing random inside callbacks */; P.replyMode = REPLY_ECHO; P.perSender = 0; P.placement = "none";
      {  // Messages queued before the start are delivered once it starts (select-first style: only through the initial signal)
         vh::begin_case(kase); P.k = kase++; P.cs = 100 + combo; Scenario sc(P);
         for (int i = 0; i < 3; i++) sc.OwnerSend();
         sc.Lock(); sc.StartL(); sc.Unlock(); DrainAllDue(sc, false); sc.Lock(); sc.ShutdownJoinL(); sc.Unlock(); sc.FinalCheck();
         if (!sc.bad && P.callback && sc.nCbReplies != 3) sc.Fail("regress|callback_delivery", vh::fmt("%ld of 3 replies came through MessageReceivedFromInternalThread()", sc.nCbReplies));
         if (!sc.bad && (sc.t._log.size() != 4 || sc.replyLog.size() != 3)) sc.Fail("regress|prequeued", "3 Messages queued before StartInternalThread: " + sc.TailOfInternalLog(10));
         vh::distinct(1000 + kase);
      }
      {  // Messages sent after the shutdown request stay queued behind the token and are delivered by the next start, in order
         vh::begin_case(kase); P.k = kase++; P.cs = 200 + combo; Scenario sc(P);
         sc.Lock(); sc.StartL(); sc.Unlock(); sc.OwnerSend(); sc.OwnerSend();
         sc.Lock(); sc.RequestL(); sc.OwnerSend(); sc.OwnerSend(); sc.JoinL(); sc.Unlock();
         const bool firstOk = sc.t._log.size() == 3 && sc.t._log[2] == LOG_TOKEN;   // #1 #2 TOKEN, and #3 #4 not yet
         if (!sc.bad && !firstOk) sc.Fail("regress|behind_token", "after send 1,2, shutdown request, send 3,4, join: " + sc.TailOfInternalLog(10));
         sc.Lock(); sc.StartL(); sc.Unlock(); DrainAllDue(sc, false); sc.Lock(); sc.ShutdownJoinL(); sc.Unlock(); sc.FinalCheck();
         if (!sc.bad && (sc.t._log.size() != 6 || sc.replyLog.size() != 4)) sc.Fail("regress|behind_token", "after the restart: " + sc.TailOfInternalLog(10));
         vh::distinct(1000 + kase);
      }
      {  // replies left in the owner's queue across a restart are announced again (owner blocks in select, not in a dequeue)
         vh::begin_case(kase); P.k = kase++; P.cs = 300 + combo; Scenario sc(P);
         sc.Lock(); sc.StartL(); sc.Unlock(); for (int i = 0; i < 3; i++) sc.OwnerSend();
         sc.Lock(); sc.ShutdownJoinL(); sc.StartL(); sc.Unlock();
         DrainAllDue(sc, true); sc.Lock(); sc.ShutdownJoinL(); sc.Unlock(); sc.FinalCheck();
         if (!sc.bad && sc.replyLog.size() != 3) sc.Fail("regress|replies_across_restart", sc.TailOfReplyLog(10));
         vh::distinct(1000 + kase);
      }
      {  // documentation of Thread.h
         vh::begin_case(kase); P.k = kase++; P.cs = 400 + combo; Scenario sc(P);
         if (!P.sockets) {   // "If the Thread object was constructed with (useMessagingSockets==false), then this method will always error out and return B_BAD_OBJECT with no side effects"
            ConstSocketRef a, b; if (CreateConnectedSocketPair(a, b, false).IsError()) { fprintf(stderr, "HARNESS-ABORT: CreateConnectedSocketPair\n"); abort(); }
            if (sc.t.RegisterOwnerThreadSocket(a, Thread::SOCKET_SET_READ) != B_BAD_OBJECT || sc.t.TryRegisterInternal(b, Thread::SOCKET_SET_WRITE) != B_BAD_OBJECT || sc.t.GetOwnerThreadSocketSet(Thread::SOCKET_SET_READ).HasItems()) sc.Fail("docex|RegisterThreadSocket", "a wait-condition Thread is documented to reject socket registration with B_BAD_OBJECT and no side effects");
            vh::stat("regress_waitcondition_rejects_user_sockets");
         }
         if (sc.t.WaitForInternalThreadToExit() != B_BAD_OBJECT) sc.Fail("docex|WaitForInternalThreadToExit", "documented: B_BAD_OBJECT if the internal thread wasn't running");
         sc.t.ShutdownInternalThread();   // "If the internal thread isn't running, this method is a no-op": in particular it must not queue a token
         if (sc.t.IsInternalThreadRunning()) sc.Fail("docex|IsInternalThreadRunning", "true before the first start");
         sc.OwnerSend(); sc.Lock(); sc.StartL(); sc.Unlock();
         if (!sc.t.IsInternalThreadRunning()) sc.Fail("docex|IsInternalThreadRunning", "false after StartInternalThread() returned B_NO_ERROR");
         if (sc.t.StartInternalThread().IsOK()) sc.Fail("docex|StartInternalThread", "second StartInternalThread() while running returned B_NO_ERROR");
         DrainAllDue(sc, false);
         { MessageRef m; if (sc.t.GetNextReplyFromInternalThread(m, 0) != B_TIMED_OUT) sc.Fail("docex|GetNextReplyFromInternalThread", "poll of an empty reply queue is documented to return B_TIMED_OUT"); }
         { MessageRef m; if (sc.t.GetNextReplyFromInternalThread(m, 1) != B_TIMED_OUT) sc.Fail("docex|GetNextReplyFromInternalThread", "a wakeupTime in the past is documented to be a non-blocking poll"); }
         sc.Lock(); sc.RequestL(); sc.Unlock();
         if (!sc.t.IsInternalThreadRunning()) sc.Fail("docex|IsInternalThreadRunning", "documented: considered running until WaitForInternalThreadToExit() returns");
         sc.Lock(); sc.JoinL(); sc.Unlock();
         if (sc.t.IsInternalThreadRunning()) sc.Fail("docex|IsInternalThreadRunning", "true after WaitForInternalThreadToExit()");
         sc.FinalCheck();
         if (!sc.bad && sc.t._log.size() != 2) sc.Fail("docex|ShutdownInternalThread", "ShutdownInternalThread() on a stopped Thread is documented as a no-op: " + sc.TailOfInternalLog(10));
         vh::distinct(1000 + kase);
      }
      if (P.callback) {
         // a reply is enqueued and a callback requested while the owner is in the middle of the drain loop of Thread::DispatchCallbacks();
         // afterwards the owner must still be woken for the next reply (a request that was dropped or left half-served strands it)
         vh::begin_case(kase); P.k = kase++; P.cs = 500 + combo; P.cbScript = 1; Scenario sc(P); sc.t._announce = true;
         sc.Lock(); sc.StartL(); sc.Unlock(); sc.OwnerSend(); DrainAllDue(sc, false);      // #1; its callback sends #2 and waits until the reply to #2 is queued
         if (!sc.bad && (sc.nCbScriptFired != 1 || sc.got != 2)) sc.Fail("regress|callback_request_during_drain", "the scripted send from inside MessageReceivedFromInternalThread() did not happen as planned: " + sc.TailOfReplyLog(10));
         sc.OwnerSend(); DrainAllDue(sc, false);                                            // #3: needs a fresh wake-up through the mechanism
         sc.Lock(); sc.ShutdownJoinL(); sc.Unlock(); sc.FinalCheck();
         if (!sc.bad && (sc.replyLog.size() != 3 || sc.nCbReplies != 3)) sc.Fail("regress|callback_request_during_drain", vh::fmt("%ld of 3 replies came through MessageReceivedFromInternalThread(); ", sc.nCbReplies) + sc.TailOfReplyLog(10));
         vh::stat("regress_callback_request_during_drain_witnesses"); vh::stat("regress_callback_requests_signalled_during_drain", sc.mech._signalsDuringDispatch.load());
         vh::distinct(1000 + kase); P.cbScript = 2;
      }
      if (!P.callback) {
         // C11-5 class: a handled signal (no-op handler) that lands on the internal thread while it is blocked waiting for the next Message must not
         // end the conversation; the same for the owner blocked in GetNextReplyFromInternalThread(MUSCLE_TIME_NEVER)
         vh::begin_case(kase); P.k = kase++; P.cs = 600 + combo; Scenario sc(P); sc.t._announce = true;
         sc.Lock(); sc.StartL(); sc.Unlock(); sc.OwnerSend(); DrainAllDue(sc, false);          // #1 echoed; the internal thread goes back to its wait
         long atInternal = 0, atOwner = 0;
         for (int round = 0; round < 3; round++) {
            long spins = 0; while (g_block[ROLE_INTERNAL].load(std::memory_order_relaxed) != 1 && spins++ < 20000000) sched_yield();   // a running thread reaches its blocking point; bounded look
            if (g_block[ROLE_INTERNAL].load(std::memory_order_relaxed) == 1 && sc.t._ptidValid.load()) { usleep(3000); pthread_kill((pthread_t)sc.t._ptid.load(), SIGUSR1); atInternal++; usleep(1000); }
         }
         for (int i = 0; i < 3; i++) sc.OwnerSend();
         DrainAllDue(sc, false);                                                               // #2..#4 must still be answered
         // owner side: the reply to #5 is held back until a helper has thrown the signal at the owner blocked in the untimed wait
         sc.t.CloseGateFor(sc.ownerSeq + 1); sc.OwnerSend();
         EchoThread * et = &sc.t; long * ao = &atOwner;
         std::thread thrower([et, ao]() {
            hookrt::set_role(ROLE_SIGNALLER);
            for (int round = 0; round < 2; round++) {
               long spins = 0; while (g_block[ROLE_OWNER].load(std::memory_order_relaxed) != 1 && spins++ < 20000000) sched_yield();
               if (g_block[ROLE_OWNER].load(std::memory_order_relaxed) == 1) { usleep(3000); pthread_kill(g_ownerTid, SIGUSR1); (*ao)++; usleep(1000); }
            }
            et->OpenGate();
         });
         DrainAllDue(sc, false);
         thrower.join();
         sc.Lock(); sc.ShutdownJoinL(); sc.Unlock(); sc.FinalCheck();
         if (!sc.bad && (sc.replyLog.size() != 5 || sc.t._log.size() != 6)) sc.Fail("regress|signal_at_blocked_thread", sc.TailOfInternalLog(10) + "; " + sc.TailOfReplyLog(10));
         vh::stat("regress_signal_witnesses"); vh::stat("regress_signals_at_blocked_internal_thread", atInternal); vh::stat("regress_signals_at_blocked_owner_thread", atOwner);
         vh::distinct(1000 + kase);
      }
      if (!P.callback && P.sockets) {
         // C11-7 class: a backed-up (never writable) user socket in SOCKET_SET_WRITE, created before the Thread's socket pair (lower fd), must not
         // keep a Message from waking the blocked internal thread; the same for the owner with a user socket in SOCKET_SET_EXCEPTION
         vh::begin_case(kase); P.k = kase++; P.cs = 800 + combo; Scenario sc(P); sc.t._announce = true;
         sc.CreateUserWith(US_INTERNAL, Thread::SOCKET_SET_WRITE, 0, false); sc.CreateUserWith(US_OWNER, Thread::SOCKET_SET_EXCEPTION, 0, false);
         sc.Lock(); sc.StartL(); sc.Unlock(); sc.ClassifyUserFds();
         for (int i = 0; i < 5; i++) {
            long spins = 0; while (g_block[ROLE_INTERNAL].load(std::memory_order_relaxed) != 1 && spins++ < 20000000) sched_yield();   // the internal thread is at its blocking point
            usleep(2000); sc.OwnerSend(); DrainAllDue(sc, false);
         }
         sc.t.CloseGateFor(sc.ownerSeq + 1); sc.OwnerSend();
         EchoThread * et = &sc.t;
         std::thread opener([et]() {
            hookrt::set_role(ROLE_SIGNALLER);
            long spins = 0; while (g_block[ROLE_OWNER].load(std::memory_order_relaxed) != 1 && spins++ < 20000000) sched_yield();   // the owner is at its blocking point
            usleep(2000); et->OpenGate();
         });
         DrainAllDue(sc, false);
         opener.join();
         sc.Lock(); sc.ShutdownJoinL(); sc.Unlock(); sc.FinalCheck();
         if (!sc.bad && (sc.replyLog.size() != 6 || sc.nUserBelow != 2)) sc.Fail("regress|user_socket_lower_fd", vh::fmt("%ld of 2 user sockets have an fd below the wake-up socket; ", sc.nUserBelow) + sc.TailOfReplyLog(10));
         vh::stat("regress_user_socket_witnesses"); vh::stat("regress_wakeups_with_unready_user_sockets", sc.nOwnerWakeupsUnready + sc.t._wakeupsWithUnreadyUserSockets);
         vh::distinct(1000 + kase);
      }
      if (!P.callback) {
         // C11-6 class: reply #1 is picked up by a poll (nobody waited for its notification: it stays pending), then the owner blocks in a timed wait
         // with a far deadline on an empty queue and reply #2 is queued only after that: the wait must return the Message, not B_TIMED_OUT
         vh::begin_case(kase); P.k = kase++; P.cs = 700 + combo; Scenario sc(P); sc.t._announce = true;
         sc.Lock(); sc.StartL(); sc.Unlock(); sc.OwnerSend();
         sc.Note("owner waits (untimed) until the internal thread has sent reply #1"); sc.t.WaitUntilRepliedTo(1);
         sc.Poll();
         if (!sc.bad && sc.got != 1) sc.Fail("regress|stale_notification", "the poll after SendMessageToOwner() had returned did not deliver reply #1");
         sc.t.CloseGateFor(2); sc.OwnerSend();
         EchoThread * et = &sc.t;
         std::thread opener([et]() {
            hookrt::set_role(ROLE_SIGNALLER);
            long spins = 0; while (g_block[ROLE_OWNER].load(std::memory_order_relaxed) != 1 && spins++ < 20000000) sched_yield();   // the owner is at its blocking point inside the timed wait
            et->OpenGate();
         });
         sc.LongTimed(true);
         opener.join();
         DrainAllDue(sc, false);
         sc.Lock(); sc.ShutdownJoinL(); sc.Unlock(); sc.FinalCheck();
         if (!sc.bad && sc.replyLog.size() != 2) sc.Fail("regress|stale_notification", sc.TailOfReplyLog(10));
         vh::stat("regress_stale_notification_witnesses"); vh::stat("regress_stale_notification_histories_seen", sc.nStaleHist); vh::stat("regress_long_timed_waits_ok", sc.nLongTimedOk);
         vh::distinct(1000 + kase);
      }
      vh::stat("regress_combinations");
   }
}

int main(int argc, char ** argv)
{
   CompleteSetupSystem css;
   vh::init(argc, argv);
   hookrt::install();          // before any thread exists
   ::muscle::MuscleVerifHookHolder<0>::_func = MyHook;   // our bookkeeping in front of hookrt::hook
   g_ownerTid = pthread_self();
   { struct sigaction sa; memset(&sa, 0, sizeof(sa)); sa.sa_handler = NoOpSignalHandler; sigemptyset(&sa.sa_mask); sa.sa_flags = 0; if (sigaction(SIGUSR1, &sa, NULL) != 0) { fprintf(stderr, "HARNESS-ABORT: sigaction\n"); abort(); } }
   hookrt::set_role(ROLE_OWNER);
   vh::Ctx & c = vh::ctx();
   if (vh::opt("mode", "run") == "regress") { Regress(); return vh::finish(); }
   for (long k = c.from; k < c.from + c.cases; k++) { vh::begin_case(k); RunCase(k, c.seed); }
   return vh::finish();
}
