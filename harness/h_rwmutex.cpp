// h_rwmutex -- C18: muscle::ReaderWriterMutex excludes correctly and never strands a compliant thread.
// One case = one fresh ReaderWriterMutex, 2..4 threads, each running a random script of balanced operations
// (LockReadOnly / LockReadWrite, try + timed variants, recursion to depth 3 in both modes, read->write upgrade,
// the matching unlocks, "hold until peer P's pending try/timed call has returned"), one delay placement.
// Monitors: (1) harness-side holder record (relaxed atomics, updated just after acquire / just before release, so it
// can only under-approximate the real holdings); (2) offline replay of the hook events emitted under _stateMutex
// (exact total order) merged with per-thread call markers taken from the same sequence counter; (3) liveness =
// every script finishes -- all harness waits are UNTIMED (futex / pthread_join), the driver proves a deadlock;
// (4) TSan (tsan flavour; the harness adds no happens-before edges of its own between script threads).
// modes (--opt mode=): model (default) | regress (fixed witnesses: F24a, doc examples, writer preference, wake-ups)
//                      | f24b (leg timed-upgrade-restore: the OPEN finding F24b, deterministic + random)
#include "system/ReaderWriterMutex.h"
#include "system/SetupSystem.h"
#include "util/TimeUtilityFunctions.h"
#include <thread>
#include <atomic>
#include <vector>
#include <string>
#include <algorithm>
#include <limits.h>
#include <unistd.h>
#include <sys/syscall.h>
#include <linux/futex.h>
#include "vh.h"
#include "hookrt.h"
using namespace muscle;

static const int MAXT = 4;
enum { OP_LRO = 0, OP_LRW = 1, OP_URO = 2, OP_URW = 3 };
static const char * OpName(int op) { switch (op) { case OP_LRO: return "LockReadOnly"; case OP_LRW: return "LockReadWrite"; case OP_URO: return "UnlockReadOnly"; default: return "UnlockReadWrite"; } }

// ---- untimed waiting (raw futex: visible to the driver's deadlock detector as an untimed wait, invisible to TSan)
static void FutexWait(std::atomic<uint32_t> * a, uint32_t seen) { (void)syscall(SYS_futex, (uint32_t *)a, FUTEX_WAIT_PRIVATE, seen, NULL, NULL, 0); }
static void FutexWakeAll(std::atomic<uint32_t> * a) { (void)syscall(SYS_futex, (uint32_t *)a, FUTEX_WAKE_PRIVATE, INT_MAX, NULL, NULL, 0); }
struct Gate {
   std::atomic<uint32_t> v; Gate() : v(0) {}
   void set(uint32_t x) { v.store(x); FutexWakeAll(&v); }
   void add() { v.fetch_add(1); FutexWakeAll(&v); }
   void wait_ge(uint32_t x) { for (;;) { uint32_t c = v.load(); if (c >= x) return; FutexWait(&v, c); } }
};
// harness-internal precondition ("the writer has parked"): polled, never a verdict
static void WaitHits(int site, long target) { while (hookrt::hits(site) < target) usleep(200); }

// ---- shared monitor state (atomics only, reset between cases while no script thread runs)
static std::atomic<int> g_rd[MAXT], g_wr[MAXT], g_upg[MAXT];
static std::atomic<uint32_t> g_pend[MAXT];       // odd while the thread is inside a try/timed call that peers may wait for
static std::atomic<int> g_go(0), g_ready(0);
static std::atomic<int> g_caseBad(0);

static void Viol(const std::string & key, const std::string & detail) { if (g_caseBad.exchange(1) == 0) vh::viol(key, detail); }

// ---- online park tracker: a wrapper around hookrt::hook.  The RW event sites are passed while _stateMutex is held, so these counters
// follow the real waiting tables exactly; they let a thread that has just downgraded (released its last write lock, kept a read lock)
// wait WITHOUT A TIMEOUT for the readers the documented semantics oblige the mutex to admit now (a lost wake-up = proved deadlock).
static std::atomic<const void *> g_trkObj(NULL);     // the mutex under test (NULL = tracker off)
static std::atomic<uint32_t> g_parkR[MAXT];          // odd while thread t is parked as reader
static std::atomic<int> g_parkWFlag[MAXT];
static std::atomic<int> g_nParkedW(0), g_nUntimedParkedW(0);   // parked writers; those whose call has no deadline (they leave the table only by being admitted)
static std::atomic<int> g_callUntimed[MAXT];          // set by thread t itself before a LockReadWrite() without deadline (read by the same thread inside the hook)
static std::atomic<int> g_parkWUntimed[MAXT];
static std::atomic<uint32_t> g_wParkEvents(0);
static std::atomic<uint32_t> g_evGen(0);             // futex word: bumped whenever a parked reader leaves the table or a writer parks
static void TrackerHook(int site, const void * obj, long arg)
{
   if (site >= MVH_RW_READER_PARKED && site <= MVH_RW_WRITER_TIMEDOUT && obj == g_trkObj.load(std::memory_order_relaxed)) {
      const int t = hookrt::role();
      if (t >= 0 && t < MAXT) {
         bool bump = false;
         switch (site) {
         case MVH_RW_READER_PARKED: g_parkR[t].fetch_add(1, std::memory_order_relaxed); break;
         case MVH_RW_READER_ADMITTED: case MVH_RW_READER_TIMEDOUT: if (g_parkR[t].load(std::memory_order_relaxed) & 1) { g_parkR[t].fetch_add(1, std::memory_order_relaxed); bump = true; } break;
         case MVH_RW_WRITER_PARKED: g_parkWFlag[t].store(1, std::memory_order_relaxed); g_nParkedW.fetch_add(1, std::memory_order_relaxed); if (g_callUntimed[t].load(std::memory_order_relaxed)) { g_parkWUntimed[t].store(1, std::memory_order_relaxed); g_nUntimedParkedW.fetch_add(1, std::memory_order_relaxed); } g_wParkEvents.fetch_add(1, std::memory_order_release); bump = true; break;
         case MVH_RW_WRITER_ADMITTED: case MVH_RW_WRITER_TIMEDOUT: if (g_parkWFlag[t].load(std::memory_order_relaxed)) { g_parkWFlag[t].store(0, std::memory_order_relaxed); g_nParkedW.fetch_sub(1, std::memory_order_relaxed); if (g_parkWUntimed[t].load(std::memory_order_relaxed)) { g_parkWUntimed[t].store(0, std::memory_order_relaxed); g_nUntimedParkedW.fetch_sub(1, std::memory_order_relaxed); } } break;
         default: break;
         }
         if (bump) { g_evGen.fetch_add(1, std::memory_order_release); FutexWakeAll(&g_evGen); }
      }
   }
   hookrt::hook(site, obj, arg);
}
static void TrackerReset(const void * obj) { for (int t = 0; t < MAXT; t++) { g_parkR[t].store(0); g_parkWFlag[t].store(0); g_callUntimed[t].store(0); g_parkWUntimed[t].store(0); } g_nParkedW.store(0); g_nUntimedParkedW.store(0); g_wParkEvents.store(0); g_evGen.store(0); g_trkObj.store(obj); }

struct Mark { uint64_t seq; uint8_t end, op, ok, upgrade; int toKind; };   // toKind: 0 try, 1 timed, 2 untimed
struct TStat {
   long acqR, acqW, recR, recW, upg, upgTry, upgTimed, upgUntimed, upgFail, failTry, failTimed, overlapRR, holdWaits, holdScans, badUnlocks, unlocks, downgrades, pastDeadline, failBeforeDeadline, maxOver, maxOverUpg, dgParked, rvWaits, rvAdmitted, rvAbandoned, rvSkippedW, rvMulti, readFirst, dgDeepW, dgDeepR, plainParked, plainWaits, rvAfterWriterLeft;
   TStat() { memset(this, 0, sizeof(*this)); }
};
struct Th {
   int me, nT, nOps; uint64_t seed; const ReaderWriterMutex * m; bool f24b; bool pW; std::string params;
   std::vector<Mark> marks; TStat st;
};

static inline uint64_t NextSeq() { return hookrt::g_seq.fetch_add(1, std::memory_order_relaxed); }   // same counter as the hook events; relaxed = no edge for TSan
static inline void PushMark(Th * th, bool end, int op, bool ok, bool upgrade, int toKind) { Mark mk; mk.seq = NextSeq(); mk.end = end; mk.op = (uint8_t)op; mk.ok = ok; mk.upgrade = upgrade; mk.toKind = toKind; th->marks.push_back(mk); }

static void CheckAfterAcquire(Th * th, bool write)
{
   for (int t = 0; t < th->nT; t++) if (t != th->me) {
      const int wt = g_wr[t].load(std::memory_order_relaxed), rt = g_rd[t].load(std::memory_order_relaxed), ut = g_upg[t].load(std::memory_order_relaxed);
      if (wt > 0) Viol(write ? "holder|write-acquired-while-other-holds-write" : "holder|read-acquired-while-other-holds-write", vh::fmt("thread %d acquired %s while thread %d is recorded as write holder (depth %d) | %s", th->me, write ? "write" : "read", t, wt, th->params.c_str()));
      else if (write && rt > 0 && !ut) Viol("holder|write-acquired-while-other-holds-read", vh::fmt("thread %d acquired write while thread %d is recorded as read holder (depth %d, not inside an upgrade call) | %s", th->me, t, rt, th->params.c_str()));
      if (!write && rt > 0) th->st.overlapRR++;
   }
}

static void Spin(vh::Rng & r)
{
   uint32_t k = r.R(8);
   if (k == 0) return;
   if (k == 1) { sched_yield(); return; }
   if (k == 2) { usleep(20 + r.R(300)); return; }
   volatile int x = 0; uint32_t n = r.R(3000); for (uint32_t i = 0; i < n; i++) x++;
}

static uint64 PickTimeout(vh::Rng & r, int & kind)
{
   switch (r.R(8)) {
   case 0: case 1: kind = 0; return 0;                                                    // try
   case 2: kind = 1; return GetRunTime64() + 100 + r.R(1900);                             // 100 us .. 2 ms
   case 3: kind = 1; return GetRunTime64() + 2000 + r.R(18000);                           // 2 .. 20 ms
   case 4: kind = 1; if (r.R(4) == 0) return GetRunTime64() - 1 - r.R(1000);              // a deadline that has already passed
           return GetRunTime64() + 100 + r.R(400);
   default: kind = 2; return MUSCLE_TIME_NEVER;
   }
}

// Called by a thread that holds read locks only (just after releasing its LAST write lock = downgrade, or at a random moment).  While
// this thread keeps reading nobody can hold the write lock, so the only thing that may legitimately keep a parked reader out is writer
// preference with a writer in the waiting table.  A parked writer whose call has a deadline leaves the table by that deadline (it cannot
// be admitted while we read) and the mutex must then let the readers in (F58, repaired in /repo e4aa529); a parked writer WITHOUT a
// deadline stays for as long as we read, so then nothing is demanded and the wait is abandoned.  The wait has no timeout: a parked
// reader that is never woken is a proved deadlock.
static void WaitForParkedReaders(Th * th, bool afterDowngrade)
{
   TStat & st = th->st; const bool pW = th->pW;
   int who[MAXT]; uint32_t val[MAXT]; int n = 0;
   for (int t = 0; t < th->nT; t++) if (t != th->me) {
      const uint32_t v = g_parkR[t].load(std::memory_order_relaxed);
      if (v & 1) { who[n] = t; val[n] = v; n++; }
   }
   if (n == 0) return;
   if (afterDowngrade) st.dgParked++; else st.plainParked++;
   if (pW && g_nUntimedParkedW.load(std::memory_order_relaxed) > 0) { st.rvSkippedW++; return; }
   if (afterDowngrade) st.rvWaits++; else st.plainWaits++;
   if (n > 1) st.rvMulti++;
   bool sawWriter = false;
   for (int i = 0; i < n; i++) {
      for (;;) {
         const uint32_t g0 = g_evGen.load(std::memory_order_acquire);
         if (g_parkR[who[i]].load(std::memory_order_relaxed) != val[i]) { st.rvAdmitted++; if (sawWriter) st.rvAfterWriterLeft++; break; }
         if (pW) { if (g_nUntimedParkedW.load(std::memory_order_relaxed) > 0) { st.rvAbandoned++; return; } if (g_nParkedW.load(std::memory_order_relaxed) > 0) sawWriter = true; }
         FutexWait(&g_evGen, g0);
      }
   }
}

static void Script(Th * th)
{
   hookrt::set_role(th->me);
   g_ready.fetch_add(1, std::memory_order_relaxed);
   while (g_go.load(std::memory_order_relaxed) == 0 || g_ready.load(std::memory_order_relaxed) < th->nT) sched_yield();   // start together (spinning, so that every thread is on a CPU)
   vh::Rng r(th->seed); const ReaderWriterMutex * m = th->m; const int me = th->me; TStat & st = th->st;
   int myR = 0, myW = 0;
   for (int i = 0; i < th->nOps || myR || myW; i++) {
      const bool winding = i >= th->nOps;
      uint32_t c = winding ? (myW ? ((myR && r.R(2)) ? 12 : 8) : 12) : r.R(20);
      if (th->f24b && !winding && myR > 0 && myW == 0 && r.R(3) == 0) c = 4;             // the dedicated leg asks for more upgrades
      if (c <= 3 && myR < 3 && myR + myW < 5) {                                           // ---- acquire for reading
         int tk; const uint64 to = PickTimeout(r, tk); const bool held = (myR + myW) > 0;
         PushMark(th, false, OP_LRO, false, false, tk);
         if (tk != 2) g_pend[me].fetch_add(1, std::memory_order_relaxed);
         const uint64 t0 = GetRunTime64(); const status_t s = m->LockReadOnly(to); const uint64 t1 = GetRunTime64();
         if (tk != 2) { g_pend[me].fetch_add(1, std::memory_order_relaxed); FutexWakeAll(&g_pend[me]); }
         PushMark(th, true, OP_LRO, s.IsOK(), false, tk);
         if (s.IsOK()) { myR++; g_rd[me].fetch_add(1, std::memory_order_relaxed); st.acqR++; if (held) st.recR++; CheckAfterAcquire(th, false); }
         else {
            if (tk == 2) Viol("api|untimed-acquire-failed", vh::fmt("thread %d: LockReadOnly() without a timeout returned %s | %s", me, s(), th->params.c_str()));
            else if (held) Viol("api|recursive-acquire-failed", vh::fmt("thread %d: LockReadOnly(%s) returned %s while the thread holds the lock (read %d, write %d) | %s", me, tk ? "timed" : "try", s(), myR, myW, th->params.c_str()));
            else if (s != B_TIMED_OUT) Viol("api|acquire-failed-with-unexpected-status", vh::fmt("thread %d: LockReadOnly(%s) returned %s | %s", me, tk ? "timed" : "try", s(), th->params.c_str()));
            if (tk == 0) st.failTry++; else st.failTimed++;
            const uint64 dl = (tk == 0) ? t0 : to; if (t1 > dl) { if (tk) st.pastDeadline++; if ((long)(t1 - dl) > st.maxOver) st.maxOver = (long)(t1 - dl); } else if (tk) st.failBeforeDeadline++;
         }
      }
      else if (c >= 4 && c <= 7 && myW < 3 && myR + myW < 5) {                            // ---- acquire for writing (an upgrade when only read locks are held)
         const bool isUp = (myW == 0 && myR > 0); const bool held = myW > 0;
         int tk; const uint64 to = PickTimeout(r, tk);
         // F24b (open): a TIMED upgrade that times out restores its read locks with an untimed LockReadOnly().  Outside the dedicated
         // leg such calls are still made (exclusion / balance are checked on them) but peers do not wait for their return.
         const bool waitable = (tk != 2) && !(isUp && tk == 1 && !th->f24b);
         if (isUp) { g_upg[me].store(1, std::memory_order_relaxed); st.upg++; if (tk == 0) st.upgTry++; else if (tk == 1) st.upgTimed++; else st.upgUntimed++; }
         PushMark(th, false, OP_LRW, false, isUp, tk);
         if (waitable) g_pend[me].fetch_add(1, std::memory_order_relaxed);
         g_callUntimed[me].store(tk == 2, std::memory_order_relaxed);
         const uint64 t0 = GetRunTime64(); const status_t s = m->LockReadWrite(to); const uint64 t1 = GetRunTime64();
         if (waitable) { g_pend[me].fetch_add(1, std::memory_order_relaxed); FutexWakeAll(&g_pend[me]); }
         PushMark(th, true, OP_LRW, s.IsOK(), isUp, tk);
         if (s.IsOK()) { myW++; g_wr[me].fetch_add(1, std::memory_order_relaxed); if (isUp) g_upg[me].store(0, std::memory_order_relaxed); st.acqW++; if (held) st.recW++; CheckAfterAcquire(th, true); }
         else {
            if (isUp) { g_upg[me].store(0, std::memory_order_relaxed); st.upgFail++; }
            if (tk == 2) Viol("api|untimed-acquire-failed", vh::fmt("thread %d: LockReadWrite() without a timeout returned %s (read %d, write %d) | %s", me, s(), myR, myW, th->params.c_str()));
            else if (held) Viol("api|recursive-acquire-failed", vh::fmt("thread %d: LockReadWrite(%s) returned %s while the thread holds the write lock | %s", me, tk ? "timed" : "try", s(), th->params.c_str()));
            else if (s != B_TIMED_OUT) Viol("api|acquire-failed-with-unexpected-status", vh::fmt("thread %d: LockReadWrite(%s) returned %s | %s", me, tk ? "timed" : "try", s(), th->params.c_str()));
            if (tk == 0) st.failTry++; else st.failTimed++;
            const uint64 dl = (tk == 0) ? t0 : to; long & mx = (isUp && tk == 1) ? st.maxOverUpg : st.maxOver;
            if (t1 > dl) { if (tk) st.pastDeadline++; if ((long)(t1 - dl) > mx) mx = (long)(t1 - dl); } else if (tk) st.failBeforeDeadline++;
         }
      }
      else if (c >= 8 && c <= 11 && myW > 0) {                                            // ---- release write (a downgrade when read locks stay)
         g_wr[me].fetch_sub(1, std::memory_order_relaxed); myW--; st.unlocks++;
         const bool downgrade = (myW == 0 && myR > 0); if (downgrade) { st.downgrades++; if (myR > 1) st.dgDeepR++; }
         PushMark(th, false, OP_URW, false, false, 2); const status_t s = m->UnlockReadWrite(); PushMark(th, true, OP_URW, s.IsOK(), false, 2);
         if (s.IsError()) Viol("api|unlock-failed-while-holding", vh::fmt("thread %d: UnlockReadWrite() returned %s with write depth %d, read depth %d before the call | %s", me, s(), myW + 1, myR, th->params.c_str()));
         else if (downgrade && r.R(8) != 0) WaitForParkedReaders(th, true);
      }
      else if (c >= 12 && c <= 15 && myR > 0) {                                          // ---- release read
         g_rd[me].fetch_sub(1, std::memory_order_relaxed); myR--; st.unlocks++; if (myR == 0 && myW > 0) { st.readFirst++; if (myW > 1) st.dgDeepW++; }
         PushMark(th, false, OP_URO, false, false, 2); const status_t s = m->UnlockReadOnly(); PushMark(th, true, OP_URO, s.IsOK(), false, 2);
         if (s.IsError()) Viol("api|unlock-failed-while-holding", vh::fmt("thread %d: UnlockReadOnly() returned %s with read depth %d, write depth %d before the call | %s", me, s(), myR + 1, myW, th->params.c_str()));
      }
      else if (c == 16 && (myW == 0 || myR == 0)) {                              // ---- a release the thread is not entitled to must fail and change nothing
         const bool wr = (myW == 0) && (myR != 0 || r.R(2)); st.badUnlocks++;
         if (wr) { PushMark(th, false, OP_URW, false, false, 2); const status_t s = m->UnlockReadWrite(); PushMark(th, true, OP_URW, s.IsOK(), false, 2); if (s.IsOK()) Viol("api|unlock-succeeded-without-holding", vh::fmt("thread %d: UnlockReadWrite() succeeded without a write lock (read depth %d) | %s", me, myR, th->params.c_str())); }
         else    { PushMark(th, false, OP_URO, false, false, 2); const status_t s = m->UnlockReadOnly();  PushMark(th, true, OP_URO, s.IsOK(), false, 2); if (s.IsOK()) Viol("api|unlock-succeeded-without-holding", vh::fmt("thread %d: UnlockReadOnly() succeeded without a read lock (write depth %d) | %s", me, myW, th->params.c_str())); }
      }
      else if ((c == 17 || (th->f24b && c == 18)) && (myR + myW) > 0) {                    // ---- deadline clause: hold until a peer's pending try/timed call has returned
         st.holdScans++;
         const int off = r.R(th->nT);
         for (int j = 0; j < th->nT; j++) {
            const int p = (off + j) % th->nT; if (p == me) continue;
            const uint32_t v = g_pend[p].load(std::memory_order_relaxed);
            if (v & 1) { st.holdWaits++; while (g_pend[p].load(std::memory_order_relaxed) == v) FutexWait(&g_pend[p], v); break; }
         }
      }
      else if (c == 18 && !th->f24b && myW == 0 && myR > 0) WaitForParkedReaders(th, false);   // ---- a plain reader waits for the parked readers to join it
      else Spin(r);
   }
}

// ---- offline replay of the merged log
struct Item { uint64_t seq; int thr; int kind; int a; int b; int up; int tk; };   // kind 0 = call begins, 1 = call returns, 2 = hook event (a = site, b = arg)
static bool ItemLess(const Item & x, const Item & y) { return x.seq < y.seq; }
struct RStat { long events, parkR, parkW, toR, toW, admitWaitR, admitWaitW, hardUpgrades, pwReaderParkedBehindWriter, pwNewReaderChecks, fifoChecks, unspecBarge, unspecReaderEarlier, unspecRestore, maxParkedWriters; RStat() { memset(this, 0, sizeof(*this)); } };

static std::string ShowItem(const Item & it)
{
   if (it.kind == 0) return vh::fmt("T%d:%s(%s%s){", it.thr, OpName(it.a), it.tk == 0 ? "try" : (it.tk == 1 ? "timed" : ""), it.up ? ",upgrade" : "");
   if (it.kind == 1) return vh::fmt("T%d:}%s", it.thr, it.b ? "ok" : "FAILED");
   const char * n = "?";
   switch (it.a) { case MVH_RW_READER_PARKED: n = "Rpark"; break; case MVH_RW_READER_ADMITTED: n = "Radm"; break; case MVH_RW_READER_RELEASED: n = "Rrel"; break; case MVH_RW_READER_TIMEDOUT: n = "Rtimeout"; break;
                   case MVH_RW_WRITER_PARKED: n = "Wpark"; break; case MVH_RW_WRITER_ADMITTED: n = "Wadm"; break; case MVH_RW_WRITER_RELEASED: n = "Wrel"; break; case MVH_RW_WRITER_TIMEDOUT: n = "Wtimeout"; break; }
   return (it.a == MVH_RW_READER_ADMITTED || it.a == MVH_RW_WRITER_ADMITTED) ? vh::fmt("T%d:%s%d", it.thr, n, it.b) : vh::fmt("T%d:%s", it.thr, n);
}
static std::string ShowLog(const std::vector<Item> & items, size_t at, size_t before = 60)
{
   std::string s; size_t from = at > before ? at - before : 0;
   for (size_t i = from; i <= at && i < items.size(); i++) { s += ShowItem(items[i]); s += ' '; }
   return s;
}

// returns false and fills key/what/at on the first rule that the log breaks
static bool Replay(const std::vector<Item> & items, int nT, bool pW, RStat & rs, std::string & key, std::string & what, size_t & at)
{
   int r[MAXT], w[MAXT], r0[MAXT], w0[MAXT], callOp[MAXT], callUp[MAXT]; bool inCall[MAXT]; uint64_t callBegin[MAXT], parkedR[MAXT]; bool released[MAXT];
   for (int t = 0; t < MAXT; t++) { r[t] = w[t] = r0[t] = w0[t] = callOp[t] = callUp[t] = 0; inCall[t] = false; callBegin[t] = 0; parkedR[t] = 0; released[t] = false; }
   std::vector<std::pair<int, uint64_t> > pq;   // parked writers, in parking order
   for (size_t i = 0; i < items.size(); i++) {
      const Item & it = items[i]; const int t = it.thr; at = i;
      if (t < 0 || t >= nT) { fprintf(stderr, "HARNESS-ABORT: hook event of site %d from a thread without a script role (%d)\n", it.a, t); abort(); }
      if (it.kind == 0) { inCall[t] = true; r0[t] = r[t]; w0[t] = w[t]; callBegin[t] = it.seq; callOp[t] = it.a; callUp[t] = it.up; released[t] = false; continue; }
      if (it.kind == 1) {
         int er = r0[t], ew = w0[t];
         if (it.b) { if (it.a == OP_LRO) er++; else if (it.a == OP_LRW) ew++; else if (it.a == OP_URO) er--; else ew--; }
         if (r[t] != er || w[t] != ew) { key = vh::fmt("replay|holdings|%s-%s", OpName(it.a), it.b ? "succeeded" : "failed"); what = vh::fmt("thread %d: %s %s; by the events its holdings went from read %d write %d to read %d write %d (expected read %d write %d)", t, OpName(it.a), it.b ? "succeeded" : "failed", r0[t], w0[t], r[t], w[t], er, ew); return false; }
         bool stillParked = parkedR[t] != 0; for (size_t j = 0; j < pq.size(); j++) if (pq[j].first == t) stillParked = true;
         if (stillParked) { key = "replay|call-returned-while-parked"; what = vh::fmt("thread %d returned from %s while the events still show it parked", t, OpName(it.a)); return false; }
         if (it.a == OP_LRW && callUp[t] && released[t]) rs.hardUpgrades++;
         inCall[t] = false; continue;
      }
      rs.events++;
      if (!inCall[t]) { fprintf(stderr, "HARNESS-ABORT: hook event of site %d from thread %d outside any call\n", it.a, t); abort(); }
      switch (it.a) {
      case MVH_RW_READER_PARKED: parkedR[t] = it.seq; rs.parkR++; if (pW && !pq.empty()) rs.pwReaderParkedBehindWriter++; break;
      case MVH_RW_READER_TIMEDOUT: parkedR[t] = 0; rs.toR++; break;
      case MVH_RW_READER_ADMITTED: {
         for (int u = 0; u < nT; u++) if (u != t && w[u] > 0) { key = "replay|reader-admitted-while-writer-holds"; what = vh::fmt("thread %d admitted as reader while thread %d holds the write lock (depth %d)", t, u, w[u]); return false; }
         const bool isNew = (r[t] + w[t]) == 0;
         if (isNew && pW) {
            rs.pwNewReaderChecks++;
            for (size_t j = 0; j < pq.size(); j++) if (pq[j].first != t) {
               if (callBegin[t] > pq[j].second) {
                  if (callOp[t] == OP_LRW) rs.unspecRestore++;     // an upgrader getting its own read locks back: not an "arriving" reader
                  else { key = "replay|reader-overtook-parked-writer"; what = vh::fmt("preferWriters: thread %d called LockReadOnly after writer thread %d had parked and was admitted before it", t, pq[j].first); return false; }
               }
               else rs.unspecReaderEarlier++;                       // arrived before the writer parked: the property does not say
            }
         }
         if (parkedR[t]) { parkedR[t] = 0; rs.admitWaitR++; }
         r[t]++;
      } break;
      case MVH_RW_READER_RELEASED: released[t] = true; if (--r[t] < 0) { key = "replay|release-without-acquire"; what = vh::fmt("thread %d: read recursion count negative", t); return false; } break;
      case MVH_RW_WRITER_PARKED: pq.push_back(std::make_pair(t, it.seq)); rs.parkW++; if ((long)pq.size() > rs.maxParkedWriters) rs.maxParkedWriters = (long)pq.size(); break;
      case MVH_RW_WRITER_TIMEDOUT: for (size_t j = 0; j < pq.size(); j++) if (pq[j].first == t) { pq.erase(pq.begin() + j); break; } rs.toW++; break;
      case MVH_RW_WRITER_ADMITTED: {
         for (int u = 0; u < nT; u++) if (u != t) {
            if (w[u] > 0) { key = "replay|writer-admitted-while-writer-holds"; what = vh::fmt("thread %d admitted as writer while thread %d holds the write lock (depth %d)", t, u, w[u]); return false; }
            if (r[u] > 0) { key = "replay|writer-admitted-while-reader-holds"; what = vh::fmt("thread %d admitted as writer while thread %d holds a read lock (depth %d)", t, u, r[u]); return false; }
         }
         size_t pos = pq.size(); for (size_t j = 0; j < pq.size(); j++) if (pq[j].first == t) { pos = j; break; }
         if (pos < pq.size()) {
            if (pq.size() >= 2) rs.fifoChecks++;
            if (pos != 0) { key = "replay|parked-writers-admitted-out-of-order"; what = vh::fmt("thread %d admitted as writer although thread %d parked as writer before it and is still waiting", t, pq[0].first); return false; }
            pq.erase(pq.begin()); rs.admitWaitW++;
         }
         else if (!pq.empty() && (r[t] + w[t]) == 0) rs.unspecBarge++;   // a fresh writer passing parked ones: not stated by the property, only counted
         w[t]++;
      } break;
      case MVH_RW_WRITER_RELEASED: if (--w[t] < 0) { key = "replay|release-without-acquire"; what = vh::fmt("thread %d: write recursion count negative", t); return false; } break;
      default: break;
      }
   }
   if (!items.empty()) at = items.size() - 1;
   for (int t = 0; t < nT; t++) if (r[t] || w[t] || parkedR[t] || inCall[t]) { key = "replay|holdings-at-script-end"; what = vh::fmt("thread %d ends with read %d write %d parked %d by the events", t, r[t], w[t], (int)(parkedR[t] != 0)); return false; }
   if (!pq.empty()) { key = "replay|holdings-at-script-end"; what = "a writer is still parked at script end"; return false; }
   return true;
}

static const uint64_t RW_EVENT_MASK = (1ULL << MVH_RW_READER_PARKED) | (1ULL << MVH_RW_READER_ADMITTED) | (1ULL << MVH_RW_READER_RELEASED) | (1ULL << MVH_RW_READER_TIMEDOUT) |
                                      (1ULL << MVH_RW_WRITER_PARKED) | (1ULL << MVH_RW_WRITER_ADMITTED) | (1ULL << MVH_RW_WRITER_RELEASED) | (1ULL << MVH_RW_WRITER_TIMEDOUT);
static const int DELAY_SITES[3] = { MVH_RW_AFTER_EARLY_UNLOCK, MVH_RW_AFTER_WAKE, MVH_RW_UPGRADE_AFTER_RELEASE };
static const char * DELAY_NAMES[3] = { "early_unlock", "after_wake", "upgrade_release" };
static const int NPLACE = 2 + 3 * 5;   // none, jitter, 3 sites x {any thread, thread 0..3}
static std::vector<hookrt::Event> g_snap;

static void ResetMonitor() { for (int t = 0; t < MAXT; t++) { g_rd[t].store(0); g_wr[t].store(0); g_upg[t].store(0); g_pend[t].store(0); } g_go.store(0); g_ready.store(0); g_caseBad.store(0); }

static void ArmOne(vh::Rng & g, int slot, int site, int role)
{
   const int kind = g.R(3); int micros = 0;
   if (kind == hookrt::K_SLEEP) micros = 50 + g.R(g.R(4) == 0 ? 1950 : 350); else if (kind == hookrt::K_SPIN) micros = 10 + g.R(150);
   hookrt::arm(slot, site, role, kind, micros, 1 + g.R(3));
}

static void RunCase(long k, uint64_t cs, bool f24b)
{
   vh::Rng g(cs);
   int nT = 2 + g.R(3); const bool pW = f24b ? (g.R(4) != 0) : (g.R(2) != 0);
   const int pl = (int)(k % NPLACE); std::string plName = "none"; int plRole = -2;
   if (pl >= 2) { plRole = (pl - 2) % 5 - 1; if (plRole < 0) plRole = -2; if (plRole >= nT) nT = plRole + 1; }
   ResetMonitor(); hookrt::disarm_all(); hookrt::reset_ring(); hookrt::record_sites(RW_EVENT_MASK);
   if (pl == 1) { hookrt::jitter(2 + g.R(4), 30 + g.R(200)); plName = "jitter"; }
   else if (pl >= 2) {
      const int si = (pl - 2) / 5; ArmOne(g, 0, DELAY_SITES[si], plRole); plName = vh::fmt("%s_%s", DELAY_NAMES[si], plRole == -2 ? "any" : vh::fmt("t%d", plRole).c_str());
      if (g.R(6) == 0) { const int s2 = g.R(3); ArmOne(g, 1, DELAY_SITES[s2], g.R(3) == 0 ? (int)g.R(nT) : -2); vh::stat("cases_with_two_placements"); }
   }
   ReaderWriterMutex * m = new ReaderWriterMutex("c18", pW);
   const std::string params = vh::fmt("case %ld threads=%d preferWriters=%d placement=%s", k, nT, (int)pW, plName.c_str());
   vh::note(params);
   TrackerReset(m);
   Th th[MAXT];
   for (int t = 0; t < nT; t++) { th[t].me = t; th[t].nT = nT; th[t].nOps = 40 + g.R(g.R(5) == 0 ? 800 : 250); th[t].seed = g.next(); th[t].m = m; th[t].f24b = f24b; th[t].pW = pW; th[t].params = params; th[t].marks.reserve(2 * (th[t].nOps + 16) + 64); }
   long hits0[3], del0[3]; for (int i = 0; i < 3; i++) { hits0[i] = hookrt::hits(DELAY_SITES[i]); del0[i] = hookrt::delays(DELAY_SITES[i]); }
   std::vector<std::thread> threads;
   for (int t = 0; t < nT; t++) threads.push_back(std::thread(Script, &th[t]));
   g_go.store(1, std::memory_order_relaxed);
   for (int t = 0; t < nT; t++) threads[t].join();          // untimed: a stuck script is decided by the driver's deadlock detector
   hookrt::record_sites(0); hookrt::disarm_all(); g_trkObj.store(NULL);

   // ---- merge and replay
   const uint64_t nEv = hookrt::g_ringNext.load();
   std::vector<Item> items;
   RStat rs; bool replayed = false;
   if (nEv > (uint64_t)hookrt::RING) vh::stat("cases_ring_overflow_not_replayed");
   else {
      if (g_snap.size() < (size_t)hookrt::RING) g_snap.resize(hookrt::RING);
      const size_t n = hookrt::snapshot(&g_snap[0], g_snap.size());
      for (size_t i = 0; i < n; i++) if (g_snap[i].obj == (const void *)m) { Item it; it.seq = g_snap[i].seq; it.thr = g_snap[i].role; it.kind = 2; it.a = g_snap[i].site; it.b = (int)g_snap[i].arg; it.up = 0; it.tk = 0; items.push_back(it); }
      for (int t = 0; t < nT; t++) for (size_t i = 0; i < th[t].marks.size(); i++) { const Mark & mk = th[t].marks[i]; Item it; it.seq = mk.seq; it.thr = t; it.kind = mk.end ? 1 : 0; it.a = mk.op; it.b = mk.ok; it.up = mk.upgrade; it.tk = mk.toKind; items.push_back(it); }
      std::sort(items.begin(), items.end(), ItemLess);
      std::string key, what; size_t at = 0; replayed = true;
      if (!Replay(items, nT, pW, rs, key, what, at)) Viol(key, what + " | " + params + " | log: " + ShowLog(items, at));
   }
   // ---- quiescent: with everything released a fresh writer and a fresh reader get the lock at once
   hookrt::set_role(-1);
   if (m->TryLockReadWrite().IsError()) Viol("api|lock-not-free-after-all-released", "TryLockReadWrite() fails after every script released everything | " + params);
   else { (void)m->UnlockReadWrite(); if (m->TryLockReadOnly().IsError()) Viol("api|lock-not-free-after-all-released", "TryLockReadOnly() fails after every script released everything | " + params); else (void)m->UnlockReadOnly(); }
   delete m;

   // ---- observation counters
   TStat s; for (int t = 0; t < nT; t++) { const TStat & x = th[t].st; s.acqR += x.acqR; s.acqW += x.acqW; s.recR += x.recR; s.recW += x.recW; s.upg += x.upg; s.upgTry += x.upgTry; s.upgTimed += x.upgTimed; s.upgUntimed += x.upgUntimed; s.upgFail += x.upgFail; s.failTry += x.failTry; s.failTimed += x.failTimed; s.overlapRR += x.overlapRR; s.holdWaits += x.holdWaits; s.holdScans += x.holdScans; s.badUnlocks += x.badUnlocks; s.unlocks += x.unlocks; s.downgrades += x.downgrades; s.pastDeadline += x.pastDeadline; s.failBeforeDeadline += x.failBeforeDeadline; s.dgParked += x.dgParked; s.rvWaits += x.rvWaits; s.rvAdmitted += x.rvAdmitted; s.rvAbandoned += x.rvAbandoned; s.rvSkippedW += x.rvSkippedW; s.rvMulti += x.rvMulti; s.readFirst += x.readFirst; s.dgDeepW += x.dgDeepW; s.dgDeepR += x.dgDeepR; s.plainParked += x.plainParked; s.plainWaits += x.plainWaits; s.rvAfterWriterLeft += x.rvAfterWriterLeft; if (x.maxOver > s.maxOver) s.maxOver = x.maxOver; if (x.maxOverUpg > s.maxOverUpg) s.maxOverUpg = x.maxOverUpg; }
   vh::stat("scripts", nT); vh::stat(pW ? "cases_prefer_writers" : "cases_prefer_readers"); vh::stat(vh::fmt("cases_threads_%d", nT)); vh::stat("pl_" + plName);
   vh::stat("acq_read", s.acqR); vh::stat("acq_write", s.acqW); vh::stat("acq_read_recursive", s.recR); vh::stat("acq_write_recursive", s.recW);
   vh::stat("upgrade_calls", s.upg); vh::stat("upgrade_calls_try", s.upgTry); vh::stat("upgrade_calls_timed", s.upgTimed); vh::stat("upgrade_calls_untimed", s.upgUntimed); vh::stat("upgrade_calls_failed", s.upgFail);
   vh::stat("failed_try", s.failTry); vh::stat("failed_timed", s.failTimed); vh::stat("reader_overlaps_seen", s.overlapRR); vh::stat("hold_until_scans", s.holdScans); vh::stat("hold_until_waits", s.holdWaits);
   vh::stat("refused_unlocks_without_holding", s.badUnlocks); vh::stat("unlocks", s.unlocks); vh::stat("downgrade_by_unlocking_write_first", s.downgrades); vh::stat("downgrade_keeping_read_depth_over_1", s.dgDeepR);
   vh::stat("both_held_read_released_first", s.readFirst); vh::stat("both_held_read_released_first_write_depth_over_1", s.dgDeepW);
   vh::stat("downgrades_with_parked_reader", s.dgParked); vh::stat("rendezvous_waits_after_downgrade", s.rvWaits); vh::stat("rendezvous_with_several_parked_readers", s.rvMulti);
   vh::stat("readers_admitted_after_partial_release", s.rvAdmitted); vh::stat("rendezvous_abandoned_untimed_writer_parked", s.rvAbandoned); vh::stat("rendezvous_not_demanded_untimed_writer_parked", s.rvSkippedW);
   vh::stat(pW ? "rendezvous_waits_prefer_writers" : "rendezvous_waits_prefer_readers", s.rvWaits + s.plainWaits);
   vh::stat("plain_reader_saw_parked_reader", s.plainParked); vh::stat("plain_reader_waits_for_parked_readers", s.plainWaits); vh::stat("readers_admitted_after_parked_writer_timed_out", s.rvAfterWriterLeft);
   vh::stat("timed_failed_returned_past_deadline", s.pastDeadline); vh::stat("unspecified_timed_failed_returned_before_deadline", s.failBeforeDeadline);
   vh::statmax("max_overshoot_us", s.maxOver); vh::statmax("max_overshoot_timed_upgrade_us", s.maxOverUpg);
   if (replayed) {
      vh::stat("cases_replayed"); vh::stat("ev_total", rs.events); vh::stat("ev_reader_parked", rs.parkR); vh::stat("ev_writer_parked", rs.parkW); vh::stat("ev_reader_timedout", rs.toR); vh::stat("ev_writer_timedout", rs.toW);
      vh::stat("ev_reader_admitted_after_wait", rs.admitWaitR); vh::stat("ev_writer_admitted_after_wait", rs.admitWaitW); vh::stat("upgrades_hard_path", rs.hardUpgrades);
      vh::stat("pw_reader_parked_while_writer_parked", rs.pwReaderParkedBehindWriter); vh::stat("pw_new_reader_admissions_checked", rs.pwNewReaderChecks); vh::stat("writer_fifo_checks", rs.fifoChecks);
      vh::stat("unspecified_fresh_writer_passed_parked_writer", rs.unspecBarge); vh::stat("unspecified_reader_admitted_before_later_parked_writer", rs.unspecReaderEarlier); vh::stat("unspecified_upgrader_restored_before_parked_writer", rs.unspecRestore);
      vh::statmax("max_parked_writers", rs.maxParkedWriters);
   }
   for (int i = 0; i < 3; i++) { vh::stat(vh::fmt("hits_%s", DELAY_NAMES[i]), hookrt::hits(DELAY_SITES[i]) - hits0[i]); vh::stat(vh::fmt("delays_%s", DELAY_NAMES[i]), hookrt::delays(DELAY_SITES[i]) - del0[i]); }
   const uint64_t sig = hookrt::order_signature();
   vh::distinct(vh::fnv(&sig, sizeof(sig), vh::fnv(&cs, sizeof(cs))), (rs.parkR + rs.parkW) > 0 && s.acqR > 0 && s.acqW > 0);
   if (vh::want_sample() && replayed) { std::string l; for (size_t i = 0; i < items.size() && i < 40; i++) { l += ShowItem(items[i]); l += ' '; } vh::sample(params + ": " + l + "..."); }
}

// ================= deterministic scenarios
static bool g_scBad;
static void ScFail(const std::string & key, const std::string & detail) { if (!g_scBad) { g_scBad = true; vh::viol(key, detail); } }

// F24 shape: readers T1 (depth `depth`) and T2 hold; writer T3 parks; T1 makes a try (timeoutMicros==0) or timed upgrade; T2 releases only
// after T1's call has returned (untimed wait).  The call must fail with B_TIMED_OUT and leave T1's read locks as they were.
static void ScenarioUpgradeBehindParkedWriter(const std::string & keyBase, bool pW, int depth, uint64 timeoutMicros)
{
   ReaderWriterMutex m("f24", pW); Gate holding, go, done; status_t ret = B_NO_ERROR; int goodUnlocks = 0; bool extraUnlockOK = false;
   const long parked0 = hookrt::hits(MVH_RW_WRITER_PARKED);
   std::thread t2([&] { hookrt::set_role(1); (void)m.LockReadOnly(); holding.add(); done.wait_ge(1); (void)m.UnlockReadOnly(); });
   std::thread t1([&] {
      hookrt::set_role(0); for (int i = 0; i < depth; i++) (void)m.LockReadOnly(); holding.add(); go.wait_ge(1);
      ret = timeoutMicros ? m.LockReadWrite(GetRunTime64() + timeoutMicros) : m.TryLockReadWrite();
      done.set(1);
      if (ret.IsOK()) (void)m.UnlockReadWrite();
      for (int i = 0; i < depth; i++) if (m.UnlockReadOnly().IsOK()) goodUnlocks++;
      extraUnlockOK = m.UnlockReadOnly().IsOK();
   });
   holding.wait_ge(2);
   std::thread t3([&] { hookrt::set_role(2); (void)m.LockReadWrite(); (void)m.UnlockReadWrite(); });
   WaitHits(MVH_RW_WRITER_PARKED, parked0 + 1);
   go.set(1);
   t1.join(); t2.join(); t3.join();
   const std::string ctx = vh::fmt("preferWriters=%d, T1 holds %d read lock(s), T2 holds one, writer T3 parked, T1 calls %s", (int)pW, depth, timeoutMicros ? "LockReadWrite(now+timeout)" : "TryLockReadWrite()");
   if (ret.IsOK()) ScFail(keyBase + "|upgrade-succeeded-while-other-reader-holds", ctx + ": returned B_NO_ERROR while T2 still holds its read lock");
   else if (ret != B_TIMED_OUT) ScFail(keyBase + "|unexpected-status", ctx + vh::fmt(": returned %s", ret()));
   if (goodUnlocks != depth || extraUnlockOK) ScFail(keyBase + "|holdings-changed-by-failed-upgrade", ctx + vh::fmt(": afterwards %d of %d UnlockReadOnly() calls succeeded, one more %s", goodUnlocks, depth, extraUnlockOK ? "succeeded too" : "failed as it should"));
   vh::stat(timeoutMicros ? "scenario_timed_upgrade_behind_parked_writer" : "scenario_try_upgrade_behind_parked_writer");
}

// F24b second shape (any preferWriters): T1 and T2 hold read; T1's timed upgrade gives up its read lock and parks; T2 -- now the only
// holder -- upgrades at once, and keeps the write lock until T1's timed call has returned.
static void ScenarioTimedUpgradeVersusNewWriter(const std::string & keyBase, bool pW)
{
   ReaderWriterMutex m("f24b2", pW); Gate holding, done; status_t ret = B_NO_ERROR, t2ret = B_NO_ERROR; bool unlockOK = false, extraUnlockOK = false;
   const long parked0 = hookrt::hits(MVH_RW_WRITER_PARKED);
   std::thread t2([&] { hookrt::set_role(1); (void)m.LockReadOnly(); holding.add(); WaitHits(MVH_RW_WRITER_PARKED, parked0 + 1); t2ret = m.LockReadWrite(); done.wait_ge(1); if (t2ret.IsOK()) (void)m.UnlockReadWrite(); (void)m.UnlockReadOnly(); });
   std::thread t1([&] {
      hookrt::set_role(0); (void)m.LockReadOnly(); holding.add(); holding.wait_ge(2);
      ret = m.LockReadWrite(GetRunTime64() + MillisToMicros(4));
      done.set(1);
      if (ret.IsOK()) (void)m.UnlockReadWrite();
      unlockOK = m.UnlockReadOnly().IsOK(); extraUnlockOK = m.UnlockReadOnly().IsOK();
   });
   t1.join(); t2.join();
   const std::string ctx = vh::fmt("preferWriters=%d, T1 and T2 hold read, T1 calls LockReadWrite(now+4ms), T2 upgrades while T1 is parked and keeps the write lock until T1's call returned", (int)pW);
   if (t2ret.IsError()) ScFail(keyBase + "|unexpected-status", ctx + vh::fmt(": T2's untimed upgrade returned %s", t2ret()));
   if (ret.IsError() && ret != B_TIMED_OUT) ScFail(keyBase + "|unexpected-status", ctx + vh::fmt(": T1's call returned %s", ret()));
   if (!unlockOK || extraUnlockOK) ScFail(keyBase + "|holdings-changed-by-failed-upgrade", ctx + vh::fmt(": T1's call returned %s; afterwards UnlockReadOnly() %s, a second one %s", ret(), unlockOK ? "succeeded" : "FAILED", extraUnlockOK ? "SUCCEEDED" : "failed as it should"));
   vh::stat("scenario_timed_upgrade_versus_new_writer");
}

// Seeded change C18-5 shape: A holds read AND write (either acquisition order, recursion depths dW / dR), nReaders threads park in
// LockReadOnly(), optionally a writer parks too; A releases one mode completely first.  writeFirst: the lock is then read-only, so the
// parked readers must get in WHILE A STILL READS (A waits for them without a timeout) -- except under writer preference with a parked
// writer, where nothing is demanded until A has left.  !writeFirst: A still writes after the first release, nobody may enter; after the
// second release everybody must get through (untimed joins).
static void ScenarioReleaseBothModes(const std::string & keyBase, bool pW, bool readAcquiredFirst, bool writeFirst, int dW, int dR, int nReaders, bool withWriter)
{
   ReaderWriterMutex m("both", pW); Gate inside, leave; std::atomic<int> insideWhileWriteHeld(0); std::atomic<int> aWrites(1);
   const long pr0 = hookrt::hits(MVH_RW_READER_PARKED), pw0 = hookrt::hits(MVH_RW_WRITER_PARKED);
   hookrt::set_role(0);
   bool ok = true;
   if (readAcquiredFirst) { for (int i = 0; i < dR; i++) ok &= m.LockReadOnly().IsOK(); for (int i = 0; i < dW; i++) ok &= m.LockReadWrite().IsOK(); }
   else                   { for (int i = 0; i < dW; i++) ok &= m.LockReadWrite().IsOK(); for (int i = 0; i < dR; i++) ok &= m.LockReadOnly().IsOK(); }
   if (!ok) ScFail(keyBase + "|acquire-failed", "A could not take read and write together on a fresh mutex");
   std::vector<std::thread> rd;
   for (int i = 0; i < nReaders; i++) rd.push_back(std::thread([&, i] { hookrt::set_role(1 + i); (void)m.LockReadOnly(); if (aWrites.load()) insideWhileWriteHeld.fetch_add(1); inside.add(); leave.wait_ge(1); (void)m.UnlockReadOnly(); }));
   WaitHits(MVH_RW_READER_PARKED, pr0 + nReaders);
   std::thread * wr = NULL;
   if (withWriter) { wr = new std::thread([&] { hookrt::set_role(3); (void)m.LockReadWrite(); if (aWrites.load()) insideWhileWriteHeld.fetch_add(1); (void)m.UnlockReadWrite(); }); WaitHits(MVH_RW_WRITER_PARKED, pw0 + 1); }
   const std::string ctx = vh::fmt("preferWriters=%d, A took %s (write depth %d, read depth %d), %d reader(s)%s parked, A releases %s first", (int)pW, readAcquiredFirst ? "read then write" : "write then read", dW, dR, nReaders, withWriter ? " and a writer" : "", writeFirst ? "write" : "read");
   if (writeFirst) {
      for (int i = 0; i < dW; i++) { if (i == dW - 1) aWrites.store(0); if (m.UnlockReadWrite().IsError()) ScFail(keyBase + "|unlock-failed", ctx + ": UnlockReadWrite() failed"); }
      if (!(pW && withWriter)) { inside.wait_ge(nReaders); vh::stat("readers_admitted_after_partial_release", nReaders); }   // untimed: a lost wake-up is a proved deadlock
      else vh::stat("scenario_downgrade_nothing_demanded_writer_parked");
      for (int i = 0; i < dR; i++) if (m.UnlockReadOnly().IsError()) ScFail(keyBase + "|unlock-failed", ctx + ": UnlockReadOnly() failed");
      vh::stat("downgrade_by_unlocking_write_first");
   }
   else {
      for (int i = 0; i < dR; i++) if (m.UnlockReadOnly().IsError()) ScFail(keyBase + "|unlock-failed", ctx + ": UnlockReadOnly() failed");
      for (int i = 0; i < dW; i++) { if (i == dW - 1) aWrites.store(0); if (m.UnlockReadWrite().IsError()) ScFail(keyBase + "|unlock-failed", ctx + ": UnlockReadWrite() failed"); }
      vh::stat("both_held_read_released_first");
   }
   inside.wait_ge(nReaders); leave.set(1);
   for (size_t i = 0; i < rd.size(); i++) rd[i].join();
   if (wr) { wr->join(); delete wr; }
   hookrt::set_role(-1);
   if (insideWhileWriteHeld.load()) ScFail(keyBase + "|entered-while-write-held", ctx + vh::fmt(": %d thread(s) got in while A still held the write lock", insideWhileWriteHeld.load()));
   if (m.TryLockReadWrite().IsError()) ScFail(keyBase + "|lock-not-free", ctx + ": the lock is not free afterwards"); else (void)m.UnlockReadWrite();
}

// Candidate finding (NOT part of a leg, see checks/C18.py): writer preference, reader A holds, writer W parks with a deadline, reader B arrives and
// parks behind W, W times out.  No writer holds or waits any more, yet nobody wakes B while A keeps reading; A waits for B without a timeout.
static void ScenarioReaderBehindTimedOutWriter(bool pW)
{
   ReaderWriterMutex m("stranded", pW); Gate inside; status_t ws = B_NO_ERROR;
   const long pr0 = hookrt::hits(MVH_RW_READER_PARKED), pw0 = hookrt::hits(MVH_RW_WRITER_PARKED), to0 = hookrt::hits(MVH_RW_WRITER_TIMEDOUT);
   hookrt::set_role(0); (void)m.LockReadOnly();
   std::thread w([&] { hookrt::set_role(1); ws = m.LockReadWrite(GetRunTime64() + MillisToMicros(30)); if (ws.IsOK()) (void)m.UnlockReadWrite(); });
   WaitHits(MVH_RW_WRITER_PARKED, pw0 + 1);
   std::thread b([&] { hookrt::set_role(2); (void)m.LockReadOnly(); inside.add(); (void)m.UnlockReadOnly(); });
   if (pW) WaitHits(MVH_RW_READER_PARKED, pr0 + 1);
   WaitHits(MVH_RW_WRITER_TIMEDOUT, to0 + 1);
   inside.wait_ge(1);                 // untimed
   (void)m.UnlockReadOnly(); w.join(); b.join(); hookrt::set_role(-1);
   vh::stat("scenario_reader_behind_timed_out_writer_completed");
}

static void Regress()
{
   hookrt::record_sites(0);
   // ---- case 0,1: F24a (fixed in /repo): a TRY upgrade behind other readers and a parked writer must fail at once
   vh::begin_case(0); g_scBad = false; vh::note("F24a witness: try upgrade, preferWriters, depth 1"); ScenarioUpgradeBehindParkedWriter("regress-F24a", true, 1, 0);
   vh::begin_case(1); g_scBad = false; vh::note("F24a witness: try upgrade, preferWriters, depth 3"); ScenarioUpgradeBehindParkedWriter("regress-F24a", true, 3, 0);
   ScenarioUpgradeBehindParkedWriter("regress-F24a", false, 2, 0);
   // ---- case 2: documentation of ReaderWriterMutex.h, single thread + one helper
   vh::begin_case(2); g_scBad = false; vh::note("documentation examples");
   {
      ReaderWriterMutex m;   // default: preferWriters
      if (m.LockReadOnly().IsError() || m.LockReadOnly().IsError()) ScFail("docex|recursive-read", "LockReadOnly() twice in a row must not fail");
      if (m.UnlockReadOnly().IsError() || m.UnlockReadOnly().IsError()) ScFail("docex|recursive-read", "two UnlockReadOnly() after two LockReadOnly() must succeed");
      if (m.UnlockReadOnly() != B_LOCK_FAILED) ScFail("docex|unlock-without-lock", "UnlockReadOnly() without a read lock is documented to return B_LOCK_FAILED");
      if (m.LockReadWrite().IsError() || m.LockReadWrite().IsError()) ScFail("docex|recursive-write", "LockReadWrite() twice in a row must not fail");
      if (m.LockReadOnly().IsError()) ScFail("docex|read-inside-write", "LockReadOnly() by the write holder must succeed");
      if (m.UnlockReadWrite().IsError() || m.UnlockReadWrite().IsError()) ScFail("docex|recursive-write", "two UnlockReadWrite() after two LockReadWrite() must succeed");
      if (m.UnlockReadWrite() != B_LOCK_FAILED) ScFail("docex|unlock-without-lock", "UnlockReadWrite() without a write lock is documented to return B_LOCK_FAILED");
      if (m.TryLockReadWrite().IsError()) ScFail("docex|sole-reader-upgrade", "the only reader must be able to upgrade with TryLockReadWrite()");
      else { status_t a = B_NO_ERROR, b = B_NO_ERROR, c2 = B_NO_ERROR; std::thread o([&] { a = m.TryLockReadOnly(); if (a.IsOK()) (void)m.UnlockReadOnly(); b = m.TryLockReadWrite(); if (b.IsOK()) (void)m.UnlockReadWrite(); c2 = m.LockReadOnly(GetRunTime64() + 300); if (c2.IsOK()) (void)m.UnlockReadOnly(); }); o.join();
             if (a != B_TIMED_OUT || b != B_TIMED_OUT || c2 != B_TIMED_OUT) ScFail("docex|try-while-write-held", vh::fmt("another thread's TryLockReadOnly / TryLockReadWrite / LockReadOnly(now+300us) while the write lock is held returned %s / %s / %s, documented: B_TIMED_OUT", a(), b(), c2()));
             (void)m.UnlockReadWrite(); }
      { status_t a = B_NO_ERROR, b = B_NO_ERROR; std::thread o([&] { a = m.TryLockReadOnly(); if (a.IsOK()) (void)m.UnlockReadOnly(); b = m.TryLockReadWrite(); if (b.IsOK()) (void)m.UnlockReadWrite(); }); o.join();
        if (a.IsError()) ScFail("docex|readers-share", vh::fmt("TryLockReadOnly() while only another reader holds returned %s", a())); if (b != B_TIMED_OUT) ScFail("docex|try-while-read-held", vh::fmt("TryLockReadWrite() while another thread holds a read lock returned %s", b())); }
      (void)m.UnlockReadOnly();
      { ReadOnlyMutexGuard rg(m); ReadWriteMutexGuard wg(m); }
      {
         DECLARE_READWRITE_MUTEXGUARD(m);
         DECLARE_READONLY_MUTEXGUARD(m);
      }
      if (m.TryLockReadWrite().IsError()) ScFail("docex|guards", "the lock is not free after the guards went out of scope"); else (void)m.UnlockReadWrite();
   }
   // ---- case 3: writer preference: a reader arriving after a parked writer does not overtake it
   vh::begin_case(3); g_scBad = false; vh::note("writer preference witness");
   for (int pw = 1; pw >= 0; pw--) {
      ReaderWriterMutex m("pw", pw != 0); Gate done; const long parked0 = hookrt::hits(MVH_RW_WRITER_PARKED);
      (void)m.LockReadOnly();
      std::thread w([&] { hookrt::set_role(1); (void)m.LockReadWrite(); (void)m.UnlockReadWrite(); });
      WaitHits(MVH_RW_WRITER_PARKED, parked0 + 1);
      status_t a = B_NO_ERROR, b = B_NO_ERROR;
      std::thread rd([&] { hookrt::set_role(2); a = m.TryLockReadOnly(); if (a.IsOK()) (void)m.UnlockReadOnly(); b = m.LockReadOnly(GetRunTime64() + 1500); if (b.IsOK()) (void)m.UnlockReadOnly(); });
      rd.join();
      if (pw && (a.IsOK() || b.IsOK())) ScFail("regress|reader-overtook-parked-writer", vh::fmt("preferWriters: a reader holds, a writer is parked; a new thread's TryLockReadOnly() / LockReadOnly(now+1.5ms) returned %s / %s", a(), b()));
      if (!pw) vh::stat((a.IsOK() && b.IsOK()) ? "prefer_readers_new_reader_admitted_past_parked_writer" : "prefer_readers_new_reader_refused");
      if (m.LockReadOnly(0).IsError()) ScFail("regress|recursive-read-behind-parked-writer", "a recursive TryLockReadOnly() by the holder failed while a writer is parked"); else (void)m.UnlockReadOnly();
      (void)m.UnlockReadOnly(); w.join();
   }
   // ---- case 4: wake-ups: parked readers + writers all get in after the holder leaves; a timed-out writer leaves no trace
   vh::begin_case(4); g_scBad = false; vh::note("wake-up witnesses");
   for (int pw = 0; pw < 2; pw++) {
      ReaderWriterMutex m("wake", pw != 0); const long pr0 = hookrt::hits(MVH_RW_READER_PARKED), pw0 = hookrt::hits(MVH_RW_WRITER_PARKED);
      (void)m.LockReadWrite();
      std::thread a([&] { hookrt::set_role(1); (void)m.LockReadOnly(); (void)m.UnlockReadOnly(); }), b([&] { hookrt::set_role(2); (void)m.LockReadOnly(); (void)m.UnlockReadOnly(); }), c([&] { hookrt::set_role(3); (void)m.LockReadWrite(); (void)m.UnlockReadWrite(); });
      WaitHits(MVH_RW_READER_PARKED, pr0 + 2); WaitHits(MVH_RW_WRITER_PARKED, pw0 + 1);
      (void)m.UnlockReadWrite(); a.join(); b.join(); c.join();            // untimed: a lost wake-up is a proved deadlock
   }
   for (int pw = 0; pw < 2; pw++) {
      ReaderWriterMutex m("stale", pw != 0); const long pw0 = hookrt::hits(MVH_RW_WRITER_PARKED), to0 = hookrt::hits(MVH_RW_WRITER_TIMEDOUT), pr0 = hookrt::hits(MVH_RW_READER_PARKED), tr0 = hookrt::hits(MVH_RW_READER_TIMEDOUT);
      (void)m.LockReadWrite();
      status_t s1 = B_NO_ERROR, s2 = B_NO_ERROR;
      std::thread a([&] { hookrt::set_role(1); s1 = m.LockReadWrite(GetRunTime64() + 1000); if (s1.IsOK()) (void)m.UnlockReadWrite(); });
      WaitHits(MVH_RW_WRITER_PARKED, pw0 + 1);
      std::thread r1([&] { hookrt::set_role(3); s2 = m.LockReadOnly(GetRunTime64() + 1000); if (s2.IsOK()) (void)m.UnlockReadOnly(); });
      WaitHits(MVH_RW_READER_PARKED, pr0 + 1);
      std::thread b([&] { hookrt::set_role(2); (void)m.LockReadWrite(); (void)m.UnlockReadWrite(); });
      WaitHits(MVH_RW_WRITER_PARKED, pw0 + 2); WaitHits(MVH_RW_WRITER_TIMEDOUT, to0 + 1); WaitHits(MVH_RW_READER_TIMEDOUT, tr0 + 1);
      (void)m.UnlockReadWrite(); a.join(); r1.join(); b.join();
      if (s1 != B_TIMED_OUT || s2 != B_TIMED_OUT) ScFail("regress|timed-acquire-while-write-held", vh::fmt("LockReadWrite / LockReadOnly(now+1ms) while another thread holds the write lock throughout returned %s / %s", s1(), s2()));
      if (m.TryLockReadWrite().IsError()) ScFail("regress|lock-not-free", "lock not free after a timed-out waiter and a served waiter"); else (void)m.UnlockReadWrite();
   }
   // ---- case 5: the four scenarios of seeded/C18-5/demo.cpp: A holds both modes, B parked in LockReadOnly(), A releases write only and waits for B
   vh::begin_case(5); g_scBad = false; vh::note("downgrade wakes parked readers (seeded C18-5 demo: both acquisition orders x both preferences)");
   for (int pw = 0; pw < 2; pw++) for (int rf = 0; rf < 2; rf++) ScenarioReleaseBothModes("regress-downgrade", pw != 0, rf != 0, true, 1, 1, 1, false);
   // ---- case 6: role combinations: several parked readers, a parked writer as well, recursion depths > 1, either release order
   vh::begin_case(6); g_scBad = false; vh::note("release of both modes in either order, role combinations");
   for (int pw = 0; pw < 2; pw++) for (int rf = 0; rf < 2; rf++) for (int wf = 0; wf < 2; wf++) for (int ww = 0; ww < 2; ww++)
      ScenarioReleaseBothModes("regress-downgrade", pw != 0, rf != 0, wf != 0, 1 + (pw + rf + ww) % 3, 1 + (rf + wf + ww + 1) % 3, 1 + (pw + wf) % 2 + (ww ? 0 : 1) * ((rf + pw) % 2), ww != 0);
   vh::distinct(1); vh::distinct(2); vh::distinct(3); vh::distinct(4); vh::distinct(5); vh::distinct(6); vh::distinct(7);
}

int main(int argc, char ** argv)
{
   CompleteSetupSystem css;
   vh::init(argc, argv);
   hookrt::install();
   ::muscle::MuscleVerifHookHolder<0>::_func = TrackerHook;   // the tracker calls hookrt::hook itself
   vh::Ctx & c = vh::ctx();
   const std::string mode = vh::opt("mode", "model");
   if (mode == "regress") { Regress(); return vh::finish(); }
   if (mode == "stranded") { hookrt::record_sites(0); for (long k = c.from; k < c.from + c.cases; k++) { vh::begin_case(k); vh::note("reader parked behind a writer that times out while another reader holds"); ScenarioReaderBehindTimedOutWriter((k % 4) != 3); vh::distinct((uint64_t)k + 100, true); } return vh::finish(); }
   const bool f24b = (mode == "f24b");
   for (long k = c.from; k < c.from + c.cases; k++) {
      vh::begin_case(k);
      const uint64_t cs = vh::case_seed(c.seed, f24b ? 1824 : 18, (uint64_t)k);
      if (f24b && (k % 3) != 2) {
         // deterministic shapes of the open finding F24b; when the defect is present every thread ends up blocked without a timeout and
         // the driver reports <leg>|deadlock; when it is repaired the scenarios complete and check the outcome
         g_scBad = false; hookrt::record_sites(0); hookrt::disarm_all();
         if ((k % 3) == 0) { vh::note("F24b shape 1: timed upgrade, other reader holds, writer parked, preferWriters"); ScenarioUpgradeBehindParkedWriter("timed-upgrade", true, 1 + (int)((k / 3) % 3), 1500 + 500 * (uint64)((k / 3) % 5)); }
         else { const bool pW = ((k / 3) % 2) != 0; vh::note(vh::fmt("F24b shape 2: timed upgrade, the other reader becomes writer in the window, preferWriters=%d", (int)pW)); ScenarioTimedUpgradeVersusNewWriter("timed-upgrade", pW); }
         vh::distinct(vh::fnv(&cs, sizeof(cs)), true);
         continue;
      }
      RunCase(k, cs, f24b);
   }
   for (int s = MVH_RW_READER_PARKED; s <= MVH_RW_UPGRADE_AFTER_RELEASE; s++) if (hookrt::hits(s)) vh::stat(std::string("hook_") + hookrt::site_name(s), hookrt::hits(s));
   return vh::finish();
}
