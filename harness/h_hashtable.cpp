// h_hashtable -- C09: muscle::Hashtable / OrderedKeysHashtable / OrderedValuesHashtable against an ordered-map model,
// with 1-6 live registered iterators judged by the iterator oracle of DESIGN.md C09 (a)-(d).
// modes (--opt mode=): ops | surface | boundary | ordered | regress     (one case = one history on fresh tables)
//   ops      random histories, population targets 0..57 (initial capacity 7 and its doublings), iterator heavy
//   surface  the long tail of the public API on two tables with colliding keys and few distinct values (ht4 probe)
//   boundary population/capacity phases around 254..257 slots and (every 8th case) 65534..65537 slots, where the
//            internal index width changes (8/16/32 bit); crossings are recorded per direction
//   ordered  the two auto-sorting variants: sortedness + contents, order observed (tie order is unspecified)
//   regress  fixed witnesses (F30) + documentation examples
#include "util/Hashtable.h"
#include "util/String.h"
#include "util/ImmutableHashtablePool.h"
#include "system/SetupSystem.h"
#include <list>
#include <vector>
#include <map>
#include <deque>
#include <unordered_map>
#include <unordered_set>
#include <algorithm>
#include <string>
#include "vh.h"
using namespace muscle;

static vh::Rng g(1);
static uint32_t R(uint32_t n) { return g.R(n); }

// ---- instrumented value: one heap payload per non-default value; the number of live payloads is audited
struct Own {
   uint32 * p;
   static long live;
   Own() : p(NULL) {}
   explicit Own(uint32 v) : p(v ? new uint32(v) : NULL) { if (p) live++; }
   Own(const Own & o) : p(o.p ? new uint32(*o.p) : NULL) { if (p) live++; }
   Own(Own && o) : p(o.p) { o.p = NULL; }
   Own & operator=(Own && o) { if (this != &o) { if (p) { live--; delete p; } p = o.p; o.p = NULL; } return *this; }
   Own & operator=(const Own & o) { if (this != &o) { uint32 * np = o.p ? new uint32(*o.p) : NULL; if (np) live++; if (p) { live--; delete p; } p = np; } return *this; }
   ~Own() { if (p) { live--; delete p; p = NULL; } }
   uint32 val() const { return p ? *p : 0; }
   bool operator==(const Own & o) const { return val() == o.val(); }
   bool operator!=(const Own & o) const { return val() != o.val(); }
   bool operator<(const Own & o) const { return val() < o.val(); }
   bool operator>(const Own & o) const { return val() > o.val(); }
};
long Own::live = 0;

// ---- key class with a HashCode() method that returns one of 3 values: long bucket chains, starter-slot stealing
struct BadKey {
   uint32 v;
   BadKey(uint32 x = 0) : v(x) {}
   bool operator==(const BadKey & o) const { return v == o.v; }
   bool operator!=(const BadKey & o) const { return v != o.v; }
   bool operator<(const BadKey & o) const { return v < o.v; }
   bool operator>(const BadKey & o) const { return v > o.v; }
   uint32 HashCode() const { return v % 3; }
};

// keys are addressed by a number (kid, 0 = the default key, never stored); values by a number (0 = default value)
template<class K> struct KT;
template<> struct KT<uint32> { static uint32 Make(uint32 id) { return id; } static uint32 Id(const uint32 & k) { return k; } static const char * Name() { return "uint32"; } };
template<> struct KT<BadKey> { static BadKey Make(uint32 id) { return BadKey(id); } static uint32 Id(const BadKey & k) { return k.v; } static const char * Name() { return "BadKey"; } };
template<> struct KT<String> {
   static String Make(uint32 id) { if (id == 0) return String(); char b[96]; snprintf(b, sizeof(b), "k%07u%s", id, (id % 3 == 0) ? "_tail_beyond_the_small_string_buffer" : ""); return String(b); }
   static uint32 Id(const String & k) { return k.IsEmpty() ? 0 : (uint32)atol(k() + 1); }
   static const char * Name() { return "String"; }
};
template<class V> struct VT;
template<> struct VT<uint32> { static uint32 Make(uint32 v) { return v; } static uint32 Val(const uint32 & v) { return v; } static const char * Name() { return "uint32"; } };
template<> struct VT<Own> { static Own Make(uint32 v) { return Own(v); } static uint32 Val(const Own & v) { return v.val(); } static const char * Name() { return "Own"; } };

// ---- failure reporting: one violation per case
static std::deque<std::string> trace;
static bool caseBad;
static std::string opname, typeName, modeName;
static void Trace(const std::string & s) { trace.push_back(s); if (trace.size() > 60) trace.pop_front(); }
static void Fail(const std::string & rule, const std::string & what)
{
   if (caseBad) return;
   caseBad = true;
   std::string d = what + " | during: " + opname + " | types=" + typeName + " | last ops: ";
   for (size_t i = 0; i < trace.size(); i++) { d += trace[i]; d += "; "; }
   std::string key = rule;
   if (key.empty()) { std::string o = opname; for (size_t i = 0; i < o.size(); i++) if (isdigit((unsigned char)o[i]) || o[i] == ' ') { o.resize(i); break; } key = modeName + "|" + o; }
   vh::viol(key, d);
}
// a defect of the library that is reported under its own key WITHOUT ending the case, so that everything else is still judged
static void Finding(const std::string & key, const std::string & what) { static std::map<std::string, long> n; if (n[key]++ < 3) vh::viol(key, what + " | during: " + opname + " | types=" + typeName); vh::stat("finding_occurrences"); }
#define OP(...) do { opname = vh::fmt(__VA_ARGS__); Trace(opname); vh::stat(std::string("op_") + std::string(opname, 0, opname.find(' '))); } while (0)

// ---- the ordered-map model: list = iteration order, hash index, vector of present keys for random choice
static uint64_t g_nextId = 0;
struct Ent { uint32 k, v; uint64_t id; };
typedef std::list<Ent> EL;
struct Model {
   struct Ix { EL::iterator it; uint32 pos; };
   EL l; std::unordered_map<uint32, Ix> ix; std::vector<uint32> present;
   size_t size() const { return l.size(); }
   bool has(uint32 k) const { return ix.count(k) > 0; }
   EL::iterator find(uint32 k) { std::unordered_map<uint32, Ix>::iterator f = ix.find(k); return f == ix.end() ? l.end() : f->second.it; }
   EL::iterator insertBefore(EL::iterator before, uint32 k, uint32 v) { Ent e; e.k = k; e.v = v; e.id = ++g_nextId; EL::iterator it = l.insert(before, e); Ix x; x.it = it; x.pos = (uint32)present.size(); ix[k] = x; present.push_back(k); return it; }
   void erase(EL::iterator it) { uint32 k = it->k; Ix x = ix[k]; uint32 last = present.back(); present[x.pos] = last; ix[last].pos = x.pos; present.pop_back(); ix.erase(k); l.erase(it); }
   void clear() { l.clear(); ix.clear(); present.clear(); }
   void swap(Model & o) { l.swap(o.l); ix.swap(o.ix); present.swap(o.present); }
   uint32 randomPresent() const { return present.empty() ? 0 : present[R((uint32)present.size())]; }
   int indexOf(uint32 k) { EL::iterator f = find(k); return f == l.end() ? -1 : (int)std::distance(l.begin(), f); }
   EL::iterator at(size_t pos) { if (pos >= l.size()) return l.end(); EL::iterator it = l.begin(); std::advance(it, (long)pos); return it; }
   void moveBefore(EL::iterator what, EL::iterator before) { if (what != before) l.splice(before, l, what); }
   std::vector<std::pair<uint32, uint32> > pairs() const { std::vector<std::pair<uint32, uint32> > r; for (EL::const_iterator i = l.begin(); i != l.end(); ++i) r.push_back(std::make_pair(i->k, i->v)); return r; }
};

// ---- live iterators and the iterator oracle (DESIGN.md C09):
// (a) every key yielded BY AN ADVANCE exists in the model at that moment (and carries the model's value);
// (b) in a traversal during which no reordering operation ran, every entry that was present from the iterator's creation to
//     the traversal's end and lay ahead of the start is yielded;   (c) in those traversals no ENTRY (insertion generation,
//     not key) is yielded twice;   (d) after Clear / destruction / assignment-over of its table the iterator may still
//     present its private copy of the current item but has no data after one advance; after SwapContents it follows the
//     swapped contents.   Memory safety of all of this is ASan's / memcheck's business.
struct Look { virtual bool Find(int t, uint32 kid, uint32 & v, uint64_t & id) = 0; virtual ~Look() {} };
template<class K, class V> struct Trk {
   HashtableIterator<K, V> * it; bool back; int t; bool reordered, detached, curGone, curRemoved; uint64_t curId; long yields; bool mutated;
   std::unordered_set<uint64_t> yielded, must;
};
template<class K, class V> struct TrkSet {
   typedef HashtableIterator<K, V> IT; typedef Trk<K, V> T;
   std::vector<T *> v; std::vector<IT *> zombies; Look * look; long completed, completedMutated;
   TrkSet() : look(NULL), completed(0), completedMutated(0) {}
   void Yield(T & x)
   {
      uint32 kid = KT<K>::Id(x.it->GetKey()), mv = 0; uint64_t id = 0;
      vh::stat("iter_yields");
      if (!look->Find(x.t, kid, mv, id)) { Fail("iter|yielded-key-not-in-table", vh::fmt("iterator (%s) yielded key %u, which the model does not hold", x.back ? "backward" : "forward", kid)); return; }
      if (VT<V>::Val(x.it->GetValue()) != mv) { Fail("iter|yielded-stale-value", vh::fmt("iterator yielded key %u with value %u, model has %u", kid, VT<V>::Val(x.it->GetValue()), mv)); return; }
      if (!x.reordered && x.yielded.count(id)) { Fail("iter|entry-yielded-twice", vh::fmt("iterator (%s) yielded entry of key %u (generation id %llu) twice in a traversal without reordering", x.back ? "backward" : "forward", kid, (unsigned long long)id)); return; }
      x.yielded.insert(id); x.curId = id; x.curGone = x.curRemoved = false; x.yields++;
   }
   // ahead = ids of the entries from the start position onwards in the iterator's direction (start first)
   void Begin(IT * it, bool back, int t, const std::vector<uint64_t> & ahead, uint32 expectKid)
   {
      T * x = new T; x->it = it; x->back = back; x->t = t; x->reordered = x->detached = x->curGone = x->curRemoved = x->mutated = false; x->curId = 0; x->yields = 0;
      for (size_t i = 0; i < ahead.size(); i++) x->must.insert(ahead[i]);
      v.push_back(x); vh::stat("iter_created");
      if (it->HasData() != (expectKid != 0)) { Fail("iter|start", vh::fmt("new iterator HasData()=%d, expected start key %u", (int)it->HasData(), expectKid)); return; }
      if (it->HasData()) { if (KT<K>::Id(it->GetKey()) != expectKid) { Fail("iter|start", vh::fmt("new iterator starts at key %u, expected %u", KT<K>::Id(it->GetKey()), expectKid)); return; } Yield(*x); }
      else Finish(v.size() - 1);
   }
   void Finish(size_t i)
   {
      T * x = v[i];
      if (!x->detached && !x->reordered && !caseBad) {
         for (std::unordered_set<uint64_t>::const_iterator m = x->must.begin(); m != x->must.end(); ++m) if (!x->yielded.count(*m)) { Fail("iter|skipped-present-entry", vh::fmt("iterator (%s) ended after %ld yields without yielding entry id %llu, which was present and ahead from its creation to its end (no reordering ran)", x->back ? "backward" : "forward", x->yields, (unsigned long long)*m)); break; }
         completed++; vh::stat("iter_traversals_completed_unreordered"); if (x->mutated) { completedMutated++; vh::stat("iter_traversals_completed_unreordered_under_mutation"); }
      } else if (x->reordered) vh::stat("iter_traversals_ended_reordered");
      if (R(3) == 0 && zombies.size() < 4) zombies.push_back(x->it); else delete x->it;   // an exhausted iterator may stay registered for a while
      delete x; v.erase(v.begin() + i);
   }
   void Advance(size_t i, uint32 steps)
   {
      for (uint32 s = 0; s < steps && !caseBad; s++) {
         T & x = *v[i];
         if (x.it->HasData()) { (void)KT<K>::Id(x.it->GetKey()); (void)VT<V>::Val(x.it->GetValue()); }   // touch what it presents
         (*x.it)++;
         if (x.detached) { if (x.it->HasData()) Fail("iter|data-after-clear", "iterator still has data one advance after its table was cleared/destroyed/assigned over"); vh::stat("iter_detached_advanced"); Finish(i); return; }
         if (x.it->HasData()) Yield(x); else { Finish(i); return; }
      }
   }
   // ---- copies, assignments and swaps between live iterators, in whatever state they are (fresh, mid-table, holding the private
   // copy of a removed/moved entry, detached by Clear/destruction, ended, default-constructed; either direction; either table).
   // Documented as value semantics: the target continues exactly like the source from the source's position (so it inherits the
   // source's traversal bookkeeping for rules (a)-(d)), the source is unchanged; whatever the target held before is gone.
   struct Shown { bool has; uint32 k, v; bool operator==(const Shown & o) const { return has == o.has && (!has || (k == o.k && v == o.v)); } std::string str() const { return has ? vh::fmt("key %u value %u", k, v) : std::string("no data"); } };
   static Shown Show(const IT & it) { Shown s; s.has = it.HasData(); s.k = s.has ? KT<K>::Id(it.GetKey()) : 0; s.v = s.has ? VT<V>::Val(it.GetValue()) : 0; return s; }
   static void Inherit(T & d, const T & s) { IT * keep = d.it; d = s; d.it = keep; }
   void StateStats(const char * role, const T & x) { std::string r(role); if (x.detached) vh::stat("iter_assign_" + r + "_detached_by_clear_or_destruction"); else if (x.curRemoved) vh::stat("iter_assign_" + r + "_holding_scratch_copy"); else if (x.curGone) vh::stat("iter_assign_" + r + "_entry_was_moved"); else if (x.yields <= 1) vh::stat("iter_assign_" + r + "_fresh"); else vh::stat("iter_assign_" + r + "_mid_table"); if (x.back) vh::stat("iter_assign_" + r + "_backwards"); }
   void Expect(const char * what, const IT & it, const Shown & want) { Shown got = Show(it); if (!(got == want)) Fail("iter|assigned-iterator-differs-from-source", std::string(what) + " presents " + got.str() + ", expected " + want.str()); }
   void Transfer(size_t cap)
   {
      if (v.empty() || caseBad) return;
      int kind = R(10); size_t si = R((uint32)v.size()), di = R((uint32)v.size()); if (v.size() >= 2) while (di == si) di = R((uint32)v.size());
      if (v.size() < 2 && (kind <= 4 || kind == 9)) kind = 5 + R(3);
      T & s = *v[si]; const Shown sb = Show(*s.it);
      if (kind <= 3) {   // copy-assignment between two live iterators
         T & d = *v[di]; OP("IterCopyAssign iter%zu = iter%zu (target: %s%s, source: %s%s)", di, si, d.detached ? "detached" : d.curRemoved ? "scratch" : "live", d.back ? " backward" : "", s.detached ? "detached" : s.curRemoved ? "scratch" : "live", s.back ? " backward" : "");
         vh::stat("iter_assign_copy"); StateStats("target", d); StateStats("source", s); if (d.t != s.t) vh::stat("iter_assign_from_other_table"); if (d.back != s.back) vh::stat("iter_assign_direction_change");
         *d.it = *s.it; Expect("the target of a copy-assignment", *d.it, sb); Expect("the source of a copy-assignment", *s.it, sb); if (d.it->IsBackwards() != s.back) Fail("iter|assigned-iterator-differs-from-source", "direction flag not copied");
         Inherit(d, s); vh::stat("iter_traversals_abandoned_by_assignment");
      } else if (kind == 4) {   // move-assignment: the source is only good for destruction afterwards
         T & d = *v[di]; OP("IterMoveAssign iter%zu = move(iter%zu)", di, si); vh::stat("iter_assign_move"); StateStats("target", d); StateStats("source", s); if (d.t != s.t) vh::stat("iter_assign_from_other_table");
         *d.it = std::move(*s.it); Expect("the target of a move-assignment", *d.it, sb); Inherit(d, s); delete s.it; delete v[si]; v.erase(v.begin() + si); vh::stat("iter_traversals_abandoned_by_assignment");
      } else if (kind == 5) {   // copy- or move-construction
         bool mv = R(3) == 0; OP(mv ? "IterMoveConstruct from iter%zu" : "IterCopyConstruct from iter%zu", si); vh::stat(mv ? "iter_move_construct" : "iter_copy_construct"); StateStats("source", s);
         if (mv) { IT * n = new IT(std::move(*s.it)); Expect("a move-constructed iterator", *n, sb); delete s.it; s.it = n; }
         else if (v.size() < cap) { IT * n = new IT(*s.it); Expect("a copy-constructed iterator", *n, sb); Expect("the source of a copy-construction", *s.it, sb); T * x = new T(s); x->it = n; v.push_back(x); }
      } else if (kind == 6) { OP("IterSelfAssign iter%zu", si); vh::stat("iter_self_assign"); IT & self = *s.it; *s.it = self; Expect("a self-assigned iterator", *s.it, sb); }
      else if (kind == 7 || kind == 8) {   // an ended (still registered or not) or default-constructed iterator as source or as target
         bool useZombie = !zombies.empty() && R(3); bool asTarget = R(2);
         if (asTarget && v.size() < cap) { IT * z; if (useZombie) { z = zombies.back(); zombies.pop_back(); } else z = new IT(); OP("IterCopyAssign %s = iter%zu", useZombie ? "ended" : "default-constructed", si); vh::stat("iter_assign_target_at_end_or_default"); StateStats("source", s); *z = *s.it; Expect("an ended/default iterator after copy-assignment", *z, sb); Expect("the source of a copy-assignment", *s.it, sb); T * x = new T(s); x->it = z; v.push_back(x); }
         else if (!asTarget) { IT dflt; IT & src = useZombie ? *zombies[R((uint32)zombies.size())] : dflt; OP("IterCopyAssign iter%zu = %s", si, useZombie ? "ended" : "default-constructed"); vh::stat("iter_assign_source_at_end_or_default"); StateStats("target", s); *s.it = src; Shown none; none.has = false; none.k = none.v = 0; Expect("an iterator assigned from an ended/default one", *s.it, none);
            (*s.it)++; Expect("an iterator assigned from an ended/default one, advanced", *s.it, none); if (zombies.size() < 4) zombies.push_back(s.it); else delete s.it; delete v[si]; v.erase(v.begin() + si); vh::stat("iter_traversals_abandoned_by_assignment"); }
      } else {   // SwapContents between two iterators: each continues the other's traversal
         T & d = *v[di]; const Shown db = Show(*d.it); OP("IterSwapContents iter%zu iter%zu", di, si); vh::stat("iter_swap_contents"); if (d.t != s.t) vh::stat("iter_assign_from_other_table"); StateStats("target", d); StateStats("source", s);
         d.it->SwapContents(*s.it); std::swap(d.it, s.it); Expect("an iterator after SwapContents", *s.it, sb); Expect("the other iterator after SwapContents", *d.it, db); if (s.it->IsBackwards() != s.back || d.it->IsBackwards() != d.back) Fail("iter|assigned-iterator-differs-from-source", "direction flags not swapped");
      }
   }
   void Touch() { for (size_t i = 0; i < v.size(); i++) if (v[i]->it->HasData()) { (void)KT<K>::Id(v[i]->it->GetKey()); (void)VT<V>::Val(v[i]->it->GetValue()); } }
   void NoteMutation(int t) { for (size_t i = 0; i < v.size(); i++) if (v[i]->t == t) v[i]->mutated = true; }
   void NoteRemoved(int t, uint64_t id) { for (size_t i = 0; i < v.size(); i++) if (v[i]->t == t) { v[i]->must.erase(id); v[i]->mutated = true; if (v[i]->curId == id) v[i]->curGone = v[i]->curRemoved = true; } }
   void NoteReorder(int t) { for (size_t i = 0; i < v.size(); i++) if (v[i]->t == t) { v[i]->reordered = true; v[i]->curGone = true; } }
   void NoteDetach(int t) { for (size_t i = 0; i < v.size(); i++) if (v[i]->t == t) { v[i]->detached = true; v[i]->must.clear(); } }
   void NoteSwap() { for (size_t i = 0; i < v.size(); i++) v[i]->t ^= 1; }
   size_t CountOn(int t) const { size_t n = 0; for (size_t i = 0; i < v.size(); i++) if (v[i]->t == t && !v[i]->detached) n++; return n; }
   void DeleteIterators() { for (size_t i = 0; i < v.size(); i++) { delete v[i]->it; delete v[i]; } v.clear(); for (size_t i = 0; i < zombies.size(); i++) delete zombies[i]; zombies.clear(); }
};

static int WidthClass(uint32 slots) { return (slots >= 255 ? 1 : 0) + (slots >= 65535 ? 1 : 0); }   // observation only: from GetNumAllocatedItemSlots()

enum { O_PUT, O_PUTPREV, O_REMOVE, O_REMOVEOUT, O_REMOVEFIRST, O_REMOVELAST, O_MTF, O_MTB, O_MBEFORE, O_MBEHIND, O_MPOS, O_PUTPOS,
       O_SORTKEY, O_SORTVAL, O_ENSURE, O_SHRINK, O_CANPUT, O_CLEAR, O_GET, O_NEWITER, O_ADVANCE, O_DROPITER, O_GETMOVE, O_COPYCMP,
       O_ASSIGN, O_COPYFROM, O_MOVERT, O_SWAP, O_DESTROY, O_ENDS,
       O_PUTFRONT, O_PUTBACK, O_PUTBEFORE, O_PUTBEHIND, O_INDEX, O_NEIGHBOUR, O_VALUEQ, O_INTERSECT, O_REMOVETABLE, O_MOVETOTABLE,
       O_COPYTOTABLE, O_SWAPWITHTABLE, O_SETPRED, O_WBEPUT, O_WBEREMOVE, O_ISEQUAL, O_WITHDEFAULT, O_GETORPUT, O_PUTMISC, O_INVERT,
       O_LOCATED, O_PUTOWN, O_EXACTFILL, O_COPYITER, O_UTRAFFIC, O_ITERXFER, NUM_OPS };
enum { M_OPS, M_SURFACE, M_B256, M_B65536 };

// value-type specific extras (inverted table, histogram, hash code need a hashable value type)
template<class K, class V> struct Extras { static void Invert(const Hashtable<K, V> &, Model &) { vh::stat("skipped_invert_for_unhashable_value_type"); } };
template<class K> struct Extras<K, uint32> {
   static void Invert(const Hashtable<K, uint32> & T, Model & M)
   {
      typedef AutoChooseHashFunctorHelper<uint32>::Type VF;
      Hashtable<uint32, K> inv = T.template ComputeInvertedTable<VF>();
      std::map<uint32, uint32> lastKey, count; for (EL::iterator i = M.l.begin(); i != M.l.end(); ++i) { lastKey[i->v] = i->k; count[i->v]++; }   // documented: the last associated key wins
      if (inv.GetNumItems() != lastKey.size()) { Fail("", vh::fmt("inverted table has %u entries, model %zu distinct values", inv.GetNumItems(), lastKey.size())); return; }
      for (std::map<uint32, uint32>::iterator i = lastKey.begin(); i != lastKey.end(); ++i) { const K * pk = inv.Get(i->first); if (!pk || KT<K>::Id(*pk) != i->second) { Fail("", vh::fmt("inverted table maps value %u to key %u, model: last key with that value is %u", i->first, pk ? KT<K>::Id(*pk) : 0u, i->second)); return; } }
      Hashtable<uint32, uint32> hist = T.template ComputeValuesHistogram<VF>();
      if (hist.GetNumItems() != count.size()) { Fail("", "histogram size"); return; }
      for (std::map<uint32, uint32>::iterator i = count.begin(); i != count.end(); ++i) if (hist.GetWithDefault(i->first) != i->second) { Fail("", vh::fmt("histogram of value %u is %u, model %u", i->first, hist.GetWithDefault(i->first), i->second)); return; }
      if (M.size() >= 2) { Hashtable<K, uint32> c(T); (void)c.MoveToBack(*c.GetFirstKey()); if (c.HashCode() != T.HashCode()) Fail("", "HashCode() depends on the iteration order (documented not to)"); }
   }
};

template<class K, class V> struct Case : public Look {
   typedef Hashtable<K, V> HT; typedef HashtableIterator<K, V> IT; typedef ConstHashtableIterator<K, V> CIT;
   HT * tab[2]; Model mod[2]; TrkSet<K, V> ts;
   int mode; uint32 ks, vr, nextKey, target, center, maxIters; bool fresh, big, clearBudget; uint32 maxPop; long widthChanges, widthChangesLive;
   Case() { tab[0] = new HT; tab[1] = new HT; ts.look = this; nextKey = 1; maxPop = 0; widthChanges = widthChangesLive = 0; clearBudget = true; center = 0; }
   virtual bool Find(int t, uint32 kid, uint32 & v, uint64_t & id) { EL::iterator f = mod[t].find(kid); if (f == mod[t].l.end()) return false; v = f->v; id = f->id; return true; }
   static K KK(uint32 kid) { return KT<K>::Make(kid); }
   static V VV(uint32 v) { return VT<V>::Make(v); }
   static uint32 KI(const K & k) { return KT<K>::Id(k); }
   static uint32 VI(const V & v) { return VT<V>::Val(v); }
   uint32 rv() { return R(vr); }
   // key choices
   uint32 kNew(int t) { if (fresh) return nextKey++; for (int i = 0; i < 10; i++) { uint32 k = 1 + R(ks); if (!mod[t].has(k)) return k; } return 1 + R(ks); }
   uint32 kOld(int t) { return mod[t].randomPresent(); }
   uint32 kAny(int t) { if (fresh) return (R(10) < 7 && mod[t].size()) ? kOld(t) : (R(2) ? nextKey++ : 1 + R(nextKey)); return (R(3) == 0 && mod[t].size()) ? kOld(t) : 1 + R(ks); }
   // model mutations with iterator notifications
   void mErase(int t, EL::iterator it) { uint64_t id = it->id; mod[t].erase(it); ts.NoteRemoved(t, id); }
   bool mPut(int t, uint32 k, uint32 v) { EL::iterator f = mod[t].find(k); ts.NoteMutation(t); if (f != mod[t].l.end()) { f->v = v; return false; } mod[t].insertBefore(mod[t].l.end(), k, v); return true; }
   void mClear(int t, bool detach) { for (EL::iterator i = mod[t].l.begin(); i != mod[t].l.end(); ++i) ts.NoteRemoved(t, i->id); mod[t].clear(); if (detach) ts.NoteDetach(t); }
   void mCopyOnTop(int a, int b) { for (EL::iterator i = mod[b].l.begin(); i != mod[b].l.end(); ++i) (void)mPut(a, i->k, i->v); }
   // positional insert of (k,v): erase if present (that is a move: reordering), insert before 'before'
   void mPlace(int t, uint32 k, uint32 v, bool atEndIfNoAnchor, uint32 anchorKid, bool behind)
   {
      EL::iterator f = mod[t].find(k); EL::iterator an = mod[t].find(anchorKid);
      if (anchorKid == k || an == mod[t].l.end()) { (void)atEndIfNoAnchor; (void)mPut(t, k, v); return; }
      if (f != mod[t].l.end()) { f->v = v; EL::iterator dest = an; if (behind) ++dest; if (dest != f) mod[t].moveBefore(f, dest); ts.NoteReorder(t); }
      else { EL::iterator dest = an; if (behind) ++dest; mod[t].insertBefore(dest, k, v); ts.NoteMutation(t); }
   }
   void mPlaceAt(int t, uint32 k, uint32 v, uint32 pos)
   {
      Model & m = mod[t]; EL::iterator f = m.find(k);
      if (f != m.l.end()) {   // a move: position 'pos' among the other entries (beyond the end = last)
         f->v = v; size_t n = m.size() - 1, p = std::min<size_t>(pos, n), c = 0; EL::iterator d = m.l.begin();
         while (d != m.l.end()) { if (d != f) { if (c == p) break; c++; } ++d; }
         m.moveBefore(f, d); ts.NoteReorder(t);
      } else { size_t p = std::min<size_t>(pos, m.size()); m.insertBefore(m.at(p), k, v); ts.NoteMutation(t); }
   }

   void Audit(int t, bool deep)
   {
      if (caseBad) return;
      const HT & h = *tab[t]; Model & m = mod[t]; vh::stat(deep ? "audits_deep" : "audits");
      struct AuditKey { std::string & o; std::string keep; bool on; AuditKey(std::string & o_, bool on_) : o(o_), keep(o_), on(on_) { if (on) o = "audit (sparse in this mode; the divergence stems from one of the last operations) after: " + keep; } ~AuditKey() { if (on) o = keep; } } auditKey(opname, center != 0 && opname.compare(0, 5, "audit") != 0);
      if (h.GetNumItems() != m.size()) { Fail("", vh::fmt("table %d: size %u, model %zu", t, h.GetNumItems(), m.size())); return; }
      if (h.IsEmpty() != (m.size() == 0) || h.HasItems() == (m.size() == 0)) { Fail("", "IsEmpty/HasItems"); return; }
      if (h.GetNumAllocatedItemSlots() < h.GetNumItems()) { Fail("", "allocated slots < items"); return; }
      EL::iterator mi = m.l.begin(); uint32 n = 0;
      if (R(2)) { for (CIT it(h, HTIT_FLAG_NOREGISTER); it.HasData(); it++, ++mi, n++) if (mi == m.l.end() || KI(it.GetKey()) != mi->k || VI(it.GetValue()) != mi->v) { Fail("", vh::fmt("table %d: forward iteration differs from the model at position %u (table has key %u value %u, model %s)", t, n, KI(it.GetKey()), VI(it.GetValue()), mi == m.l.end() ? "ends" : vh::fmt("key %u value %u", mi->k, mi->v).c_str())); return; } }
      else { for (CIT it = h.GetIterator(); it.HasData(); it++, ++mi, n++) if (mi == m.l.end() || KI(it.GetKey()) != mi->k || VI(it.GetValue()) != mi->v) { Fail("", vh::fmt("table %d: forward iteration (registered) differs from the model at position %u", t, n)); return; } }
      if (n != m.size()) { Fail("", vh::fmt("table %d: forward iteration yielded %u of %zu entries", t, n, m.size())); return; }
      EL::reverse_iterator ri = m.l.rbegin(); n = 0;
      for (CIT it(h, HTIT_FLAG_BACKWARDS | (R(2) ? HTIT_FLAG_NOREGISTER : 0)); it.HasData(); it++, ++ri, n++) if (ri == m.l.rend() || KI(it.GetKey()) != ri->k || VI(it.GetValue()) != ri->v) { Fail("", vh::fmt("table %d: backward iteration differs from the model at position %u from the end", t, n)); return; }
      if (n != m.size()) { Fail("", vh::fmt("table %d: backward iteration yielded %u of %zu entries", t, n, m.size())); return; }
      if (m.size()) { if (!h.GetFirstKey() || KI(*h.GetFirstKey()) != m.l.front().k || !h.GetLastKey() || KI(*h.GetLastKey()) != m.l.back().k || !h.GetFirstValue() || VI(*h.GetFirstValue()) != m.l.front().v || !h.GetLastValue() || VI(*h.GetLastValue()) != m.l.back().v) { Fail("", "GetFirst/Last Key/Value"); return; } }
      else if (h.GetFirstKey() || h.GetLastKey() || h.GetFirstValue() || h.GetLastValue()) { Fail("", "GetFirst/Last* not NULL on an empty table"); return; }
      if (deep) {
         uint32 lim = big ? 300 : (uint32)m.size();
         if (!big) for (EL::iterator i = m.l.begin(); i != m.l.end(); ++i) { const V * p = h.Get(KK(i->k)); if (!p || VI(*p) != i->v || !h.ContainsKey(KK(i->k))) { Fail("", vh::fmt("table %d: lookup of present key %u", t, i->k)); return; } }
         else for (uint32 j = 0; j < lim && m.size(); j++) { uint32 k = m.randomPresent(); const V * p = h.Get(KK(k)); if (!p || VI(*p) != m.find(k)->v) { Fail("", vh::fmt("table %d: lookup of present key %u", t, k)); return; } }
         for (uint32 j = 0; j < 8; j++) { uint32 k = fresh ? 1 + R(nextKey + 5) : 1 + R(ks + 5); if (!m.has(k) && (h.Get(KK(k)) != NULL || h.ContainsKey(KK(k)))) { Fail("", vh::fmt("table %d: lookup of absent key %u succeeds", t, k)); return; } }
         if (m.size() >= 3 && !big) {   // iter-- is documented as the opposite of ++ (quiescent table)
            CIT f(h); f++; f++; f--; EL::iterator s = m.l.begin(); ++s; if (!f.HasData() || KI(f.GetKey()) != s->k) { Fail("", "iterator ++ ++ -- is not at the second entry"); return; }
            CIT b(h, HTIT_FLAG_BACKWARDS); b++; b++; b--; EL::reverse_iterator rs = m.l.rbegin(); ++rs; if (!b.HasData() || KI(b.GetKey()) != rs->k) { Fail("", "backward iterator ++ ++ -- is not at the last-but-one entry"); return; }
         }
      }
   }

   void NewIter(int t)
   {
      Model & m = mod[t]; bool back = R(2); uint32 flags = back ? HTIT_FLAG_BACKWARDS : 0; int style = R(5); IT * it; std::vector<uint64_t> ahead; uint32 expect = 0;
      if (style >= 3) {   // started at a key (present, or sometimes absent: "an empty iterator will be returned")
         uint32 k = (R(6) == 0 || m.size() == 0) ? kNew(t) : kOld(t); if (fresh && !m.has(k) && k >= nextKey) nextKey = k + 1;
         OP("NewIterAt t%d key %u %s", t, k, back ? "backward" : "forward");
         it = (style == 3) ? new IT(*tab[t], KK(k), flags) : new IT(tab[t]->GetIteratorAt(KK(k), flags));
         EL::iterator f = m.find(k);
         if (f != m.l.end()) { expect = k; if (!back) for (EL::iterator i = f; i != m.l.end(); ++i) ahead.push_back(i->id); else { for (EL::iterator i = f; ; --i) { ahead.push_back(i->id); if (i == m.l.begin()) break; } } }
      } else {
         OP("NewIter t%d %s", t, back ? "backward" : "forward");
         it = (style == 0) ? new IT(*tab[t], flags) : new IT(tab[t]->GetIterator(flags));
         if (m.size()) { expect = back ? m.l.back().k : m.l.front().k; if (!back) for (EL::iterator i = m.l.begin(); i != m.l.end(); ++i) ahead.push_back(i->id); else for (EL::reverse_iterator i = m.l.rbegin(); i != m.l.rend(); ++i) ahead.push_back(i->id); }
      }
      ts.Begin(it, back, t, ahead, expect);
   }
   void CopyIter()
   {
      if (ts.v.empty()) return; Trk<K, V> & s = *ts.v[R((uint32)ts.v.size())];
      if (s.detached || s.curGone || s.reordered || !s.it->HasData()) return;
      Model & m = mod[s.t]; uint32 k = KI(s.it->GetKey()); EL::iterator f = m.find(k); if (f == m.l.end() || f->id != s.curId) return;
      OP("CopyIter t%d at key %u", s.t, k); IT * it; if (R(2)) it = new IT(*s.it); else { it = new IT(); *it = *s.it; }
      std::vector<uint64_t> ahead; if (!s.back) for (EL::iterator i = f; i != m.l.end(); ++i) ahead.push_back(i->id); else for (EL::iterator i = f; ; --i) { ahead.push_back(i->id); if (i == m.l.begin()) break; }
      ts.Begin(it, s.back, s.t, ahead, k);
   }
   struct RevKey { int Compare(const K & a, const K & b, void *) const { return (a < b) ? 1 : ((b < a) ? -1 : 0); } };
   static bool KidLess(const Ent & a, const Ent & b) { return a.k < b.k; }
   static bool KidGreater(const Ent & a, const Ent & b) { return a.k > b.k; }
   static bool ValLess(const Ent & a, const Ent & b) { return a.v < b.v; }
   // after a sort by value: ties are in unspecified order; accept any sorted permutation and adopt it
   void AfterValueSort(int t)
   {
      Model & m = mod[t]; HT & h = *tab[t]; bool same = (h.GetNumItems() == m.size()); EL::iterator mi = m.l.begin();
      for (CIT it(h, HTIT_FLAG_NOREGISTER); same && it.HasData(); it++, ++mi) if (KI(it.GetKey()) != mi->k) same = false;
      if (same) return;
      if (h.GetNumItems() != m.size()) { Fail("", "size changed by a sort"); return; }
      uint32 prev = 0; bool first = true; EL::iterator dest = m.l.begin(); std::vector<uint32> order;
      for (CIT it(h, HTIT_FLAG_NOREGISTER); it.HasData(); it++) { uint32 k = KI(it.GetKey()); EL::iterator f = m.find(k); if (f == m.l.end() || f->v != VI(it.GetValue())) { Fail("", "sort by value changed the contents"); return; } if (!first && f->v < prev) { Fail("", "not sorted after a sort by value"); return; } prev = f->v; first = false; order.push_back(k); }
      for (size_t i = 0; i < order.size(); i++) m.l.splice(m.l.end(), m.l, m.find(order[i]));
      vh::stat("unspecified_sort_tie_order_not_stable");
   }

   void Step(int op)
   {
      const int a = (R(6) == 0) ? 1 : 0, b = 1 - a; HT & T = *tab[a]; HT & U = *tab[b]; Model & M = mod[a]; Model & UM = mod[b];
      const uint32 sz = (uint32)M.size(); status_t r; uint32 k = kAny(a), k2 = kAny(a), v = rv();
      EL::iterator fk = M.find(k), fk2 = M.find(k2); const bool hk = fk != M.l.end(), hk2 = fk2 != M.l.end();
      switch (op) {
      case O_PUT: { if (hk && R(2)) { k = kNew(a); fk = M.find(k); } OP("Put t%d %u=%u", a, k, v); if (R(2)) { K kk = KK(k); V vv = VV(v); r = T.Put(kk, vv); } else r = T.Put(KK(k), VV(v)); if (r.IsError()) Fail("", "Put failed"); (void)mPut(a, k, v); } break;
      case O_PUTPREV: { OP("PutPrev t%d %u=%u", a, k, v); V prev = VV(4242); bool rep = !hk; r = T.Put(KK(k), VV(v), prev, &rep); if (r.IsError()) Fail("", "failed"); if (rep != hk) Fail("", "replaced flag"); if (hk && VI(prev) != fk->v) Fail("", vh::fmt("previous value %u, model %u", VI(prev), fk->v)); (void)mPut(a, k, v); } break;
      case O_REMOVE: { if (!hk && R(2) && sz) { k = kOld(a); fk = M.find(k); } bool h = fk != M.l.end(); OP("Remove t%d %u", a, k); r = T.Remove(KK(k)); if (r.IsOK() != h) Fail("", vh::fmt("status %s, model has key: %d", r(), (int)h)); if (h) mErase(a, fk); } break;
      case O_REMOVEOUT: { if (!hk && sz) { k = kOld(a); fk = M.find(k); } bool h = fk != M.l.end(); OP("RemoveOut t%d %u", a, k); V out = VV(777); r = T.Remove(KK(k), out); if (r.IsOK() != h) Fail("", "status"); if (h) { if (VI(out) != fk->v) Fail("", vh::fmt("removed value %u, model %u", VI(out), fk->v)); mErase(a, fk); } } break;
      case O_REMOVEFIRST: { int st = R(3); OP("RemoveFirst t%d style %d", a, st); K ok = KK(0); V ov = VV(0); r = (st == 0) ? T.RemoveFirst() : (st == 1) ? T.RemoveFirst(ok) : T.RemoveFirst(ok, ov); if (r.IsOK() != (sz > 0)) Fail("", "status"); if (sz) { if (st >= 1 && KI(ok) != M.l.front().k) Fail("", "removed key"); if (st == 2 && VI(ov) != M.l.front().v) Fail("", "removed value"); mErase(a, M.l.begin()); } } break;
      case O_REMOVELAST: { int st = R(3); OP("RemoveLast t%d style %d", a, st); K ok = KK(0); V ov = VV(0); r = (st == 0) ? T.RemoveLast() : (st == 1) ? T.RemoveLast(ok) : T.RemoveLast(ok, ov); if (r.IsOK() != (sz > 0)) Fail("", "status"); if (sz) { EL::iterator l = M.l.end(); --l; if (st >= 1 && KI(ok) != l->k) Fail("", "removed key"); if (st == 2 && VI(ov) != l->v) Fail("", "removed value"); mErase(a, l); } } break;
      case O_MTF: { if (!hk && sz && R(4)) { k = kOld(a); fk = M.find(k); } bool h = fk != M.l.end(); OP("MoveToFront t%d %u", a, k); r = T.MoveToFront(KK(k)); if (r.IsOK() != h) Fail("", "status"); if (h) { M.moveBefore(fk, M.l.begin()); ts.NoteReorder(a); } } break;
      case O_MTB: { if (!hk && sz && R(4)) { k = kOld(a); fk = M.find(k); } bool h = fk != M.l.end(); OP("MoveToBack t%d %u", a, k); r = T.MoveToBack(KK(k)); if (r.IsOK() != h) Fail("", "status"); if (h) { M.moveBefore(fk, M.l.end()); ts.NoteReorder(a); } } break;
      case O_MBEFORE: case O_MBEHIND: { if (sz >= 2 && R(4)) { k = kOld(a); k2 = kOld(a); fk = M.find(k); fk2 = M.find(k2); } bool ok = fk != M.l.end() && fk2 != M.l.end() && k != k2; bool behind = (op == O_MBEHIND); OP(behind ? "MoveToBehind t%d %u %u" : "MoveToBefore t%d %u %u", a, k, k2);
         r = behind ? T.MoveToBehind(KK(k), KK(k2)) : T.MoveToBefore(KK(k), KK(k2)); if (r.IsOK() != ok) Fail("", vh::fmt("status %s, expected success: %d", r(), (int)ok)); if (ok) { EL::iterator d = fk2; if (behind) ++d; if (d != fk) M.moveBefore(fk, d); ts.NoteReorder(a); } } break;
      case O_MPOS: { if (!hk && sz && R(4)) { k = kOld(a); fk = M.find(k); } bool h = fk != M.l.end(); uint32 pos = R(sz + 3); OP("MoveToPosition t%d %u -> %u/%u", a, k, pos, sz); r = T.MoveToPosition(KK(k), pos); if (r.IsOK() != h) Fail("", "status"); if (h) mPlaceAt(a, k, fk->v, pos); } break;
      case O_PUTPOS: { uint32 pos = R(sz + 3); OP("PutAtPosition t%d %u=%u at %u/%u", a, k, v, pos, sz); r = T.PutAtPosition(KK(k), pos, VV(v)); if (r.IsError()) Fail("", "failed"); mPlaceAt(a, k, v, pos); } break;
      case O_SORTKEY: { bool rev = R(3) == 0; OP(rev ? "SortByKeyReverse t%d" : "SortByKey t%d", a); if (rev) T.SortByKey(RevKey()); else T.SortByKey(); M.l.sort(rev ? KidGreater : KidLess); if (sz > 1) ts.NoteReorder(a); } break;
      case O_SORTVAL: { OP("SortByValue t%d", a); T.SortByValue(); M.l.sort(ValLess); if (sz > 1) ts.NoteReorder(a); AfterValueSort(a); } break;
      case O_ENSURE: { bool sh = R(2); uint32 want = big ? sz + R(4) : (R(3) ? sz + R(12) : R(sz + 30)); uint32 before = T.GetNumAllocatedItemSlots(); OP("EnsureSize t%d %u shrink %d (items %u slots %u)", a, want, (int)sh, sz, before); r = T.EnsureSize(want, sh); if (r.IsError()) Fail("", "failed"); uint32 after = T.GetNumAllocatedItemSlots();
         if (after < want || after < sz || (!sh && after < before)) Fail("", vh::fmt("slots %u after EnsureSize(%u,%d), before %u", after, want, (int)sh, before)); if (sh && want < before && muscleMax(want, sz) > 0 && after != muscleMax(want, sz)) Fail("", vh::fmt("documented to shrink to max(newTableSize, items): slots %u", after)); if (after != before) ts.NoteMutation(a); } break;
      case O_SHRINK: { uint32 ex = R(3); OP("ShrinkToFit t%d extra %u (items %u slots %u)", a, ex, sz, T.GetNumAllocatedItemSlots()); r = T.ShrinkToFit(ex); if (r.IsError()) Fail("", "failed"); if (sz + ex > 0 && T.GetNumAllocatedItemSlots() != sz + ex) Fail("", vh::fmt("slots %u after ShrinkToFit(%u) with %u items", T.GetNumAllocatedItemSlots(), ex, sz)); ts.NoteMutation(a); } break;
      case O_CANPUT: { uint32 n = R(big ? 5 : 20); OP("EnsureCanPut t%d %u", a, n); r = T.EnsureCanPut(n); if (r.IsError() || T.GetNumAllocatedItemSlots() - T.GetNumItems() < n) Fail("", "not enough spare slots afterwards"); } break;
      case O_CLEAR: { if (!clearBudget) break; clearBudget = false; bool rel = R(2); OP(rel ? "ClearRelease t%d" : "Clear t%d", a); T.Clear(rel); mClear(a, true); } break;
      case O_GET: { if (!hk && sz && R(2)) { k = kOld(a); fk = M.find(k); } bool h = fk != M.l.end(); uint32 mv = h ? fk->v : 0; OP("Get t%d %u", a, k); const HT & C = T; K kk = KK(k);
         const V * p = C.Get(kk); if ((p != NULL) != h || (p && VI(*p) != mv)) Fail("", "Get(key) const"); V * q = T.Get(kk); if ((q != NULL) != h || (q && VI(*q) != mv)) Fail("", "Get(key)");
         V o = VV(555); r = C.Get(kk, o); if (r.IsOK() != h || (h && VI(o) != mv)) Fail("", "Get(key, ret)"); p = C.GetValue(kk); if ((p != NULL) != h) Fail("", "GetValue(key)"); o = VV(556); r = C.GetValue(kk, o); if (r.IsOK() != h || (h && VI(o) != mv)) Fail("", "GetValue(key, ret)");
         if (VI(C[kk]) != mv) Fail("", "operator[]"); if (VI(C.GetWithDefault(kk)) != mv) Fail("", "GetWithDefault(key)"); if (VI(C.GetWithDefault(kk, VV(9))) != (h ? mv : 9u)) Fail("", "GetWithDefault(key, default)"); if (C.ContainsKey(kk) != h) Fail("", "ContainsKey");
         const K * pk = C.GetKey(kk); if ((pk != NULL) != h || (pk && KI(*pk) != k)) Fail("", "GetKey(lookup)"); K ok = KK(0); r = C.GetKey(kk, ok); if (r.IsOK() != h || (h && KI(ok) != k)) Fail("", "GetKey(lookup, ret)"); } break;
      case O_NEWITER: if (ts.v.size() < maxIters) NewIter(R(5) == 0 ? b : a); break;
      case O_COPYITER: if (ts.v.size() < maxIters) CopyIter(); break;
      case O_ITERXFER: ts.Transfer(maxIters + 2); break;
      case O_ADVANCE: if (ts.v.size()) { size_t i = R((uint32)ts.v.size()); uint32 pop = (uint32)mod[ts.v[i]->t].size(); uint32 steps = big ? 1 + R(pop / 3 + 2) : (pop > 60 ? 1 + R(pop / 4) : 1 + R(3)); OP("Advance iter%zu x%u", i, steps); ts.Advance(i, steps); } break;
      case O_DROPITER: if (ts.v.size() > 1 && R(3) == 0) { size_t i = R((uint32)ts.v.size()); OP("DropIter iter%zu", i); delete ts.v[i]->it; delete ts.v[i]; ts.v.erase(ts.v.begin() + i); vh::stat("iter_dropped_midway"); } break;
      case O_GETMOVE: { if (!hk && sz && R(4)) { k = kOld(a); fk = M.find(k); } bool h = fk != M.l.end(); bool front = R(2); int st = R(2); OP(front ? "GetAndMoveToFront t%d %u" : "GetAndMoveToBack t%d %u", a, k);
         if (st) { V * p = front ? T.GetAndMoveToFront(KK(k)) : T.GetAndMoveToBack(KK(k)); if ((p != NULL) != h || (p && VI(*p) != fk->v)) Fail("", "returned pointer"); } else { V o = VV(31); r = front ? T.GetAndMoveToFront(KK(k), o) : T.GetAndMoveToBack(KK(k), o); if (r.IsOK() != h || (h && VI(o) != fk->v)) Fail("", "status/value"); }
         if (h) { M.moveBefore(fk, front ? M.l.begin() : M.l.end()); ts.NoteReorder(a); } } break;
      case O_COPYCMP: { if (big && R(8)) break; OP("copy+compare t%d", a); HT c(T); if (!(c == T) || (c != T) || !T.IsEqualTo(c, true) || !c.IsEqualTo(T, false)) Fail("", "copy differs from the original"); { HT * keep = tab[a]; tab[a] = &c; Audit(a, false); tab[a] = keep; }
         if (c.GetNumAllocatedItemSlots() < T.GetNumItems()) Fail("", "copy slots");
         if (sz && R(2)) { uint32 ck = kOld(a); (void)c.Put(KK(ck), VV(M.find(ck)->v + 1)); if (c == T || !(c != T)) Fail("", "copy with one changed value compares equal"); } else { uint32 nk = kNew(a); if (!M.has(nk)) { (void)c.Put(KK(nk), VV(v)); if (c == T || T == c) Fail("", "copy with one more key compares equal"); } } } break;
      case O_ASSIGN: { if (big) break; OP("assign t%d = t%d", a, b); T = U; mClear(a, true); mCopyOnTop(a, b); } break;
      case O_COPYFROM: { if (big) break; bool cf = R(2); int st = R(2); OP(cf ? "CopyFromClear t%d <- t%d" : "PutTable t%d <- t%d", a, b); if (cf) { r = T.CopyFrom(U, true); mClear(a, true); } else r = st ? T.CopyFrom(U, false) : T.Put(U); if (r.IsError()) Fail("", "failed"); mCopyOnTop(a, b); } break;
      case O_MOVERT: { OP("moveRoundTrip t%d", a); HT moved(std::move(T)); if (T.GetNumItems() != 0) Fail("", "moved-from table not empty"); { HT * keep = tab[a]; tab[a] = &moved; Audit(a, false); ts.Touch(); tab[a] = keep; } T = std::move(moved); } break;
      case O_SWAP: { OP("SwapContents"); if (R(2)) T.SwapContents(U); else muscleSwap(T, U); mod[0].swap(mod[1]); ts.NoteSwap(); ts.NoteMutation(0); ts.NoteMutation(1); } break;
      case O_DESTROY: { if (!clearBudget) break; clearBudget = false; OP("destroy+recreate t%d", a); delete tab[a]; mClear(a, true); ts.Touch(); tab[a] = new HT; } break;
      case O_ENDS: { OP("ends t%d", a); const HT & C = T; uint32 fkid = sz ? M.l.front().k : 0, lkid = sz ? M.l.back().k : 0, fv = sz ? M.l.front().v : 0, lv = sz ? M.l.back().v : 0;
         if (KI(C.GetFirstKeyWithDefault()) != fkid || KI(C.GetLastKeyWithDefault()) != lkid) Fail("", "GetFirst/LastKeyWithDefault()"); if (KI(C.GetFirstKeyWithDefault(KK(99991))) != (sz ? fkid : 99991u) || KI(C.GetLastKeyWithDefault(KK(99991))) != (sz ? lkid : 99991u)) Fail("", "GetFirst/LastKeyWithDefault(default)");
         if (VI(C.GetFirstValueWithDefault()) != fv || VI(C.GetLastValueWithDefault()) != lv) Fail("", "GetFirst/LastValueWithDefault()"); if (VI(C.GetFirstValueWithDefault(VV(77))) != (sz ? fv : 77u) || VI(C.GetLastValueWithDefault(VV(77))) != (sz ? lv : 77u)) Fail("", "GetFirst/LastValueWithDefault(default)");
         if (C.GetLastValidIndex() != (int32)sz - 1 || C.IsIndexValid(sz) || (sz && !C.IsIndexValid(sz - 1))) Fail("", "GetLastValidIndex/IsIndexValid"); } break;
      // ---- the long tail of the public surface (ht4 probe)
      case O_PUTFRONT: { OP("PutAtFront t%d %u=%u", a, k, v); r = T.PutAtFront(KK(k), VV(v)); if (r.IsError()) Fail("", "failed"); if (hk) { fk->v = v; M.moveBefore(fk, M.l.begin()); ts.NoteReorder(a); } else { M.insertBefore(M.l.begin(), k, v); ts.NoteMutation(a); } } break;
      case O_PUTBACK: { OP("PutAtBack t%d %u=%u", a, k, v); r = T.PutAtBack(KK(k), VV(v)); if (r.IsError()) Fail("", "failed"); if (hk) { fk->v = v; M.moveBefore(fk, M.l.end()); ts.NoteReorder(a); } else (void)mPut(a, k, v); } break;
      case O_PUTBEFORE: case O_PUTBEHIND: { bool behind = (op == O_PUTBEHIND); if (sz && R(3)) k2 = kOld(a); OP(behind ? "PutBehind t%d %u=%u behind %u" : "PutBefore t%d %u=%u before %u", a, k, v, k2); r = behind ? T.PutBehind(KK(k), KK(k2), VV(v)) : T.PutBefore(KK(k), KK(k2), VV(v)); if (r.IsError()) Fail("", "failed"); mPlace(a, k, v, true, k2, behind); } break;
      case O_INDEX: { if (big && R(4)) break; if (!hk && sz && R(2)) k = kOld(a); int mi = M.indexOf(k); uint32 pos = R(sz + 3); OP("IndexOfKey/GetKeyAt t%d key %u pos %u/%u", a, k, pos, sz); const HT & C = T; if (C.IndexOfKey(KK(k)) != mi) Fail("", vh::fmt("IndexOfKey(%u)=%d, model %d", k, C.IndexOfKey(KK(k)), mi));
         EL::iterator at = M.at(pos); bool in = pos < sz; const K * pk = C.GetKeyAt(pos); if ((pk != NULL) != in || (pk && KI(*pk) != at->k)) Fail("", "GetKeyAt(index)"); const V * pv = C.GetValueAt(pos); if ((pv != NULL) != in || (pv && VI(*pv) != at->v)) Fail("", "GetValueAt(index)");
         K ok = KK(0); r = C.GetKeyAt(pos, ok); if (r.IsOK() != in || (in && KI(ok) != at->k)) Fail("", "GetKeyAt(index, ret)"); V ov = VV(0); r = C.GetValueAt(pos, ov); if (r.IsOK() != in || (in && VI(ov) != at->v)) Fail("", "GetValueAt(index, ret)");
         if (KI(C.GetKeyAtWithDefault(pos)) != (in ? at->k : 0u) || KI(C.GetKeyAtWithDefault(pos, KK(99992))) != (in ? at->k : 99992u)) Fail("", "GetKeyAtWithDefault"); if (VI(C.GetValueAtWithDefault(pos)) != (in ? at->v : 0u) || VI(C.GetValueAtWithDefault(pos, VV(88))) != (in ? at->v : 88u)) Fail("", "GetValueAtWithDefault"); } break;
      case O_NEIGHBOUR: { if (!hk && sz && R(2)) { k = kOld(a); fk = M.find(k); } bool h = fk != M.l.end(); OP("GetKeyBefore/After t%d %u", a, k); const K * pb = T.GetKeyBefore(KK(k)); const K * pa = T.GetKeyAfter(KK(k)); uint32 wb = 0, wa = 0; if (h) { if (fk != M.l.begin()) { EL::iterator p = fk; --p; wb = p->k; } EL::iterator n = fk; ++n; if (n != M.l.end()) wa = n->k; }
         if ((pb ? KI(*pb) : 0u) != wb) Fail("", vh::fmt("GetKeyBefore(%u): %u, model %u", k, pb ? KI(*pb) : 0u, wb)); if ((pa ? KI(*pa) : 0u) != wa) Fail("", vh::fmt("GetKeyAfter(%u): %u, model %u", k, pa ? KI(*pa) : 0u, wa)); } break;
      case O_VALUEQ: { if (big && R(4)) break; if (sz && R(2)) v = M.find(kOld(a))->v; OP("valueQueries t%d value %u", a, v); int fi = -1, li = -1, q = 0; uint32 fkk = 0, lkk = 0; for (EL::iterator i = M.l.begin(); i != M.l.end(); ++i, q++) if (i->v == v) { if (fi < 0) { fi = q; fkk = i->k; } li = q; lkk = i->k; }
         V vv = VV(v); if (T.ContainsValue(vv) != (fi >= 0)) Fail("", "ContainsValue"); if (T.IndexOfValue(vv) != fi) Fail("", vh::fmt("IndexOfValue forward %d, model %d", T.IndexOfValue(vv), fi)); if (T.IndexOfValue(vv, true) != li) Fail("", vh::fmt("IndexOfValue backward %d, model %d", T.IndexOfValue(vv, true), li));
         const K * f1 = T.GetFirstKeyWithValue(vv); const K * l1 = T.GetLastKeyWithValue(vv); if ((f1 ? KI(*f1) : 0u) != fkk) Fail("", "GetFirstKeyWithValue"); if ((l1 ? KI(*l1) : 0u) != lkk) Fail("", "GetLastKeyWithValue"); } break;
      case O_INTERSECT: { if (big) break; OP("Intersect t%d with t%d", a, b); uint32 rem = T.Intersect(U); uint32 cnt = 0; for (EL::iterator i = M.l.begin(); i != M.l.end(); ) { EL::iterator n = i; ++n; if (!UM.has(i->k)) { mErase(a, i); cnt++; } i = n; } if (rem != cnt) Fail("", vh::fmt("returned %u, model removed %u", rem, cnt)); if (R(8) == 0) { if (T.Intersect(T) != 0) Fail("", "Intersect(self) removed something"); } } break;
      case O_REMOVETABLE: { if (big) break; bool self = (R(25) == 0) && clearBudget; if (self) { clearBudget = false; OP("RemoveTableSelf t%d", a); uint32 rem = T.Remove(T); if (rem != sz) Fail("", "Remove(self) count"); mClear(a, true); break; } OP("RemoveTable t%d minus t%d", a, b); uint32 rem = T.Remove(U); uint32 cnt = 0; for (EL::iterator i = UM.l.begin(); i != UM.l.end(); ++i) { EL::iterator f = M.find(i->k); if (f != M.l.end()) { mErase(a, f); cnt++; } } if (rem != cnt) Fail("", vh::fmt("returned %u, model removed %u", rem, cnt)); } break;
      case O_MOVETOTABLE: { if (!hk && sz && R(2)) { k = kOld(a); fk = M.find(k); } bool h = fk != M.l.end(); OP("MoveToTable t%d %u -> t%d", a, k, b); r = T.MoveToTable(KK(k), U); if (r.IsOK() != h) Fail("", "status"); if (h) { uint32 mv = fk->v; mErase(a, fk); (void)mPut(b, k, mv); } if (R(10) == 0 && sz) { uint32 s = (uint32)M.size(); if (M.size() && T.MoveToTable(KK(kOld(a)), T).IsError()) Fail("", "MoveToTable(self) failed"); if (T.GetNumItems() != s) Fail("", "MoveToTable(self) changed the table"); } } break;
      case O_COPYTOTABLE: { if (!hk && sz && R(2)) { k = kOld(a); fk = M.find(k); } bool h = fk != M.l.end(); OP("CopyToTable t%d %u -> t%d", a, k, b); r = T.CopyToTable(KK(k), U); if (r.IsOK() != h) Fail("", "status"); if (h) (void)mPut(b, k, fk->v); } break;
      case O_SWAPWITHTABLE: { if (R(2) && UM.size()) k = kOld(b); fk = M.find(k); EL::iterator fu = UM.find(k); bool h = fk != M.l.end(), hu = fu != UM.l.end(); OP("SwapWithTable %u t%d(%d) t%d(%d)", k, a, (int)h, b, (int)hu); r = T.SwapWithTable(KK(k), U); if (r.IsOK() != (h || hu)) Fail("", "status");
         if (h && hu) { std::swap(fk->v, fu->v); ts.NoteMutation(a); ts.NoteMutation(b); } else if (h) { uint32 mv = fk->v; mErase(a, fk); (void)mPut(b, k, mv); } else if (hu) { uint32 mv = fu->v; mErase(b, fu); (void)mPut(a, k, mv); } } break;
      case O_SETPRED: { if (big) break; OP("setPredicates t%d t%d", a, b); bool sub = true, sup = true, common = false, subV = true, supV = true; for (EL::iterator i = M.l.begin(); i != M.l.end(); ++i) { EL::iterator f = UM.find(i->k); if (f == UM.l.end()) sub = subV = false; else { common = true; if (f->v != i->v) subV = false; } } for (EL::iterator i = UM.l.begin(); i != UM.l.end(); ++i) { EL::iterator f = M.find(i->k); if (f == M.l.end()) sup = supV = false; else if (f->v != i->v) supV = false; }
         // ordered forms: the keys (and values) of one table appear in the other in the same relative order
         std::vector<std::pair<uint32, uint32> > pa = M.pairs(), pb = UM.pairs(); bool subO = true, subVO = true; { size_t j = 0; for (size_t i = 0; i < pa.size(); i++) { while (j < pb.size() && pb[j].first != pa[i].first) j++; if (j == pb.size()) { subO = subVO = false; break; } if (pb[j].second != pa[i].second) subVO = false; j++; } }
         bool eqO = pa.size() == pb.size(); for (size_t i = 0; eqO && i < pa.size(); i++) if (pa[i].first != pb[i].first) eqO = false;
         if (T.AreKeysASubsetOf(U) != sub) Fail("", "AreKeysASubsetOf"); if (T.AreKeysASupersetOf(U) != sup) Fail("", "AreKeysASupersetOf"); if (T.AreKeySetsEqual(U) != (sub && sup)) Fail("", "AreKeySetsEqual"); if (T.HasKeysInCommonWith(U) != common || U.HasKeysInCommonWith(T) != common) Fail("", "HasKeysInCommonWith");
         if (T.AreKeysAndValuesASubsetOf(U) != subV) Fail("", "AreKeysAndValuesASubsetOf"); if (T.AreKeysAndValuesASupersetOf(U) != supV) Fail("", "AreKeysAndValuesASupersetOf");
         if (T.AreKeysASubsetOf(U, true) != subO) Fail("", "AreKeysASubsetOf(ordered)"); if (T.AreKeysAndValuesASubsetOf(U, true) != subVO) Fail("", "AreKeysAndValuesASubsetOf(ordered)"); if (T.AreKeySetsEqual(U, true) != eqO) Fail("", "AreKeySetsEqual(ordered)"); if (U.AreKeysASupersetOf(T, true) != subO) Fail("", "AreKeysASupersetOf(ordered)"); } break;
      case O_WBEPUT: { if (big) break; OP("WouldBeEqualToAfterPut t%d %u=%u", a, k, v); HT c(T); std::vector<std::pair<uint32, uint32> > cm = M.pairs(), am = M.pairs(); int how = R(5);
         { size_t i = 0; for (; i < am.size(); i++) if (am[i].first == k) { am[i].second = v; break; } if (i == am.size()) am.push_back(std::make_pair(k, v)); }   // this table after the imagined Put
         if (how == 0) { (void)c.Put(KK(k), VV(v)); cm = am; }                                                                 // rhs = exactly the result
         else if (how == 1) { (void)c.Put(KK(k), VV(v + 1)); cm = am; for (size_t i = 0; i < cm.size(); i++) if (cm[i].first == k) cm[i].second = v + 1; }   // rhs has another value for the key (F30)
         else if (how == 2) { uint32 ok2 = kNew(a); if (ok2 != k) { (void)c.Put(KK(ok2), VV(v)); size_t i = 0; for (; i < cm.size(); i++) if (cm[i].first == ok2) { cm[i].second = v; break; } if (i == cm.size()) cm.push_back(std::make_pair(ok2, v)); } }   // rhs got another key
         else if (how == 3) { uint32 pos = R((uint32)cm.size() + 1); (void)c.PutAtPosition(KK(k), pos, VV(v)); for (size_t i = 0; i < cm.size(); i++) if (cm[i].first == k) { cm.erase(cm.begin() + i); break; } if (pos > cm.size()) pos = (uint32)cm.size(); cm.insert(cm.begin() + pos, std::make_pair(k, v)); }   // rhs has the key somewhere else
         /* how == 4: rhs = unchanged copy */
         std::vector<std::pair<uint32, uint32> > sa = am, sb = cm; std::sort(sa.begin(), sa.end()); std::sort(sb.begin(), sb.end()); bool want = (sa == sb), wantO = (am == cm);
         if (T.WouldBeEqualToAfterPut(c, KK(k), VV(v)) != want) Fail(how == 1 && !hk ? "surface|WouldBeEqualToAfterPut-ignores-new-value(F30)" : "", vh::fmt("WouldBeEqualToAfterPut=%d, model %d (variant %d, key present: %d)", (int)!want, (int)want, how, (int)hk));
         bool gotO = T.WouldBeEqualToAfterPut(c, KK(k), VV(v), true);
         if (gotO != wantO) { if (gotO && !hk && want) Finding("finding|WouldBeEqualToAfterPut-ordered-new-key-not-last-in-rhs", vh::fmt("WouldBeEqualToAfterPut(rhs,%u,%u,considerOrdering=true) is true, but Put() would append key %u at the end while rhs holds it at position %d of %zu", k, v, k, (int)(std::find(cm.begin(), cm.end(), std::make_pair(k, v)) - cm.begin()), cm.size())); else Fail("", vh::fmt("WouldBeEqualToAfterPut(ordered)=%d, model %d (variant %d)", (int)gotO, (int)wantO, how)); } } break;
      case O_WBEREMOVE: { if (big) break; if (!hk && sz && R(2)) k = kOld(a); OP("WouldBeEqualToAfterRemove t%d %u", a, k); HT c(T); std::vector<std::pair<uint32, uint32> > cm = M.pairs(), am = M.pairs(); int how = R(4);
         for (size_t i = 0; i < am.size(); i++) if (am[i].first == k) { am.erase(am.begin() + i); break; }
         uint32 rk = (how == 0) ? k : (how == 1 && sz) ? kOld(a) : 0; if (rk) { (void)c.Remove(KK(rk)); for (size_t i = 0; i < cm.size(); i++) if (cm[i].first == rk) { cm.erase(cm.begin() + i); break; } }
         if (how == 2 && cm.size() >= 2) { (void)c.MoveToBack(KK(cm[0].first)); std::rotate(cm.begin(), cm.begin() + 1, cm.end()); (void)c.Remove(KK(k)); for (size_t i = 0; i < cm.size(); i++) if (cm[i].first == k) { cm.erase(cm.begin() + i); break; } }
         std::vector<std::pair<uint32, uint32> > sa = am, sb = cm; std::sort(sa.begin(), sa.end()); std::sort(sb.begin(), sb.end());
         if (T.WouldBeEqualToAfterRemove(c, KK(k)) != (sa == sb)) Fail("", vh::fmt("WouldBeEqualToAfterRemove, model %d (variant %d)", (int)(sa == sb), how)); if (T.WouldBeEqualToAfterRemove(c, KK(k), true) != (am == cm)) Fail("", vh::fmt("WouldBeEqualToAfterRemove(ordered), model %d (variant %d)", (int)(am == cm), how)); } break;
      case O_ISEQUAL: { if (big) break; OP("IsEqualTo t%d", a); HT c(T); if (sz >= 2) { (void)c.MoveToBack(KK(M.l.front().k)); if (!T.IsEqualTo(c, false) || !(T == c)) Fail("", "reordered copy unequal without ordering"); if (T.IsEqualTo(c, true)) Fail("", "reordered copy equal with ordering"); }
         bool eq = M.size() == UM.size(), eqO = eq; if (eq) { EL::iterator j = UM.l.begin(); for (EL::iterator i = M.l.begin(); i != M.l.end(); ++i, ++j) { EL::iterator f = UM.find(i->k); if (f == UM.l.end() || f->v != i->v) eq = false; if (j->k != i->k || j->v != i->v) eqO = false; } } if (T.IsEqualTo(U) != eq || (T == U) != eq || (T != U) == eq) Fail("", "IsEqualTo(other table)"); if (T.IsEqualTo(U, true) != (eq && eqO)) Fail("", "IsEqualTo(other table, ordered)"); } break;
      case O_WITHDEFAULT: { OP("RemoveWithDefault t%d %u %u", a, k, k2); V g1 = T.RemoveWithDefault(KK(k)); if (VI(g1) != (hk ? fk->v : 0u)) Fail("", "RemoveWithDefault(key)"); if (hk) mErase(a, fk); fk2 = M.find(k2); bool h2 = fk2 != M.l.end(); V g2 = T.RemoveWithDefault(KK(k2), VV(888)); if (VI(g2) != (h2 ? fk2->v : 888u)) Fail("", "RemoveWithDefault(key, default)"); if (h2) mErase(a, fk2); } break;
      case O_GETORPUT: { int st = R(5); OP("GetOrPut/PutAndGet t%d style %d %u=%u", a, st, k, v); V * p = NULL; const K * pk = NULL; uint32 want = 0;
         switch (st) { case 0: p = T.GetOrPut(KK(k), VV(v)); want = hk ? fk->v : v; if (!hk) (void)mPut(a, k, v); break; case 1: p = T.GetOrPut(KK(k)); want = hk ? fk->v : 0; if (!hk) (void)mPut(a, k, 0); break; case 2: p = T.PutAndGet(KK(k), VV(v)); want = v; (void)mPut(a, k, v); break; case 3: p = T.PutAndGet(KK(k)); want = 0; (void)mPut(a, k, 0); break; default: pk = T.PutAndGetKey(KK(k), VV(v)); (void)mPut(a, k, v); if (!pk || KI(*pk) != k || !T.IsKeyLocatedInThisContainer(*pk)) Fail("", "PutAndGetKey"); break; }
         if (st < 4 && (!p || VI(*p) != want || !T.IsValueLocatedInThisContainer(*p))) Fail("", vh::fmt("returned value %u, expected %u", p ? VI(*p) : 0u, want)); } break;
      case O_PUTMISC: { int st = R(6); OP("PutMisc t%d style %d %u=%u", a, st, k, v); V * p;
         switch (st) { case 0: r = T.PutWithDefault(KK(k)); if (r.IsError()) Fail("", "PutWithDefault"); (void)mPut(a, k, 0); break;
            case 1: p = T.PutIfNotAlreadyPresent(KK(k), VV(v)); if ((p == NULL) != hk || (p && VI(*p) != v)) Fail("", "PutIfNotAlreadyPresent(key, value)"); if (!hk) (void)mPut(a, k, v); break;
            case 2: p = T.PutIfNotAlreadyPresent(KK(k)); if ((p == NULL) != hk || (p && VI(*p) != 0)) Fail("", "PutIfNotAlreadyPresent(key)"); if (!hk) (void)mPut(a, k, 0); break;
            case 3: r = T.PutOrRemove(KK(k), VV(v)); if (r.IsError()) Fail("", "PutOrRemove(key, value)"); if (v == 0) { if (hk) mErase(a, fk); } else (void)mPut(a, k, v); break;
            case 4: { uint32 dv = R(vr < 8 ? vr : 3); r = T.PutOrRemove(KK(k), VV(v), VV(dv)); if (r.IsError()) Fail("", "PutOrRemove(key, value, default)"); if (v == dv) { if (hk) mErase(a, fk); } else (void)mPut(a, k, v); } break;
            default: { V vv = VV(v); const V * pv = R(2) ? &vv : NULL; r = T.PutOrRemove(KK(k), pv); if (r.IsError()) Fail("", "PutOrRemove(key, pointer)"); if (!pv) { if (hk) mErase(a, fk); } else (void)mPut(a, k, v); } break; } } break;
      case O_INVERT: { if (big) break; OP("ComputeInvertedTable/Histogram t%d", a); Extras<K, V>::Invert(T, M); } break;
      case O_LOCATED: { OP("IsKey/ValueLocatedInThisContainer t%d", a); K lk = KK(k); V lv = VV(v); if (T.IsKeyLocatedInThisContainer(lk) || T.IsValueLocatedInThisContainer(lv)) Fail("", "a local object is reported as located in the container"); if (sz && (!T.IsKeyLocatedInThisContainer(*T.GetFirstKey()) || !T.IsValueLocatedInThisContainer(*T.GetLastValue()) || U.IsKeyLocatedInThisContainer(*T.GetFirstKey()))) Fail("", "own first key / last value"); } break;
      case O_PUTOWN: { if (!sz) break; uint32 src = kOld(a); uint32 sv = M.find(src)->v; uint32 nk = R(2) ? kNew(a) : kAny(a); int st = R(3); OP("PutOwnItem t%d %u=value of %u (items %u slots %u) style %d", a, nk, src, sz, T.GetNumAllocatedItemSlots(), st);   // arguments that live inside the table (reallocation while full must not leave them dangling)
         if (st == 0) { r = T.Put(KK(nk), *T.Get(KK(src))); (void)mPut(a, nk, sv); } else if (st == 1) { r = T.PutAtFront(KK(nk), *T.Get(KK(src))); bool h = M.has(nk); if (h) { EL::iterator f = M.find(nk); f->v = sv; M.moveBefore(f, M.l.begin()); ts.NoteReorder(a); } else { M.insertBefore(M.l.begin(), nk, sv); ts.NoteMutation(a); } } else { const K & ownKey = *T.GetKey(KK(src)); r = T.Put(ownKey, VV(v)); (void)mPut(a, src, v); }
         if (r.IsError()) Fail("", "failed"); } break;
      case O_UTRAFFIC: { uint32 uk = kAny(b); OP("otherTableTraffic t%d %u", b, uk); if (R(5) < 3) { (void)U.Put(KK(uk), VV(v)); (void)mPut(b, uk, v); } else { EL::iterator f = UM.find(uk); if (f == UM.l.end() && UM.size()) { uk = kOld(b); f = UM.find(uk); } r = U.Remove(KK(uk)); if (r.IsOK() != (f != UM.l.end())) Fail("", "status"); if (f != UM.l.end()) mErase(b, f); } } break;
      case O_EXACTFILL: ExactFill(a); break;
      default: break;
      }
   }
   // boundary modes: bring the table to exactly S slots (S around the index-width boundary), fill it completely, and
   // (half of the time) put one more so that it doubles
   void ExactFill(int a)
   {
      if (!center) return; HT & T = *tab[a]; Model & M = mod[a];
      uint32 S = center - 2 + R(5); OP("ExactFill t%d to %u slots (items %u slots %u)", a, S, (uint32)M.size(), T.GetNumAllocatedItemSlots());
      while (M.size() > S - R(4) && M.size() && !caseBad) { EL::iterator f = R(3) == 0 ? M.l.begin() : M.find(kOld(a)); uint32 k = f->k; mErase(a, f); if (T.Remove(KK(k)).IsError()) Fail("", vh::fmt("Remove(%u) failed", k)); }
      if (T.EnsureSize(S, true).IsError() || T.GetNumAllocatedItemSlots() != S) { Fail("", vh::fmt("EnsureSize(%u,true) with %zu items left %u slots", S, M.size(), T.GetNumAllocatedItemSlots())); return; }
      NoteWidth(a); ts.Touch();
      while (M.size() < S && !caseBad) { uint32 k = kNew(a), v = 1 + rv(); if (T.Put(KK(k), VV(v)).IsError()) Fail("", "Put failed"); (void)mPut(a, k, v); }
      if (T.GetNumAllocatedItemSlots() != S) Fail("", vh::fmt("filling %u slots exactly changed the slot count to %u", S, T.GetNumAllocatedItemSlots()));
      vh::stat(vh::fmt("exact_fill_%u_slots", S)); Audit(a, true); ts.Touch();
      if (R(2)) { uint32 k = kNew(a), v = 1 + rv(); Trace(vh::fmt("Put %u (table full)", k)); if (T.Put(KK(k), VV(v)).IsError()) Fail("", "Put failed"); (void)mPut(a, k, v); NoteWidth(a); Audit(a, true); }
   }
   int lastWidth[2]; bool lastAbove[2];
   void NoteWidth(int t)
   {
      int w = WidthClass(tab[t]->GetNumAllocatedItemSlots());
      if (w != lastWidth[t]) {
         static const char * nm[3] = {"8", "16", "32"}; bool live = ts.CountOn(t) > 0;
         vh::stat(vh::fmt("idxwidth_%sto%s", nm[lastWidth[t]], nm[w])); if (live) { vh::stat(vh::fmt("idxwidth_%sto%s_with_live_iterators", nm[lastWidth[t]], nm[w])); widthChangesLive++; }
         widthChanges++; lastWidth[t] = w; Audit(t, true); ts.Touch();
      }
      if (center) { bool above = mod[t].size() >= (center >= 65000 ? 65536u : 256u); if (above != lastAbove[t]) { vh::stat(vh::fmt("population_cross_%u_%s", center >= 65000 ? 65536u : 256u, above ? "up" : "down")); lastAbove[t] = above; Audit(t, !big); } }
   }

   void Run(long kcase, uint64_t cs, int md)
   {
      mode = md; big = (md == M_B65536); fresh = (md == M_B256 || md == M_B65536); const long live0 = Own::live;
      static const uint32 targets[] = {0, 0, 3, 6, 7, 8, 13, 14, 15, 20, 28, 29, 40, 57};
      int w[NUM_OPS]; for (int i = 0; i < NUM_OPS; i++) w[i] = 0;
      uint32 nops, steerPct; maxIters = 1 + R(6);
      if (md == M_OPS) { ks = R(4) == 0 ? 12 + R(12) : (R(5) == 0 ? 300 : 60); vr = 1000; nops = 300 + R(700); steerPct = 30;
         static const int ww[][2] = {{O_PUT,10},{O_PUTPREV,2},{O_REMOVE,7},{O_REMOVEOUT,2},{O_REMOVEFIRST,2},{O_REMOVELAST,2},{O_MTF,2},{O_MTB,2},{O_MBEFORE,2},{O_MBEHIND,2},{O_MPOS,2},{O_PUTPOS,2},{O_SORTKEY,1},{O_SORTVAL,1},{O_ENSURE,3},{O_SHRINK,2},{O_CANPUT,1},{O_CLEAR,1},{O_GET,3},{O_NEWITER,8},{O_ADVANCE,22},{O_DROPITER,1},{O_GETMOVE,1},{O_COPYCMP,1},{O_ASSIGN,1},{O_COPYFROM,1},{O_MOVERT,1},{O_SWAP,1},{O_DESTROY,1},{O_ENDS,1},{O_PUTFRONT,1},{O_PUTBACK,1},{O_PUTBEFORE,1},{O_PUTBEHIND,1},{O_INTERSECT,1},{O_REMOVETABLE,1},{O_MOVETOTABLE,1},{O_SWAPWITHTABLE,1},{O_WITHDEFAULT,1},{O_GETORPUT,1},{O_PUTMISC,1},{O_PUTOWN,2},{O_COPYITER,2},{O_UTRAFFIC,3},{O_ITERXFER,7}};
         for (size_t i = 0; i < sizeof(ww) / sizeof(ww[0]); i++) w[ww[i][0]] = ww[i][1]; }
      else if (md == M_SURFACE) { ks = R(3) == 0 ? 12 : 24; vr = 6; nops = 300 + R(500); steerPct = 10; if (maxIters > 3) maxIters = 3;
         for (int i = 0; i < NUM_OPS; i++) w[i] = (i >= O_PUTFRONT) ? 4 : 1; w[O_PUT] = 8; w[O_REMOVE] = 5; w[O_UTRAFFIC] = 8; w[O_ADVANCE] = 8; w[O_ITERXFER] = 3; w[O_NEWITER] = 3; w[O_EXACTFILL] = 0; w[O_CLEAR] = 1; w[O_DESTROY] = 1; w[O_SETPRED] = 5; w[O_WBEPUT] = 6; w[O_WBEREMOVE] = 5; }
      else { center = (md == M_B65536 ? 65534 : 254) + R(4); ks = 0; vr = 1000; nops = big ? 500 + R(300) : 1200 + R(800); steerPct = 55;
         static const int ww[][2] = {{O_PUT,10},{O_PUTPREV,1},{O_REMOVE,8},{O_REMOVEOUT,1},{O_REMOVEFIRST,3},{O_REMOVELAST,3},{O_MTF,3},{O_MTB,3},{O_MBEFORE,1},{O_MBEHIND,1},{O_GET,3},{O_NEWITER,4},{O_ADVANCE,14},{O_DROPITER,1},{O_GETMOVE,1},{O_SWAP,1},{O_MOVERT,1},{O_ENDS,1},{O_PUTFRONT,1},{O_PUTBACK,1},{O_PUTBEFORE,1},{O_PUTBEHIND,1},{O_NEIGHBOUR,1},{O_WITHDEFAULT,1},{O_GETORPUT,1},{O_PUTMISC,1},{O_PUTOWN,2},{O_COPYITER,1},{O_LOCATED,1},{O_ITERXFER,3}};
         for (size_t i = 0; i < sizeof(ww) / sizeof(ww[0]); i++) w[ww[i][0]] = ww[i][1];
         if (big) { w[O_ENSURE] = 1; w[O_SHRINK] = 1; w[O_EXACTFILL] = 1; w[O_COPYCMP] = 1; }
         else { w[O_ENSURE] = 4; w[O_SHRINK] = 4; w[O_EXACTFILL] = 3; w[O_COPYCMP] = 1; w[O_MPOS] = 1; w[O_PUTPOS] = 1; w[O_SORTKEY] = 1; w[O_SORTVAL] = 1; w[O_INDEX] = 1; w[O_CANPUT] = 1; w[O_CLEAR] = 0; } }
      int wsum = 0; for (int i = 0; i < NUM_OPS; i++) wsum += w[i];
      lastWidth[0] = lastWidth[1] = WidthClass(tab[0]->GetNumAllocatedItemSlots()); lastAbove[0] = lastAbove[1] = false;
      if (center) {   // bulk fill to just below the boundary (not traced, audited once)
         opname = "bulk fill"; Trace(vh::fmt("bulk fill to %u", center - 12)); uint32 pre = R(3) ? 0 : center + R(40); if (pre) (void)tab[0]->EnsureSize(pre);
         while (mod[0].size() < center - 12 && !caseBad) { uint32 k = nextKey++, v = 1 + rv(); if (tab[0]->Put(KK(k), VV(v)).IsError()) Fail("", "Put failed"); mod[0].insertBefore(mod[0].l.end(), k, v); if (!big || (mod[0].size() & 1023) == 0) NoteWidth(0); }
         NoteWidth(0); Audit(0, true);
      }
      target = center ? center : targets[R(sizeof(targets) / sizeof(targets[0]))]; uint32 phaseLeft = 0; bool up = true, calm = false;   // calm phases: no reordering operations, so that traversals can be judged by (b) and (c)
      for (uint32 step = 0; step < nops && !caseBad; step++) {
         if (phaseLeft == 0) calm = (R(2) == 0);
         if (phaseLeft == 0) { clearBudget = (md == M_OPS || md == M_SURFACE) ? true : (R(12) == 0 && !big); if (center) { up = !up; target = up ? center + 1 + R(14) : center - 2 - R(14); phaseLeft = 20 + R(60); } else { target = targets[R(sizeof(targets) / sizeof(targets[0]))]; if (ks < 2 * target) target = ks / 2; phaseLeft = 30 + R(90); } }
         phaseLeft--;
         int op = -1; uint32 pop = (uint32)mod[0].size();
         if (pop != target && R(100) < steerPct) op = (pop < target) ? O_PUT : (R(4) ? O_REMOVE : (R(2) ? O_REMOVEFIRST : O_REMOVELAST));
         if (op < 0) { int x = R(wsum); for (int i = 0; i < NUM_OPS; i++) { if (x < w[i]) { op = i; break; } x -= w[i]; } }
         if (calm && (op == O_MTF || op == O_MTB || op == O_MBEFORE || op == O_MBEHIND || op == O_MPOS || op == O_PUTPOS || op == O_SORTKEY || op == O_SORTVAL || op == O_GETMOVE || op == O_PUTFRONT || op == O_PUTBACK || op == O_PUTBEFORE || op == O_PUTBEHIND || op == O_PUTOWN)) op = R(4) == 0 ? O_NEWITER : (R(3) ? O_ADVANCE : O_PUT);
         uint32 s0 = tab[0]->GetNumAllocatedItemSlots(), s1 = tab[1]->GetNumAllocatedItemSlots();
         Step(op);
         if (caseBad) break;
         if (tab[0]->GetNumAllocatedItemSlots() != s0 || tab[1]->GetNumAllocatedItemSlots() != s1) { vh::stat("reallocations"); if (ts.v.size()) vh::stat("reallocations_with_live_iterators"); }
         NoteWidth(0); NoteWidth(1);
         if (R(4) == 0) ts.Touch();
         if (big) { if (R(150) == 0) Audit(0, true); if (mod[1].size() < 400) Audit(1, false); }
         else if (center) { if (R(4) == 0) { Audit(0, R(8) == 0); Audit(1, false); } }
         else { Audit(0, R(8) == 0); Audit(1, R(8) == 0); }
         if (mod[0].size() > maxPop) maxPop = (uint32)mod[0].size();
      }
      // end of case: iterators go first; then the live payloads must be exactly those of the two models and the two tables
      if (!caseBad) { Audit(0, true); Audit(1, true); }
      long trav = ts.completed, travMut = ts.completedMutated;
      if (R(2)) { ts.DeleteIterators(); if (!caseBad && !std::is_same<V, uint32>::value) { long want = 0; for (int t = 0; t < 2; t++) for (EL::iterator i = mod[t].l.begin(); i != mod[t].l.end(); ++i) if (i->v) want++; opname = "end of case"; if (Own::live - live0 != want) Fail("live|payloads-held-by-tables", vh::fmt("%ld value payloads are alive, the tables' models hold %ld non-default values", Own::live - live0, want)); vh::stat("live_count_checks"); }
         delete tab[0]; delete tab[1]; }
      else { delete tab[0]; delete tab[1]; ts.Touch(); for (size_t i = 0; i < ts.v.size() && !caseBad; i++) { HashtableIterator<K, V> & it = *ts.v[i]->it; it++; if (it.HasData()) { opname = "end of case"; Fail("iter|data-after-clear", "iterator still has data one advance after its table was destroyed"); } } vh::stat("tables_destroyed_before_their_iterators"); ts.DeleteIterators(); }
      tab[0] = tab[1] = NULL;
      if (!caseBad && Own::live != live0) { opname = "end of case"; Fail("live|payloads-after-destruction", vh::fmt("%ld value payloads alive after the tables and iterators were destroyed", Own::live - live0)); }
      bool nontrivial = center ? (widthChanges > 0) : (maxPop > 7 && trav > 0);
      vh::distinct(vh::fnv(&cs, sizeof(cs), vh::fnvs(typeName + modeName)), nontrivial);
      vh::statmax("max_population", maxPop); (void)travMut; (void)kcase;
      if (widthChangesLive) vh::stat("cases_with_index_width_change_under_live_iterators");
   }
   ~Case() { ts.DeleteIterators(); delete tab[0]; delete tab[1]; }
};

// ---- the auto-sorting variants.  Model: a std::map (contents) + seq = the exact iteration order as (entry id, key).
// Order oracle, per operation:
//  * operations that are not allowed to reorder (Remove*, EnsureSize, ShrinkToFit, growth at capacity inside Put, swap there
//    and back, iterator traffic, Put of a NEW key) must leave the relative order of the surviving entries exactly as it was --
//    whether or not that order is the sorted one (auto-sort off, manual Move*);
//  * a new key goes to the tail while auto-sort is off (exact); to a place that keeps the table sorted while auto-sort is on
//    and the table is sorted; anywhere (unspecified) while auto-sort is on but the table has been unsorted by documented means;
//  * manual MoveToFront/Back/Before/Behind/Position: exact, as for a plain table (documented to unsort until Sort());
//  * an update of an existing key / Reposition() may move that one entry only (whether an update repositions while auto-sort
//    is off is unspecified: counted);   * Sort(), SetAutoSortEnabled(true,true), CopyFrom of a non-empty table: any sorted order.
// Sortedness is demanded while auto-sort is on and the order has not been disturbed by documented means (or happens to be
// sorted again), and after the documented re-sorting calls.  The order among equal sort keys is unspecified.
template<class TT, class K, class V, bool byValue> struct OrdCase : public Look {
   typedef HashtableIterator<K, V> IT; typedef ConstHashtableIterator<K, V> CIT; typedef std::vector<std::pair<uint64_t, uint32> > Seq;
   struct MV { uint32 v; uint64_t id; };
   TT * t; std::map<uint32, MV> om; Seq seq; TrkSet<K, V> ts; bool sortedExpected, autoOn; uint32 ks, vr, maxPop;
   OrdCase() : t(new TT), sortedExpected(true), autoOn(true), maxPop(0) { ts.look = this; }
   ~OrdCase() { ts.DeleteIterators(); delete t; }
   virtual bool Find(int, uint32 kid, uint32 & v, uint64_t & id) { typename std::map<uint32, MV>::iterator f = om.find(kid); if (f == om.end()) return false; v = f->second.v; id = f->second.id; return true; }
   static K KK(uint32 k) { return KT<K>::Make(k); } static V VV(uint32 v) { return VT<V>::Make(v); }
   void mPut(uint32 k, uint32 v) { typename std::map<uint32, MV>::iterator f = om.find(k); ts.NoteMutation(0); if (f == om.end()) { MV m; m.v = v; m.id = ++g_nextId; om[k] = m; } else f->second.v = v; }
   void mErase(uint32 k) { typename std::map<uint32, MV>::iterator f = om.find(k); if (f == om.end()) return; uint64_t id = f->second.id; om.erase(f); ts.NoteRemoved(0, id); }
   void mClear(bool detach) { for (typename std::map<uint32, MV>::iterator i = om.begin(); i != om.end(); ++i) ts.NoteRemoved(0, i->second.id); om.clear(); if (detach) ts.NoteDetach(0); }
   uint32 SortKey(uint32 kid) { return byValue ? om[kid].v : kid; }
   bool ActuallySorted() { for (size_t i = 1; i < seq.size(); i++) if (SortKey(seq[i].second) < SortKey(seq[i - 1].second)) return false; return true; }
   static std::string Show(const Seq & s) { std::string r; for (size_t i = 0; i < s.size() && i < 40; i++) r += vh::fmt("%u ", s[i].second); if (s.size() > 40) r += "..."; return r; }
   // movable: -1 = any order is acceptable (a documented re-sort), 0 = nothing may move, else the one key that may have moved;
   // newLast: entries that are new must be at the tail;   exact: the complete expected key sequence, if the operation defines it
   void Observe(const TT & h, bool deep, bool track = true, long movable = -1, bool newLast = false, const std::vector<uint32> * exact = NULL)
   {
      if (caseBad) return; vh::stat("audits");
      Seq ns; uint32 prev = 0;
      for (CIT it(h, HTIT_FLAG_NOREGISTER); it.HasData(); it++) {
         uint32 kid = KT<K>::Id(it.GetKey()), val = VT<V>::Val(it.GetValue()); typename std::map<uint32, MV>::iterator f = om.find(kid);
         if (f == om.end() || f->second.v != val) { Fail("", vh::fmt("iteration position %zu holds key %u value %u, model %s", ns.size(), kid, val, f == om.end() ? "lacks the key" : vh::fmt("has value %u", f->second.v).c_str())); return; }
         uint32 sk = byValue ? val : kid; if (sortedExpected && ns.size() && sk < prev) { Fail("ordered|not-sorted", vh::fmt("%s %u follows %u at position %zu of %zu", byValue ? "value" : "key", sk, prev, ns.size(), om.size())); return; }
         prev = sk; ns.push_back(std::make_pair(f->second.id, kid)); if (ns.size() > om.size()) break;
      }
      if (ns.size() != om.size() || h.GetNumItems() != om.size()) { Fail("", vh::fmt("iteration yields %zu entries, GetNumItems() %u, model %zu", ns.size(), h.GetNumItems(), om.size())); return; }
      if (sortedExpected) vh::stat("audits_sortedness_required"); if (track && !autoOn) vh::stat("ordered_audits_while_autosort_off");
      if (track) {
         std::unordered_set<uint64_t> inNew, inOld; for (size_t i = 0; i < ns.size(); i++) inNew.insert(ns[i].first); for (size_t i = 0; i < seq.size(); i++) inOld.insert(seq[i].first);
         if (exact) { bool same = exact->size() == ns.size(); for (size_t i = 0; same && i < ns.size(); i++) if ((*exact)[i] != ns[i].second) same = false; if (!same) { std::string w; for (size_t i = 0; i < exact->size() && i < 40; i++) w += vh::fmt("%u ", (*exact)[i]); Fail("ordered|order-differs-from-the-operations-performed", "iteration order is [" + Show(ns) + "], the operation defines [" + w + "] (before: [" + Show(seq) + "])"); return; } vh::stat("ordered_exact_order_checks"); }
         else if (movable != -1) { std::vector<uint64_t> o, n; for (size_t i = 0; i < seq.size(); i++) if (inNew.count(seq[i].first) && (long)seq[i].second != movable) o.push_back(seq[i].first); for (size_t i = 0; i < ns.size(); i++) if (inOld.count(ns[i].first) && (long)ns[i].second != movable) n.push_back(ns[i].first);
            if (o != n) { Fail("ordered|order-changed-by-non-reordering-operation", vh::fmt("auto-sort %s; ", autoOn ? "on" : "off") + "the surviving entries changed their relative order: before [" + Show(seq) + "], after [" + Show(ns) + "]" + (movable ? vh::fmt(" (key %ld was free to move)", movable) : std::string())); return; } vh::stat("ordered_relative_order_checks"); }
         if (newLast) { bool sawNew = false; for (size_t i = 0; i < ns.size(); i++) { bool isNew = !inOld.count(ns[i].first); if (sawNew && !isNew) { Fail("ordered|order-differs-from-the-operations-performed", "auto-sort is off, yet a new key was not appended at the tail: before [" + Show(seq) + "], after [" + Show(ns) + "]"); return; } if (isNew) sawNew = true; } }
      }
      Seq keepSeq; if (!track) keepSeq = seq;
      seq.swap(ns);
      struct Restore { Seq & s, & k; bool on; Restore(Seq & s_, Seq & k_, bool o) : s(s_), k(k_), on(o) {} ~Restore() { if (on) s.swap(k); } } restore(seq, keepSeq, !track);
      if (deep) {
         size_t i = seq.size(); for (CIT it(h, HTIT_FLAG_BACKWARDS); it.HasData(); it++) { if (i == 0 || KT<K>::Id(it.GetKey()) != seq[--i].second) { Fail("", "backward iteration is not the reverse of forward iteration"); return; } } if (i != 0) { Fail("", "backward iteration too short"); return; }
         for (typename std::map<uint32, MV>::iterator f = om.begin(); f != om.end(); ++f) { const V * p = h.Get(KK(f->first)); if (!p || VT<V>::Val(*p) != f->second.v) { Fail("", vh::fmt("lookup of key %u", f->first)); return; } }
         for (int j = 0; j < 4; j++) { uint32 k = 1 + R(ks + 5); if (!om.count(k) && h.ContainsKey(KK(k))) { Fail("", "absent key found"); return; } }
         if (seq.size()) { if (KT<K>::Id(*h.GetFirstKey()) != seq.front().second || KT<K>::Id(*h.GetLastKey()) != seq.back().second) { Fail("", "GetFirstKey/GetLastKey"); return; } uint32 p = R((uint32)seq.size()); if (h.IndexOfKey(KK(seq[p].second)) != (int32)p || KT<K>::Id(h.GetKeyAtWithDefault(p)) != seq[p].second) { Fail("", "IndexOfKey/GetKeyAt disagree with the iteration order"); return; } }
      }
   }
   std::vector<uint32> Kids() const { std::vector<uint32> r; for (size_t i = 0; i < seq.size(); i++) r.push_back(seq[i].second); return r; }
   void Run(uint64_t cs)
   {
      const long live0 = Own::live; ks = R(4) == 0 ? 700 : (R(3) == 0 ? 20 : 80); vr = byValue ? 30 : 100000; uint32 nops = ks > 100 ? 250 + R(250) : 300 + R(600); uint32 maxIters = 1 + R(4); long middleInserts = 0; bool calm = false;
      for (uint32 step = 0; step < nops && !caseBad; step++) {
         uint32 o = R(100), k = 1 + R(ks), v = R(vr); status_t r; const uint64_t idBefore = g_nextId; if (R(3) == 0 && om.size()) { typename std::map<uint32, MV>::iterator f = om.lower_bound(k); if (f != om.end()) k = f->first; }
         if (step % 60 == 0) calm = (R(2) == 0);
         bool hk = om.count(k) > 0;
         if (calm) { if ((o >= 51 && o < 56) || (o >= 62 && o < 64) || (o >= 69 && o < 75) || (o >= 59 && o < 62 && !autoOn)) o = 84 + R(16); else if (o < 34 && hk) { for (int q = 0; q < 6 && om.count(k); q++) k = 1 + R(ks); hk = om.count(k) > 0; if (hk) o = 84 + R(16); } }
         const uint32 slots0 = t->GetNumAllocatedItemSlots(); const bool unsorted0 = !ActuallySorted(); bool resorted = false, disturbed = false;
         long movable = 0; bool newLast = false; std::vector<uint32> exactV; const std::vector<uint32> * exact = NULL;
         if (o < 34) { OP("Put %u=%u (auto-sort %s)", k, v, autoOn ? "on" : "off"); r = t->Put(KK(k), VV(v)); if (r.IsError()) Fail("", "failed");
            if (hk) { if (!autoOn) { movable = k; vh::stat("unspecified_update_while_autosort_off_may_reposition"); } else if (!sortedExpected || (byValue && om[k].v != v)) movable = k; } else newLast = !autoOn;
            if (!autoOn) disturbed = true; mPut(k, v); }
         else if (o < 46) { OP("Remove %u", k); r = t->Remove(KK(k)); if (r.IsOK() != hk) Fail("", "status"); mErase(k); }
         else if (o < 51) { bool first = R(2); OP(first ? "RemoveFirst" : "RemoveLast"); K ok = KK(0); r = first ? t->RemoveFirst(ok) : t->RemoveLast(ok); if (r.IsOK() != (om.size() > 0)) Fail("", "status"); if (om.size()) { uint32 want = first ? seq.front().second : seq.back().second; if (KT<K>::Id(ok) != want) Fail("", vh::fmt("removed key %u, the %s key was %u", KT<K>::Id(ok), first ? "first" : "last", want)); mErase(want); } }
         else if (o < 56) { OP("modify+Reposition %u=%u", k, v); V * pv = t->Get(KK(k)); if ((pv != NULL) != hk) Fail("", "Get"); if (pv) { *pv = VV(v); om[k].v = v; ts.NoteMutation(0); movable = k; } r = t->Reposition(KK(k)); if (r.IsOK() != hk) Fail("", "Reposition status"); }
         else if (o < 59) { OP("copy/assign/swap"); TT c(*t); if (!(c == *t) || (c != *t)) Fail("", "copy differs"); TT d; (void)d.Put(KK(1 + R(ks)), VV(R(vr))); d = *t; if (!d.IsEqualTo(*t, false)) Fail("", "assigned copy differs"); { bool se = sortedExpected, ao = autoOn; autoOn = true; if (om.size()) sortedExpected = true; /* CopyFrom sorts */ Observe(c, true, false); Observe(d, true, false); sortedExpected = se; autoOn = ao; }
            TT tmp; tmp.SwapContents(*t); if (t->GetNumItems() != 0) Fail("", "swapped-out table not empty"); ts.Touch(); t->SwapContents(tmp); uint32 nk = 1 + R(ks); (void)c.Put(KK(nk), VV(R(vr))); if (om.size()) { uint32 prev = 0, n = 0; for (CIT it(c, HTIT_FLAG_NOREGISTER); it.HasData(); it++, n++) { uint32 sk = byValue ? VT<V>::Val(it.GetValue()) : KT<K>::Id(it.GetKey()); if (n && sk < prev) { Fail("ordered|not-sorted", "a Put into a copy (copies are sorted by CopyFrom) is misplaced"); break; } prev = sk; } } }
         else if (o < 62) { if (autoOn) { if (R(3)) continue; OP("SetAutoSortEnabled(false)"); t->SetAutoSortEnabled(false, R(2)); if (t->GetAutoSortEnabled()) Fail("", "GetAutoSortEnabled"); autoOn = false; } else { if (R(2)) continue; bool now = R(4) != 0; OP("SetAutoSortEnabled(true,%d)", (int)now); t->SetAutoSortEnabled(true, now); if (!t->GetAutoSortEnabled()) Fail("", "GetAutoSortEnabled"); autoOn = true; if (now) { resorted = true; movable = -1; } } }
         else if (o < 64) { OP("Sort"); t->Sort(); resorted = true; movable = -1; }
         else if (o < 69) { bool sh = R(2); uint32 want = (uint32)om.size() + R(40); if (R(3) == 0) { uint32 ex = R(3); OP("ShrinkToFit %u (items %zu slots %u)", ex, om.size(), slots0); if (t->ShrinkToFit(ex).IsError()) Fail("", "failed"); } else { OP("EnsureSize %u shrink %d (items %zu slots %u)", want, (int)sh, om.size(), slots0); if (t->EnsureSize(want, sh).IsError()) Fail("", "failed"); } ts.NoteMutation(0); }
         else if (o < 73) { if (!hk && seq.size()) { k = seq[R((uint32)seq.size())].second; hk = true; } uint32 k2 = seq.size() ? seq[R((uint32)seq.size())].second : 0; int st = R(5); uint32 pos = R((uint32)seq.size() + 2); static const char * nm[5] = {"MoveToFront", "MoveToBack", "MoveToBefore", "MoveToBehind", "MoveToPosition"};   // documented to unsort until Sort()
            OP("manual %s %u (anchor %u, pos %u)", nm[st], k, k2, pos); r = st == 0 ? t->MoveToFront(KK(k)) : st == 1 ? t->MoveToBack(KK(k)) : st == 2 ? t->MoveToBefore(KK(k), KK(k2)) : st == 3 ? t->MoveToBehind(KK(k), KK(k2)) : t->MoveToPosition(KK(k), pos);
            bool ok = hk && ((st != 2 && st != 3) || (k2 != k && om.count(k2))); if (r.IsOK() != ok) Fail("", vh::fmt("status %s, expected success %d", r(), (int)ok)); exactV = Kids();
            if (ok) { exactV.erase(std::find(exactV.begin(), exactV.end(), k)); size_t at = st == 0 ? 0 : st == 1 ? exactV.size() : st == 4 ? std::min<size_t>(pos, exactV.size()) : (size_t)(std::find(exactV.begin(), exactV.end(), k2) - exactV.begin()) + (st == 3 ? 1 : 0); exactV.insert(exactV.begin() + at, k); ts.NoteReorder(0); disturbed = true; }
            exact = &exactV; }
         else if (o < 75) { OP("CopyFrom/Put(table) on top"); TT other; uint32 n = R(6); std::vector<std::pair<uint32, uint32> > add; for (uint32 i = 0; i < n; i++) { uint32 kk = 1 + R(ks), vv = R(vr); (void)other.Put(KK(kk), VV(vv)); add.push_back(std::make_pair(kk, vv)); } r = R(2) ? t->CopyFrom(other, false) : t->Put(other); if (r.IsError()) Fail("", "failed"); for (size_t i = 0; i < add.size(); i++) mPut(add[i].first, add[i].second); if (n) { resorted = true; movable = -1; } }
         else if (o < 76) { if (R(4)) continue; bool rel = R(2); OP(rel ? "ClearRelease" : "Clear"); t->Clear(rel); mClear(true); }
         else if (o < 77) { if (R(6)) continue; OP("destroy+recreate"); delete t; mClear(true); ts.Touch(); t = new TT; sortedExpected = true; autoOn = true; }
         else if (o < 84) { if (ts.v.size() >= maxIters) continue; bool back = R(2); uint32 flags = back ? HTIT_FLAG_BACKWARDS : 0; std::vector<uint64_t> ahead; uint32 expect = 0; IT * it;
            if (R(3) == 0 && seq.size()) { size_t p = R((uint32)seq.size()); uint32 sk = seq[p].second; OP("NewIterAt %u %s", sk, back ? "backward" : "forward"); it = new IT(t->GetIteratorAt(KK(sk), flags)); expect = sk; if (!back) for (size_t i = p; i < seq.size(); i++) ahead.push_back(seq[i].first); else for (size_t i = p + 1; i-- > 0; ) ahead.push_back(seq[i].first); }
            else { OP("NewIter %s", back ? "backward" : "forward"); it = new IT(*t, flags); if (seq.size()) { expect = back ? seq.back().second : seq.front().second; if (!back) for (size_t i = 0; i < seq.size(); i++) ahead.push_back(seq[i].first); else for (size_t i = seq.size(); i-- > 0; ) ahead.push_back(seq[i].first); } }
            ts.Begin(it, back, 0, ahead, expect); }
         else if (o >= 96) { if (ts.v.empty()) continue; ts.Transfer(maxIters + 2); }
         else { if (ts.v.empty()) continue; size_t i = R((uint32)ts.v.size()); uint32 steps = om.size() > 60 ? 1 + R((uint32)om.size() / 4) : 1 + R(3); OP("Advance iter%zu x%u", i, steps); ts.Advance(i, steps); }
         if (movable != 0) ts.NoteReorder(0);   // an operation that is allowed to move entries ran: (b)/(c) do not apply to the traversals in progress
         if (resorted) sortedExpected = true; const bool se = sortedExpected; if (disturbed || movable > 0) sortedExpected = se && !disturbed && !unsorted0;   // an operation that unsorts by documented means is judged leniently; settled below
         Observe(*t, R(6) == 0, true, movable, newLast, exact);
         if (!caseBad && !sortedExpected) sortedExpected = ActuallySorted();   // sortedness is due again as soon as the order happens to be sorted: every operation that does not unsort by documented means must then keep it
         if (!caseBad && t->GetNumAllocatedItemSlots() != slots0) { vh::stat("ordered_reallocs"); if (unsorted0 && seq.size() >= 2) { vh::stat("ordered_reallocs_while_unsorted"); if (ts.v.size()) vh::stat("ordered_reallocs_while_unsorted_with_live_iterators"); } }
         if (!caseBad && !sortedExpected) vh::stat("steps_while_unsorted_by_documented_cause");
         if (R(4) == 0) ts.Touch();
         if (om.size() > maxPop) maxPop = (uint32)om.size();
         if (!caseBad && seq.size() >= 3 && g_nextId == idBefore + 1 && autoOn) { for (size_t i = 1; i + 1 < seq.size(); i++) if (seq[i].first == g_nextId) { middleInserts++; vh::stat("ordered_inserts_in_the_middle"); break; } }
      }
      long trav = ts.completed;
      ts.DeleteIterators();
      if (!caseBad && !std::is_same<V, uint32>::value) { long want = 0; for (typename std::map<uint32, MV>::iterator i = om.begin(); i != om.end(); ++i) if (i->second.v) want++; opname = "end of case"; if (Own::live - live0 != want) Fail("live|payloads-held-by-tables", vh::fmt("%ld value payloads are alive, the model holds %ld non-default values", Own::live - live0, want)); vh::stat("live_count_checks"); }
      delete t; t = NULL;
      if (!caseBad && Own::live != live0) { opname = "end of case"; Fail("live|payloads-after-destruction", vh::fmt("%ld value payloads alive after destruction", Own::live - live0)); }
      vh::distinct(vh::fnv(&cs, sizeof(cs), vh::fnvs(typeName + modeName)), maxPop > 7 && middleInserts > 0 && trav > 0); vh::statmax("max_population", maxPop);
   }
};

// ---- ImmutableHashtablePool (anchored file; the one in-tree user of WouldBeEqualToAfterPutOrRemove): tables handed out stay
// immutable while others hold them, and every result equals its start table with the one Put/Remove applied
static void PoolCase()
{
   typedef ImmutableHashtablePool<uint32, uint32, 8> Pool; typedef Pool::ConstImmutableHashtableTypeRef Ref; typedef std::map<uint32, uint32> PM;
   struct Eq { static bool Same(const Ref & r, const PM & m) { const Hashtable<uint32, uint32> & h = r()->GetTable(); if (h.GetNumItems() != m.size()) return false; for (PM::const_iterator q = m.begin(); q != m.end(); ++q) { const uint32 * p = h.Get(q->first); if (!p || *p != q->second) return false; } return true; } };
   Pool pool; std::vector<Ref> held; std::vector<PM> models;   // every holder has ONE reference; several holders may share one table object
   held.push_back(pool.GetEmptyTable()); models.push_back(PM());
   uint32 steps = 30 + R(60);
   for (uint32 s = 0; s < steps && !caseBad; s++) {
      size_t i = R((uint32)held.size()); uint32 k = R(4), v = R(2); bool put = R(3) != 0; uint32 lru = R(3) == 0 ? MUSCLE_NO_LIMIT : R(4);
      const void * obj = held[i](); size_t sharers = 0; for (size_t j = 0; j < held.size(); j++) if (held[j]() == obj) sharers++;
      const bool counting = held[i].IsRefCounting(); const uint32 rc = counting ? held[i]()->GetRefCount() : 0;
      if (sharers == 1 && rc == 1) vh::stat("pool_start_private"); else if (sharers == 1 && rc == 2) vh::stat("pool_start_held_by_one_holder_and_the_cache");
      else if (sharers == 2 && rc == 2) { vh::stat("pool_start_shared_by_two_holders_uncached"); if (pool.Contains(held[i])) vh::stat("pool_start_shared_by_two_holders_uncached_equal_content_cached"); } else vh::stat("pool_start_public_other");
      OP(put ? "PoolGetWithPut from #%zu %u=%u lru %u" : "PoolGetWithRemove from #%zu %u (%u) lru %u", i, k, v, lru);
      Ref r = put ? pool.GetWithPut(held[i], k, v, lru) : pool.GetWithRemove(held[i], k, lru);
      PM m = models[i]; if (put) m[k] = v; else m.erase(k);
      if (r() == NULL) { Fail("", "NULL reference returned"); return; }
      if (!Eq::Same(r, m)) { Fail("pool|result-differs-from-start-table-with-the-change", vh::fmt("result has %u items, the start table with the change applied has %zu", r()->GetTable().GetNumItems(), m.size())); return; }
      if (r() == obj && sharers == 1) { if (m != models[i]) vh::stat("pool_updated_in_place"); models[i] = m; }   // documented: a start table nobody else holds may be updated in place and returned
      for (size_t j = 0; j < held.size() && !caseBad; j++) if (!Eq::Same(held[j], models[j])) Fail("pool|table-held-by-another-holder-changed", vh::fmt("the table of holder #%zu (object shared by %zu holders, reference count was %u) changed when holder #%zu called Get%s (%u items now, its model has %zu)", j, sharers, rc, i, put ? "WithPut" : "WithRemove", held[j]()->GetTable().GetNumItems(), models[j].size()));
      switch (R(5)) {
         case 0: held[i] = r; models[i] = m; break;                                                        // the holder moves on to the result
         case 1: held.push_back(r); models.push_back(m); held.push_back(r); models.push_back(m); break;     // two new holders share the result
         case 2: if (held.size() > 1) { size_t j = R((uint32)held.size()); held.erase(held.begin() + j); models.erase(models.begin() + j); } held.push_back(r); models.push_back(m); break;
         case 3: { size_t j = R((uint32)held.size()); held.push_back(held[j]); models.push_back(models[j]); } break;   // one more holder of an existing table; the result is dropped
         default: held.push_back(r); models.push_back(m); break;
      }
      while (held.size() > 10) { size_t j = R((uint32)held.size()); held.erase(held.begin() + j); models.erase(models.begin() + j); }
      if (R(25) == 0) { if (R(2)) pool.ClearCache(); else pool.DropAllCacheEntriesContainingKey(R(4)); vh::stat("pool_cache_dropped"); }
      vh::stat("pool_steps");
   }
}

// ---- fixed witnesses and documentation examples
#define RFAIL(key, ...) do { caseBad = false; Fail(key, vh::fmt(__VA_ARGS__)); } while (0)
static void Regress()
{
   typedef Hashtable<uint32, uint32> H; modeName = "regress"; typeName = "uint32,uint32"; trace.clear();
   vh::begin_case(0);
   { // F30 (repaired): the imagined Put's value must be compared when the key is absent from this table
      opname = "regress-F30"; H t, rhs; (void)t.Put(1, 1); (void)rhs.Put(1, 1); (void)rhs.Put(19, 6);
      if (t.WouldBeEqualToAfterPut(rhs, 19, 5)) RFAIL("regress|F30-WouldBeEqualToAfterPut-ignores-new-value", "this={1->1}, rhs=this+{19->6}: WouldBeEqualToAfterPut(rhs,19,5) is true");
      if (!t.WouldBeEqualToAfterPut(rhs, 19, 6)) RFAIL("regress|F30-WouldBeEqualToAfterPut-ignores-new-value", "this={1->1}, rhs=this+{19->6}: WouldBeEqualToAfterPut(rhs,19,6) is false");
      if (!t.WouldBeEqualToAfterPut(rhs, 19, 6, true)) RFAIL("regress|F30-WouldBeEqualToAfterPut-ignores-new-value", "same with considerOrdering (key is last in rhs): false");
      if (!rhs.WouldBeEqualToAfterRemove(t, 19) || !rhs.WouldBeEqualToAfterRemove(t, 19, true) || rhs.WouldBeEqualToAfterRemove(t, 1)) RFAIL("regress|WouldBeEqualToAfterRemove", "rhs minus 19 == t expected");
   }
   vh::begin_case(1);
   { // found by this harness (not in DESIGN.md section 7): considerOrdering=true, key absent from this, rhs holds it in the middle
      opname = "finding-WouldBeEqualToAfterPut-ordered"; H t, rhs; (void)t.Put(1, 1); (void)t.Put(2, 2); (void)rhs.Put(1, 1); (void)rhs.Put(9, 9); (void)rhs.Put(2, 2);
      if (t.WouldBeEqualToAfterPut(rhs, 9, 9, true)) RFAIL("finding|WouldBeEqualToAfterPut-ordered-new-key-not-last-in-rhs", "this=[1,2], rhs=[1,9,2]: WouldBeEqualToAfterPut(rhs,9,9,considerOrdering=true) is true although Put(9,9) gives [1,2,9]");
   }
   vh::begin_case(2);
   { // documentation examples of Hashtable.h
      opname = "docex"; H t; for (uint32 i = 1; i <= 5; i++) (void)t.Put(i, i * 10);
      (void)t.PutBefore(9, 9, 90); if (t.IndexOfKey(9) != 5) RFAIL("regress|docex", "PutBefore(key==placeBeforeMe) is documented to act as Put()");
      (void)t.PutBehind(8, 77, 80); if (t.IndexOfKey(8) != 6) RFAIL("regress|docex", "PutBehind(absent anchor) is documented to act as Put()");
      (void)t.MoveToPosition(1, 99); if (*t.GetLastKey() != 1) RFAIL("regress|docex", "MoveToPosition(>= items) is documented to move to the last position");
      (void)t.MoveToPosition(1, 0); if (*t.GetFirstKey() != 1) RFAIL("regress|docex", "MoveToPosition(0) is documented to move to the head");
      (void)t.PutAtPosition(7, 1, 70); if (t.IndexOfKey(7) != 1) RFAIL("regress|docex", "PutAtPosition(1) is documented to place at the second position");
      if (t.GetIteratorAt(12345).HasData()) RFAIL("regress|docex", "GetIteratorAt(absent key) is documented to return an empty iterator");
      if (t.MoveToBefore(2, 2) != B_BAD_ARGUMENT || t.MoveToBehind(3, 3) != B_BAD_ARGUMENT || t.MoveToBefore(12345, 2) != B_DATA_NOT_FOUND) RFAIL("regress|docex", "MoveToBefore/Behind documented error codes");
      if (t.Remove(12345) != B_DATA_NOT_FOUND) RFAIL("regress|docex", "Remove(absent key) documented to return B_DATA_NOT_FOUND");
      uint32 rk = 0; if (t.GetKeyAt(100, rk) != B_BAD_ARGUMENT || t.GetValueAt(100, rk) != B_BAD_ARGUMENT) RFAIL("regress|docex", "GetKeyAt/GetValueAt(bad index) documented to return B_BAD_ARGUMENT");
      H e; if (e.RemoveFirst() == B_NO_ERROR || e.RemoveLast() != B_DATA_NOT_FOUND) RFAIL("regress|docex", "RemoveFirst/RemoveLast on an empty table");
      H inv0; (void)inv0.Put(1, 5); (void)inv0.Put(2, 5); Hashtable<uint32, uint32> inv = inv0.ComputeInvertedTable<AutoChooseHashFunctorHelper<uint32>::Type>(); if (inv.GetNumItems() != 1 || inv[5] != 2) RFAIL("regress|docex", "ComputeInvertedTable: the last associated key is documented to win");
      H s; for (uint32 i = 0; i < 40; i++) (void)s.Put(i, i); (void)s.EnsureSize(10, true); if (s.GetNumAllocatedItemSlots() != 40) RFAIL("regress|docex", "EnsureSize(10,true) with 40 items documented to shrink to max(newTableSize, items): %u slots", s.GetNumAllocatedItemSlots());
      (void)s.ShrinkToFit(3); if (s.GetNumAllocatedItemSlots() != 43) RFAIL("regress|docex", "ShrinkToFit(3): %u slots", s.GetNumAllocatedItemSlots());
      (void)s.PutOrRemove(5, 0); if (s.ContainsKey(5)) RFAIL("regress|docex", "PutOrRemove(key, default value) documented to remove"); if (s.PutOrRemove(5, 0).IsError()) RFAIL("regress|docex", "PutOrRemove of an absent key with the default value is documented to succeed");
      // the class comment: "iterate over a Hashtable, removing undesired items as you go"
      H w; for (uint32 i = 1; i <= 20; i++) (void)w.Put(i, i); uint32 seen = 0; for (HashtableIterator<uint32, uint32> it(w); it.HasData(); it++) { seen++; if (it.GetKey() % 2) (void)w.Remove(it.GetKey()); } if (seen != 20 || w.GetNumItems() != 10) RFAIL("regress|docex", "remove-as-you-go iteration saw %u of 20 entries, %u remain", seen, w.GetNumItems());
      OrderedKeysHashtable<uint32, uint32> ok; uint32 ks[] = {5, 1, 9, 3, 7}; for (int i = 0; i < 5; i++) (void)ok.Put(ks[i], i); uint32 prev = 0; for (HashtableIterator<uint32, uint32> it(ok); it.HasData(); it++) { if (it.GetKey() < prev) RFAIL("regress|docex", "OrderedKeysHashtable not sorted"); prev = it.GetKey(); }
      OrderedValuesHashtable<uint32, uint32> ov; for (int i = 0; i < 5; i++) (void)ov.Put(i, ks[i]); (void)ov.Put(2, 0); if (*ov.GetFirstKey() != 2) RFAIL("regress|docex", "OrderedValuesHashtable: an updated value is documented to move to its place");
      ov.SetAutoSortEnabled(false); (void)ov.Put(77, 4); if (*ov.GetLastKey() != 77) RFAIL("regress|docex", "auto-sort off: Put appends"); ov.SetAutoSortEnabled(true); prev = 0; for (HashtableIterator<uint32, uint32> it(ov); it.HasData(); it++) { if (it.GetValue() < prev) RFAIL("regress|docex", "SetAutoSortEnabled(true) is documented to sort now"); prev = it.GetValue(); }
   }
   // index-width boundaries, deterministic: exactly S slots, completely filled, one live iterator, every other entry removed, refilled
   const uint32 sizes[] = {253, 254, 255, 256, 257, 65534, 65535, 65536, 65537};
   for (size_t si = 0; si < sizeof(sizes) / sizeof(sizes[0]); si++) {
      vh::begin_case(3 + (long)si); uint32 S = sizes[si]; opname = vh::fmt("exact-size-%u", S); H t; (void)t.EnsureSize(S);
      if (t.GetNumAllocatedItemSlots() != S) { RFAIL("regress|exact-size", "EnsureSize(%u) gave %u slots", S, t.GetNumAllocatedItemSlots()); continue; }
      for (uint32 i = 0; i < S; i++) (void)t.Put(i * 7 + 1, i); bool bad = t.GetNumItems() != S || t.GetNumAllocatedItemSlots() != S;
      HashtableIterator<uint32, uint32> live(t); uint32 n = 0; for (HashtableIterator<uint32, uint32> it(t); it.HasData(); it++, n++) if (it.GetKey() != n * 7 + 1 || it.GetValue() != n) { bad = true; break; } if (n != S) bad = true;
      for (uint32 i = 0; i < S; i += 2) if (t.Remove(i * 7 + 1).IsError()) bad = true;
      n = 0; for (; live.HasData(); live++) n++; if (n != 1 + S / 2) { RFAIL("regress|exact-size", "S=%u: live iterator yielded %u entries, expected %u (its removed start + the %u survivors)", S, n, 1 + S / 2, S / 2); }
      for (uint32 i = 0; i < S; i += 2) (void)t.Put(i * 7 + 1, i + 1000000);
      n = 0; for (HashtableIterator<uint32, uint32> it(t, HTIT_FLAG_BACKWARDS); it.HasData(); it++) n++; if (n != S) bad = true;
      for (uint32 i = 0; i < S; i++) { const uint32 * p = t.Get(i * 7 + 1); if (!p || *p != ((i % 2) ? i : i + 1000000)) { bad = true; break; } }
      (void)t.Put(4000000, 1); if (t.GetNumItems() != S + 1 || !t.ContainsKey(4000000) || !t.ContainsKey(1)) bad = true;
      if (bad) RFAIL("regress|exact-size", "a table of exactly %u slots, completely filled, loses entries or order", S);
      vh::stat("regress_exact_sizes");
   }
   vh::begin_case(12);
   { // seeded change C09-5: copy-assignment must discard the target's private copy of a removed/moved entry (three variants)
      opname = "iterator-assignment"; const char * key = "regress|iterator-assignment-keeps-stale-scratch-copy";
      { H t; for (uint32 i = 1; i <= 5; i++) (void)t.Put(i, i * 10); HashtableIterator<uint32, uint32> a(t), b(t, (uint32)3, 0); (void)t.Remove(1);   // a holds the private copy of (1,10)
        if (!a.HasData() || a.GetKey() != 1) RFAIL("regress|docex", "an iterator whose entry was removed is documented to keep a private copy until advanced");
        a = b; uint32 want[] = {3, 4, 5}; uint32 n = 0; for (; a.HasData() && n < 3; a++, n++) if (a.GetKey() != want[n] || a.GetValue() != want[n] * 10) break; if (n != 3 || a.HasData() || !b.HasData() || b.GetKey() != 3) RFAIL(key, "Remove variant: after a = b the target yields something else than 3,4,5 (stopped after %u)", n); }
      { Hashtable<String, uint32> t; const char * ks[] = {"alpha", "beta", "gamma", "delta"}; for (uint32 i = 0; i < 4; i++) (void)t.Put(ks[i], i); HashtableIterator<String, uint32> a(t, HTIT_FLAG_BACKWARDS), b(t, String("beta"), 0); (void)t.MoveToFront("delta");   // a (backwards, on delta) now holds a private copy
        a = b; if (!a.HasData() || a.GetKey() != "beta" || a.IsBackwards()) RFAIL(key, "MoveToFront variant: after a = b the target presents '%s'%s", a.HasData() ? a.GetKey()() : "(no data)", a.IsBackwards() ? " and is still backwards" : ""); else { a++; if (!a.HasData() || a.GetKey() != "gamma") RFAIL(key, "MoveToFront variant: the target does not continue like the source"); } }
      { H * t1 = new H; (void)t1->Put(7, 70); (void)t1->Put(8, 80); H t2; (void)t2.Put(1, 10); (void)t2.Put(2, 20); HashtableIterator<uint32, uint32> a(*t1), b(t2); t1->Clear(); delete t1;   // a holds the private copy of a pair of a table that no longer exists
        a = b; uint32 n = 0; bool ok = true; for (; a.HasData() && n < 2; a++, n++) if (a.GetKey() != n + 1 || a.GetValue() != (n + 1) * 10) ok = false; if (!ok || n != 2 || a.HasData()) RFAIL(key, "Clear+destruction variant: after a = b (iterator of another table) the target does not yield 1,2"); }
      { H t; for (uint32 i = 1; i <= 3; i++) (void)t.Put(i, i); HashtableIterator<uint32, uint32> a(t), dflt; (void)t.Remove(1); a = dflt; if (a.HasData()) RFAIL(key, "assignment from a default-constructed iterator leaves data"); HashtableIterator<uint32, uint32> c(t); (void)t.Remove(2); HashtableIterator<uint32, uint32> d(c); if (!d.HasData() || d.GetKey() != 2) RFAIL("regress|docex", "copy-construction from an iterator holding a private copy"); d++; if (!d.HasData() || d.GetKey() != 3) RFAIL("regress|docex", "copy-constructed iterator does not continue like its source"); }
   }
   for (uint64_t i = 1; i <= 13; i++) vh::distinct(i);
}

int main(int argc, char ** argv)
{
   CompleteSetupSystem css;
   vh::init(argc, argv);
   vh::Ctx & c = vh::ctx();
   modeName = vh::opt("mode", "ops");
   if (modeName == "regress") { Regress(); return vh::finish(); }
   const int stream = modeName == "ops" ? 901 : modeName == "surface" ? 902 : modeName == "boundary" ? 903 : modeName == "ordered" ? 904 : -1;
   if (stream < 0) { fprintf(stderr, "h_hashtable: unknown mode %s\n", modeName.c_str()); return 3; }
   const long bigEvery = vh::optl("big_every", 8);   // boundary mode: every n-th case works at 65536 (0 = never)
   for (long k = c.from; k < c.from + c.cases; k++) {
      vh::begin_case(k);
      uint64_t cs = vh::case_seed(c.seed, (uint64_t)stream, (uint64_t)k);
      g = vh::Rng(cs); trace.clear(); caseBad = false; opname = "start";
#define RUNCASE(KTYPE, VTYPE, MD) do { typeName = std::string(KT<KTYPE>::Name()) + "," + VT<VTYPE>::Name(); Case<KTYPE, VTYPE> * cc = new Case<KTYPE, VTYPE>; cc->Run(k, cs, MD); delete cc; } while (0)
#define RUNORD(TT, KTYPE, VTYPE, BYV) do { typeName = std::string(BYV ? "OrderedValues<" : "OrderedKeys<") + KT<KTYPE>::Name() + "," + VT<VTYPE>::Name() + ">"; OrdCase<TT<KTYPE, VTYPE>, KTYPE, VTYPE, BYV> * oc = new OrdCase<TT<KTYPE, VTYPE>, KTYPE, VTYPE, BYV>; oc->Run(cs); delete oc; } while (0)
      if (stream == 901) { switch (k % 4) { case 0: RUNCASE(uint32, Own, M_OPS); break; case 1: RUNCASE(String, uint32, M_OPS); break; case 2: RUNCASE(BadKey, Own, M_OPS); break; default: RUNCASE(BadKey, uint32, M_OPS); break; } }
      else if (stream == 902) { switch (k % 3) { case 0: RUNCASE(BadKey, uint32, M_SURFACE); break; case 1: RUNCASE(BadKey, Own, M_SURFACE); break; default: RUNCASE(String, uint32, M_SURFACE); break; } if (!caseBad) { typeName = "pool<uint32,uint32,8>"; PoolCase(); } }
      else if (stream == 903) { if (bigEvery > 0 && (k % bigEvery) == bigEvery - 1) { RUNCASE(uint32, Own, M_B65536); vh::stat("cases_at_65536"); } else { switch (k % 3) { case 0: RUNCASE(uint32, Own, M_B256); break; case 1: RUNCASE(BadKey, Own, M_B256); break; default: RUNCASE(String, uint32, M_B256); break; } vh::stat("cases_at_256"); } }
      else { switch (k % 4) { case 0: RUNORD(OrderedKeysHashtable, uint32, uint32, false); break; case 1: RUNORD(OrderedValuesHashtable, uint32, uint32, true); break; case 2: RUNORD(OrderedKeysHashtable, BadKey, Own, false); break; default: RUNORD(OrderedValuesHashtable, BadKey, Own, true); break; } }
      if (vh::want_sample() && !trace.empty()) { std::string s = typeName + ": "; size_t n = 0; for (std::deque<std::string>::const_iterator i = trace.begin(); i != trace.end() && n < 20; ++i, n++) { s += *i; s += "; "; } vh::sample(vh::fmt("case %ld: ...", k) + s); }
   }
   return vh::finish();
}





