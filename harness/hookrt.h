// hookrt.h -- harness side of the guarded hooks in /repo (support/VerifHooks.h, guard MUSCLE_VERIF_HOOKS).
// Provides (a) delay injection by *delay bounding*: a run arms 0..3 placements (site[, role]) and stalls only
// there; everything else runs free; plus an optional uniform jitter mode; (b) a lock-free event ring for the
// sites a harness wants recorded (ordered by one global atomic sequence counter); (c) per-site hit counters.
// All state is atomics / thread-locals initialised before any thread starts (DESIGN.md 2.6): the monitor must
// not become the race.  Install with hookrt::install() BEFORE creating threads; re-arm between cases only
// while no muscle thread is running.
#ifndef VERIF_HOOKRT_H
#define VERIF_HOOKRT_H
#include "support/VerifHooks.h"
#include <atomic>
#include <time.h>
#include <sched.h>
#include <stdint.h>
#include <string.h>

#ifndef MUSCLE_VERIF_HOOKS
# error "harnesses using hookrt.h must be built with -DMUSCLE_VERIF_HOOKS (bin/vbuild does that)"
#endif

namespace hookrt {

enum { MAX_SITE = 64, MAX_ARMED = 4, RING = 1 << 16 };
enum Kind { K_YIELD = 0, K_SLEEP = 1, K_SPIN = 2 };

struct Event { uint64_t seq; int site; int role; const void * obj; long arg; };

struct Armed { std::atomic<int> site; std::atomic<int> role; std::atomic<int> kind; std::atomic<int> micros; std::atomic<int> oneIn; };

static std::atomic<uint64_t> g_seq(0);
static std::atomic<long> g_hits[MAX_SITE];
static std::atomic<long> g_delays[MAX_SITE];
static std::atomic<uint64_t> g_recordMask(0);     // bit per site: record events of this site in the ring
static std::atomic<int> g_jitterOneIn(0);         // 0 = off; else every site stalls 0..g_jitterMicros us in 1/oneIn passages
static std::atomic<int> g_jitterMicros(0);
static Armed g_armed[MAX_ARMED];
static Event g_ring[RING];
static std::atomic<uint64_t> g_ringNext(0);
static std::atomic<uint64_t> g_orderHash(0);      // rolling hash of (site, role) passage order: an interleaving signature
static __thread int t_role = -1;                  // harness threads set their role; muscle-internal threads keep -1 unless a harness sets it in its entry hook
static __thread uint32_t t_rng = 0;

static inline void set_role(int r) { t_role = r; t_rng = 0x9E3779B9u * (uint32_t)(r + 7) + 12345u; }
static inline int role() { return t_role; }
static inline uint32_t trand() { if (t_rng == 0) t_rng = 2463534242u ^ (uint32_t)(uintptr_t)&t_rng; t_rng ^= t_rng << 13; t_rng ^= t_rng >> 17; t_rng ^= t_rng << 5; return t_rng; }

static inline void stall(int kind, int micros)
{
   if (kind == K_YIELD || micros <= 0) { sched_yield(); return; }
   if (kind == K_SLEEP) { struct timespec ts; ts.tv_sec = micros / 1000000; ts.tv_nsec = (long)(micros % 1000000) * 1000L; nanosleep(&ts, NULL); return; }
   struct timespec a, b; clock_gettime(CLOCK_MONOTONIC, &a);
   for (;;) { clock_gettime(CLOCK_MONOTONIC, &b); long us = (long)(b.tv_sec - a.tv_sec) * 1000000L + (b.tv_nsec - a.tv_nsec) / 1000L; if (us >= micros) break; }
}

static void hook(int site, const void * obj, long arg)
{
   if (site < 0 || site >= MAX_SITE) return;
   g_hits[site].fetch_add(1, std::memory_order_relaxed);
   const int r = t_role;
   if (g_recordMask.load(std::memory_order_relaxed) & (1ULL << site)) {
      const uint64_t s = g_seq.fetch_add(1, std::memory_order_seq_cst);
      const uint64_t slot = g_ringNext.fetch_add(1, std::memory_order_relaxed) % RING;
      Event & e = g_ring[slot]; e.seq = s; e.site = site; e.role = r; e.obj = obj; e.arg = arg;
   }
   uint64_t h = g_orderHash.load(std::memory_order_relaxed);
   g_orderHash.store((h * 1099511628211ULL) ^ (uint64_t)(site * 31 + (r + 2)), std::memory_order_relaxed);   // racy by design (relaxed atomics): only a signature
   for (int i = 0; i < MAX_ARMED; i++) {
      Armed & a = g_armed[i];
      if (a.site.load(std::memory_order_relaxed) != site) continue;
      const int wantRole = a.role.load(std::memory_order_relaxed);
      if (wantRole != -2 && wantRole != r) continue;
      const int oneIn = a.oneIn.load(std::memory_order_relaxed);
      if (oneIn > 1 && (trand() % (uint32_t)oneIn) != 0) continue;
      g_delays[site].fetch_add(1, std::memory_order_relaxed);
      const int m = a.micros.load(std::memory_order_relaxed);
      stall(a.kind.load(std::memory_order_relaxed), m > 0 ? (int)(trand() % (uint32_t)m) + 1 : 0);
   }
   const int jo = g_jitterOneIn.load(std::memory_order_relaxed);
   if (jo > 0 && (trand() % (uint32_t)jo) == 0) { g_delays[site].fetch_add(1, std::memory_order_relaxed); const int jm = g_jitterMicros.load(std::memory_order_relaxed); stall(K_SLEEP, jm > 0 ? (int)(trand() % (uint32_t)jm) : 0); }
}

static inline void disarm_all() { for (int i = 0; i < MAX_ARMED; i++) { g_armed[i].site.store(-1); g_armed[i].role.store(-2); g_armed[i].kind.store(0); g_armed[i].micros.store(0); g_armed[i].oneIn.store(1); } g_jitterOneIn.store(0); g_jitterMicros.store(0); }
// role -2 = any thread
static inline void arm(int slot, int site, int role, int kind, int micros, int oneIn = 1) { if (slot < 0 || slot >= MAX_ARMED) return; Armed & a = g_armed[slot]; a.role.store(role); a.kind.store(kind); a.micros.store(micros); a.oneIn.store(oneIn); a.site.store(site); }
static inline void jitter(int oneIn, int micros) { g_jitterMicros.store(micros); g_jitterOneIn.store(oneIn); }
static inline void record_sites(uint64_t mask) { g_recordMask.store(mask); }
static inline void install() { for (int i = 0; i < MAX_SITE; i++) { g_hits[i].store(0); g_delays[i].store(0); } disarm_all(); ::muscle::MuscleVerifHookHolder<0>::_func = hook; }
static inline long hits(int site) { return g_hits[site].load(); }
static inline long delays(int site) { return g_delays[site].load(); }
static inline uint64_t order_signature() { return g_orderHash.load(); }
static inline void reset_ring() { g_ringNext.store(0); g_orderHash.store(1469598103934665603ULL); }
// copies the recorded events (only valid while no hooked thread is running); returns count (ring overflow keeps the newest RING events)
static inline size_t snapshot(Event * out, size_t maxOut) { uint64_t n = g_ringNext.load(); size_t cnt = (size_t)(n < RING ? n : RING); if (cnt > maxOut) cnt = maxOut; uint64_t start = n < RING ? 0 : n - RING; for (size_t i = 0; i < cnt; i++) out[i] = g_ring[(start + i) % RING]; return cnt; }
static inline uint64_t next_seq() { return g_seq.fetch_add(1, std::memory_order_seq_cst); }   // the harness uses the same logical clock for its own events

static const char * site_name(int s)
{
   switch (s) {
   case ::muscle::MVH_REFCOUNT_HIT_ZERO: return "refcount_hit_zero"; case ::muscle::MVH_POOL_RELEASE_AFTER_RESET: return "pool_release_after_reset";
   case ::muscle::MVH_POOL_RELEASE_AFTER_UNLOCK: return "pool_release_after_unlock"; case ::muscle::MVH_POOL_OBTAIN_AFTER_UNLOCK: return "pool_obtain_after_unlock";
   case ::muscle::MVH_THREAD_SEND_AFTER_ENQUEUE: return "thread_send_after_enqueue"; case ::muscle::MVH_THREAD_WAIT_AFTER_DRAIN: return "thread_wait_after_drain";
   case ::muscle::MVH_THREAD_WAIT_BEFORE_BLOCK: return "thread_wait_before_block"; case ::muscle::MVH_THREAD_INTERNAL_ENTRY: return "thread_internal_entry"; case ::muscle::MVH_THREAD_INTERNAL_EXIT: return "thread_internal_exit";
   case ::muscle::MVH_POOL_BEFORE_HANDBACK: return "tpool_before_handback"; case ::muscle::MVH_POOL_AFTER_DISPATCH: return "tpool_after_dispatch";
   case ::muscle::MVH_POOL_UNREGISTER_BEFORE_WAIT: return "tpool_unregister_before_wait"; case ::muscle::MVH_POOL_UNREGISTER_AFTER_WAIT: return "tpool_unregister_after_wait"; case ::muscle::MVH_POOL_BEFORE_SHUTDOWN: return "tpool_before_shutdown";
   case ::muscle::MVH_RW_READER_PARKED: return "rw_reader_parked"; case ::muscle::MVH_RW_READER_ADMITTED: return "rw_reader_admitted"; case ::muscle::MVH_RW_READER_RELEASED: return "rw_reader_released"; case ::muscle::MVH_RW_READER_TIMEDOUT: return "rw_reader_timedout";
   case ::muscle::MVH_RW_WRITER_PARKED: return "rw_writer_parked"; case ::muscle::MVH_RW_WRITER_ADMITTED: return "rw_writer_admitted"; case ::muscle::MVH_RW_WRITER_RELEASED: return "rw_writer_released"; case ::muscle::MVH_RW_WRITER_TIMEDOUT: return "rw_writer_timedout";
   case ::muscle::MVH_RW_AFTER_EARLY_UNLOCK: return "rw_after_early_unlock"; case ::muscle::MVH_RW_AFTER_WAKE: return "rw_after_wake"; case ::muscle::MVH_RW_UPGRADE_AFTER_RELEASE: return "rw_upgrade_after_release";
   default: return "?";
   }
}

}  // namespace hookrt
#endif
