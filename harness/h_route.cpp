// h_route -- C05: a routed Message reaches exactly the sessions its patterns select, once each.
//
// Bench (reflectbench.h, DESIGN.md 2.5): one real ReflectServer stepped single-threaded, 3-8 clients = real MessageIOGateways over
// socketpairs, plus two in-process sessions of the harness: TravSession (a StorageReflectSession subclass that owns nodes, records what
// it is handed and runs the in-process traversal oracle) and DumbTap (a DumbReflectSession: owns no node, must see broadcasts only).
//
// One case (mode=route) = one tree:  random SETDATA from every session -> the observer (reflect-to-self) reads the tree with public
// commands -> bursts of user Messages (unique id, 0-5 !SnKy patterns of every documented clause form, optional !SnFl filters, optional
// forged `session` field) from random senders, interleaved with parameter changes (reflect-to-self, default route, !G2N, !N2G) and tree
// mutations -> after every burst each session's receive queue is compared with the expected recipient sets -> then `trav` in-process
// comparisons of NodePathMatcher::DoTraversal against MatchesPath / MatchesNode over every node and against the reference matcher.
//
// The expected recipient set is computed from the OBSERVER's tree with refwild.h (independent wildcard reference) and the hand-written
// filter evaluator below; muscle's matchers are used only in the second oracle, where the property itself names that comparison.
//
// modes (--opt mode=): route (default; --opt msgs=40 --opt trav=70) | regress (fixed witnesses F8 F16 F16b F17 + documentation examples)
#include "reflectbench.h"
#include "refwild.h"
#include "regex/QueryFilter.h"
#include "reflector/DumbReflectSession.h"
#include "vh.h"
#include <algorithm>
using namespace muscle;
using rb::Bench; using rb::Client; using rb::Options;

static vh::Rng g(1);
static uint32_t R(uint32_t n) { return g.R(n); }
static bool P(uint32_t num, uint32_t den) { return g.R(den) < num; }

static const char * FIELD_ID = "rid";      // unique id of a routed Message
static const uint32 kWhats[] = {7777, 1, 0, 0x7fffffff, 0x74657374 /* 'test' */, 558916399 /* BEGIN_PR_COMMANDS-1 */, 558930000};

// ============================================================================================ filters (hand-written reference)
struct RF {
   enum Kind { INT32 = 1, EXISTS, WHAT, NODENAME, STRING, AND, OR };
   int kind; int op; int thr; std::string field, sval; uint32 lo, hi; std::vector<RF> kids;
   RF() : kind(INT32), op(0), thr(0), lo(0), hi(0) {}
};
static bool CmpInt(int op, int a, int b) { switch (op) { case 0: return a == b; case 1: return a < b; case 2: return a > b; case 3: return a <= b; case 4: return a >= b; default: return a != b; } }
// documented semantics: a value filter matches only when the field exists (with the right type) at index 0
static bool RefEval(const RF & f, const Message & payload, const std::string & nodeName)
{
   switch (f.kind) {
   case RF::INT32: { int32 v; if (payload.FindInt32(f.field.c_str(), v).IsError()) return false; return CmpInt(f.op, v, f.thr); }
   case RF::EXISTS: return payload.HasName(f.field.c_str());
   case RF::WHAT: return payload.what >= f.lo && payload.what <= f.hi;
   case RF::NODENAME: switch (f.op) { case 0: return nodeName == f.sval; case 1: return nodeName.compare(0, f.sval.size(), f.sval) == 0; case 2: return nodeName.size() >= f.sval.size() && nodeName.compare(nodeName.size() - f.sval.size(), f.sval.size(), f.sval) == 0; default: return nodeName.find(f.sval) != std::string::npos; }
   case RF::STRING: { const String * s; if (payload.FindString(f.field.c_str(), &s).IsError()) return false; return f.sval == s->Cstr(); }
   case RF::AND: for (size_t i = 0; i < f.kids.size(); i++) if (!RefEval(f.kids[i], payload, nodeName)) return false; return true;
   case RF::OR: for (size_t i = 0; i < f.kids.size(); i++) if (RefEval(f.kids[i], payload, nodeName)) return true; return false;
   }
   return false;
}
static ConstQueryFilterRef BuildFilter(const RF & f)
{
   static const uint8 sops[] = {StringQueryFilter::OP_EQUAL_TO, StringQueryFilter::OP_STARTS_WITH, StringQueryFilter::OP_ENDS_WITH, StringQueryFilter::OP_CONTAINS};
   switch (f.kind) {
   case RF::INT32: return ConstQueryFilterRef(new Int32QueryFilter(f.field.c_str(), (uint8)f.op, (int32)f.thr));
   case RF::EXISTS: return ConstQueryFilterRef(new ValueExistsQueryFilter(f.field.c_str()));
   case RF::WHAT: return ConstQueryFilterRef(new WhatCodeQueryFilter(f.lo, f.hi));
   case RF::NODENAME: return ConstQueryFilterRef(new NodeNameQueryFilter(sops[f.op & 3], f.sval.c_str()));
   case RF::STRING: return ConstQueryFilterRef(new StringQueryFilter(f.field.c_str(), StringQueryFilter::OP_EQUAL_TO, f.sval.c_str()));
   case RF::AND: return ConstQueryFilterRef(new AndQueryFilter(BuildFilter(f.kids[0]), BuildFilter(f.kids[1])));
   default: return ConstQueryFilterRef(new OrQueryFilter(BuildFilter(f.kids[0]), BuildFilter(f.kids[1])));
   }
}
static MessageRef ArchiveFilter(const RF & f)
{
   MessageRef m = GetMessageFromPool(); ConstQueryFilterRef q = BuildFilter(f);
   if (m() == NULL || q() == NULL || q()->SaveToArchive(*m()).IsError()) rb::Abort("cannot archive a query filter");
   return m;
}
static std::string ShowFilter(const RF & f)
{
   static const char * ops[] = {"==", "<", ">", "<=", ">=", "!="}; static const char * nops[] = {"==", "startswith", "endswith", "contains"};
   switch (f.kind) {
   case RF::INT32: return vh::fmt("int32 %s%s%d", f.field.c_str(), ops[f.op], f.thr);
   case RF::EXISTS: return "exists " + f.field;
   case RF::WHAT: return vh::fmt("what in [%u,%u]", f.lo, f.hi);
   case RF::NODENAME: return vh::fmt("nodename %s '%s'", nops[f.op & 3], f.sval.c_str());
   case RF::STRING: return "string " + f.field + "=='" + f.sval + "'";
   case RF::AND: return "(" + ShowFilter(f.kids[0]) + " AND " + ShowFilter(f.kids[1]) + ")";
   default: return "(" + ShowFilter(f.kids[0]) + " OR " + ShowFilter(f.kids[1]) + ")";
   }
}
static const char * kNames[] = {"a", "b", "c", "x", "y", "zz", "ab", "a*", "q?", "(p)", "1,2", "[k]", "a.b", "<3>", "~a", "7", "12", "p+q", "a\\", "a\\zz", "b\\c", "a\\"};   // the last four hold a backslash: a\ a\zz b\c
static const int kNumNames = 22, kNumPlain = 7;
static std::string PickName() { return P(4, 5) ? kNames[R(kNumPlain)] : kNames[kNumPlain + R(kNumNames - kNumPlain)]; }
static RF GenFilter(int depth = 0)
{
   RF f; int k = R(depth < 1 ? 12 : 9);
   if (k < 4) { f.kind = RF::INT32; f.field = "v"; f.op = R(6); f.thr = R(10); }
   else if (k < 5) { f.kind = RF::EXISTS; f.field = R(2) ? "s" : "v"; }
   else if (k < 6) { f.kind = RF::WHAT; f.lo = R(4); f.hi = f.lo + R(3); }
   else if (k < 8) { f.kind = RF::NODENAME; f.op = R(4); f.sval = PickName(); if (f.op && f.sval.size() > 1 && R(2)) f.sval.resize(1); }
   else if (k < 9) { f.kind = RF::STRING; f.field = "s"; f.sval = R(2) ? "foo" : "bar"; }
   else { f.kind = R(2) ? RF::AND : RF::OR; f.kids.push_back(GenFilter(depth + 1)); f.kids.push_back(GenFilter(depth + 1)); }
   return f;
}
static MessageRef GenPayload()
{
   MessageRef m = GetMessageFromPool(1 + R(3));
   if (P(4, 5)) (void)m()->AddInt32("v", (int32)R(10));
   if (R(2)) (void)m()->AddString("s", R(3) == 0 ? "foo" : (R(2) ? "bar" : "foobar"));
   return m;
}

// ============================================================================================ patterns
// a path pattern as a list of clauses from the start node of the traversal (the global root for routing: implicit */* already added)
struct Pat {
   std::vector<std::string> cl; std::vector<refwild::Pattern> parsed; std::string text; bool hasFilter; RF filter;
   bool malformed;   // one clause does not compile (unbalanced ( or [, reversed class range ...): the whole pattern selects nothing; `parsed` is empty
   Pat() : hasFilter(false), malformed(false) {}
   std::string Canon() const { std::string s; for (size_t i = 0; i < cl.size(); i++) { if (i) s += "/"; s += cl[i]; } return s; }
};
static std::string Join(const std::vector<std::string> & v, size_t from = 0) { std::string s; for (size_t i = from; i < v.size(); i++) { if (i > from) s += "/"; s += v[i]; } return s; }
// clauses = what the client writes; relative => the implicit /*/* prefix is prepended (text has no leading slash)
static Pat MakePat(const std::vector<std::string> & clauses, bool relative, bool rooted = false, bool malformed = false)
{
   Pat p; p.malformed = malformed;
   if (rooted) { p.cl = clauses; p.text = Join(clauses); }
   else if (relative) { p.cl.push_back("*"); p.cl.push_back("*"); p.cl.insert(p.cl.end(), clauses.begin(), clauses.end()); p.text = Join(clauses); }
   else { p.cl = clauses; p.text = "/" + Join(clauses); }
   if (!malformed) for (size_t i = 0; i < p.cl.size(); i++) { refwild::Pattern rp; std::string why; if (!refwild::Parse(p.cl[i], rp, &why)) rb::Abort("generated clause [" + p.cl[i] + "] is outside the documented subset: " + why); p.parsed.push_back(rp); }
   return p;
}
static std::string EscLit(const std::string & s, bool atStart = true)
{
   std::string o;
   for (size_t i = 0; i < s.size(); i++) { unsigned char c = (unsigned char)s[i]; if (refwild::NeedsEscapeAnywhere(c) || (i == 0 && atStart && refwild::NeedsEscapeInFirstPosition(c))) o += '\\'; o += (char)c; }
   return o;
}
static bool IsAlnum(char c) { return (c >= 'a' && c <= 'z') || (c >= '0' && c <= '9'); }
static bool RefClause(const std::string & clause, const std::string & name)
{
   refwild::Pattern rp; std::string why; if (!refwild::Parse(clause, rp, &why)) rb::Abort("generated clause [" + clause + "] is outside the documented subset: " + why);
   return refwild::Match(rp, name);
}
// which clauses muscle may look up directly (no unescaped wildcard character but commas) -- used for the observation counters only
static bool IsLitOrList(const std::string & c)
{
   if (c == "*") return false;
   bool esc = false;
   for (size_t i = 0; i < c.size(); i++) {
      if (esc) { esc = false; continue; }
      if (c[i] == '\\') { esc = true; continue; }
      if (strchr("[]*?|()=^+${}", c[i]) || (i == 0 && strchr("<~`", c[i]))) return false;
   }
   return true;
}

// Clauses that are no well-formed wildcard expressions.  A pattern holding one selects nothing, and must not disturb the other patterns of
// the same Message / default route / command.  The pool is what BOTH sides refuse: the reference parser (outside the documented syntax)
// and StringMatcher::SetPattern() (regcomp error); a candidate that muscle compiles after all has undocumented pass-through-to-regex
// semantics and is left out of the generator and counted (checked once at start-up by InitMalformedPool()).
static std::vector<std::string> gMalformed;
static void InitMalformedPool()
{
   static const char * cand[] = {"(", "a(", "(a|b", "[", "ba[", "[a", "[z-a]", "x[b-a]y", "((a)", "f[", "~(", "~[", "[a-", "*(", "?(", "a{2", "zz(|"};
   for (size_t i = 0; i < sizeof(cand) / sizeof(cand[0]); i++) {
      refwild::Pattern rp; if (refwild::Parse(cand[i], rp)) rb::Abort(std::string("malformed-clause candidate [") + cand[i] + "] is accepted by the reference parser");
      StringMatcher sm; if (sm.SetPattern(cand[i]).IsError()) gMalformed.push_back(cand[i]); else vh::stat("unspecified_malformed_candidate_compiled_by_muscle");
   }
   if (gMalformed.size() < 8) rb::Abort("fewer than 8 clause texts are refused by StringMatcher::SetPattern()");
}
static const std::string & PickMalformed() { return gMalformed[R((uint32)gMalformed.size())]; }

// one clause for a node name: a random documented form built around `t`
static std::string NodeClauseForm(const std::string & t, bool litBias)
{
   const std::string u = PickName(), v = PickName();
   const size_t bs = t.find('\\');
   if (bs != std::string::npos && R(2)) { // an escaped backslash directly in front of a live metacharacter: the clause is no plain literal although a backslash precedes the metacharacter
      const std::string pre = EscLit(t.substr(0, bs + 1)), rest = t.substr(bs + 1);
      switch (R(5)) {
      case 0: return pre + "*";
      case 1: return rest.empty() ? pre + "*" : pre + std::string(rest.size(), '?');
      case 2: if (rest.empty()) return R(2) ? pre + "," + EscLit(u, false) : pre + "," + EscLit(u, false) + "," + EscLit(v, false); return pre + "*";
      case 3: return pre + "(" + EscLit(rest, false) + "|" + EscLit(u, false) + ")";
      default: return rest.empty() ? EscLit(u) + "," + pre + "," + EscLit(v, false) : pre + "?*";
      }
   }
   int form = litBias ? (P(17, 20) ? (R(5) < 2 ? 10 : R(2)) : (int)R(17)) : (int)R(17);
   switch (form) {
   case 0: return EscLit(t);
   case 1: if (IsAlnum(t[0])) return "\\" + EscLit(t, false); return EscLit(t);
   case 2: return "*";
   case 3: return std::string(t.size() <= 3 ? t.size() : 1, '?');
   case 4: return EscLit(t.substr(0, 1)) + "*";
   case 5: return "*" + EscLit(t.substr(t.size() - 1), false);
   case 6: if (IsAlnum(t[0]) && IsAlnum(u[0])) return std::string("[") + t[0] + u[0] + "]" + EscLit(t.substr(1), false); return "*" + EscLit(t.substr(t.size() - 1), false) + "*";
   case 7: if (t[0] >= 'a' && t[0] <= 'x') return std::string("[") + t[0] + "-" + (char)(t[0] + 2) + "]" + EscLit(t.substr(1), false); if (t[0] >= '0' && t[0] <= '7') return std::string("[") + t[0] + "-" + (char)(t[0] + 2) + "]" + EscLit(t.substr(1), false); return "?*";
   case 8: return "(" + EscLit(t, false) + "|" + EscLit(u, false) + ")";
   case 9: if (t.size() >= 2) return EscLit(t.substr(0, 1)) + "(" + EscLit(t.substr(1), false) + "|" + EscLit(u, false) + "|)"; return "(" + EscLit(u, false) + "|" + EscLit(t, false) + "|zz)";
   case 10: { std::vector<std::string> l; l.push_back(t); if (R(15) == 0) l.push_back("a\\"); l.push_back(u); if (R(2)) l.push_back(v); if (R(2)) std::swap(l[0], l[l.size() - 1]); std::string s; for (size_t i = 0; i < l.size(); i++) { if (i) s += ","; s += EscLit(l[i], i == 0); } return s; }
   case 11: return EscLit(u) + "," + EscLit(t.substr(0, 1), false) + "*";
   case 12: return "~" + EscLit(R(3) ? u : t);
   case 13: return "~(" + EscLit(u, false) + "|" + EscLit(R(3) ? v : t, false) + ")";
   case 14: { bool dig = !t.empty(); for (size_t i = 0; i < t.size(); i++) if (t[i] < '0' || t[i] > '9') dig = false; int n = dig ? atoi(t.c_str()) : (int)R(15);
              switch (R(4)) { case 0: return vh::fmt("<%d-%d>", n > 2 ? n - 2 : 0, n + 3); case 1: return vh::fmt("<%d->", n); case 2: return vh::fmt("<-%d>", n); default: return vh::fmt("<%d,%d-%d>", (int)R(4), n, n + 1); } }
   case 15: return R(4) ? "*" + EscLit(t.substr(t.size() / 2, 1), false) + "*" : std::string("~*");
   default: return EscLit(t);
   }
}
static std::string NodeClauseFor(const std::string & name, bool wantMatch, bool litBias)
{
   for (int tries = 0; tries < 30; tries++) {
      std::string t = name; if (!wantMatch) { t = PickName(); if (t == name) continue; }
      std::string c = NodeClauseForm(t, litBias);
      if (RefClause(c, name) == wantMatch) return c;
   }
   return wantMatch ? EscLit(name) : EscLit(name + "_");
}

struct SessInfo { std::string host, sid; };
// one clause for the session level, built from the sessions' actual id strings (all digits); `aim` indexes ids
static std::string SessClauseForm(const std::vector<SessInfo> & ss, size_t aim)
{
   const std::string & s = ss[aim].sid; const std::string & o = ss[R((uint32)ss.size())].sid; const std::string & o2 = ss[R((uint32)ss.size())].sid;
   unsigned long n = strtoul(s.c_str(), NULL, 10), m = strtoul(o.c_str(), NULL, 10); if (m < n) std::swap(n, m);
   switch (R(16)) {
   case 0: case 1: return s;
   case 2: return "*";
   case 3: return vh::fmt("<%lu-%lu>", n, m);
   case 4: return vh::fmt("<%lu->", n);
   case 5: return vh::fmt("<-%lu>", m);
   case 6: return vh::fmt("<%s,%lu-%lu>", o2.c_str(), n, n);
   case 7: return "~" + s;
   case 8: return "(" + s + "|" + o + ")";
   case 9: return s + "," + o;
   case 10: return s.substr(0, s.size() - 1) + "?";
   case 11: return s.substr(0, s.size() - 1) + "[" + s[s.size() - 1] + o[o.size() - 1] + "]";
   case 12: return s.substr(0, 1) + "*";
   case 13: return vh::fmt("~<%lu-%lu>", n, m);
   case 14: return s + "9";
   default: return "\\" + s;
   }
}
static std::string SessClauseFor(const std::vector<SessInfo> & ss, size_t idx, bool wantMatch)
{
   for (int tries = 0; tries < 30; tries++) { std::string c = SessClauseForm(ss, wantMatch ? idx : R((uint32)ss.size())); if (RefClause(c, ss[idx].sid) == wantMatch) return c; }
   return wantMatch ? ss[idx].sid : ss[idx].sid + "9";
}
static std::string HostClause(const std::string & host)
{
   switch (R(10)) { case 0: case 1: case 2: return EscLit(host); case 3: return EscLit(host.substr(0, 1)) + "*"; case 4: return "~nohost"; case 5: return "nohost"; case 6: return "?*"; default: return "*"; }
}

// ============================================================================================ tree model (read through the observer)
struct TNode { std::string path; std::vector<std::string> segs; Message payload; int owner; TNode() : owner(-1) {} };
struct Tree { std::vector<TNode> nodes; };

static bool PatMatchesPath(const Pat & p, const std::vector<std::string> & segs, size_t from = 0)
{
   if (p.malformed || p.cl.size() + from != segs.size()) return false;
   for (size_t i = 0; i < p.cl.size(); i++) if (!refwild::Match(p.parsed[i], segs[from + i])) return false;
   return true;
}

// ============================================================================================ in-process sessions of the harness
struct VisitLog { std::map<std::string, int> count; };
class TravSession : public StorageReflectSession {
public:
   std::vector<MessageRef> got;
   virtual void MessageReceivedFromSession(AbstractReflectSession &, const MessageRef & msg, void *) { got.push_back(msg); }   // no gateway behind this session: record only
   status_t Put(const std::string & rel, const MessageRef & m) { return SetDataNode(rel.c_str(), m); }
   DataNode & Root() { return GetGlobalRoot(); }
   static int CollectCb(StorageReflectSession *, DataNode & node, void * ud) { String p; if (node.GetNodePath(p).IsError()) rb::Abort("GetNodePath failed"); ((VisitLog *)ud)->count[p()]++; return (int)node.GetDepth(); }
   DataNode * FindNode(const std::vector<std::string> & segs)
   {
      DataNode * n = &GetGlobalRoot();
      for (size_t i = 0; i < segs.size(); i++) { DataNodeRef c; if (n->GetChild(segs[i].c_str(), c).IsError() || c() == NULL) return NULL; n = c(); }
      return n;
   }
   // the in-process tree below `start` (strict descendants), paths built from the node names met on the way down
   void Walk(DataNode & n, const std::string & path, std::vector<std::string> & segs, Tree & out)
   {
      for (DataNodeRefIterator it = n.GetChildIterator(); it.HasData(); it++) {
         DataNode * c = it.GetValue()(); if (c == NULL) continue;
         segs.push_back(c->GetNodeName()()); TNode t; t.path = path + "/" + segs.back(); t.segs = segs; if (c->GetData()()) t.payload = *c->GetData()(); out.nodes.push_back(t);
         const std::string childPath = t.path; Walk(*c, childPath, segs, out); segs.pop_back();
      }
   }
   // DoTraversal with a collecting callback, then the property's brute-force oracle with the SAME matcher object
   uint32 Compare(const std::vector<Pat> & pats, const std::vector<ConstQueryFilterRef> & filters, DataNode & start, bool useFilters, bool rooted,
                  VisitLog & visited, std::set<std::string> & byPath, std::set<std::string> & byNode, uint32 & numFiltersInMatcher)
   {
      NodePathMatcher m;
      for (size_t i = 0; i < pats.size(); i++) if (m.PutPathFromString(pats[i].text.c_str(), filters[i], rooted ? NULL : "*/*").IsError() != pats[i].malformed) rb::Abort("PutPathFromString " + std::string(pats[i].malformed ? "accepted the malformed [" : "failed for [") + pats[i].text + "]");
      numFiltersInMatcher = m.GetNumFilters();
      const uint32 ret = m.DoTraversal((PathMatchCallback)CollectCb, this, start, useFilters, &visited);
      Brute(m, start, start, useFilters, byPath, byNode);
      return ret;
   }
private:
   void Brute(NodePathMatcher & m, DataNode & start, DataNode & n, bool useFilters, std::set<std::string> & byPath, std::set<std::string> & byNode)
   {
      for (DataNodeRefIterator it = n.GetChildIterator(); it.HasData(); it++) {
         DataNode * c = it.GetValue()(); if (c == NULL) continue;
         String full, rel; if (c->GetNodePath(full).IsError() || c->GetNodePath(rel, start.GetDepth() + 1).IsError()) rb::Abort("GetNodePath failed");
         if (m.MatchesPath(rel(), useFilters ? c->GetData()() : NULL, c)) byPath.insert(full());
         ConstMessageRef d; if (useFilters) d = c->GetData();
         if (m.MatchesNode(*c, d, (int)start.GetDepth())) byNode.insert(full());
         Brute(m, start, *c, useFilters, byPath, byNode);
      }
   }
};
class DumbTap : public DumbReflectSession {
public:
   std::vector<MessageRef> got;
   virtual void MessageReceivedFromSession(AbstractReflectSession &, const MessageRef & msg, void *) { got.push_back(msg); }
};

// ============================================================================================ the routing world of one case
struct Sess {
   int kind;                       // 0 client, 1 TravSession, 2 DumbTap
   Client * c; TravSession * t; DumbTap * d;
   std::string root, host, sid;
   bool self, g2n, n2g;            // model of the routing flags
   bool hasKeys, hasFilters;       // model of the !SnKy / !SnFl parameters
   std::vector<Pat> routeKeys;     // the !SnKy parameter: the patterns last set (their own hasFilter/filter members are not used)
   std::vector<std::pair<bool, RF> > routeFilters;   // the !SnFl parameter: the filter Messages last set (first = false: an empty Message, i.e. no filter)
   bool filtersReplacedAlone;      // the filters in force came in a SETPARAMETERS without keys, after the keys
   size_t seen;                    // receive-queue entries already examined
   std::set<std::string> rel;      // relative paths this session was told to create (commands model)
   Sess() : kind(0), c(NULL), t(NULL), d(NULL), self(false), g2n(true), n2g(true), hasKeys(false), hasFilters(false), filtersReplacedAlone(false), seen(0) {}
};
struct Sent {
   int id; int sender; int mode;                 // mode 0 own keys, 1 default route, 2 broadcast
   std::vector<char> expect;                     // per session: 0 no, 1 yes, 2 unspecified (filter count differs from key count)
   std::vector<char> consp;                      // per session: owns a node every clause of which is matched by SOME pattern although no pattern matches it
   Message expectMsg; bool forged; bool senderSelf; bool listBs; std::string desc;   // listBs: a pattern in force holds a directly looked-up list with a backslash alternative   // expectMsg: the Message minus its `session` field; forged: it was sent with one; senderSelf: the sender's reflect-to-self flag when queued
   Sent() : id(0), sender(0), mode(0), forged(false), senderSelf(false), listBs(false) {}
};
static const char * kModes[] = {"keys", "default_route", "broadcast"};

struct World {
   Bench B; std::vector<Sess> ss; std::vector<SessInfo> info; Tree tree; int obs; int nextId; bool bad; long caseNo;
   AbstractReflectSessionRef travRef, dumbRef; TravSession * trav; DumbTap * dumb;
   std::vector<std::string> log;   // compact command history for witnesses
   long interesting;
   World() : obs(0), nextId(0), bad(false), caseNo(0), trav(NULL), dumb(NULL), interesting(0) {}

   void Fail(const std::string & key, const std::string & detail)
   {
      if (bad) return; bad = true;
      std::string d = detail + " | sessions:";
      for (size_t i = 0; i < ss.size(); i++) { d += vh::fmt(" #%zu{%s %s%s%s%s%s nodes:", i, ss[i].kind == 0 ? "client" : (ss[i].kind == 1 ? "inproc" : "dumb"), ss[i].root.c_str(), ss[i].self ? " self" : "", ss[i].g2n ? "" : " noG2N", ss[i].n2g ? "" : " noN2G", ss[i].hasKeys ? " route" : ""); for (size_t j = 0; j < tree.nodes.size(); j++) if (tree.nodes[j].owner == (int)i && tree.nodes[j].segs.size() > 2) d += " " + Join(tree.nodes[j].segs, 2); d += "}"; }
      d += " | last commands: "; size_t from = log.size() > 12 ? log.size() - 12 : 0; for (size_t i = from; i < log.size(); i++) d += log[i] + "; ";
      if (d.size() > 3900) d.resize(3900);
      vh::viol(key, d);
   }
   int AddClientSess(bool self)
   {
      Options o; o.reflectToSelf = self; Client * c = B.AddClient(o);
      Sess s; s.kind = 0; s.c = c; s.root = c->root; s.host = c->host; s.sid = c->sid; s.self = self; s.seen = c->got.size(); ss.push_back(s);
      SessInfo si; si.host = s.host; si.sid = s.sid; info.push_back(si);
      return (int)ss.size() - 1;
   }
   int AddTrav()
   {
      trav = new TravSession; travRef.SetRef(trav); if (B.server.AddNewSession(travRef).IsError()) rb::Abort("cannot attach the in-process session");
      Sess s; s.kind = 1; s.t = trav; s.root = trav->GetSessionRootPath()(); s.host = trav->GetHostName()(); s.sid = trav->GetSessionIDString()(); ss.push_back(s);
      SessInfo si; si.host = s.host; si.sid = s.sid; info.push_back(si);
      return (int)ss.size() - 1;
   }
   int AddDumb()
   {
      dumb = new DumbTap; dumbRef.SetRef(dumb); if (B.server.AddNewSession(dumbRef).IsError()) rb::Abort("cannot attach the dumb session");
      Sess s; s.kind = 2; s.d = dumb; s.sid = dumb->GetSessionIDString()(); s.host = dumb->GetHostName()(); s.root = "(none)"; ss.push_back(s);
      return (int)ss.size() - 1;   // owns no node: not in info (no pattern is aimed at it)
   }
   ~World() { travRef.Reset(); dumbRef.Reset(); }

   // ---- tree, read with public commands through the observer
   void ReadTree()
   {
      // GETDATA /*, /*/*, ... one key per depth; in a third of the reads a key that does not compile sits somewhere in the list (the same
      // PutPathsFromMessage() feeds GETDATA): the other keys must still fetch what they fetch alone
      { Client * o = ss[obs].c; o->mirror.clear(); o->idx.clear(); MessageRef gd = GetMessageFromPool(PR_COMMAND_GETDATA); std::string p; const int bad = (R(3) == 0) ? (int)R(8) : -1;
        for (int d = 1; d <= 7; d++) { if (d - 1 == bad) (void)gd()->AddString(PR_NAME_KEYS, (std::string(R(2) ? "/*/*/" : "") + PickMalformed()).c_str()); p += "/*"; (void)gd()->AddString(PR_NAME_KEYS, p.c_str()); }
        if (bad == 7) (void)gd()->AddString(PR_NAME_KEYS, PickMalformed().c_str());
        if (bad >= 0) vh::stat(bad < 7 ? "tree_reads_with_malformed_key_before_valid" : "tree_reads_with_malformed_key_last");
        o->Send(gd); B.Settle(); }
      tree.nodes.clear();
      const std::map<std::string, std::string> & m = ss[obs].c->mirror;
      for (std::map<std::string, std::string>::const_iterator it = m.begin(); it != m.end(); ++it) {
         TNode t; t.path = it->first; t.segs = refwild::SplitPath(it->first);
         if (t.payload.UnflattenFromBytes((const uint8 *)it->second.data(), (uint32)it->second.size()).IsError()) rb::Abort("cannot decode the payload of " + it->first);
         if (t.segs.size() >= 2) for (size_t i = 0; i < ss.size(); i++) if (ss[i].kind != 2 && ss[i].host == t.segs[0] && ss[i].sid == t.segs[1]) t.owner = (int)i;
         tree.nodes.push_back(t);
      }
      // the observer's view against the commands that built the tree (a traversal of its own: GETDATA /*, /*/*, ...)
      std::set<std::string> want, have;
      for (size_t i = 0; i < ss.size(); i++) { if (ss[i].kind == 2) continue; want.insert(ss[i].root); for (std::set<std::string>::const_iterator r = ss[i].rel.begin(); r != ss[i].rel.end(); ++r) want.insert(ss[i].root + "/" + *r); }
      for (size_t j = 0; j < tree.nodes.size(); j++) if (tree.nodes[j].owner >= 0) have.insert(tree.nodes[j].path);
      if (want != have) {
         std::string d = "observer's GETDATA view differs from the commands: missing:"; for (std::set<std::string>::const_iterator w = want.begin(); w != want.end(); ++w) if (!have.count(*w)) d += " " + *w;
         d += " extra:"; for (std::set<std::string>::const_iterator h = have.begin(); h != have.end(); ++h) if (!want.count(*h)) d += " " + *h;
         Fail("tree|observer_view_differs_from_commands", d);
      }
      vh::stat("tree_reads"); vh::statmax("max_tree_nodes", (long)tree.nodes.size());
   }
   void NoteRel(Sess & s, const std::string & rel) { std::vector<std::string> v = refwild::SplitPath(rel); std::string p; for (size_t i = 0; i < v.size(); i++) { if (i) p += "/"; p += v[i]; s.rel.insert(p); } }
   static std::string GenRelPath() { std::string p = PickName(); if (R(5) < 2) { p += "/" + PickName(); if (R(3) == 0) p += "/" + PickName(); } return p; }
   void SetNodes(int si, int n)
   {
      Sess & s = ss[si]; if (n <= 0 || s.kind == 2) return;
      if (s.kind == 1) { for (int j = 0; j < n; j++) { std::string rel = GenRelPath(); if (s.t->Put(rel, GenPayload()).IsError()) rb::Abort("in-process SetDataNode failed"); NoteRel(s, rel); log.push_back(vh::fmt("#%d put %s", si, rel.c_str())); } return; }
      MessageRef sd = GetMessageFromPool(PR_COMMAND_SETDATA); std::string l = vh::fmt("#%d SETDATA", si);
      for (int j = 0; j < n; j++) { std::string rel = GenRelPath(); if (sd()->HasName(rel.c_str())) continue; (void)sd()->AddMessage(rel.c_str(), GenPayload()); NoteRel(s, rel); l += " " + rel; if (R(4) == 0 && j + 1 < n) { s.c->Send(sd); sd = GetMessageFromPool(PR_COMMAND_SETDATA); } }
      s.c->Send(sd); log.push_back(l); vh::stat("setdata_commands");
   }
   void RemoveNode(int si)
   {
      Sess & s = ss[si]; if (s.kind != 0 || s.rel.empty()) return;
      std::set<std::string>::const_iterator it = s.rel.begin(); std::advance(it, R((uint32)s.rel.size())); const std::string victim = *it;
      std::vector<std::string> v = refwild::SplitPath(victim); std::string key; for (size_t i = 0; i < v.size(); i++) { if (i) key += "/"; key += EscLit(v[i]); }
      MessageRef rm = GetMessageFromPool(PR_COMMAND_REMOVEDATA); const int bad = R(4);   // 0: a key that does not compile goes first, 1: last
      if (bad == 0) { (void)rm()->AddString(PR_NAME_KEYS, PickMalformed().c_str()); vh::stat("removedata_with_malformed_key_before_valid"); }
      (void)rm()->AddString(PR_NAME_KEYS, key.c_str()); if (bad == 1) (void)rm()->AddString(PR_NAME_KEYS, PickMalformed().c_str()); s.c->Send(rm);
      std::set<std::string> keep; for (std::set<std::string>::const_iterator r = s.rel.begin(); r != s.rel.end(); ++r) if (*r != victim && r->compare(0, victim.size() + 1, victim + "/") != 0) keep.insert(*r);
      s.rel.swap(keep); log.push_back(vh::fmt("#%d REMOVEDATA %s", si, key.c_str())); vh::stat("removedata_commands");
   }

   // ---- pattern-set generators (need the sessions and the tree)
   std::vector<std::string> NodeClauses(int n, bool litBias)
   {
      std::vector<std::string> names; std::vector<const TNode *> deep;
      for (size_t j = 0; j < tree.nodes.size(); j++) if (tree.nodes[j].segs.size() >= 3) deep.push_back(&tree.nodes[j]);
      if (!deep.empty() && P(7, 10)) { const TNode * t = deep[R((uint32)deep.size())]; for (size_t i = 2; i < t->segs.size(); i++) names.push_back(t->segs[i]); }
      while ((int)names.size() < n) names.push_back(PickName());
      std::vector<std::string> cl; for (int i = 0; i < n; i++) cl.push_back(NodeClauseForm(names[i], litBias));
      return cl;
   }
   Pat GenPat(bool litBias)
   {
      const uint32 r = R(100); std::vector<std::string> cl;
      const int n = 1 + (R(3) == 0 ? 1 : 0) + (R(7) == 0 ? 1 : 0);
      if (r < 45) return MakePat(NodeClauses(n, litBias), true);
      const size_t aim = R((uint32)info.size());
      cl.push_back(litBias && R(3) ? EscLit(info[aim].host) : HostClause(info[aim].host));
      if (r < 50) return MakePat(cl, false);                                    // depth 1: selects nobody
      cl.push_back(litBias && R(3) ? (R(3) ? info[aim].sid : info[aim].sid + "," + info[R((uint32)info.size())].sid) : SessClauseForm(info, aim));
      if (r < 60) return MakePat(cl, false);                                    // depth 2: session nodes
      std::vector<std::string> nc = NodeClauses(n, litBias); cl.insert(cl.end(), nc.begin(), nc.end());
      return MakePat(cl, false);
   }
   // a pattern that would be an ordinary one but for ONE clause (any level) that does not compile
   Pat GenMalformedPat(bool litBias)
   {
      Pat base = GenPat(litBias); std::vector<std::string> cl = base.cl;
      const size_t at = (cl.size() > 2 && R(4)) ? 2 + R((uint32)cl.size() - 2) : R((uint32)cl.size());
      cl[at] = PickMalformed();
      if (at >= 2 && cl[0] == "*" && cl[1] == "*" && R(2)) { cl.erase(cl.begin(), cl.begin() + 2); return MakePat(cl, true, false, true); }
      return MakePat(cl, false, false, true);
   }
   // 2-3 patterns none of which matches the victim node although every level of it is matched by at least one of them
   bool GenConspiracy(std::vector<Pat> & out, bool litBias)
   {
      std::vector<const TNode *> deep; for (size_t j = 0; j < tree.nodes.size(); j++) if (tree.nodes[j].segs.size() >= 3 && tree.nodes[j].owner >= 0 && ss[tree.nodes[j].owner].kind != 2) deep.push_back(&tree.nodes[j]);
      if (deep.empty()) return false;
      const TNode & v = *deep[R((uint32)deep.size())]; const size_t d = v.segs.size();
      size_t vi = 0; for (size_t i = 0; i < info.size(); i++) if (info[i].sid == v.segs[1]) vi = i;
      const int k = (d >= 4 && R(2)) ? 3 : 2;
      std::vector<size_t> spoil; while ((int)spoil.size() < k) { size_t l = 1 + R((uint32)(d - 1)); if (std::find(spoil.begin(), spoil.end(), l) == spoil.end()) spoil.push_back(l); }
      const bool oneDeeper = (R(10) < 3);
      for (int p = 0; p < k; p++) {
         std::vector<std::string> cl; bool rel = true;
         const bool deeper = (oneDeeper && p == 0 && spoil[1] != d - 1);        // a deeper pattern is non-terminal at every level of the victim: it needs no spoiled level
         for (size_t l = 0; l < d; l++) {
            const bool match = deeper || (l != spoil[p]);
            if (l == 0) { std::string h = R(3) ? std::string("*") : EscLit(v.segs[0]); if (h != "*") rel = false; cl.push_back(h); }
            else if (l == 1) { std::string s = (match && R(2)) ? std::string("*") : SessClauseFor(info, vi, match); if (s != "*") rel = false; cl.push_back(s); }
            else cl.push_back(NodeClauseFor(v.segs[l], match, litBias));
         }
         if (deeper) cl.push_back(NodeClauseForm(PickName(), litBias));
         if (rel && R(2)) { cl.erase(cl.begin(), cl.begin() + 2); out.push_back(MakePat(cl, true)); } else out.push_back(MakePat(cl, false));
      }
      return true;
   }
   // filterMode: 0 none, 1 one filter message per key (an empty Message = no filter for that key), 2 fewer filters than keys
   void GenPatSet(std::vector<Pat> & pats, int & filterMode, std::vector<RF> & shortFilters, bool litBias, int minPats)
   {
      pats.clear(); shortFilters.clear();
      static const int dist[] = {0, 0, 0, 1, 1, 1, 1, 1, 1, 2, 2, 2, 2, 2, 3, 3, 3, 4, 4, 5};
      int np = dist[R(20)]; if (np < minPats) np = minPats;
      filterMode = (np > 0 && R(3) == 0) ? (np > 1 && R(5) == 0 ? 2 : 1) : 0;
      if (np >= 2 && R(5) == 0) (void)GenConspiracy(pats, litBias);
      while ((int)pats.size() < np) pats.push_back(GenPat(litBias));
      for (size_t i = pats.size(); i > 1; i--) std::swap(pats[i - 1], pats[R((uint32)i)]);
      if (filterMode) { // the same canonical pattern twice with different filters: which filter applies is unspecified -> keep the first only
         std::set<std::string> seenCanon; std::vector<Pat> keep; for (size_t i = 0; i < pats.size(); i++) if (seenCanon.insert(pats[i].Canon()).second) keep.push_back(pats[i]); pats.swap(keep);
      }
      if (np > 0 && R(8) == 0) { // a malformed pattern first / in the middle / last (or alone); occasionally two of them
         const int nm = (R(6) == 0) ? 2 : 1; if (pats.size() > 1 && R(5) == 0) pats.resize(1); if (R(12) == 0) pats.clear();
         for (int j = 0; j < nm; j++) { Pat bad = GenMalformedPat(litBias); bool dup = false; for (size_t i = 0; i < pats.size(); i++) if (pats[i].Canon() == bad.Canon()) dup = true; if (dup) continue;
            const uint32 where = R(3); const size_t pos = where == 0 ? 0 : (where == 1 ? pats.size() : R((uint32)pats.size() + 1)); pats.insert(pats.begin() + pos, bad); }
      }
      if (filterMode == 1) for (size_t i = 0; i < pats.size(); i++) if (pats.size() == 1 || R(3)) { pats[i].hasFilter = true; pats[i].filter = GenFilter(); }
      if (filterMode == 2) { if (pats.size() < 2) filterMode = 0; else { size_t nf = 1 + R((uint32)pats.size() - 1); for (size_t i = 0; i < nf; i++) shortFilters.push_back(GenFilter()); } }
   }
   // an escaped backslash directly followed by a live metacharacter (a\\,b  a\\*): the clause is no plain literal although its last backslash precedes the metacharacter
   static bool HasEscapedBackslashBeforeLiveMeta(const std::string & c) { for (size_t i = 0; i + 2 < c.size() + 0; i++) { if (c[i] != '\\') continue; if (c[i + 1] == '\\') { if (i + 2 < c.size() && strchr("*?,([|", c[i + 2])) return true; i++; } else i++; } return false; }
   // a comma list of literal names (direct lookup) one alternative of which holds an escaped backslash: see regress case 10
   static bool HasListAltWithBackslash(const std::vector<Pat> & pats) { for (size_t i = 0; i < pats.size(); i++) if (!pats[i].malformed) for (size_t j = 0; j < pats[i].cl.size(); j++) { const std::string & c = pats[i].cl[j]; if (!IsLitOrList(c) || c.find("\\\\") == std::string::npos) continue; bool esc = false; for (size_t q = 0; q < c.size(); q++) { if (esc) { esc = false; continue; } if (c[q] == '\\') { esc = true; continue; } if (c[q] == ',') return true; } } return false; }
   static const char * ListBsPrefix(const std::vector<Pat> & pats) { if (HasListAltWithBackslash(pats)) vh::stat("pattern_sets_with_list_alternative_holding_a_backslash"); return ""; }   // F61 (repaired): judged with the ordinary keys
   static void NoteClauses(const std::vector<Pat> & pats) { for (size_t i = 0; i < pats.size(); i++) if (!pats[i].malformed) for (size_t j = 0; j < pats[i].cl.size(); j++) if (HasEscapedBackslashBeforeLiveMeta(pats[i].cl[j])) { vh::stat("clauses_with_escaped_backslash_before_live_metachar"); bool only = true; { const std::string & c = pats[i].cl[j]; bool esc = false; int live = 0; for (size_t q = 0; q < c.size(); q++) { if (esc) { esc = false; continue; } if (c[q] == '\\') { esc = true; continue; } if (strchr("*?([|", c[q])) live++; } only = live <= 1; } if (only) vh::stat("clauses_with_escaped_backslash_before_sole_live_metachar"); } }
   // 0 = no malformed pattern, 1 = malformed but none before a valid one, 2 = a malformed pattern precedes a valid one
   static int MalformedShape(const std::vector<Pat> & pats) { int r = 0; bool seenBad = false; for (size_t i = 0; i < pats.size(); i++) { if (pats[i].malformed) { seenBad = true; if (!r) r = 1; } else if (seenBad) r = 2; } return r; }
   static void AddPatSetTo(Message & m, const std::vector<Pat> & pats, int filterMode, const std::vector<RF> & shortFilters)
   {
      for (size_t i = 0; i < pats.size(); i++) (void)m.AddString(PR_NAME_KEYS, pats[i].text.c_str());
      if (filterMode == 1) for (size_t i = 0; i < pats.size(); i++) (void)m.AddMessage(PR_NAME_FILTERS, pats[i].hasFilter ? ArchiveFilter(pats[i].filter) : GetMessageFromPool());
      if (filterMode == 2) for (size_t i = 0; i < shortFilters.size(); i++) (void)m.AddMessage(PR_NAME_FILTERS, ArchiveFilter(shortFilters[i]));
   }
   static std::string ShowPats(const std::vector<Pat> & pats, int filterMode, const std::vector<RF> & shortFilters)
   {
      std::string s; for (size_t i = 0; i < pats.size(); i++) { s += " [" + pats[i].text + "]"; if (pats[i].malformed) s += "(malformed)"; if (pats[i].hasFilter) s += "{" + ShowFilter(pats[i].filter) + "}"; }
      if (filterMode == 2) { s += " +filters(fewer than keys):"; for (size_t i = 0; i < shortFilters.size(); i++) s += "{" + ShowFilter(shortFilters[i]) + "}"; }
      return s;
   }

   // ---- the model: which sessions own a node selected by the pattern set
   void Select(const std::vector<Pat> & pats, std::vector<char> & sel, std::vector<char> & consp) const
   {
      sel.assign(ss.size(), 0); consp.assign(ss.size(), 0);
      for (size_t j = 0; j < tree.nodes.size(); j++) {
         const TNode & n = tree.nodes[j]; if (n.owner < 0) continue;      // host nodes (depth 1) and foreign sessions (the bench's inspector) select nobody we can see
         bool m = false, pathOnly = false;
         for (size_t i = 0; i < pats.size(); i++) if (PatMatchesPath(pats[i], n.segs)) { pathOnly = true; if (!pats[i].hasFilter || RefEval(pats[i].filter, n.payload, n.segs.back())) m = true; }
         if (m) sel[n.owner] = 1;
         else if (!pathOnly) {
            bool reach = true; const size_t d = n.segs.size();
            for (size_t l = 0; l < d && reach; l++) { bool any = false; for (size_t i = 0; i < pats.size() && !any; i++) if (!pats[i].malformed && (l + 1 == d ? pats[i].cl.size() == d : pats[i].cl.size() > l + 1) && refwild::Match(pats[i].parsed[l], n.segs[l])) any = true; reach = any; }
            if (reach) consp[n.owner] = 1;
         }
      }
   }
   void RouteExpect(int sender, const std::vector<Pat> & pats, std::vector<char> & exp, std::vector<char> & consp) const
   {
      std::vector<char> sel; Select(pats, sel, consp); exp.assign(ss.size(), 0);
      for (size_t r = 0; r < ss.size(); r++) exp[r] = (sel[r] && (((int)r == sender) ? ss[sender].self : ss[r].n2g)) ? 1 : 0;
   }

   // ---- one user Message from `sender`, queued (not settled)
   void SendUser(int sender, std::vector<Sent> & burst, bool litBias)
   {
      Sess & S = ss[sender]; Sent st; st.id = ++nextId; st.sender = sender; st.senderSelf = S.self; std::string routeShown;
      std::vector<Pat> pats; int filterMode = 0; std::vector<RF> shortFilters;
      GenPatSet(pats, filterMode, shortFilters, litBias, 0);
      if (S.hasKeys && R(5) < 2) { pats.clear(); filterMode = 0; shortFilters.clear(); }   // default routes are used while they exist
      const bool emptyKey = (pats.empty() && R(25) == 0);
      MessageRef um = GetMessageFromPool(kWhats[R(7)]); (void)um()->AddInt32(FIELD_ID, st.id); (void)um()->AddInt32("from", sender);
      if (R(3) == 0) (void)um()->AddString("blob", std::string(R(300), 'z').c_str());
      int forge = R(18);   // the sender-identity field: a client-supplied `session` field of ANY type / count must arrive as one string naming the true sender
      const std::string other = info[R((uint32)info.size())].sid;
      switch (forge) {
      case 0: (void)um()->AddString(PR_NAME_SESSION, "999"); break;
      case 1: (void)um()->AddString(PR_NAME_SESSION, other.c_str()); break;
      case 2: (void)um()->AddString(PR_NAME_SESSION, S.sid.c_str()); break;
      case 3: (void)um()->AddString(PR_NAME_SESSION, other.c_str()); (void)um()->AddString(PR_NAME_SESSION, "998"); vh::stat("forged_session_fields_multi_valued"); break;
      case 4: (void)um()->AddString(PR_NAME_SESSION, S.sid.c_str()); (void)um()->AddString(PR_NAME_SESSION, other.c_str()); (void)um()->AddString(PR_NAME_SESSION, other.c_str()); vh::stat("forged_session_fields_multi_valued"); break;
      case 5: (void)um()->AddInt32(PR_NAME_SESSION, atoi(other.c_str())); vh::stat("forged_session_fields_nonstring"); break;
      case 6: { MessageRef sub = GetMessageFromPool(1); (void)sub()->AddString(PR_NAME_SESSION, other.c_str()); (void)um()->AddMessage(PR_NAME_SESSION, sub); vh::stat("forged_session_fields_nonstring"); } break;
      case 7: (void)um()->AddData(PR_NAME_SESSION, B_RAW_TYPE, other.c_str(), (uint32)other.size() + 1); vh::stat("forged_session_fields_nonstring"); break;
      case 8: (void)um()->AddBool(PR_NAME_SESSION, true); (void)um()->AddBool(PR_NAME_SESSION, false); vh::stat("forged_session_fields_nonstring"); break;
      case 9: (void)um()->AddInt64(PR_NAME_SESSION, (int64)atoi(other.c_str())); (void)um()->AddInt64(PR_NAME_SESSION, 7); vh::stat("forged_session_fields_nonstring"); break;
      default: forge = -1; break;
      }
      if (forge >= 0) { vh::stat("forged_session_fields"); st.forged = true; }
      AddPatSetTo(*um(), pats, filterMode, shortFilters);
      if (emptyKey) (void)um()->AddString(PR_NAME_KEYS, "");
      st.expectMsg = *um(); (void)st.expectMsg.RemoveName(PR_NAME_SESSION);

      if (!pats.empty() || emptyKey) {
         st.mode = 0;
         if (filterMode == 2) { // bleed-down of the last filter (what the code does) vs. no filter for the surplus keys (what REMOVEDATA's text says): unspecified where they differ
            std::vector<Pat> a = pats, b = pats;
            for (size_t i = 0; i < pats.size(); i++) { if (i < shortFilters.size()) { a[i].hasFilter = b[i].hasFilter = true; a[i].filter = b[i].filter = shortFilters[i]; } else { a[i].hasFilter = true; a[i].filter = shortFilters.back(); } }
            std::vector<char> ea, eb, ca, cb; RouteExpect(sender, a, ea, ca); RouteExpect(sender, b, eb, cb); st.expect = ea; st.consp = ca;
            for (size_t r = 0; r < ss.size(); r++) if (ea[r] != eb[r]) { st.expect[r] = 2; vh::stat("unspecified_fewer_filters_than_keys_receivers"); }
         }
         else RouteExpect(sender, pats, st.expect, st.consp);
         // observation counters: pattern count, depth mix, lookup path
         if (pats.empty()) vh::stat("msgs_with_only_an_empty_key"); else vh::stat(vh::fmt("msgs_with_%zu%s_patterns", pats.size() > 4 ? (size_t)5 : pats.size(), pats.size() > 4 ? "plus" : ""));
         std::map<size_t, int> depths; for (size_t i = 0; i < pats.size(); i++) depths[pats[i].cl.size()]++;
         if (pats.size() >= 2) { vh::stat(depths.size() == 1 ? "multi_msgs_one_depth" : (depths.size() == 2 ? "multi_msgs_two_depths" : "multi_msgs_three_plus_depths")); bool eq = false; for (std::map<size_t, int>::const_iterator it = depths.begin(); it != depths.end(); ++it) if (it->second > 1) eq = true; if (eq) vh::stat("multi_msgs_with_equal_depth_patterns"); if (eq && depths.size() > 1) vh::stat("multi_msgs_equal_and_different_depths"); }
         bool anyFast = false, anySlow = false; for (size_t l = 0; l < 8; l++) { bool have = false, fast = true; for (size_t i = 0; i < pats.size(); i++) if (!pats[i].malformed && pats[i].cl.size() > l) { have = true; if (!IsLitOrList(pats[i].cl[l])) fast = false; } if (have) { if (fast) anyFast = true; else anySlow = true; } }
         if (anyFast) vh::stat("msgs_with_a_direct_lookup_level"); if (anySlow) vh::stat("msgs_with_an_iterated_level");
         if (filterMode) vh::stat("msgs_with_filters");
         NoteClauses(pats); st.listBs = HasListAltWithBackslash(pats); if (st.listBs) vh::stat("msgs_with_list_alternative_holding_a_backslash");
         { const int ms = MalformedShape(pats); if (ms) { vh::stat("msgs_with_malformed_pattern"); if (ms == 2) vh::stat("msgs_with_malformed_pattern_before_valid"); else if (pats.size() > 1) vh::stat("msgs_with_malformed_pattern_last"); else vh::stat("msgs_with_malformed_pattern_alone"); bool anyExp = false; for (size_t r = 0; r < ss.size(); r++) if (st.expect[r] == 1) anyExp = true; if (ms == 2 && anyExp) vh::stat("msgs_with_malformed_pattern_before_valid_and_receivers"); } }
         bool anyC = false; for (size_t r = 0; r < ss.size(); r++) if (st.consp[r] && st.expect[r] == 0 && (int)r != sender) { vh::stat("conspiracy_candidate_receivers"); anyC = true; } if (anyC) vh::stat("msgs_with_conspiracy_candidate");
      }
      else if (S.hasKeys) { // the default route = the keys last set paired by position with the filters last set (the two parameters may have been set by different commands)
         st.mode = 1; std::vector<Pat> a, b; const bool open = EffectiveRoute(S, a, b);
         RouteExpect(sender, a, st.expect, st.consp);
         if (open) { std::vector<char> eb, cb; RouteExpect(sender, b, eb, cb); for (size_t r = 0; r < ss.size(); r++) if (st.expect[r] != eb[r]) { st.expect[r] = 2; vh::stat("unspecified_fewer_filters_than_keys_receivers"); } }
         routeShown = ShowPats(a, 0, shortFilters) + (open ? " (fewer filters than keys)" : "");
         vh::stat("default_route_messages"); if (S.hasFilters) vh::stat("default_route_messages_with_filters");
         if (S.filtersReplacedAlone) { vh::stat("default_route_messages_after_filter_replaced_without_keys"); for (size_t r = 0; r < ss.size(); r++) if (st.expect[r] == 1) { vh::stat("default_route_deliveries_expected_after_filter_replaced_without_keys"); break; } }
         if (MalformedShape(S.routeKeys) == 2) { vh::stat("default_route_messages_through_malformed_before_valid"); for (size_t r = 0; r < ss.size(); r++) if (st.expect[r] == 1) { vh::stat("default_route_deliveries_expected_behind_malformed"); break; } }
         NoteClauses(S.routeKeys); st.listBs = HasListAltWithBackslash(S.routeKeys);
      }
      else { st.mode = 2; st.expect.assign(ss.size(), 0); st.consp.assign(ss.size(), 0); for (size_t r = 0; r < ss.size(); r++) st.expect[r] = (S.g2n && (((int)r == sender) ? S.self : ss[r].n2g)) ? 1 : 0; vh::stat("broadcast_messages"); if (!S.g2n) vh::stat("broadcast_messages_with_g2n_off"); }
      st.desc = vh::fmt("id %d from #%d (%s%s)%s", st.id, sender, kModes[st.mode], S.self ? ", sender reflects to self" : "", forge >= 0 ? " forged-session-field" : "") + (st.mode == 1 ? routeShown : ShowPats(pats, filterMode, shortFilters)) + (emptyKey ? " [](empty key)" : "");
      log.push_back(st.desc);
      S.c->Send(um); burst.push_back(st); vh::stat("routed_messages");
   }

   // ---- parameter commands (the model is updated when the command is queued: one sender's commands are handled in order)
   void SetSelf(int si, bool on)
   {
      Sess & s = ss[si]; if (si == obs) return;   // the observer keeps reflect-to-self (its GETDATA view needs it)
      if (on) { MessageRef m = GetMessageFromPool(PR_COMMAND_SETPARAMETERS); (void)m()->AddBool(PR_NAME_REFLECT_TO_SELF, true); s.c->Send(m); }
      else { MessageRef m = GetMessageFromPool(PR_COMMAND_REMOVEPARAMETERS); (void)m()->AddString(PR_NAME_KEYS, PR_NAME_REFLECT_TO_SELF); s.c->Send(m); }
      s.self = on; log.push_back(vh::fmt("#%d %s !Self", si, on ? "SET" : "REMOVE")); vh::stat(on ? "param_self_set" : "param_self_removed");
   }
   // reading a: filter i belongs to key i, the last filter also to every later key (what PutPathsFromMessage does); reading b: later keys have
   // no filter.  Returns true when the readings differ in form (fewer filters than keys): receivers on which they differ are left unjudged.
   static bool EffectiveRoute(const Sess & S, std::vector<Pat> & a, std::vector<Pat> & b)
   {
      a = S.routeKeys; b = S.routeKeys; const size_t nf = S.hasFilters ? S.routeFilters.size() : 0;
      for (size_t i = 0; i < a.size(); i++) {
         a[i].hasFilter = b[i].hasFilter = false;
         if (i < nf) { a[i].hasFilter = b[i].hasFilter = S.routeFilters[i].first; a[i].filter = b[i].filter = S.routeFilters[i].second; }
         else if (nf) { a[i].hasFilter = S.routeFilters[nf - 1].first; a[i].filter = S.routeFilters[nf - 1].second; }
      }
      return nf > 0 && nf < a.size() && S.routeFilters[nf - 1].first;
   }
   static std::string ShowRouteFilters(const std::vector<std::pair<bool, RF> > & f) { std::string s; for (size_t i = 0; i < f.size(); i++) s += f[i].first ? "{" + ShowFilter(f[i].second) + "}" : std::string("{}"); return s; }
   // SETPARAMETERS carrying the route's keys, its filters, or both; the two parameters are independent table entries
   void SetRoute(int si, bool litBias)
   {
      Sess & s = ss[si]; const uint32 v = R(10); const bool withKeys = (v < 7) || !s.hasKeys, withFilters = (v >= 4); // 0-3 keys only, 4-6 both, 7-9 filters only (keys only/both while there are no keys yet: 1 in 10 still filters only)
      const bool filtersOnlyNoKeys = (!s.hasKeys && R(10) == 0);
      MessageRef m = GetMessageFromPool(PR_COMMAND_SETPARAMETERS); std::string l = vh::fmt("#%d SETPARAMETERS", si);
      if (withKeys && !filtersOnlyNoKeys) {
         std::vector<Pat> pats; int filterMode = 0; std::vector<RF> shortFilters; GenPatSet(pats, filterMode, shortFilters, litBias, 1);
         std::set<std::string> seenCanon; std::vector<Pat> keep; for (size_t i = 0; i < pats.size(); i++) if (seenCanon.insert(pats[i].Canon()).second) { pats[i].hasFilter = false; keep.push_back(pats[i]); }   // one canonical pattern twice with different filters: unspecified which applies
         for (size_t i = 0; i < keep.size(); i++) (void)m()->AddString(PR_NAME_KEYS, keep[i].text.c_str());
         s.hasKeys = true; s.routeKeys = keep; s.filtersReplacedAlone = false; l += " !SnKy" + ShowPats(keep, 0, shortFilters); vh::stat("param_default_route_set");
         { const int ms = MalformedShape(keep); if (ms) vh::stat("default_routes_with_malformed_pattern"); if (ms == 2) vh::stat("default_routes_with_malformed_pattern_before_valid"); }
         if (!withFilters && s.hasFilters) vh::stat("default_route_keys_replaced_keeping_filters");
      }
      if (withFilters || filtersOnlyNoKeys) {
         const size_t nk = s.routeKeys.size(); size_t nf = (nk && R(4)) ? nk : 1 + R(3); if (nk > 1 && R(6) == 0) nf = 1 + R((uint32)nk - 1);
         std::vector<std::pair<bool, RF> > f; for (size_t i = 0; i < nf; i++) { const bool real = (nf == 1) || R(4) != 0; f.push_back(std::make_pair(real, real ? GenFilter() : RF())); }
         for (size_t i = 0; i < nf; i++) (void)m()->AddMessage(PR_NAME_FILTERS, f[i].first ? ArchiveFilter(f[i].second) : GetMessageFromPool());
         const bool alone = !(withKeys && !filtersOnlyNoKeys);
         if (alone && s.hasKeys) { s.filtersReplacedAlone = true; vh::stat("default_route_filter_replaced_without_keys"); }
         if (alone && !s.hasKeys) vh::stat("default_route_filters_set_without_any_keys");
         s.hasFilters = true; s.routeFilters = f; l += " !SnFl " + ShowRouteFilters(f); vh::stat("param_default_route_filters_set");
      }
      s.c->Send(m); log.push_back(l);
   }
   void RemoveRoute(int si)
   {
      Sess & s = ss[si]; MessageRef m = GetMessageFromPool(PR_COMMAND_REMOVEPARAMETERS); const int how = R(3);
      if (how == 0) { (void)m()->AddString(PR_NAME_KEYS, PR_NAME_KEYS); }
      else if (how == 1) { (void)m()->AddString(PR_NAME_KEYS, PR_NAME_KEYS); (void)m()->AddString(PR_NAME_KEYS, PR_NAME_FILTERS); s.hasFilters = false; s.routeFilters.clear(); }
      else { (void)m()->AddString(PR_NAME_KEYS, "!Sn*"); s.hasFilters = false; s.routeFilters.clear(); }
      s.c->Send(m); s.hasKeys = false; s.routeKeys.clear(); s.filtersReplacedAlone = false; log.push_back(vh::fmt("#%d REMOVE default route (%d)", si, how)); vh::stat("param_default_route_removed");
   }
   void RemoveRouteFilters(int si)   // the route's keys stay, its filters go
   {
      Sess & s = ss[si]; MessageRef m = GetMessageFromPool(PR_COMMAND_REMOVEPARAMETERS); (void)m()->AddString(PR_NAME_KEYS, PR_NAME_FILTERS); s.c->Send(m);
      s.hasFilters = false; s.routeFilters.clear(); s.filtersReplacedAlone = false;
      log.push_back(vh::fmt("#%d REMOVE !SnFl", si)); vh::stat("param_default_route_filters_removed");
   }
   // the two gateway flags are "set by default" but are no entries of the parameter table until a client sets them, and
   // REMOVEPARAMETERS acts on table entries only: switch them off the robust way (set, then remove) -- see the report
   void SetFlag(int si, const char * name, bool on)
   {
      Sess & s = ss[si];
      MessageRef m = GetMessageFromPool(PR_COMMAND_SETPARAMETERS); (void)m()->AddBool(name, true); s.c->Send(m);
      if (!on) { MessageRef r = GetMessageFromPool(PR_COMMAND_REMOVEPARAMETERS); (void)r()->AddString(PR_NAME_KEYS, name); s.c->Send(r); }
      if (strcmp(name, PR_NAME_ROUTE_GATEWAY_TO_NEIGHBORS) == 0) s.g2n = on; else s.n2g = on;
      log.push_back(vh::fmt("#%d %s %s", si, on ? "SET" : "SET+REMOVE", name)); vh::stat(std::string(on ? "param_set_" : "param_removed_") + (name + 1));
   }

   // ---- after a burst has settled: every session's receive queue against the expectation
   std::vector<MessageRef> & Queue(Sess & s) { return s.kind == 0 ? s.c->got : (s.kind == 1 ? s.t->got : s.d->got); }
   void Verify(const std::vector<Sent> & burst)
   {
      std::map<int, size_t> byId; for (size_t i = 0; i < burst.size(); i++) byId[burst[i].id] = i;
      for (size_t r = 0; r < ss.size() && !bad; r++) {
         Sess & Rv = ss[r]; std::vector<MessageRef> & q = Queue(Rv);
         std::vector<int> cnt(burst.size(), 0); std::map<int, int> lastFrom;   // sender -> burst index of its last Message seen here
         for (size_t i = Rv.seen; i < q.size() && !bad; i++) {
            const Message & m = *q[i](); int32 id;
            if (m.FindInt32(FIELD_ID, id).IsError()) continue;                 // a server reply (PR_RESULT_*)
            std::map<int, size_t>::const_iterator f = byId.find(id);
            if (f == byId.end()) { Fail("route|late_or_unknown_id", vh::fmt("receiver #%zu got id %d, which is no Message of the burst just sent", r, id)); break; }
            const Sent & st = burst[f->second]; cnt[f->second]++;
            std::map<int, int>::iterator lf = lastFrom.find(st.sender);
            if (lf != lastFrom.end() && lf->second > (int)f->second) Fail(std::string("route|order|") + kModes[st.mode], vh::fmt("receiver #%zu got id %d after id %d, both from #%d", r, st.id, burst[lf->second].id, st.sender));
            lastFrom[st.sender] = (int)f->second;
            // sender identity: a `session` field on delivery is ONE string value naming the true sender, whatever the client put there
            if (m.HasName(PR_NAME_SESSION)) {
               vh::stat("session_fields_checked"); uint32 ty = 0, n = 0; (void)m.GetInfo(PR_NAME_SESSION, &ty, &n); const String * sf = NULL; (void)m.FindString(PR_NAME_SESSION, &sf);
               if (ty != B_STRING_TYPE || n != 1 || sf == NULL || ss[st.sender].sid != sf->Cstr()) Fail("route|sender_field", vh::fmt("receiver #%zu: Message %s arrived with a `session` field of type %s holding %u value(s), first string value '%s'; the sender's id is %s", r, st.desc.c_str(), GetTypeCodeString(ty)(), n, sf ? sf->Cstr() : "(none)", ss[st.sender].sid.c_str()));
            }
            else if (st.forged) Fail("route|content_changed", vh::fmt("receiver #%zu: Message %s was sent with a `session` field and arrived without one", r, st.desc.c_str()));
            if (!st.forged && m.HasName(PR_NAME_SESSION)) Fail("route|content_changed", vh::fmt("receiver #%zu: Message %s was sent without a `session` field and arrived with one", r, st.desc.c_str()));
            { Message a = m; (void)a.RemoveName(PR_NAME_SESSION); if (!(a == st.expectMsg)) Fail("route|content_changed", vh::fmt("receiver #%zu: Message %s arrived altered: %s", r, st.desc.c_str(), m.ToString()())); }
         }
         Rv.seen = q.size();
         for (size_t i = 0; i < burst.size() && !bad; i++) {
            const Sent & st = burst[i]; vh::stat("receiver_checks");
            const std::string who = vh::fmt("receiver #%zu (%s): Message %s", r, Rv.root.c_str(), st.desc.c_str());
            if (cnt[i] > 1) { Fail(std::string("route|duplicate|") + kModes[st.mode], who + vh::fmt(" arrived %d times", cnt[i])); break; }
            if (st.expect[r] == 2) continue;
            if (st.expect[r] == 1) vh::stat("deliveries_expected");
            if (st.expect[r] == 1 && cnt[i] == 0) Fail(std::string("route|missing|") + kModes[st.mode], who + " did not arrive");
            else if (st.expect[r] == 0 && cnt[i] == 1) {
               const char * why = ((int)r == st.sender && !st.senderSelf) ? "|to_sender_without_reflect_to_self" : (st.consp[r] ? "|conspiracy" : (Rv.kind == 2 ? "|to_nodeless_session" : ""));
               Fail(std::string("route|unexpected|") + kModes[st.mode] + why, who + " arrived although nothing selects this receiver");
            }
         }
      }
      for (size_t i = 0; i < burst.size(); i++) { int yes = 0, no = 0; for (size_t r = 0; r < ss.size(); r++) { if (burst[i].expect[r] == 1) yes++; else if (burst[i].expect[r] == 0 && ss[r].kind != 2 && (int)r != burst[i].sender) no++; } if (yes && no && burst[i].mode != 2) interesting++; if (!yes) vh::stat("msgs_selecting_nobody"); }
   }

   // ---- GETDATA with a random pattern set (the same PutPathsFromMessage + traversal, seen through a public command) against the reference
   void GetDataCheck(bool litBias)
   {
      std::vector<Pat> pats; int filterMode = 0; std::vector<RF> shortFilters; GenPatSet(pats, filterMode, shortFilters, litBias, 1); if (filterMode == 2) { filterMode = 0; shortFilters.clear(); }
      Client * o = ss[obs].c; o->mirror.clear(); MessageRef gd = GetMessageFromPool(PR_COMMAND_GETDATA); AddPatSetTo(*gd(), pats, filterMode, shortFilters); o->Send(gd); B.Settle();
      std::set<std::string> ref, have; for (size_t j = 0; j < tree.nodes.size(); j++) for (size_t i = 0; i < pats.size(); i++) if (PatMatchesPath(pats[i], tree.nodes[j].segs) && (!pats[i].hasFilter || RefEval(pats[i].filter, tree.nodes[j].payload, tree.nodes[j].segs.back()))) { ref.insert(tree.nodes[j].path); break; }
      for (std::map<std::string, std::string>::const_iterator it = o->mirror.begin(); it != o->mirror.end(); ++it) have.insert(it->first);
      vh::stat("getdata_checks"); vh::stat("getdata_nodes_expected", (long)ref.size()); NoteClauses(pats); log.push_back("GETDATA" + ShowPats(pats, filterMode, shortFilters));
      if (ref != have) { std::string d = "GETDATA" + ShowPats(pats, filterMode, shortFilters) + " |"; for (std::set<std::string>::const_iterator i = ref.begin(); i != ref.end(); ++i) if (!have.count(*i)) d += " missing:" + *i; for (std::set<std::string>::const_iterator i = have.begin(); i != have.end(); ++i) if (!ref.count(*i)) d += " extra:" + *i; Fail(std::string(ListBsPrefix(pats)) + "getdata|result_differs_from_reference", d); }
   }
   // ---- one subscription: the initial values and the notice for a later update of a foreign node, against the reference
   void SubscriptionProbe(bool litBias)
   {
      std::vector<int> cl; for (size_t i = 0; i < ss.size(); i++) if (ss[i].kind == 0 && (int)i != obs) cl.push_back((int)i); if (cl.size() < 2) return;
      const int xi = cl[R((uint32)cl.size())]; Sess & X = ss[xi]; Pat p; do { p = GenPat(litBias); } while (p.cl.size() < 2);
      X.c->mirror.clear(); MessageRef sp = GetMessageFromPool(PR_COMMAND_SETPARAMETERS); (void)sp()->AddBool((std::string("SUBSCRIBE:") + p.text).c_str(), true); X.c->Send(sp); B.Settle();
      std::set<std::string> ref, have; std::vector<size_t> cand, hits;
      for (size_t j = 0; j < tree.nodes.size(); j++) { const TNode & n = tree.nodes[j]; if (rb::Under(n.path, X.root)) continue; const bool m = PatMatchesPath(p, n.segs); if (m) ref.insert(n.path); if (n.owner >= 0 && ss[n.owner].kind == 0 && n.segs.size() >= 3) { cand.push_back(j); if (m) hits.push_back(j); } }
      for (std::map<std::string, std::string>::const_iterator it = X.c->mirror.begin(); it != X.c->mirror.end(); ++it) if (!rb::Under(it->first, X.root)) have.insert(it->first);
      std::vector<Pat> one(1, p); NoteClauses(one); vh::stat("subscription_probes"); vh::stat("subscription_initial_nodes_expected", (long)ref.size()); log.push_back(vh::fmt("#%d SUBSCRIBE:%s", xi, p.text.c_str()));
      if (ref != have) { std::string d = vh::fmt("#%d SUBSCRIBE:%s |", xi, p.text.c_str()); for (std::set<std::string>::const_iterator i = ref.begin(); i != ref.end(); ++i) if (!have.count(*i)) d += " missing:" + *i; for (std::set<std::string>::const_iterator i = have.begin(); i != have.end(); ++i) if (!ref.count(*i)) d += " extra:" + *i; Fail(std::string(ListBsPrefix(one)) + "subscription|initial_values_differ_from_reference", d); }
      else if (!cand.empty()) { // a foreign node gets a new payload: the subscriber is told exactly when the pattern matches it
         const size_t j = (!hits.empty() && R(3)) ? hits[R((uint32)hits.size())] : cand[R((uint32)cand.size())]; TNode & n = tree.nodes[j]; const bool m = PatMatchesPath(p, n.segs);
         MessageRef pl = GenPayload(); (void)pl()->AddInt32("upd", ++nextId); MessageRef sd = GetMessageFromPool(PR_COMMAND_SETDATA); (void)sd()->AddMessage(Join(n.segs, 2).c_str(), pl); ss[n.owner].c->Send(sd); B.Settle();
         n.payload = *pl(); std::map<std::string, std::string>::const_iterator it = X.c->mirror.find(n.path); const bool told = (it != X.c->mirror.end() && it->second == rb::FlatBytes(*pl()));
         vh::stat(m ? "subscription_updates_expected" : "subscription_updates_not_expected"); log.push_back(vh::fmt("#%d SETDATA %s (update)", n.owner, Join(n.segs, 2).c_str()));
         if (told != m) Fail(std::string(ListBsPrefix(one)) + "subscription|update_notice_differs_from_reference", vh::fmt("#%d SUBSCRIBE:%s; node %s got a new payload: subscriber %s, the pattern %s it", xi, p.text.c_str(), n.path.c_str(), told ? "was told" : "was not told", m ? "matches" : "does not match"));
      }
      MessageRef rp = GetMessageFromPool(PR_COMMAND_REMOVEPARAMETERS); (void)rp()->AddString(PR_NAME_KEYS, "SUBSCRIBE:*"); X.c->Send(rp); B.Settle(); X.c->mirror.clear();
   }

   // ---- at the end: the parameter table as the server reports it against the model (catches a model that drifted from the commands)
   void CheckParams()
   {
      for (size_t i = 0; i < ss.size() && !bad; i++) {
         Sess & s = ss[i]; if (s.kind != 0) continue;
         s.c->params.Reset(); s.c->Send(GetMessageFromPool(PR_COMMAND_GETPARAMETERS)); B.Settle(); s.seen = s.c->got.size();
         if (s.c->params() == NULL) { Fail("params|no_reply", vh::fmt("#%zu got no PR_RESULT_PARAMETERS", i)); return; }
         const Message & p = *s.c->params();
         const bool self = p.HasName(PR_NAME_REFLECT_TO_SELF), g2n = p.HasName(PR_NAME_ROUTE_GATEWAY_TO_NEIGHBORS), n2g = p.HasName(PR_NAME_ROUTE_NEIGHBORS_TO_GATEWAY), keys = p.HasName(PR_NAME_KEYS), fl = p.HasName(PR_NAME_FILTERS);
         vh::stat("parameter_tables_checked");
         if (self != s.self || g2n != s.g2n || n2g != s.n2g || keys != s.hasKeys || fl != s.hasFilters)
            Fail("params|reported_table_differs_from_commands", vh::fmt("#%zu reports !Self=%d !G2N=%d !N2G=%d !SnKy=%d !SnFl=%d, the commands sent give %d %d %d %d %d", i, self, g2n, n2g, keys, fl, s.self, s.g2n, s.n2g, s.hasKeys, s.hasFilters));
         else {
            std::string diff; const String * ks; uint32 nk = 0; while (p.FindString(PR_NAME_KEYS, nk, &ks).IsOK()) { if (nk >= s.routeKeys.size() || s.routeKeys[nk].text != ks->Cstr()) diff = vh::fmt("!SnKy[%u] is '%s'", nk, ks->Cstr()); nk++; }
            if (s.hasKeys && nk != s.routeKeys.size()) diff = vh::fmt("!SnKy holds %u strings, %zu were set", nk, s.routeKeys.size());
            MessageRef fm; uint32 nf = 0; while (p.FindMessage(PR_NAME_FILTERS, nf, fm).IsOK()) { if (nf < s.routeFilters.size()) { MessageRef want = s.routeFilters[nf].first ? ArchiveFilter(s.routeFilters[nf].second) : GetMessageFromPool(); if (!(*want() == *fm())) diff = vh::fmt("!SnFl[%u] is not the filter last set", nf); } nf++; }
            if (s.hasFilters && nf != s.routeFilters.size()) diff = vh::fmt("!SnFl holds %u Messages, %zu were set", nf, s.routeFilters.size());
            if (!diff.empty()) Fail("params|reported_route_differs_from_commands", vh::fmt("#%zu: %s", i, diff.c_str()));
         }
      }
   }

   // ---- second oracle: DoTraversal against brute force (muscle's own MatchesPath / MatchesNode) and against the reference
   void TraversalComparison(bool litBias)
   {
      std::vector<Pat> pats; int filterMode = 0; std::vector<RF> shortFilters; bool rooted = false; std::vector<std::string> startSegs;
      if (R(4) == 0) { // rooted at a host or session node, as REMOVEDATA / REORDERDATA traversals are: patterns relative to the start, no implicit prefix
         rooted = true; const size_t si = R((uint32)info.size()); startSegs.push_back(info[si].host); if (R(4)) startSegs.push_back(info[si].sid);
         int np = 1 + R(4); filterMode = R(3) == 0 ? 1 : 0;
         for (int i = 0; i < np; i++) { std::vector<std::string> cl; if (startSegs.size() == 1) cl.push_back(R(2) ? SessClauseForm(info, si) : std::string("*")); std::vector<std::string> nc = NodeClauses(1 + (R(3) == 0) + (R(7) == 0), litBias); cl.insert(cl.end(), nc.begin(), nc.end()); pats.push_back(MakePat(cl, false, true)); }
         if (R(8) == 0) { std::vector<std::string> cl = pats[R((uint32)pats.size())].cl; cl[R((uint32)cl.size())] = PickMalformed(); pats.insert(pats.begin() + R((uint32)pats.size() + 1), MakePat(cl, false, true, true)); }
         if (filterMode) { std::set<std::string> seenCanon; std::vector<Pat> keep; for (size_t i = 0; i < pats.size(); i++) if (seenCanon.insert(pats[i].Canon()).second) keep.push_back(pats[i]); pats.swap(keep); for (size_t i = 0; i < pats.size(); i++) if (R(3)) { pats[i].hasFilter = true; pats[i].filter = GenFilter(); } }
      }
      else { GenPatSet(pats, filterMode, shortFilters, litBias, 1); if (filterMode == 2) filterMode = 0; }
      const bool useFilters = R(4) != 0;
      DataNode * start = trav->FindNode(startSegs); if (start == NULL) rb::Abort("start node of a traversal not found");
      std::vector<ConstQueryFilterRef> filters; for (size_t i = 0; i < pats.size(); i++) filters.push_back(pats[i].hasFilter ? BuildFilter(pats[i].filter) : ConstQueryFilterRef());
      VisitLog visited; std::set<std::string> byPath, byNode; uint32 nf = 0;
      const uint32 ret = trav->Compare(pats, filters, *start, useFilters, rooted, visited, byPath, byNode, nf);
      // reference: the in-process tree (names met on the way down) against refwild + the hand-written filter evaluator
      Tree sub; std::vector<std::string> segs = startSegs; std::string sp; for (size_t i = 0; i < startSegs.size(); i++) sp += "/" + startSegs[i];
      trav->Walk(*start, sp, segs, sub);
      std::set<std::string> ref;
      for (size_t j = 0; j < sub.nodes.size(); j++) for (size_t i = 0; i < pats.size(); i++) if (PatMatchesPath(pats[i], sub.nodes[j].segs, startSegs.size()) && (!useFilters || !pats[i].hasFilter || RefEval(pats[i].filter, sub.nodes[j].payload, sub.nodes[j].segs.back()))) { ref.insert(sub.nodes[j].path); break; }
      std::set<std::string> vis; long total = 0; bool twice = false; std::string twiceNode;
      for (std::map<std::string, int>::const_iterator it = visited.count.begin(); it != visited.count.end(); ++it) { vis.insert(it->first); total += it->second; if (it->second > 1) { twice = true; twiceNode = it->first; } }
      // counters
      vh::stat("traversal_comparisons"); vh::stat("traversal_nodes_visited", (long)vis.size()); vh::stat("traversal_nodes_tested", (long)sub.nodes.size());
      if (rooted) vh::stat(startSegs.size() == 1 ? "traversals_rooted_at_host_node" : "traversals_rooted_at_session_node");
      if (useFilters && nf) vh::stat("traversals_with_filters");
      size_t fastL = 0, slowL = 0; for (size_t l = 0; l < 8; l++) { bool have = false, fast = true; for (size_t i = 0; i < pats.size(); i++) if (!pats[i].malformed && pats[i].cl.size() > l) { have = true; if (!IsLitOrList(pats[i].cl[l])) fast = false; } if (have) { if (fast) fastL++; else slowL++; } }
      vh::stat("traversal_levels_direct_lookup", (long)fastL); vh::stat("traversal_levels_iterated", (long)slowL);
      if (fastL && slowL) vh::stat("traversals_mixing_lookup_and_iteration"); else if (fastL) vh::stat("traversals_direct_lookup_at_every_level"); else vh::stat("traversals_iterated_at_every_level");
      if (fastL && !vis.empty()) vh::stat("traversals_with_lookup_level_and_visits");
      if (pats.size() > 1) vh::stat("traversals_with_several_patterns");
      if (MalformedShape(pats)) vh::stat("traversals_with_malformed_pattern");
      NoteClauses(pats);
      if (vis.empty()) vh::stat("traversals_visiting_nothing");
      // verdicts
      const std::string what = std::string(rooted ? "rooted at " + sp : "from the root") + (useFilters ? ", filters on" : ", filters off") + ":" + ShowPats(pats, filterMode, shortFilters);
      struct D { static std::string Diff(const std::set<std::string> & a, const std::set<std::string> & b, const char * an, const char * bn) { std::string s; for (std::set<std::string>::const_iterator i = a.begin(); i != a.end(); ++i) if (!b.count(*i)) s += std::string(" only-") + an + ":" + *i; for (std::set<std::string>::const_iterator i = b.begin(); i != b.end(); ++i) if (!a.count(*i)) s += std::string(" only-") + bn + ":" + *i; return s; } };
      const std::string pre = ListBsPrefix(pats);
      if (vis != byPath) Fail(pre + "traversal|visited_set_differs_from_MatchesPath_over_all_nodes", what + " |" + D::Diff(vis, byPath, "visited", "MatchesPath"));
      else if (vis != byNode) Fail(pre + "traversal|visited_set_differs_from_MatchesNode_over_all_nodes", what + " |" + D::Diff(vis, byNode, "visited", "MatchesNode"));
      else if (vis != ref) Fail(pre + "traversal|visited_set_differs_from_reference", what + " |" + D::Diff(vis, ref, "visited", "reference"));
      else if (twice) Fail("traversal|node_visited_twice", what + " | " + twiceNode);
      else if ((long)ret != total) Fail("traversal|returned_visit_count", what + vh::fmt(" | returned %u, callback ran %ld times", ret, total));
   }
};

// ============================================================================================ one case
// Session ids come from a process-wide counter that cannot be reset, and session-level clauses are built from the id strings.  So that a
// case is the same whatever ran before it in the process (worker partition, restart after a crash, --replay of one case), ids are burnt
// until the next one is X100 for some digit string X: every case then sees ids X100, X101, ... -- same lengths, same common prefix, same
// numeric order, same last digits as in a fresh process (where X is empty), which is all the clause forms depend on.
static void AlignSessionIds()
{
   for (int i = 0; i < 1100; i++) { DumbReflectSession d; if (d.GetSessionID() % 1000 == 99) return; }
   rb::Abort("cannot align the session id counter");
}
static void RunCase(long k, uint64_t cs, long nMsgs, long nTrav)
{
   AlignSessionIds();
   g = vh::Rng(cs);
   World W; W.caseNo = k;
   const bool litBias = (R(3) == 0);                     // a third of the trees: mostly literal clauses, so that hash lookups dominate
   const int nClients = 3 + R(6);
   const int travAt = R(nClients + 1), dumbAt = R(2) ? (int)R(nClients + 1) : -1;
   for (int i = 0; i <= nClients; i++) {
      if (i == travAt) W.AddTrav();
      if (i == dumbAt) W.AddDumb();
      if (i < nClients) { int si = W.AddClientSess(i == 0 || R(4) == 0); if (i == 0) W.obs = si; }
   }
   for (size_t i = 0; i < W.ss.size(); i++) W.SetNodes((int)i, W.ss[i].kind == 1 ? (int)R(4) : (R(6) == 0 ? 0 : 1 + (int)R(6)));
   W.B.Settle(); W.ReadTree();
   for (size_t i = 0; i < W.ss.size(); i++) W.ss[i].seen = W.Queue(W.ss[i]).size();

   std::vector<int> clients; for (size_t i = 0; i < W.ss.size(); i++) if (W.ss[i].kind == 0) clients.push_back((int)i);
   long sent = 0;
   while (sent < nMsgs && !W.bad) {
      const uint32 r = R(100);
      if (r < 8) { // a receiver's (or sender's) gateway flags: own phase, so that no Message of another session is in flight
         const int si = clients[R((uint32)clients.size())]; if (R(3)) W.SetFlag(si, PR_NAME_ROUTE_NEIGHBORS_TO_GATEWAY, !W.ss[si].n2g ? true : (R(4) != 0 ? false : true)); else W.SetFlag(si, PR_NAME_ROUTE_GATEWAY_TO_NEIGHBORS, !W.ss[si].g2n);
         W.B.Settle();
      }
      else if (r < 16) { const int si = (int)R((uint32)W.ss.size()); if (R(2) == 0 && W.ss[si].kind == 0 && !W.ss[si].rel.empty()) W.RemoveNode(si); else W.SetNodes(si, 1 + R(2)); W.B.Settle(); W.ReadTree(); for (size_t i = 0; i < W.ss.size(); i++) W.ss[i].seen = W.Queue(W.ss[i]).size(); vh::stat("tree_mutations"); }
      else if (r < 23) { W.GetDataCheck(litBias); for (size_t i = 0; i < W.ss.size(); i++) W.ss[i].seen = W.Queue(W.ss[i]).size(); }
      else if (r < 29) { W.SubscriptionProbe(litBias); for (size_t i = 0; i < W.ss.size(); i++) W.ss[i].seen = W.Queue(W.ss[i]).size(); }
      else {
         std::vector<Sent> burst; const int nb = 1 + R(8);
         for (int b = 0; b < nb && sent < nMsgs; b++) {
            const int si = clients[R((uint32)clients.size())];
            const uint32 pc = R(100);   // the sender's own routing parameters may change in-stream: one session's commands are handled in order
            if (pc < 6) W.SetSelf(si, !W.ss[si].self);
            else if (pc < 15) W.SetRoute(si, litBias);
            else if (pc < 19 && W.ss[si].hasKeys) W.RemoveRoute(si);
            else if (pc < 22 && W.ss[si].hasKeys) W.SetRoute(si, litBias);   // routes that exist get their keys / filters replaced separately
            else if (pc < 25 && W.ss[si].hasKeys && W.ss[si].hasFilters) W.RemoveRouteFilters(si);
            W.SendUser(si, burst, litBias); sent++;
         }
         W.B.Settle(); W.Verify(burst); vh::stat("bursts");
      }
   }
   if (!W.bad) W.CheckParams();
   for (long t = 0; t < nTrav && !W.bad; t++) W.TraversalComparison(litBias || R(3) == 0);
   vh::distinct(vh::fnv(&cs, sizeof(cs), (uint64_t)W.nextId), W.interesting >= 5);
   if (vh::want_sample() && W.log.size() > 8) { std::string s = vh::fmt("case %ld:", k); for (size_t i = 0; i < W.log.size() && s.size() < 900; i++) if (W.log[i].compare(0, 2, "id") == 0) s += " " + W.log[i] + ";"; vh::sample(s); }
}

// ============================================================================================ fixed witnesses and documentation examples
struct Rg {   // tiny fixed world: clients only, expectations written by hand
   Bench B; std::vector<Client *> c; int nextId; std::string key;
   Rg(int n, const char * k) : nextId(0), key(k) { for (int i = 0; i < n; i++) c.push_back(B.AddClient()); }
   void Set(int i, const char * p1, const char * p2 = NULL, const char * p3 = NULL, const char * p4 = NULL, const char * p5 = NULL)
   { MessageRef sd = GetMessageFromPool(PR_COMMAND_SETDATA); const char * ps[] = {p1, p2, p3, p4, p5}; for (int j = 0; j < 5; j++) if (ps[j]) (void)sd()->AddMessage(ps[j], GetMessageFromPool(1)); c[i]->Send(sd); B.Settle(); }
   // sends one user Message from `from` with the keys given; want[i] = copies client i must receive
   void Route(const char * what, int from, const std::vector<std::string> & keys, const std::vector<int> & want)
   {
      MessageRef um = GetMessageFromPool(7777); const int id = ++nextId; (void)um()->AddInt32(FIELD_ID, id); for (size_t i = 0; i < keys.size(); i++) (void)um()->AddString(PR_NAME_KEYS, keys[i].c_str());
      c[from]->Send(um); B.Settle(); vh::stat("regress_routed_messages");
      for (size_t i = 0; i < c.size(); i++) { int n = 0; for (size_t j = 0; j < c[i]->got.size(); j++) { int32 v; if (c[i]->got[j]()->FindInt32(FIELD_ID, v).IsOK() && v == id) n++; }
         if (n != want[i]) { std::string ks; for (size_t q = 0; q < keys.size(); q++) ks += " [" + keys[q] + "]"; vh::viol(key, vh::fmt("%s: keys%s from client %d (%s): client %zu (%s) received %d copies, expected %d", what, ks.c_str(), from, c[from]->root.c_str(), i, c[i]->root.c_str(), n, want[i])); } }
   }
};
static std::vector<std::string> K(const char * a = NULL, const char * b = NULL, const char * c = NULL) { std::vector<std::string> v; if (a) v.push_back(a); if (b) v.push_back(b); if (c) v.push_back(c); return v; }
static std::vector<int> W4(int a, int b, int c, int d) { std::vector<int> v; v.push_back(a); v.push_back(b); v.push_back(c); v.push_back(d); return v; }
static std::vector<int> W3(int a, int b, int c) { std::vector<int> v; v.push_back(a); v.push_back(b); v.push_back(c); return v; }

static void Regress()
{
   vh::begin_case(0);
   { // F8: the default route (PR_NAME_KEYS as a parameter) applies to keyless Messages, and stops applying once removed
      Rg r(3, "regress|F8_default_route"); r.Set(1, "b"); r.Set(2, "c");
      r.Route("no route yet: broadcast", 0, K(), W3(0, 1, 1));
      MessageRef sp = GetMessageFromPool(PR_COMMAND_SETPARAMETERS); (void)sp()->AddString(PR_NAME_KEYS, "b"); r.c[0]->Send(sp); r.B.Settle();
      r.Route("default route 'b'", 0, K(), W3(0, 1, 0));
      r.Route("own keys override the default route", 0, K("c"), W3(0, 0, 1));
      MessageRef rp = GetMessageFromPool(PR_COMMAND_REMOVEPARAMETERS); (void)rp()->AddString(PR_NAME_KEYS, PR_NAME_KEYS); r.c[0]->Send(rp); r.B.Settle();
      r.Route("route removed: broadcast again", 0, K(), W3(0, 1, 1));
      // with a filter on the route
      MessageRef sd = GetMessageFromPool(PR_COMMAND_SETDATA); MessageRef p5 = GetMessageFromPool(1); (void)p5()->AddInt32("v", 5); MessageRef p2 = GetMessageFromPool(1); (void)p2()->AddInt32("v", 2);
      (void)sd()->AddMessage("n", p5); r.c[1]->Send(sd); MessageRef sd2 = GetMessageFromPool(PR_COMMAND_SETDATA); (void)sd2()->AddMessage("n", p2); r.c[2]->Send(sd2); r.B.Settle();
      RF f; f.kind = RF::INT32; f.field = "v"; f.op = 4; f.thr = 4;
      MessageRef sp2 = GetMessageFromPool(PR_COMMAND_SETPARAMETERS); (void)sp2()->AddString(PR_NAME_KEYS, "n"); (void)sp2()->AddMessage(PR_NAME_FILTERS, ArchiveFilter(f)); r.c[0]->Send(sp2); r.B.Settle();
      r.Route("default route 'n' with filter v>=4", 0, K(), W3(0, 1, 0));
   }
   vh::begin_case(1);
   { // F16: a receiver with several matching nodes gets one copy
      Rg r(3, "regress|F16_duplicate_delivery"); r.Set(1, "a", "b", "c", "a/x", "b/x"); r.Set(2, "q");
      r.Route("three matching depth-3 nodes", 0, K("*"), W3(0, 1, 1));
      r.Route("two matching nodes", 0, K("(a|b)"), W3(0, 1, 0));
      r.Route("two matching subtrees", 0, K("*/x"), W3(0, 1, 0));
      r.Route("comma list", 0, K("a,b,c"), W3(0, 1, 0));
      r.Route("two patterns, both matching", 0, K("a", "b"), W3(0, 1, 0));
      r.Route("patterns of two depths, both matching", 0, K("a/x", "b"), W3(0, 1, 0));
   }
   vh::begin_case(2);
   { // F16b: session node + one of its nodes
      Rg r(3, "regress|F16b_duplicate_session_node_plus_node"); r.Set(1, "b"); r.Set(2, "c");
      r.Route("/*/* + b", 0, K("/*/*", "b"), W3(0, 1, 1));
      r.Route("b + /*/*", 0, K("b", "/*/*"), W3(0, 1, 1));
      r.Route("/*/* + b/x + *", 0, K("/*/*", "b/x", "*"), W3(0, 1, 1));
   }
   vh::begin_case(3);
   { // F17: patterns of equal depth must not combine their clauses
      Rg r(3, "regress|F17_conspiracy_equal_depth"); r.Set(0, "a"); r.Set(1, "a");
      const std::string p = r.c[0]->root + "/a";
      r.Route("c + /host/<sid0>/a", 2, K("c", p.c_str()), W3(1, 0, 0));
      r.Route("/host/<sid0>/a + c", 2, K(p.c_str(), "c"), W3(1, 0, 0));
      Rg q(3, "regress|F17_conspiracy_equal_depth"); q.Set(1, "b/x"); q.Set(2, "a/x", "b/a");
      const std::string s2 = q.c[2]->sid; const std::string k2 = "/*/" + s2 + "/(a|b)/(a|zz)", k3 = "/*/" + s2 + "/b,zz,c/a*";
      q.Route("three patterns of depth 4 (row F17)", 0, K("/*/*/a/x", k2.c_str(), k3.c_str()), W3(0, 0, 1));
      q.Route("the pair that conspires", 0, K("/*/*/a/x", k3.c_str()), W3(0, 0, 1));
   }
   vh::begin_case(4);
   { // the key-path examples of StorageReflectConstants.h, used as routing keys
      Rg r(3, "regress|documentation_examples"); r.Set(1, "color", "shape", "vehicleTypes/car", "jam"); r.Set(2, "shape", "sound");
      const std::string host = EscLit(r.c[1]->host);
      r.Route("/*/*/color", 0, K("/*/*/color"), W3(0, 1, 0));
      r.Route("/host/*/shape", 0, K(("/" + host + "/*/shape").c_str()), W3(0, 1, 1));
      r.Route("/host/sid/sound", 0, K(("/" + host + "/" + r.c[2]->sid + "/sound").c_str()), W3(0, 0, 1));
      r.Route("/*/*/vehicleTypes/*", 0, K("/*/*/vehicleTypes/*"), W3(0, 1, 0));
      r.Route("j*", 0, K("j*"), W3(0, 1, 0));
      r.Route("shape/*", 0, K("shape/*"), W3(0, 0, 0));
      r.Route("vehicleTypes/*", 0, K("vehicleTypes/*"), W3(0, 1, 0));
      r.Route("/* selects nobody", 0, K("/*"), W3(0, 0, 0));
      r.Route("/*/* selects every other session", 0, K("/*/*"), W3(0, 1, 1));
      r.Route("escaped literal", 0, K("\\s\\o\\u\\n\\d"), W3(0, 0, 1));
      MessageRef sp = GetMessageFromPool(PR_COMMAND_SETPARAMETERS); (void)sp()->AddBool(PR_NAME_REFLECT_TO_SELF, true); r.c[1]->Send(sp); r.B.Settle();
      r.Route("reflect-to-self", 1, K("shape"), W3(0, 1, 1));
      // the sender-identity field
      MessageRef um = GetMessageFromPool(7777); (void)um()->AddInt32(FIELD_ID, 4242); (void)um()->AddString(PR_NAME_SESSION, r.c[2]->sid.c_str()); (void)um()->AddString(PR_NAME_KEYS, "sound"); r.c[0]->Send(um); r.B.Settle();
      bool ok = false; for (size_t j = 0; j < r.c[2]->got.size(); j++) { const Message & m = *r.c[2]->got[j](); if (m.GetInt32(FIELD_ID) == 4242) ok = (r.c[0]->sid == m.GetString(PR_NAME_SESSION)()); }
      if (!ok) vh::viol("regress|sender_field", "a forged `session` field was not replaced by the sender's id");
      // the same forgery as an int32 field, and as a multi-valued string field: one string value naming the true sender must arrive
      MessageRef ui = GetMessageFromPool(7777); (void)ui()->AddInt32(FIELD_ID, 4243); (void)ui()->AddInt32(PR_NAME_SESSION, atoi(r.c[1]->sid.c_str())); (void)ui()->AddString(PR_NAME_KEYS, "sound"); r.c[0]->Send(ui);
      MessageRef us = GetMessageFromPool(7777); (void)us()->AddInt32(FIELD_ID, 4244); (void)us()->AddString(PR_NAME_SESSION, r.c[0]->sid.c_str()); (void)us()->AddString(PR_NAME_SESSION, r.c[1]->sid.c_str()); (void)us()->AddString(PR_NAME_KEYS, "sound"); r.c[0]->Send(us); r.B.Settle();
      int seen = 0;
      for (size_t j = 0; j < r.c[2]->got.size(); j++) { const Message & m = *r.c[2]->got[j](); const int32 id = m.GetInt32(FIELD_ID); if (id != 4243 && id != 4244) continue; seen++;
         uint32 ty = 0, n = 0; (void)m.GetInfo(PR_NAME_SESSION, &ty, &n);
         if (ty != B_STRING_TYPE || n != 1 || r.c[0]->sid != m.GetString(PR_NAME_SESSION)()) vh::viol("regress|sender_field", vh::fmt("%s forgery of the `session` field arrived as type %s with %u value(s), first string '%s' (sender %s)", id == 4243 ? "an int32" : "a two-valued string", GetTypeCodeString(ty)(), n, m.GetString(PR_NAME_SESSION)(), r.c[0]->sid.c_str())); }
      if (seen != 2) vh::viol("regress|sender_field", vh::fmt("%d of the 2 forged Messages arrived", seen));
      vh::stat("regress_forgeries_checked", seen);
   }
   vh::begin_case(5);
   { // the example in CheckChildForTraversal's comment ("/j*/k*" + "/k*/j*" must not match /jeremy/jenny), one level down, in process
      World W; W.AddClientSess(true); W.AddTrav(); W.obs = 0;
      const char * ps[] = {"jeremy/jenny", "jeremy/kim", "kevin/jenny", "kevin/kim"}; for (int i = 0; i < 4; i++) if (W.trav->Put(ps[i], GetMessageFromPool(1)).IsError()) rb::Abort("SetDataNode failed");
      std::vector<Pat> pats; std::vector<std::string> c1, c2; c1.push_back("j*"); c1.push_back("k*"); c2.push_back("k*"); c2.push_back("j*"); pats.push_back(MakePat(c1, false, true)); pats.push_back(MakePat(c2, false, true));
      std::vector<ConstQueryFilterRef> nf(2); VisitLog v; std::set<std::string> bp, bn; uint32 n;
      std::vector<std::string> segs = refwild::SplitPath(W.trav->GetSessionRootPath()()); DataNode * st = W.trav->FindNode(segs); if (!st) rb::Abort("no session node");
      (void)W.trav->Compare(pats, nf, *st, false, true, v, bp, bn, n);
      std::set<std::string> want; want.insert(W.ss[1].root + "/jeremy/kim"); want.insert(W.ss[1].root + "/kevin/jenny"); std::set<std::string> vis; for (std::map<std::string, int>::const_iterator it = v.count.begin(); it != v.count.end(); ++it) vis.insert(it->first);
      if (vis != want || bp != want || bn != want) vh::viol("regress|documentation_examples", vh::fmt("j*/k* + k*/j*: visited %zu nodes, MatchesPath %zu, MatchesNode %zu, expected the 2 nodes jeremy/kim and kevin/jenny", vis.size(), bp.size(), bn.size()));
      vh::stat("regress_traversals");
   }
   vh::begin_case(6);
   { // the gateway flags: broadcast stops when the sender clears !G2N, delivery stops when the receiver clears !N2G (set, then remove)
      Rg r(3, "regress|gateway_flags"); r.Set(1, "b"); r.Set(2, "b");
      MessageRef s1 = GetMessageFromPool(PR_COMMAND_SETPARAMETERS); (void)s1()->AddBool(PR_NAME_ROUTE_NEIGHBORS_TO_GATEWAY, true); r.c[2]->Send(s1);
      MessageRef r1 = GetMessageFromPool(PR_COMMAND_REMOVEPARAMETERS); (void)r1()->AddString(PR_NAME_KEYS, PR_NAME_ROUTE_NEIGHBORS_TO_GATEWAY); r.c[2]->Send(r1); r.B.Settle();
      r.Route("receiver 2 cleared !N2G, keys", 0, K("b"), W3(0, 1, 0));
      r.Route("receiver 2 cleared !N2G, broadcast", 0, K(), W3(0, 1, 0));
      MessageRef s2 = GetMessageFromPool(PR_COMMAND_SETPARAMETERS); (void)s2()->AddBool(PR_NAME_ROUTE_GATEWAY_TO_NEIGHBORS, true); r.c[0]->Send(s2);
      MessageRef r2 = GetMessageFromPool(PR_COMMAND_REMOVEPARAMETERS); (void)r2()->AddString(PR_NAME_KEYS, PR_NAME_ROUTE_GATEWAY_TO_NEIGHBORS); r.c[0]->Send(r2); r.B.Settle();
      r.Route("sender cleared !G2N, broadcast", 0, K(), W3(0, 0, 0));
      r.Route("sender cleared !G2N, keys still route", 0, K("b"), W3(0, 1, 0));
      // observation only: GETPARAMETERS lists !G2N / !N2G on a fresh session ("set by default"), but REMOVEPARAMETERS of a flag that was never SET is ignored
      Rg q(2, "regress|gateway_flags");
      MessageRef r3 = GetMessageFromPool(PR_COMMAND_REMOVEPARAMETERS); (void)r3()->AddString(PR_NAME_KEYS, PR_NAME_ROUTE_GATEWAY_TO_NEIGHBORS); q.c[0]->Send(r3); q.B.Settle();
      MessageRef um = GetMessageFromPool(7777); (void)um()->AddInt32(FIELD_ID, 1); q.c[0]->Send(um); q.B.Settle();
      bool arrived = false; for (size_t j = 0; j < q.c[1]->got.size(); j++) if (q.c[1]->got[j]()->HasName(FIELD_ID)) arrived = true;
      vh::stat(arrived ? "observed_remove_of_never_set_default_flag_is_ignored" : "observed_remove_of_never_set_default_flag_works");
   }
   vh::begin_case(7);
   { // a pattern that does not compile selects nothing and leaves the other patterns of the list alone, wherever it stands (seeded change C05-6)
      Rg r(4, "regress|malformed_pattern_in_list"); r.Set(1, "foo"); r.Set(2, "bar"); r.Set(3, "baz");
      r.Route("malformed in the middle", 0, K("/*/*/foo", "/*/*/(", "/*/*/bar"), W4(0, 1, 1, 0));
      r.Route("malformed first", 0, K("/*/*/ba[", "/*/*/baz"), W4(0, 0, 0, 1));
      r.Route("malformed at session level first", 0, K("/*/(", "/*/*/ba?", "/*/*"), W4(0, 1, 1, 1));
      r.Route("malformed last", 0, K("/*/*/foo", "/*/*/baz", "f["), W4(0, 1, 0, 1));
      r.Route("malformed alone", 0, K("/*/*/ba["), W4(0, 0, 0, 0));
      r.Route("reversed class range first", 0, K("[z-a]", "bar"), W4(0, 0, 1, 0));
      MessageRef sp = GetMessageFromPool(PR_COMMAND_SETPARAMETERS); (void)sp()->AddString(PR_NAME_KEYS, "/*/*/f["); (void)sp()->AddString(PR_NAME_KEYS, "/*/*/f*"); (void)sp()->AddString(PR_NAME_KEYS, "/*/*/baz"); r.c[0]->Send(sp); r.B.Settle();
      r.Route("default route with a malformed pattern first", 0, K(), W4(0, 1, 0, 1));
      // the same list through GETDATA and REMOVEDATA
      MessageRef gd = GetMessageFromPool(PR_COMMAND_GETDATA); (void)gd()->AddString(PR_NAME_KEYS, "(("); (void)gd()->AddString(PR_NAME_KEYS, "ba?"); r.c[0]->mirror.clear(); r.c[0]->Send(gd); r.B.Settle();
      if (r.c[0]->mirror.size() != 2 || !r.c[0]->mirror.count(r.c[2]->root + "/bar") || !r.c[0]->mirror.count(r.c[3]->root + "/baz")) vh::viol("regress|malformed_pattern_in_list", vh::fmt("GETDATA [((] [ba?] returned %zu nodes, expected bar and baz", r.c[0]->mirror.size()));
      MessageRef rm = GetMessageFromPool(PR_COMMAND_REMOVEDATA); (void)rm()->AddString(PR_NAME_KEYS, "b["); (void)rm()->AddString(PR_NAME_KEYS, "bar"); r.c[2]->Send(rm); r.B.Settle();
      r.Route("after REMOVEDATA [b[] [bar]", 0, K("ba?"), W4(0, 0, 0, 1));
      vh::stat("regress_malformed_scenarios", 10);
   }
   vh::begin_case(8);
   { // an escaped backslash directly in front of a live metacharacter (seeded change C05-7): a\\,b = "a\" or "b"; a\\* = "a\" followed by anything
      Rg r(4, "regress|escaped_backslash_before_metachar"); r.Set(1, "b"); r.Set(2, "a\\zz"); r.Set(3, "c");
      r.Route("literal name", 0, K("b"), W4(0, 1, 0, 0));
      r.Route("plain comma list", 0, K("b,c"), W4(0, 1, 0, 1));
      r.Route("plain wildcard", 0, K("a*"), W4(0, 0, 1, 0));
      r.Route("escaped backslash then comma", 0, K("a\\\\,b"), W4(0, 1, 0, 0));
      r.Route("escaped backslash then star", 0, K("a\\\\*"), W4(0, 0, 1, 0));
      r.Route("escaped backslash then question marks", 0, K("a\\\\??"), W4(0, 0, 1, 0));
      r.Route("escaped backslash as a literal", 0, K("a\\\\zz"), W4(0, 0, 1, 0));
      r.Set(3, "a\\");
      r.Route("escaped backslash then star, two matches", 0, K("a\\\\*"), W4(0, 0, 1, 1));
      vh::stat("regress_escaped_backslash_scenarios", 8);
   }
   vh::begin_case(9);
   { // the route's filters replaced by a SETPARAMETERS without keys (seeded change C05-8): the route = last keys + last filters
      Rg r(3, "regress|route_filter_replaced_without_keys");
      for (int i = 1; i <= 2; i++) { MessageRef sd = GetMessageFromPool(PR_COMMAND_SETDATA); MessageRef pl = GetMessageFromPool(1); (void)pl()->AddInt32("v", i); (void)sd()->AddMessage("n", pl); r.c[i]->Send(sd); } r.B.Settle();
      RF f1; f1.kind = RF::INT32; f1.field = "v"; f1.op = 0; f1.thr = 1; RF f2 = f1; f2.thr = 2;
      r.Route("no default route (broadcast)", 0, K(), W3(0, 1, 1));
      MessageRef s1 = GetMessageFromPool(PR_COMMAND_SETPARAMETERS); (void)s1()->AddString(PR_NAME_KEYS, "n"); (void)s1()->AddMessage(PR_NAME_FILTERS, ArchiveFilter(f1)); r.c[0]->Send(s1); r.B.Settle();
      r.Route("default route n, filter v==1", 0, K(), W3(0, 1, 0));
      MessageRef s2 = GetMessageFromPool(PR_COMMAND_SETPARAMETERS); (void)s2()->AddMessage(PR_NAME_FILTERS, ArchiveFilter(f2)); r.c[0]->Send(s2); r.B.Settle();
      r.Route("filter parameter replaced by v==2 (no keys in that command)", 0, K(), W3(0, 0, 1));
      MessageRef s3 = GetMessageFromPool(PR_COMMAND_SETPARAMETERS); (void)s3()->AddString(PR_NAME_KEYS, "n"); r.c[0]->Send(s3); r.B.Settle();
      r.Route("keys parameter set again", 0, K(), W3(0, 0, 1));
      MessageRef s4 = GetMessageFromPool(PR_COMMAND_SETPARAMETERS); (void)s4()->AddMessage(PR_NAME_FILTERS, GetMessageFromPool()); r.c[0]->Send(s4); r.B.Settle();
      r.Route("filter parameter replaced by an empty Message", 0, K(), W3(0, 1, 1));
      // filters without any keys ever: no route, broadcast
      Rg q(3, "regress|route_filter_replaced_without_keys"); q.Set(1, "n");
      MessageRef s5 = GetMessageFromPool(PR_COMMAND_SETPARAMETERS); (void)s5()->AddMessage(PR_NAME_FILTERS, ArchiveFilter(f1)); q.c[0]->Send(s5); q.B.Settle();
      q.Route("filters but never any keys: broadcast", 0, K(), W3(0, 1, 1));
      vh::stat("regress_route_filter_scenarios", 6);
   }
   vh::begin_case(10);
   { // a comma list looked up directly: an alternative holding an escaped backslash must find the node named with that backslash
     // (F61, repaired in 8b6f10a: DoTraversalAux stripped the escapes while splitting the list and DoDirectChildLookup stripped them again; "zz,a\\\\" also reached owners of a node "a")
      Rg r(4, "regress|list_alternative_with_escaped_backslash"); r.Set(1, "b"); r.Set(2, "a\\"); r.Set(3, "zz");
      r.Route("control: unique literal", 0, K("a\\\\"), W4(0, 0, 1, 0));
      r.Route("control: list with a wildcard member (iterated level)", 0, K("a\\\\,z*"), W4(0, 0, 1, 1));
      r.Route("list of two literal names, the first with a backslash", 0, K("a\\\\,b"), W4(0, 1, 1, 0));
      r.Route("list of two literal names, the last with a backslash", 0, K("zz,a\\\\"), W4(0, 0, 1, 1));
      r.Set(3, "a");
      r.Route("the backslash alternative must not find a node named without it", 0, K("b,a\\\\"), W4(0, 1, 1, 0));
      vh::stat("regress_list_backslash_scenarios", 5);
   }
   for (uint64_t i = 1; i <= 11; i++) vh::distinct(i);
}

int main(int argc, char ** argv)
{
   CompleteSetupSystem css;
   SetConsoleLogLevel(MUSCLE_LOG_NONE);
   vh::init(argc, argv);
   vh::Ctx & c = vh::ctx();
   const std::string mode = vh::opt("mode", "route");
   InitMalformedPool();
   if (mode == "regress") { Regress(); return vh::finish(); }
   const long nMsgs = vh::optl("msgs", 40), nTrav = vh::optl("trav", 70);
   for (long k = c.from; k < c.from + c.cases; k++) {
      vh::begin_case(k);
      RunCase(k, vh::case_seed(c.seed, 5, (uint64_t)k), nMsgs, nTrav);
   }
   return vh::finish();
}
