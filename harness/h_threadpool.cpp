// h_threadpool -- C19: a ThreadPool handles each client's Messages once, in order, one at a time.
// One case = one pool lifetime: a pool of 1..6 threads, 1..10 IThreadPoolClient objects, 1..4 submitter threads,
// 0..2 (un)registrar threads (woken by the submitters' progress or by a running / returning handler of the client they are
// about to unregister), handlers that sometimes submit further Messages or dawdle, one delay placement
// (hookrt delay bounding) chosen round-robin over the case index, pool destroyed with or without outstanding work.
// Submission order is defined by a per-client ticket taken under a harness lock held ACROSS SendMessageToThreadPool.
// Handlers log enter/exit(client, ticket, pool thread) on the hookrt logical clock into per-pool-thread logs (no lock
// of the harness serialises two handlers), CAS a per-client in-handler flag, count concurrently running handlers.
// Rules (keys): overlap, order, handled_twice, not_handled, wrong_client, phantom_message, too_many_concurrent_handlers,
// too_many_pool_threads, unregister_returned_early, handler_after_unregister, handler_after_pool_destruction;
// a hang is proved by the driver (all harness waiting is untimed) -> key <leg>|deadlock.
// modes (--opt mode=): stress (default) | regress (fixed deterministic witnesses + documentation examples of ThreadPool.h)
//                      | lockorder (witness of the _poolLock / global-muscle-lock inversion, see LockOrder())
#include "system/ThreadPool.h"
#include "system/SetupSystem.h"
#include "util/ObjectPool.h"
#include "message/Message.h"
#include <vector>
#include <string>
#include <thread>
#include <mutex>
#include <condition_variable>
#include <atomic>
#include <algorithm>
#include <set>
#include <time.h>
#include <sched.h>
#include "vh.h"
#include "hookrt.h"
using namespace muscle;

enum { R_SUB = 0, R_UNREG = 1, R_POOL = 2, R_MAIN = 3 };
static const char * RoleName(int r) { switch (r) { case R_SUB: return "submitter"; case R_UNREG: return "unregistrar"; case R_POOL: return "poolthread"; case R_MAIN: return "main"; default: return "any"; } }
static const char * KindName(int k) { return k == hookrt::K_YIELD ? "yield" : (k == hookrt::K_SLEEP ? "sleep" : "spin"); }

struct Pl { int site; int role; bool hot; };
static const Pl PLS[] = {
   {MVH_POOL_BEFORE_HANDBACK, R_POOL, true},
   {MVH_POOL_AFTER_DISPATCH, R_SUB, true}, {MVH_POOL_AFTER_DISPATCH, R_POOL, true},
   {MVH_POOL_UNREGISTER_BEFORE_WAIT, R_UNREG, false}, {MVH_POOL_UNREGISTER_AFTER_WAIT, R_UNREG, false},
   {MVH_POOL_BEFORE_SHUTDOWN, R_MAIN, false},
   {MVH_THREAD_SEND_AFTER_ENQUEUE, R_SUB, true}, {MVH_THREAD_SEND_AFTER_ENQUEUE, R_POOL, true}, {MVH_THREAD_SEND_AFTER_ENQUEUE, R_MAIN, false},
   {MVH_THREAD_WAIT_AFTER_DRAIN, R_POOL, true}, {MVH_THREAD_WAIT_BEFORE_BLOCK, R_POOL, true},
   {MVH_THREAD_INTERNAL_ENTRY, R_POOL, false}, {MVH_THREAD_INTERNAL_EXIT, R_POOL, false},
};
enum { NPL = sizeof(PLS) / sizeof(PLS[0]), NSINGLE = NPL * 3, CYCLE = NSINGLE + 4 };
static const int SITES[] = { MVH_POOL_BEFORE_HANDBACK, MVH_POOL_AFTER_DISPATCH, MVH_POOL_UNREGISTER_BEFORE_WAIT, MVH_POOL_UNREGISTER_AFTER_WAIT, MVH_POOL_BEFORE_SHUTDOWN,
                             MVH_THREAD_SEND_AFTER_ENQUEUE, MVH_THREAD_WAIT_AFTER_DRAIN, MVH_THREAD_WAIT_BEFORE_BLOCK, MVH_THREAD_INTERNAL_ENTRY, MVH_THREAD_INTERNAL_EXIT };
enum { NSITES = sizeof(SITES) / sizeof(SITES[0]) };

// ---- event log: one vector per pool thread, written only by that thread, read after the pool is gone
struct Ev { uint64_t seq; int32_t client; uint32_t ticket; int16_t thr; int16_t exit; };
enum { MAXT = 64 };
static std::vector<Ev> g_logs[MAXT];
static std::atomic<int> g_nPoolThreads(0);
static __thread int t_slot = -1;
static std::atomic<uint32_t> g_caseSalt(1);

struct CaseCtx;
static void NoteWaiterParked();               // an unregistering thread passed MVH_POOL_UNREGISTER_BEFORE_WAIT
static std::atomic<int> g_countParked(0);     // 1 = count before the injected delay of that site, 2 = after it
static void (*g_onShutdownHook)() = NULL;     // called by the thread inside ThreadPool::Shutdown(), after _shuttingDown was set, before the pool threads are joined

static void MyHook(int site, const void * obj, long arg)
{
   if (site == MVH_POOL_UNREGISTER_BEFORE_WAIT && g_countParked.load() == 1) NoteWaiterParked();
   if (site == MVH_POOL_BEFORE_SHUTDOWN && g_onShutdownHook) { void (*f)() = g_onShutdownHook; g_onShutdownHook = NULL; hookrt::hook(site, obj, arg); f(); return; }
   if (site == MVH_THREAD_INTERNAL_ENTRY) {
      const int n = g_nPoolThreads.fetch_add(1);
      t_slot = (n < MAXT) ? n : -2;
      hookrt::set_role(R_POOL);
      hookrt::t_rng = (g_caseSalt.load() * 2654435761u + (uint32_t)n * 40503u) | 1u;
   }
   hookrt::hook(site, obj, arg);
   if (site == MVH_POOL_UNREGISTER_BEFORE_WAIT && g_countParked.load() == 2) NoteWaiterParked();
}

static void SpinMicros(int us) { struct timespec a, b; clock_gettime(CLOCK_MONOTONIC, &a); for (;;) { clock_gettime(CLOCK_MONOTONIC, &b); long d = (long)(b.tv_sec - a.tv_sec) * 1000000L + (b.tv_nsec - a.tv_nsec) / 1000L; if (d >= us) break; } }
static void SleepMicros(int us) { struct timespec ts; ts.tv_sec = 0; ts.tv_nsec = (long)us * 1000L; nanosleep(&ts, NULL); }

enum { ST_OPEN = 0, ST_CLOSING = 1, ST_UNREG = 2 };
enum { A_NONE = 0, A_YIELD, A_SPIN, A_SLEEP, A_SELF, A_OTHER, A_SELF2 };

struct Cl;
struct UnregRec { uint64_t retSeq; uint64_t reRegSeq; uint32_t handledAtReturn; uint32_t acceptedAtReturn; };

struct CaseCtx {
   long k; uint64_t seed; uint32_t psz; ThreadPool * pool; std::vector<Cl *> cls; std::string desc;
   std::atomic<int> bad; std::atomic<int> active; std::atomic<int> maxActive;
   std::atomic<long> accepted, rejectedUnreg, rejectedOpen, skippedClosing, subWhileInHandler, acceptedDuringUnregWait, handlerSubmits, dawdles;
   std::mutex pmu; std::condition_variable pcv; long progress; int subsRunning;     // progress of the submitters (untimed waits of the registrars)
   int parkedWaiters;                                                               // under pmu: unregistering threads that decided to wait (shutdown phase)
   std::atomic<int> gateOn; std::mutex gmu; std::condition_variable gcv; bool gateClosed; int handlersParked;   // shutdown phase: handlers park at their entry until the gate opens
   CaseCtx() : k(0), seed(0), psz(1), pool(NULL), bad(0), active(0), maxActive(0), accepted(0), rejectedUnreg(0), rejectedOpen(0), skippedClosing(0), subWhileInHandler(0), acceptedDuringUnregWait(0), handlerSubmits(0), dawdles(0), progress(0), subsRunning(0), parkedWaiters(0), gateOn(0), gateClosed(false), handlersParked(0) {}
};
static CaseCtx * g_case = NULL;
static void NoteWaiterParked() { CaseCtx * C = g_case; if (!C) return; std::lock_guard<std::mutex> g(C->pmu); C->parkedWaiters++; C->pcv.notify_all(); }
static void OpenGate() { CaseCtx * C = g_case; if (!C) return; std::lock_guard<std::mutex> g(C->gmu); C->gateClosed = false; C->gcv.notify_all(); }

static void Fail(const std::string & key, const std::string & detail)
{
   CaseCtx & C = *g_case;
   if (C.bad.exchange(1) == 0) vh::viol(key, C.desc + " | " + detail);
}

static int Submit(Cl * c, bool fromOwnHandler, int action, int param, int depth);

struct Cl : public IThreadPoolClient {
   int id;
   std::mutex mu; int state; uint32_t nextTicket;                    // under mu
   std::atomic<uint32_t> handled; std::atomic<int> inHandler; std::atomic<int> unregDone;
   std::atomic<uint32_t> pokeAt; std::atomic<int> pokeEarly; bool poked;   // the handler of ticket pokeAt wakes the registrar (poked: under CaseCtx::pmu)
   std::vector<UnregRec> unregs;                                     // touched by the one thread that (un)registers this client
   bool everUnregistered; bool releasedByShutdown;   // releasedByShutdown: unregistration overlapped a pool shutdown, queued Messages may have been dropped
   Cl(ThreadPool * tp, int i) : IThreadPoolClient(tp), id(i), state(tp ? ST_OPEN : ST_UNREG), nextTicket(0), handled(0), inHandler(0), unregDone(0), pokeAt(~(uint32_t)0), pokeEarly(0), poked(false), everUnregistered(false), releasedByShutdown(false) {}

   virtual void MessageReceivedFromThreadPool(const MessageRef & msg, uint32 /*numLeft*/)
   {
      const uint64_t es = hookrt::next_seq();
      CaseCtx & C = *g_case;
      int slot = t_slot;
      if (slot == -1) { const int n = g_nPoolThreads.fetch_add(1); slot = t_slot = (n < MAXT) ? n : -2; }   // a handler on a thread that never passed the entry hook
      int expect = 0; const bool own = inHandler.compare_exchange_strong(expect, 1);
      int32 mc = -1, mt = -1, a = 0, x = 0, d = 0;
      const Message * m = msg();
      if (m) { (void)m->FindInt32("c", mc); (void)m->FindInt32("t", mt); (void)m->FindInt32("a", a); (void)m->FindInt32("x", x); (void)m->FindInt32("d", d); }
      if (slot >= 0) { Ev e; e.seq = es; e.client = id; e.ticket = (uint32_t)mt; e.thr = (int16_t)slot; e.exit = 0; g_logs[slot].push_back(e); }
      if (!own) Fail("overlap", vh::fmt("client %d: handler for ticket %d entered on pool thread %d while another handler of the same client is running (in-handler flag CAS failed)", id, mt, slot));
      if (mc != id) Fail("wrong_client", vh::fmt("client %d received a Message submitted for client %d (ticket %d)", id, mc, mt));
      const int act = C.active.fetch_add(1) + 1;
      int mx = C.maxActive.load(); while (act > mx && !C.maxActive.compare_exchange_weak(mx, act)) {}
      if (act > (int)C.psz) Fail("too_many_concurrent_handlers", vh::fmt("%d handlers running at once in a pool of %u threads", act, C.psz));
      if (unregDone.load()) Fail("handler_after_unregister", vh::fmt("client %d: handler for ticket %d runs after SetThreadPool(NULL) returned", id, mt));
      if (C.gateOn.load()) { std::unique_lock<std::mutex> g(C.gmu); if (C.gateClosed) { C.handlersParked++; while (C.gateClosed) C.gcv.wait(g); } }
      const bool poke = (pokeAt.load() == (uint32_t)mt);
      if (poke && pokeEarly.load()) Poke(C);
      switch (a) {
      case A_YIELD: sched_yield(); break;
      case A_SPIN: SpinMicros(1 + (x & 31)); C.dawdles++; break;
      case A_SLEEP: SleepMicros(20 + (x & 255)); C.dawdles++; break;
      case A_SELF: case A_SELF2: case A_OTHER: {
         const int reps = (a == A_SELF2) ? 2 : 1;
         for (int r = 0; r < reps; r++) {
            const uint64_t h = vh::mix64(C.seed ^ ((uint64_t)(uint32_t)mt * 1315423911ULL) ^ ((uint64_t)id << 40) ^ (uint64_t)(d * 7 + r));
            int na = A_NONE; if (d > 1) { const int sel = (int)(h % 6); na = sel == 0 ? A_SELF : (sel == 1 ? A_OTHER : (sel == 2 ? A_YIELD : (sel == 3 ? A_SELF2 : A_NONE))); }
            Cl * target = (a == A_OTHER) ? C.cls[(uint32_t)x % C.cls.size()] : this;
            C.handlerSubmits++;
            (void)Submit(target, target == this, na, (int)((h >> 20) & 0x7fff), d - 1);
         }
      } break;
      default: break;
      }
      handled.fetch_add(1);
      C.active.fetch_sub(1);
      if (own) inHandler.store(0);
      if (slot >= 0) { Ev e; e.seq = hookrt::next_seq(); e.client = id; e.ticket = (uint32_t)mt; e.thr = (int16_t)slot; e.exit = 1; g_logs[slot].push_back(e); }
      if (poke && !pokeEarly.load()) Poke(C);     // the registrar's SetThreadPool(NULL) now races with this handler's return and the hand-back
   }
   void Poke(CaseCtx & C) { std::lock_guard<std::mutex> g(C.pmu); poked = true; C.pcv.notify_all(); }
};

// Takes the client's ticket under its lock, held across SendMessageToThreadPool: the ticket order IS the submission order.
// returns 1 accepted, 0 not attempted, -1 rejected
static int Submit(Cl * c, bool fromOwnHandler, int action, int param, int depth)
{
   CaseCtx & C = *g_case;
   std::lock_guard<std::mutex> g(c->mu);
   // while another thread is inside SetThreadPool(NULL) for this client only its own handler may go on submitting (the client
   // object itself is not thread-safe: _threadPool is written when the unregistration returns)
   if (c->state == ST_CLOSING && !fromOwnHandler) { C.skippedClosing++; return 0; }
   MessageRef m = GetMessageFromPool(1000 + (uint32)c->id);
   if (m() == NULL) { fprintf(stderr, "HARNESS-ABORT: GetMessageFromPool failed\n"); abort(); }
   (void)m()->AddInt32("c", c->id); (void)m()->AddInt32("t", (int32)c->nextTicket); (void)m()->AddInt32("a", action); (void)m()->AddInt32("x", param); (void)m()->AddInt32("d", depth);
   if (c->inHandler.load() && !fromOwnHandler) C.subWhileInHandler++;
   const status_t r = c->SendMessageToThreadPool(m);
   if (r.IsOK()) { c->nextTicket++; C.accepted++; if (c->state == ST_CLOSING) C.acceptedDuringUnregWait++; return 1; }
   if (c->state == ST_UNREG) C.rejectedUnreg++; else C.rejectedOpen++;
   return -1;
}

static void Progress(CaseCtx & C, long add) { std::lock_guard<std::mutex> g(C.pmu); C.progress += add; C.pcv.notify_all(); }

static void SubmitterThread(CaseCtx * Cp, int idx, int nmsgs, uint64_t seed)
{
   CaseCtx & C = *Cp; vh::Rng r(seed);
   hookrt::set_role(R_SUB); hookrt::t_rng = (uint32_t)(seed >> 7) | 1u;
   const size_t nc = C.cls.size();
   const int style = r.R(4);                       // 0 burst, 1 paced (handlers finish in between), 2 mixed, 3 one hot client
   const uint32_t hot = r.R((uint32_t)nc);
   for (int i = 0; i < nmsgs; i++) {
      Cl * c = C.cls[(style == 3 && r.chance(3, 4)) ? hot : r.R((uint32_t)nc)];
      int a = A_NONE, d = 0; const uint32_t p = r.R(100);
      if (p < 50) a = A_NONE; else if (p < 58) a = A_YIELD; else if (p < 66) a = A_SPIN; else if (p < 73) a = A_SLEEP;
      else if (p < 83) { a = A_SELF; d = (int)r.range(1, 3); } else if (p < 93) { a = A_OTHER; d = (int)r.range(1, 3); } else { a = A_SELF2; d = (int)r.range(1, 2); }
      (void)Submit(c, false, a, (int)r.R(32768), d);
      Progress(C, 1);
      if (style == 1 || (style == 2 && r.chance(1, 6))) { if (r.chance(1, 3)) SleepMicros(10 + r.R(150)); else sched_yield(); }
   }
   { std::lock_guard<std::mutex> g(C.pmu); C.subsRunning--; C.pcv.notify_all(); }
   (void)idx;
}

// Unregisters a client and checks what must hold at the return of the unregistration.
static void DoUnregister(CaseCtx & C, Cl * c, const char * who, bool duringShutdown = false)
{
   uint32_t accBefore;
   { std::lock_guard<std::mutex> g(c->mu); if (c->state != ST_OPEN) return; c->state = ST_CLOSING; accBefore = c->nextTicket; }
   vh::note(vh::fmt("%s: SetThreadPool(NULL) on client %d, accepted=%u handled=%u, blocks until its Messages are handled", who, c->id, accBefore, c->handled.load()));
   c->SetThreadPool(NULL);
   UnregRec u; u.retSeq = hookrt::next_seq(); u.reRegSeq = ~(uint64_t)0; u.handledAtReturn = c->handled.load();
   c->unregDone.store(1);
   const int stillIn = c->inHandler.load();
   { std::lock_guard<std::mutex> g(c->mu); u.acceptedAtReturn = c->nextTicket; c->state = ST_UNREG; }
   c->unregs.push_back(u); c->everUnregistered = true;
   if (duringShutdown) {   // the pool was shut down while this call was blocked: queued Messages may be dropped, but no handler may be running now or later
      c->releasedByShutdown = true; vh::stat("unregistrations_overlapping_shutdown");
      if (stillIn || u.handledAtReturn > u.acceptedAtReturn) Fail("unregister_returned_early", vh::fmt("client %d: SetThreadPool(NULL) (overlapping the pool shutdown) returned with handled=%u of accepted=%u%s", c->id, u.handledAtReturn, u.acceptedAtReturn, stillIn ? ", a handler of the client is still running" : ""));
      return;
   }
   if (u.handledAtReturn != u.acceptedAtReturn || stillIn)
      Fail("unregister_returned_early", vh::fmt("client %d: SetThreadPool(NULL) returned with handled=%u of accepted=%u (accepted when it was called: %u)%s", c->id, u.handledAtReturn, u.acceptedAtReturn, accBefore, stillIn ? ", a handler of the client is still running" : ""));
   vh::stat("unregistrations");
   if (u.acceptedAtReturn > accBefore) vh::stat("unregistrations_extended_by_handler_submissions");
   (void)C;
}
static void DoRegister(CaseCtx & C, Cl * c)
{
   std::lock_guard<std::mutex> g(c->mu);
   if (c->state != ST_UNREG) return;
   if (!c->unregs.empty() && c->unregs.back().reRegSeq == ~(uint64_t)0) c->unregs.back().reRegSeq = hookrt::next_seq();
   c->unregDone.store(0);
   c->SetThreadPool(C.pool);
   if (c->GetThreadPool() == C.pool) { c->state = ST_OPEN; vh::stat("registrations_late"); }
   else { fprintf(stderr, "HARNESS-ABORT: RegisterClient failed\n"); abort(); }
}

struct Toggle { int client; long threshold; int poke; /* 0 none, 1 early, 2 late */ int pokeDelta; };
static void RegistrarThread(CaseCtx * Cp, std::vector<Toggle> script, uint64_t seed)
{
   CaseCtx & C = *Cp;
   hookrt::set_role(R_UNREG); hookrt::t_rng = (uint32_t)(seed >> 9) | 1u;
   for (size_t i = 0; i < script.size(); i++) {
      Cl * c = C.cls[script[i].client];
      {  // untimed wait for the submitters' progress (or their end); in poke mode a handler of the client may end the wait earlier
         std::unique_lock<std::mutex> g(C.pmu);
         c->poked = false;
         if (script[i].poke) { c->pokeEarly.store(script[i].poke == 1); c->pokeAt.store(c->handled.load() + (uint32_t)script[i].pokeDelta); }
         while (C.progress < script[i].threshold && C.subsRunning > 0 && !c->poked) C.pcv.wait(g);
         c->pokeAt.store(~(uint32_t)0);
         if (c->poked) vh::stat(script[i].poke == 1 ? "toggles_poked_by_running_handler" : "toggles_poked_by_returning_handler");
      }
      int st; { std::lock_guard<std::mutex> g(c->mu); st = c->state; }
      if (st == ST_OPEN) DoUnregister(C, c, "registrar"); else if (st == ST_UNREG) DoRegister(C, c);
   }
}

static std::string ClientTrace(const std::vector<Ev> & all, int client, size_t upto)
{
   std::vector<std::string> parts;
   for (size_t i = 0; i <= upto && i < all.size(); i++) if (all[i].client == client) parts.push_back(vh::fmt("%s%u@T%d#%llu", all[i].exit ? "x" : "e", all[i].ticket, (int)all[i].thr, (unsigned long long)all[i].seq));
   std::string s; size_t from = parts.size() > 24 ? parts.size() - 24 : 0;
   for (size_t i = from; i < parts.size(); i++) { s += parts[i]; s += " "; }
   return s;
}

static void BlockedUnregistrar(CaseCtx * Cp, Cl * c, uint64_t seed)
{
   hookrt::set_role(R_UNREG); hookrt::t_rng = (uint32_t)(seed >> 5) | 1u;
   DoUnregister(*Cp, c, "blocked-unregistrar", true);
}

// End mode 4.  All handlers entered from now on park at a gate, fresh Messages are submitted, so every chosen client has work that
// cannot complete (being handled / deferred behind its parked handler / pending because every pool thread is parked).  One thread
// per chosen client calls SetThreadPool(NULL) and must decide to wait; when all of them passed MVH_POOL_UNREGISTER_BEFORE_WAIT the
// main thread shuts the pool down through AbstractObjectRecycler::GlobalFlushAllCachedObjects() (ThreadPool::Shutdown() is private;
// this is the path ~CompleteSetupSystem takes).  The gate opens either inside Shutdown() (after _shuttingDown was set: only Shutdown
// itself can wake the waiters) or just before the call (handlers finish while the shutdown starts).  Every unregistration must return.
static void ShutdownUnderBlockedUnregistrations(CaseCtx & C, vh::Rng & r)
{
   const uint32_t nc = (uint32_t)C.cls.size();
   { std::lock_guard<std::mutex> g(C.gmu); C.gateClosed = true; } C.gateOn.store(1);
   hookrt::set_role(R_SUB);
   std::vector<Cl *> cand;
   for (int pass = 0; pass < 2 && cand.empty(); pass++)
      for (uint32_t i = 0; i < nc; i++) {
         Cl * c = C.cls[i]; int st; { std::lock_guard<std::mutex> g(c->mu); st = c->state; }
         if (pass == 1 && st == ST_UNREG && cand.empty()) { DoRegister(C, c); st = ST_OPEN; }
         if (st != ST_OPEN || (pass == 0 && !r.chance(3, 4))) continue;
         int acc = 0; const uint32_t n = r.range(1, 3);
         for (uint32_t j = 0; j < n; j++) { const uint32_t p = r.R(10); if (Submit(c, false, p < 6 ? A_NONE : (p < 8 ? A_SELF : (p < 9 ? A_OTHER : A_SLEEP)), (int)r.R(32768), (int)r.range(1, 2)) > 0) acc++; }
         if (acc) cand.push_back(c);
      }
   hookrt::set_role(R_MAIN);
   if (cand.empty()) { vh::stat("shutdown_phase_without_candidates"); OpenGate(); return; }
   for (size_t i = cand.size(); i > 1; i--) std::swap(cand[i - 1], cand[r.R((uint32_t)i)]);
   const size_t B = std::min(cand.size(), (size_t)r.range(1, 5));
   const bool openInside = r.chance(2, 3);
   g_countParked.store(r.chance(1, 2) ? 1 : 2);
   std::vector<std::thread> ths;
   for (size_t i = 0; i < B; i++) ths.emplace_back(BlockedUnregistrar, &C, cand[i], vh::mix64(C.seed ^ (0x9393ULL + i)));
   {
      vh::note(C.desc + vh::fmt(" | shutdown phase: waiting until %zu threads are blocked in SetThreadPool(NULL) (their clients have Messages that cannot complete)", B));
      std::unique_lock<std::mutex> g(C.pmu);
      while (C.parkedWaiters < (int)B) C.pcv.wait(g);
   }
   g_countParked.store(0);
   int parkedHandlers; { std::lock_guard<std::mutex> g(C.gmu); parkedHandlers = C.handlersParked; }
   for (size_t i = 0; i < B; i++) {
      Cl * c = cand[i]; const int inH = c->inHandler.load(); uint32_t backlog; { std::lock_guard<std::mutex> g(c->mu); backlog = c->nextTicket - c->handled.load(); }
      if (inH) { vh::stat("shutdown_waiter_client_being_handled"); if (backlog > 1) vh::stat("shutdown_waiter_client_with_deferred_messages"); }
      else vh::stat("shutdown_waiter_client_pending_only");
   }
   vh::stat("shutdown_while_unregister_blocked"); vh::stat("waiters_parked_at_shutdown", (long)B); vh::stat("handlers_parked_at_shutdown", parkedHandlers);
   vh::stat(openInside ? "shutdown_gate_opened_inside_shutdown" : "shutdown_gate_opened_just_before");
   if (openInside) g_onShutdownHook = OpenGate; else { OpenGate(); if (r.chance(1, 2)) sched_yield(); }
   vh::note(C.desc + vh::fmt(" | GlobalFlushAllCachedObjects() -> ThreadPool::Shutdown() with %zu threads blocked in SetThreadPool(NULL), %d handlers parked", B, parkedHandlers));
   AbstractObjectRecycler::GlobalFlushAllCachedObjects();
   g_onShutdownHook = NULL; OpenGate();
   vh::note(C.desc + vh::fmt(" | pool is shut down; joining %zu threads that were blocked in SetThreadPool(NULL): they must have been woken", B));
   for (size_t i = 0; i < ths.size(); i++) ths[i].join();
   C.gateOn.store(0);
}

static bool EvLess(const Ev & a, const Ev & b) { return a.seq < b.seq; }
static std::set<uint64_t> g_sigs;

static void RunCase(long k, uint64_t cs)
{
   vh::Rng r(cs);
   CaseCtx C; g_case = &C; C.k = k; C.seed = cs;
   g_caseSalt.store((uint32_t)(cs >> 11) | 1u);
   for (int i = 0; i < MAXT; i++) g_logs[i].clear();
   g_nPoolThreads.store(0);
   // ---- parameters
   C.psz = r.range(1, 6);
   const uint32_t nc = r.chance(1, 5) ? r.range(1, 2) : r.range(1, 10);
   const uint32_t nsub = r.range(1, 4);
   const uint32_t total = r.chance(1, 8) ? r.range(4, 40) : (r.chance(1, 6) ? r.range(400, 900) : r.range(40, 400));
   const uint32_t nreg = r.R(3);                    // 0..2 registrar threads
   const int endMode = r.R(5);                      // 0,1: unregister everything then destroy; 2: destroy with outstanding work; 3: unregister some, then destroy;
                                                    // 4: pool shut down (global flush) underneath threads that are blocked in SetThreadPool(NULL), then destroyed
   // ---- delay placement (delay bounding): round-robin over the case index
   hookrt::disarm_all(); hookrt::reset_ring();
   long hits0[NSITES], del0[NSITES]; for (int i = 0; i < NSITES; i++) { hits0[i] = hookrt::hits(SITES[i]); del0[i] = hookrt::delays(SITES[i]); }
   const int slot = (int)(k % CYCLE); std::string pdesc; int nArmed = 0; int armedSites[3] = {-1, -1, -1};
   int want = 0; bool jit = false;
   if (slot < NSINGLE) want = 1; else if (slot == NSINGLE) jit = true; else if (slot == NSINGLE + 1) want = 0; else if (slot == NSINGLE + 2) want = 2; else want = 3;
   for (int a = 0; a < want; a++) {
      const int pi = (want == 1) ? slot / 3 : (int)r.R(NPL); const int kind = (want == 1) ? slot % 3 : (int)r.R(3);
      const Pl & p = PLS[pi];
      static const int sleepUs[4] = {50, 200, 800, 2000}; static const int spinUs[4] = {5, 20, 80, 200};
      const int us = kind == hookrt::K_SLEEP ? sleepUs[r.R(4)] : (kind == hookrt::K_SPIN ? spinUs[r.R(4)] : 0);
      int oneIn = 1; if (p.hot) { if (kind == hookrt::K_SLEEP && us >= 800) oneIn = r.chance(1, 2) ? 8 : 16; else { static const int o[3] = {1, 2, 4}; oneIn = o[r.R(3)]; } }
      hookrt::arm(a, p.site, p.role, kind, us, oneIn); armedSites[a] = p.site; nArmed++;
      pdesc += vh::fmt("%s%s/%s/%s%d/1in%d", a ? "+" : "", hookrt::site_name(p.site), RoleName(p.role), KindName(kind), us, oneIn);
      if (want == 1) vh::stat(vh::fmt("placement_%s:%s", hookrt::site_name(p.site), RoleName(p.role)));
   }
   if (endMode == 4 && want >= 1 && want < 3 && r.chance(1, 2)) {
      static const int xs[4] = {MVH_POOL_UNREGISTER_BEFORE_WAIT, MVH_POOL_UNREGISTER_AFTER_WAIT, MVH_POOL_BEFORE_SHUTDOWN, MVH_POOL_BEFORE_HANDBACK}; static const int xr[4] = {R_UNREG, R_UNREG, R_MAIN, R_POOL};
      const int w = (int)r.R(4), kind = (int)r.R(3), us = kind == hookrt::K_SLEEP ? (int)r.range(50, 1500) : (kind == hookrt::K_SPIN ? (int)r.range(5, 150) : 0);
      hookrt::arm(want, xs[w], xr[w], kind, us, 1); armedSites[want] = xs[w]; nArmed++;
      pdesc += vh::fmt("+%s/%s/%s%d/1in1", hookrt::site_name(xs[w]), RoleName(xr[w]), KindName(kind), us);
      vh::stat("shutdown_cases_with_extra_placement");
   }
   if (jit) { const int o = (int)r.range(3, 12), us = (int)r.range(50, 400); hookrt::jitter(o, us); pdesc = vh::fmt("jitter/1in%d/%dus", o, us); }
   if (!jit && want == 0) pdesc = "no-delay";
   vh::stat(jit ? "cases_jitter_only" : (want == 0 ? "cases_no_delay" : (want == 1 ? "cases_single_placement" : (want == 2 ? "cases_pair_placement" : "cases_triple_placement"))));
   static const char * endNames[5] = {"unregister-all-then-destroy", "unregister-all-then-destroy", "destroy-with-outstanding-work", "unregister-some-then-destroy", "shutdown-under-blocked-unregistrations"};
   C.desc = vh::fmt("case %ld: pool=%u clients=%u submitters=%u msgs=%u registrars=%u end=%s delay=%s", k, C.psz, nc, nsub, total, nreg, endNames[endMode], pdesc.c_str());
   hookrt::set_role(R_MAIN); hookrt::t_rng = (uint32_t)(cs >> 3) | 1u;

   // ---- objects
   C.pool = new ThreadPool(C.psz);
   if (C.pool->GetMaxThreadCount() != C.psz) Fail("docex", "GetMaxThreadCount() differs from the constructor argument");
   uint32_t lateClients = 0;
   for (uint32_t i = 0; i < nc; i++) { const bool late = (nreg > 0) && r.chance(1, 6); if (late) lateClients++; C.cls.push_back(new Cl(late ? NULL : C.pool, (int)i)); }
   // registrar scripts: disjoint client sets, 1..8 toggles per client at increasing thresholds
   std::vector<std::vector<Toggle> > scripts(nreg);
   if (nreg) for (uint32_t i = 0; i < nc; i++) {
      const bool late = (C.cls[i]->state == ST_UNREG);
      if (!late && !r.chance(1, 2)) continue;
      const uint32_t w = r.R(nreg); const uint32_t nt = r.chance(1, 3) ? r.range(4, 8) : r.range(1, 3); long th = (long)r.R(total + total / 8 + 1);
      for (uint32_t t = 0; t < nt; t++) { Toggle tg; tg.client = (int)i; tg.threshold = th; tg.poke = r.chance(1, 2) ? (int)r.range(1, 2) : 0; tg.pokeDelta = (int)r.R(6); scripts[w].push_back(tg); th += (long)r.R(nt > 3 ? total / 8 + 2 : total / 3 + 2); }
   }
   for (uint32_t w = 0; w < nreg; w++) std::stable_sort(scripts[w].begin(), scripts[w].end(), [](const Toggle & a, const Toggle & b) { return a.threshold < b.threshold; });

   // ---- threads
   C.subsRunning = (int)nsub;
   std::vector<std::thread> subs, regs;
   for (uint32_t s = 0; s < nsub; s++) { const int n = (int)(total / nsub + (s < total % nsub ? 1 : 0)); subs.emplace_back(SubmitterThread, &C, (int)s, n, vh::mix64(cs ^ (0x5151ULL + s))); }
   for (uint32_t w = 0; w < nreg; w++) regs.emplace_back(RegistrarThread, &C, scripts[w], vh::mix64(cs ^ (0x7272ULL + w)));
   vh::note(C.desc + " | joining submitters");
   for (size_t i = 0; i < subs.size(); i++) subs[i].join();
   vh::note(C.desc + " | joining registrars");
   for (size_t i = 0; i < regs.size(); i++) regs[i].join();

   // ---- end game
   if (endMode == 4) ShutdownUnderBlockedUnregistrations(C, r);
   else if (endMode != 2) {
      hookrt::set_role(R_UNREG);
      for (uint32_t i = 0; i < nc; i++) { if (endMode == 3 && r.chance(1, 2)) continue; DoUnregister(C, C.cls[i], "main"); }
      hookrt::set_role(R_MAIN);
   }
   long outstanding = 0; uint32_t regAtDestroy = 0;
   for (uint32_t i = 0; i < nc; i++) { Cl * c = C.cls[i]; std::lock_guard<std::mutex> g(c->mu); if (c->state == ST_OPEN) { regAtDestroy++; outstanding += (long)c->nextTicket - (long)c->handled.load(); } }
   vh::note(C.desc + vh::fmt(" | destroying the pool: %u clients still registered, about %ld Messages not yet handled, %d pool threads", regAtDestroy, outstanding, g_nPoolThreads.load()));
   delete C.pool; C.pool = NULL;
   const uint64_t destroyedSeq = hookrt::next_seq();
   if (C.active.load() != 0) Fail("handler_after_pool_destruction", vh::fmt("%d handlers still running when ~ThreadPool returned", C.active.load()));
   for (uint32_t i = 0; i < nc; i++) if (C.cls[i]->GetThreadPool() != NULL) { Fail("docex", vh::fmt("client %d still points to the destroyed pool", (int)i)); break; }

   // ---- offline rules
   const int nthreads = g_nPoolThreads.load();
   std::vector<Ev> all; for (int i = 0; i < MAXT && i < nthreads; i++) all.insert(all.end(), g_logs[i].begin(), g_logs[i].end());
   std::sort(all.begin(), all.end(), EvLess);
   if (!C.bad.load() && nthreads > (int)C.psz) Fail("too_many_pool_threads", vh::fmt("%d pool threads were started by a pool of %u", nthreads, C.psz));
   std::vector<int> open(nc, 0); std::vector<uint32_t> expected(nc, 0), nEnter(nc, 0); std::vector<std::vector<char> > seen(nc);
   for (uint32_t i = 0; i < nc; i++) seen[i].assign(C.cls[i]->nextTicket, 0);
   int openCount = 0, maxOpen = 0; long handledTotal = 0;
   for (size_t i = 0; i < all.size() && !C.bad.load(); i++) {
      const Ev & e = all[i]; const int ci = e.client; Cl * c = C.cls[ci];
      if (e.seq > destroyedSeq) { Fail("handler_after_pool_destruction", vh::fmt("client %d ticket %u: handler event after ~ThreadPool returned | %s", ci, e.ticket, ClientTrace(all, ci, i).c_str())); break; }
      for (size_t u = 0; u < c->unregs.size(); u++) if (e.seq > c->unregs[u].retSeq && e.seq < c->unregs[u].reRegSeq) { Fail("handler_after_unregister", vh::fmt("client %d ticket %u: handler %s after SetThreadPool(NULL) returned (#%llu) | %s", ci, e.ticket, e.exit ? "exit" : "entry", (unsigned long long)c->unregs[u].retSeq, ClientTrace(all, ci, i).c_str())); break; }
      if (C.bad.load()) break;
      if (e.exit) { if (open[ci] > 0) { open[ci]--; openCount--; } continue; }
      if (open[ci] > 0) { Fail("overlap", vh::fmt("client %d: ticket %u entered on thread %d before the previous handler of this client returned | %s", ci, e.ticket, (int)e.thr, ClientTrace(all, ci, i).c_str())); break; }
      open[ci]++; openCount++; if (openCount > maxOpen) maxOpen = openCount;
      if (openCount > (int)C.psz) { Fail("too_many_concurrent_handlers", vh::fmt("%d handler intervals open at once, pool of %u", openCount, C.psz)); break; }
      if (e.ticket >= seen[ci].size()) { Fail("phantom_message", vh::fmt("client %d handled ticket %u but only %zu submissions were accepted | %s", ci, e.ticket, seen[ci].size(), ClientTrace(all, ci, i).c_str())); break; }
      if (seen[ci][e.ticket]) { Fail("handled_twice", vh::fmt("client %d: ticket %u handled a second time | %s", ci, e.ticket, ClientTrace(all, ci, i).c_str())); break; }
      if (e.ticket != expected[ci]) { Fail("order", vh::fmt("client %d: handler got ticket %u, next in submission order is %u | %s", ci, e.ticket, expected[ci], ClientTrace(all, ci, i).c_str())); break; }
      seen[ci][e.ticket] = 1; expected[ci] = e.ticket + 1; nEnter[ci]++; handledTotal++;
   }
   long dropped = 0;
   for (uint32_t i = 0; i < nc && !C.bad.load(); i++) {
      Cl * c = C.cls[i];
      if (nEnter[i] != c->handled.load()) { Fail("not_handled", vh::fmt("client %u: log holds %u handler entries, handler counter says %u", i, nEnter[i], c->handled.load())); break; }
      if (c->state == ST_UNREG && !c->releasedByShutdown) { if (nEnter[i] != c->nextTicket) { Fail("not_handled", vh::fmt("client %u was unregistered, %u submissions accepted, %u handled | %s", i, c->nextTicket, nEnter[i], ClientTrace(all, (int)i, all.size()).c_str())); break; } }
      else dropped += (long)c->nextTicket - (long)nEnter[i];       // still registered when the pool was destroyed: a prefix was handled (order rule), the rest is dropped
   }

   // ---- observations
   bool effective = false;
   for (int i = 0; i < NSITES; i++) {
      const long h = hookrt::hits(SITES[i]) - hits0[i], d = hookrt::delays(SITES[i]) - del0[i];
      if (h) vh::stat(std::string("hits_") + hookrt::site_name(SITES[i]), h);
      if (d) vh::stat(std::string("delays_") + hookrt::site_name(SITES[i]), d);
      for (int a = 0; a < nArmed; a++) if (armedSites[a] == SITES[i] && d > 0) effective = true;
   }
   if (want == 1 && effective) { vh::stat("single_placements_with_delays"); vh::stat(vh::fmt("effective_%s:%s", hookrt::site_name(PLS[slot / 3].site), RoleName(PLS[slot / 3].role))); }
   vh::stat("messages_accepted", C.accepted.load()); vh::stat("messages_handled", handledTotal);
   vh::stat("submissions_while_client_in_handler", C.subWhileInHandler.load()); vh::stat("submissions_by_handlers", C.handlerSubmits.load());
   vh::stat("accepted_during_unregister_wait", C.acceptedDuringUnregWait.load()); vh::stat("rejected_after_unregister", C.rejectedUnreg.load());
   vh::stat("skipped_submissions_to_closing_client", C.skippedClosing.load()); if (C.rejectedOpen.load()) vh::stat("rejected_while_registered", C.rejectedOpen.load());
   vh::stat("handler_dawdles", C.dawdles.load()); vh::stat("pool_threads_started", nthreads);
   if (dropped > 0) { vh::stat("unspecified_dropped_at_pool_destruction", dropped); vh::stat("cases_pool_destroyed_with_outstanding_work"); }
   if (regAtDestroy == 0) vh::stat("cases_pool_destroyed_idle");
   if (C.psz < nc) vh::stat("cases_more_clients_than_threads"); else vh::stat("cases_threads_cover_clients");
   if (C.maxActive.load() >= 2) vh::stat("cases_with_parallel_handlers"); if (C.maxActive.load() == (int)C.psz && C.psz >= 2) vh::stat("cases_pool_saturated");
   vh::statmax("max_concurrent_handlers", C.maxActive.load());
   for (uint32_t i = 0; i < nc; i++) { Cl * c = C.cls[i]; for (size_t u = 0; u < c->unregs.size(); u++) { if (c->unregs[u].reRegSeq != ~(uint64_t)0) vh::stat("reregistrations"); } }
   const uint64_t sig = hookrt::order_signature();
   if (g_sigs.insert(sig).second) vh::stat("distinct_order_signatures");
   vh::distinct(sig, handledTotal >= 20 && C.subWhileInHandler.load() + C.handlerSubmits.load() >= 1);
   if (vh::want_sample()) vh::sample(C.desc + vh::fmt(" -> accepted=%ld handled=%ld dropped=%ld threads=%d maxpar=%d sig=%016llx", C.accepted.load(), handledTotal, dropped, nthreads, C.maxActive.load(), (unsigned long long)sig));
   for (uint32_t i = 0; i < nc; i++) delete C.cls[i];
   hookrt::disarm_all();
   g_case = NULL;
}

// ---- fixed deterministic witnesses and the documentation examples of ThreadPool.h
struct DocClient : public IThreadPoolClient {
   std::mutex mu; std::condition_variable cv; std::vector<int32> got; std::vector<uint32> left; std::vector<std::thread::id> tids; int gate; int entered; int selfChain;
   DocClient(ThreadPool * tp) : IThreadPoolClient(tp), gate(0), entered(0), selfChain(0) {}
   virtual void MessageReceivedFromThreadPool(const MessageRef & msg, uint32 numLeft)
   {
      int32 t = -1; (void)msg()->FindInt32("t", t);
      std::unique_lock<std::mutex> g(mu);
      got.push_back(t); left.push_back(numLeft); tids.push_back(std::this_thread::get_id()); entered++; cv.notify_all();
      if (selfChain > 0) { selfChain--; MessageRef m = GetMessageFromPool(1); (void)m()->AddInt32("t", t + 1); g.unlock(); (void)SendMessageToThreadPool(m); g.lock(); }
      while (gate > 0) cv.wait(g);     // untimed: a pool that cannot run two clients in parallel is proved as a deadlock by the driver
   }
   status_t Send(int32 t) { MessageRef m = GetMessageFromPool(1); (void)m()->AddInt32("t", t); return SendMessageToThreadPool(m); }
};
static DocClient * g_docGates[4] = {NULL, NULL, NULL, NULL};
static void OpenDocGates() { for (int i = 0; i < 4; i++) if (g_docGates[i]) { std::lock_guard<std::mutex> g(g_docGates[i]->mu); g_docGates[i]->gate = 0; g_docGates[i]->cv.notify_all(); } }
static void DocUnregister(DocClient * c, int * handledAtReturn) { hookrt::set_role(R_UNREG); c->SetThreadPool(NULL); std::lock_guard<std::mutex> g(c->mu); *handledAtReturn = (int)c->got.size(); }
static void RFail(const char * what, const std::string & d) { vh::viol(std::string("regress|") + what, d); }

static void Regress()
{
   CaseCtx dummy; g_case = &dummy;
   vh::begin_case(0);
   {  // "Messages are guaranteed to be processed in the order that they were passed"; SetThreadPool(NULL) "will block until after all those callbacks have completed"; numLeft
      ThreadPool pool(1); DocClient c(&pool);
      if (c.GetThreadPool() != &pool) RFail("docex-register", "GetThreadPool() after construction with a pool");
      for (int i = 0; i < 200; i++) if (c.Send(i).IsError()) RFail("docex-send", "SendMessageToThreadPool failed on a registered client");
      vh::note("regress 0: SetThreadPool(NULL) with 200 Messages submitted");
      c.SetThreadPool(NULL);
      bool ok = c.got.size() == 200; for (size_t i = 0; ok && i < c.got.size(); i++) if (c.got[i] != (int32)i) ok = false;
      if (!ok) RFail("docex-order-and-unregister-wait", vh::fmt("after SetThreadPool(NULL): %zu of 200 handled, or out of order", c.got.size()));
      for (size_t i = 0; i + 1 < c.left.size(); i++) if (c.left[i] > 0 && c.left[i + 1] != c.left[i] - 1) { RFail("docex-numLeft", vh::fmt("numLeft %u followed by %u", c.left[i], c.left[i + 1])); break; }
      if (c.GetThreadPool() != NULL) RFail("docex-register", "GetThreadPool() after SetThreadPool(NULL)");
      if (c.Send(1).IsOK()) RFail("docex-send", "SendMessageToThreadPool accepted by an unregistered client");
      c.SetThreadPool(&pool);
      if (c.SendMessageToThreadPool(MessageRef()).IsOK()) RFail("docex-send", "NULL MessageRef accepted");
      if (c.Send(200).IsError()) RFail("docex-send", "send after re-registration failed");
      c.SetThreadPool(NULL);
      if (c.got.size() != 201 || c.got.back() != 200) RFail("docex-reregister", "Message sent after re-registration not handled at unregistration");
      vh::stat("regress_messages", 201);
   }
   vh::begin_case(1);
   {  // different clients proceed in parallel up to the thread limit: A's handler waits (untimed) until B's handler has run
      ThreadPool pool(2); DocClient a(&pool), b(&pool), c3(&pool);
      { std::lock_guard<std::mutex> g(a.mu); a.gate = 1; }
      (void)a.Send(0);
      { std::unique_lock<std::mutex> g(a.mu); vh::note("regress 1: waiting for A's handler to start"); while (a.entered == 0) a.cv.wait(g); }
      (void)b.Send(0);
      { std::unique_lock<std::mutex> g(b.mu); vh::note("regress 1: A's handler is parked; waiting for B's handler on the second pool thread"); while (b.entered == 0) b.cv.wait(g); }
      // third client on a saturated... no: B has returned, its thread is free again; C must be served while A is still parked
      (void)c3.Send(0);
      { std::unique_lock<std::mutex> g(c3.mu); vh::note("regress 1: waiting for C's handler while A is still parked"); while (c3.entered == 0) c3.cv.wait(g); }
      // a second Message for A while its handler is parked must NOT be handled by the free thread
      (void)a.Send(1);
      (void)b.Send(1); { std::unique_lock<std::mutex> g(b.mu); while (b.entered < 2) b.cv.wait(g); }
      { std::lock_guard<std::mutex> g(a.mu); if (a.entered != 1) RFail("seriality", "second Message of a client handled while its first handler had not returned"); a.gate = 0; a.cv.notify_all(); }
      vh::note("regress 1: unregistering A, B, C");
      a.SetThreadPool(NULL); b.SetThreadPool(NULL); c3.SetThreadPool(NULL);
      if (a.got.size() != 2 || a.got[0] != 0 || a.got[1] != 1) RFail("seriality", "client A did not get 0,1");
      vh::stat("regress_parallel_clients", 2);
   }
   vh::begin_case(2);
   {  // a handler that submits to its own client during the unregister wait: the wait covers the whole chain
      ThreadPool pool(3); DocClient c(&pool);
      { std::lock_guard<std::mutex> g(c.mu); c.selfChain = 5; }
      (void)c.Send(0);
      vh::note("regress 2: SetThreadPool(NULL) while a self-submitting chain runs");
      c.SetThreadPool(NULL);
      bool ok = c.got.size() == 6; for (size_t i = 0; ok && i < 6; i++) if (c.got[i] != (int32)i) ok = false;
      if (!ok) RFail("unregister-wait-chain", vh::fmt("%zu of 6 chained Messages handled at the return of SetThreadPool(NULL)", c.got.size()));
   }
   vh::begin_case(3);
   {  // pool destroyed while a client has a backlog: destructor returns, a prefix was handled, the client is detached
      DocClient * c; DocClient * idle;
      { ThreadPool * pool = new ThreadPool(2); c = new DocClient(pool); idle = new DocClient(pool);
        { std::lock_guard<std::mutex> g(c->mu); c->gate = 1; }
        for (int i = 0; i < 50; i++) (void)c->Send(i);
        { std::unique_lock<std::mutex> g(c->mu); while (c->entered == 0) c->cv.wait(g); c->gate = 0; c->cv.notify_all(); }
        vh::note("regress 3: ~ThreadPool with a backlog");
        delete pool; }
      bool ok = c->got.size() >= 1 && c->got.size() <= 50; for (size_t i = 0; ok && i < c->got.size(); i++) if (c->got[i] != (int32)i) ok = false;
      if (!ok) RFail("destroy-with-backlog", vh::fmt("handled %zu, not a prefix of the 50 submitted", c->got.size()));
      if (c->GetThreadPool() != NULL || idle->GetThreadPool() != NULL) RFail("destroy-with-backlog", "client still attached to the destroyed pool");
      if (c->Send(99).IsOK()) RFail("destroy-with-backlog", "send accepted after the pool is gone");
      delete c; delete idle;
   }
   vh::begin_case(4);
   {  // more clients than threads: everything is handled, never more than the thread limit at once (8 clients, 2 threads)
      ThreadPool pool(2); std::vector<DocClient *> v; for (int i = 0; i < 8; i++) v.push_back(new DocClient(&pool));
      for (int round = 0; round < 40; round++) for (int i = 0; i < 8; i++) (void)v[i]->Send(round);
      vh::note("regress 4: unregistering 8 clients of a 2-thread pool");
      std::set<std::thread::id> tids;
      for (int i = 0; i < 8; i++) { v[i]->SetThreadPool(NULL); bool ok = v[i]->got.size() == 40; for (size_t j = 0; ok && j < 40; j++) if (v[i]->got[j] != (int32)j) ok = false; if (!ok) RFail("many-clients", vh::fmt("client %d: %zu of 40 handled or out of order", i, v[i]->got.size())); tids.insert(v[i]->tids.begin(), v[i]->tids.end()); }
      if (tids.size() > 2) RFail("many-clients", vh::fmt("%zu distinct pool threads in a pool of 2", tids.size()));
      for (int i = 0; i < 8; i++) delete v[i];
   }
   for (int psz = 1; psz <= 3; psz += 2) {
      vh::begin_case(psz == 1 ? 5 : 6);
      // the pool is shut down (global flush, as ~CompleteSetupSystem does) underneath threads blocked in SetThreadPool(NULL): client a is being
      // handled (handler parked) with a second Message deferred, client b's Message is pending (1-thread pool) or being handled (3-thread pool).
      // The handlers are released inside Shutdown() after _shuttingDown was set, so only Shutdown() itself can wake the waiters.  Both calls must return.
      ThreadPool * pool = new ThreadPool((uint32)psz); DocClient a(pool), b(pool);
      { std::lock_guard<std::mutex> g(a.mu); a.gate = 1; } { std::lock_guard<std::mutex> g(b.mu); b.gate = 1; }
      (void)a.Send(0);
      { std::unique_lock<std::mutex> g(a.mu); vh::note("regress 5/6: waiting for a's handler to start"); while (a.entered == 0) a.cv.wait(g); }
      (void)a.Send(1); (void)b.Send(0);
      if (psz > 1) { std::unique_lock<std::mutex> g(b.mu); vh::note("regress 6: waiting for b's handler to start"); while (b.entered == 0) b.cv.wait(g); }
      dummy.parkedWaiters = 0; g_countParked.store(2); g_docGates[0] = &a; g_docGates[1] = &b; g_onShutdownHook = OpenDocGates;
      int ha = -1, hb = -1;
      std::thread ua(DocUnregister, &a, &ha), ub(DocUnregister, &b, &hb);
      { std::unique_lock<std::mutex> g(dummy.pmu); vh::note("regress 5/6: waiting until both unregistering threads decided to wait"); while (dummy.parkedWaiters < 2) dummy.pcv.wait(g); }
      g_countParked.store(0);
      vh::note("regress 5/6: GlobalFlushAllCachedObjects() with two threads blocked in SetThreadPool(NULL)");
      AbstractObjectRecycler::GlobalFlushAllCachedObjects();
      g_onShutdownHook = NULL; OpenDocGates();
      vh::note("regress 5/6: pool is shut down; joining the two threads that were blocked in SetThreadPool(NULL): Shutdown() must have woken them");
      ua.join(); ub.join();
      g_docGates[0] = g_docGates[1] = NULL;
      if (a.GetThreadPool() != NULL || b.GetThreadPool() != NULL) RFail("shutdown-under-unregister", "client still attached after SetThreadPool(NULL) returned");
      if (ha != (int)a.got.size() || hb != (int)b.got.size() || a.entered != (int)a.got.size()) RFail("shutdown-under-unregister", "a handler ran after SetThreadPool(NULL) returned");
      bool ok = a.got.size() >= 1 && a.got.size() <= 2 && b.got.size() <= 1; for (size_t i = 0; ok && i < a.got.size(); i++) if (a.got[i] != (int32)i) ok = false;
      if (!ok) RFail("shutdown-under-unregister", vh::fmt("a handled %zu (want a prefix of 0,1), b handled %zu (want at most 1)", a.got.size(), b.got.size()));
      if (psz > 1 && b.got.size() != 1) RFail("shutdown-under-unregister", "b's running handler did not complete");
      delete pool;
      vh::stat("regress_shutdown_under_blocked_unregistration");
   }
   vh::distinct(1); vh::distinct(2); vh::distinct(3); vh::distinct(4); vh::distinct(5); vh::distinct(6); vh::distinct(7);
   g_case = NULL;
}

// ---- mode=lockorder: witness of a lock-order inversion found by this harness (TSan: "lock-order-inversion" between ThreadPool::_poolLock and
// the global muscle lock).  (a) SendMessageToThreadPool -> DispatchPendingMessagesUnsafe (holds _poolLock) -> StartInternalThread -> ... ->
// GetConstSocketRefFromPool(): the FIRST call in a process constructs a function-static ObjectPool, whose AbstractObjectRecycler constructor takes
// the global muscle lock;  (b) AbstractObjectRecycler::GlobalFlushAllCachedObjects() holds the global muscle lock and calls
// ThreadPool::FlushCachedObjects() -> Shutdown() -> _poolLock.  The witness makes the two meet with untimed waits only (a ThreadPool subclass
// pauses inside its StartInternalThread() override, i.e. under _poolLock; a harness recycler that is flushed first tells when the flushing thread
// holds the global lock): on the affected tree both threads block for ever and the driver proves the deadlock (key lockorder|deadlock).
// Must run in a fresh process without the warm-up below (the static pool is constructed only once).
static std::mutex g_loMu; static std::condition_variable g_loCv; static bool g_loB = false, g_loA = false;
struct LoPool : public ThreadPool {
   LoPool() : ThreadPool(1) {}
   virtual status_t StartInternalThread(Thread & t)
   {
      { std::unique_lock<std::mutex> g(g_loMu); g_loB = true; g_loCv.notify_all(); vh::note("lockorder: submitter is inside DispatchPendingMessagesUnsafe (holds _poolLock), waiting for the flushing thread to hold the global lock"); while (!g_loA) g_loCv.wait(g); }
      vh::note("lockorder: main is inside GlobalFlushAllCachedObjects() (global muscle lock) on its way to ThreadPool::Shutdown(); submitter (under _poolLock) starts the pool's first thread");
      return ThreadPool::StartInternalThread(t);
   }
};
struct LoProbe : public AbstractObjectRecycler {
   virtual void RecycleObject(void *) {}
   virtual uint32 FlushCachedObjects() { std::lock_guard<std::mutex> g(g_loMu); g_loA = true; g_loCv.notify_all(); return 0; }
   virtual void Print(const OutputPrinter &) const {}
};
static void LoSubmitter(DocClient * c) { (void)c->Send(0); }
static void LockOrder()
{
   CaseCtx dummy; g_case = &dummy;
   vh::begin_case(0);
   LoPool * pool = new LoPool; DocClient c(pool);
   LoProbe * probe = new LoProbe;     // registered after the pool = in front of it in the recycler list = flushed before it
   std::thread sub(LoSubmitter, &c);
   { std::unique_lock<std::mutex> g(g_loMu); while (!g_loB) g_loCv.wait(g); }
   AbstractObjectRecycler::GlobalFlushAllCachedObjects();
   vh::note("lockorder: flush returned, joining the submitter");
   sub.join();
   delete probe; delete pool;      // the pool is shut down; the Message may or may not have been handled
   vh::stat("lockorder_witness_completed"); vh::distinct(1); vh::distinct(2);
   g_case = NULL;
}

int main(int argc, char ** argv)
{
   CompleteSetupSystem css;
   vh::init(argc, argv);
   hookrt::install();
   ::muscle::MuscleVerifHookHolder<0>::_func = MyHook;
   hookrt::set_role(R_MAIN);
   vh::Ctx & c = vh::ctx();
   const std::string mode = vh::opt("mode", "stress");
   if (mode == "lockorder") { LockOrder(); return vh::finish(); }
   // (no warm-up pool: since the repair of F53 nothing a pool's first thread start does may take the global muscle lock under _poolLock; TSan's
   //  lock-order detector watches for a recurrence in every leg)
   if (mode == "regress") { Regress(); return vh::finish(); }
   for (long k = c.from; k < c.from + c.cases; k++) {
      vh::begin_case(k);
      RunCase(k, vh::case_seed(c.seed, 19, (uint64_t)k));
   }
   return vh::finish();
}
