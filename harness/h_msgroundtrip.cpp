// h_msgroundtrip -- C01: Message serialisation round-trips exactly and its size is exact.
// One case = one Message built through the public API by msggen.h (random operation script per field, steered through the
// representation states empty-after-removal / inline / array-of-one / arrays of 2,3,17,300, boundary value pools, nesting <= 4,
// pointer and tag fields), then the oracle of DESIGN.md C01:
//   1 flatten into a heap buffer of exactly FlattenedSize() bytes (ASan red zones at both ends; muscle aborts on under/over-write)
//   2 parse into a fresh object and into a reused object that held another Message
//   3 bit-exact structural comparison (msggen::SameStructure), non-flattenable fields absent after the trip
//   4 re-flatten byte identity, FlattenedSize equality
//   5 CalculateChecksum equality; operator== both ways (NaN rule: same answers against a panel of other Messages)
//   6 FlattenToByteBuffer / UnflattenFromByteBuffer / GetMessageFromPool(bytes) / copy constructor / assignment
//   7 the bytes are walked by an independent reader written from the layout comment in Message::Flatten()
// modes (--opt mode=): roundtrip (default) | product (type class x representation state x field position, enumerated) | regress
// other options: size=0|1|2 (msggen size class)
#include "message/Message.h"
#include "util/ByteBuffer.h"
#include "system/SetupSystem.h"
#include "util/ObjectPool.h"
#include "dataio/ByteBufferDataIO.h"
#include <utility>
#include "msggen.h"
#include "vh.h"
using namespace muscle;
using namespace msggen;

static bool caseBad;
static std::string caseDesc;
static const std::string * caseScript = NULL;   // the generator's operation script, when it is being recorded (first cases of a run, i.e. always in a one-case replay)

static void Fail(const std::string & key, const std::string & detail)
{
   if (caseBad) return;   // one violation per case
   caseBad = true;
   vh::viol(key, detail + " | message: " + caseDesc + ((caseScript && !caseScript->empty()) ? " | script: " + *caseScript : std::string()));
}
static void HarnessAbort(const std::string & why) { fprintf(stderr, "HARNESS-ABORT: %s\n", why.c_str()); fflush(stderr); abort(); }

static uint8 * FlattenExact(const Message & m, uint32 n)
{
   uint8 * buf = (uint8 *)malloc(n ? n : 1);   // exactly n bytes: both ends are guarded by ASan red zones / memcheck
   if (buf == NULL) HarnessAbort("malloc");
   m.FlattenToBytes(buf, n);
   return buf;
}
static std::string FirstDiff(const uint8 * a, uint32 na, const uint8 * b, uint32 nb)
{
   uint32 i = 0; while (i < na && i < nb && a[i] == b[i]) i++;
   const uint32 from = i > 8 ? i - 8 : 0;
   return vh::fmt("sizes %u / %u, first difference at offset %u: ", na, nb, i) + vh::hex(a + from, na - from, 24) + " vs " + vh::hex(b + from, nb - from, 24);
}

// a copy of (m) without pointer and tag fields at any level, rebuilt through the public API (the reference for operator==)
static MessageRef Strip(const Message & m)
{
   MessageRef r = GetMessageFromPool(m.what); if (r() == NULL) HarnessAbort("GetMessageFromPool");
   for (MessageFieldNameIterator it = m.GetFieldNameIterator(); it.HasData(); it++) {
      const String & fn = it.GetFieldName(); uint32 t = 0, n = 0; if (m.GetInfo(fn, &t, &n).IsError()) HarnessAbort("Strip: GetInfo");
      if (IsNonFlat(t)) continue;
      if (t == B_MESSAGE_TYPE && n > 0) { for (uint32 i = 0; i < n; i++) { ConstMessageRef s; if (m.FindMessage(fn, i, s).IsError() || s() == NULL) HarnessAbort("Strip: FindMessage"); if (r()->AddMessage(fn, Strip(*s())).IsError()) HarnessAbort("Strip: AddMessage"); } }
      else if (m.CopyName(fn, *r()).IsError()) HarnessAbort("Strip: CopyName");
   }
   return r;
}

// ---- step 7: independent reader of the documented layout (little-endian):
//   'PM00', what, number of entries, then per entry: name length (incl. NUL), name, type code, data length, data.
//   data: fixed-size types = items back to back (bool 1 byte); Message fields = (length, Message)* without a count;
//   everything else = item count, (length, bytes)* ; strings carry their NUL.
static bool Rd32(const uint8 * & p, const uint8 * end, uint32 & v) { if (end - p < 4) return false; v = (uint32)p[0] | ((uint32)p[1] << 8) | ((uint32)p[2] << 16) | ((uint32)p[3] << 24); p += 4; return true; }
static uint32 WireItemSize(uint32 t) { switch (t) { case B_BOOL_TYPE: case B_INT8_TYPE: return 1; case B_INT16_TYPE: return 2; case B_INT32_TYPE: case B_FLOAT_TYPE: return 4; case B_INT64_TYPE: case B_DOUBLE_TYPE: case B_POINT_TYPE: return 8; case B_RECT_TYPE: return 16; } return 0; }
static bool Layout(const uint8 * & p, const uint8 * end, const Message & m, std::string & why)
{
   uint32 v, what, cnt;
   if (!Rd32(p, end, v) || v != 1347235888u) { why = "protocol version word"; return false; }
   if (!Rd32(p, end, what) || what != m.what) { why = "what code"; return false; }
   if (!Rd32(p, end, cnt)) { why = "entry count truncated"; return false; }
   uint32 want = 0; for (MessageFieldNameIterator it = m.GetFieldNameIterator(); it.HasData(); it++) if (!IsNonFlat(it.GetFieldType())) want++;
   if (cnt != want) { why = vh::fmt("entry count %u, the Message has %u flattenable fields", cnt, want); return false; }
   for (MessageFieldNameIterator it = m.GetFieldNameIterator(); it.HasData(); it++) {
      const String & fn = it.GetFieldName(); uint32 t = 0, n = 0; (void)m.GetInfo(fn, &t, &n);
      if (IsNonFlat(t)) continue;
      const std::string fname = Esc(fn(), 20);
      uint32 nl, tc, dl;
      if (!Rd32(p, end, nl) || nl != fn.Length() + 1 || (uint32)(end - p) < nl || memcmp(p, fn(), nl) != 0) { why = "name of field '" + fname + "'"; return false; }
      p += nl;
      if (!Rd32(p, end, tc) || tc != t) { why = "type code of field '" + fname + "'"; return false; }
      if (!Rd32(p, end, dl) || (uint32)(end - p) < dl) { why = "data length of field '" + fname + "'"; return false; }
      const uint8 * dend = p + dl;
      const uint32 ws = WireItemSize(t);
      if (ws) {
         if (dl != n * ws) { why = vh::fmt("data length %u of %u %s items", dl, n, TypeCodeName(t)); return false; }
         for (uint32 i = 0; i < n; i++) {
            const void * q = NULL; uint32 l = 0; if (!ItemBytes(m, fn, t, i, q, l) || l != ws) { why = "FindData on fixed-size item"; return false; }
            if (t == B_BOOL_TYPE ? (p[0] != ((*(const uint8 *)q) ? 1 : 0)) : (memcmp(p, q, ws) != 0)) { why = vh::fmt("%s item %u of %u in '", TypeCodeName(t), i, n) + fname + "': wire " + vh::hex(p, ws) + " memory " + vh::hex(q, ws); return false; }
            p += ws;
         }
      }
      else if (t == B_MESSAGE_TYPE) {
         for (uint32 i = 0; i < n; i++) {
            ConstMessageRef s; uint32 l; if (m.FindMessage(fn, i, s).IsError() || s() == NULL) { why = "FindMessage"; return false; }
            if (!Rd32(p, dend, l) || (uint32)(dend - p) < l) { why = vh::fmt("length prefix of sub-Message %u of %u in '", i, n) + fname + "'"; return false; }
            if (l != s()->FlattenedSize()) { why = vh::fmt("sub-Message %u length prefix %u, its FlattenedSize() is %u", i, l, s()->FlattenedSize()); return false; }
            const uint8 * q = p; std::string w2; if (!Layout(q, p + l, *s(), w2) || q != p + l) { why = "in '" + fname + vh::fmt("'[%u]: ", i) + (w2.empty() ? "sub-Message length" : w2); return false; }
            p += l;
         }
      }
      else {
         uint32 c2; if (!Rd32(p, dend, c2) || c2 != n) { why = vh::fmt("item count word of %s field '", TypeCodeName(t)) + fname + vh::fmt("' (%u items)", n); return false; }
         for (uint32 i = 0; i < n; i++) {
            const void * q = NULL; uint32 l = 0, wl; if (!ItemBytes(m, fn, t, i, q, l)) { why = "FindData/FindFlat on variable-size item"; return false; }
            if (!Rd32(p, dend, wl) || wl != l || (uint32)(dend - p) < wl || (l && memcmp(p, q, l) != 0)) { why = vh::fmt("%s item %u of %u in '", TypeCodeName(t), i, n) + fname + vh::fmt("' (%u bytes in memory)", l); return false; }
            if (t == B_STRING_TYPE && (l == 0 || p[l - 1] != 0)) { why = "string item without NUL"; return false; }
            p += wl;
         }
      }
      if (p != dend) { why = vh::fmt("%s field '", TypeCodeName(t)) + fname + vh::fmt("': %ld bytes of its data length are unaccounted for", (long)(dend - p)); return false; }
   }
   return true;
}

static bool Same(const Message & a, const Message & b, bool skip, const char * stage)
{
   std::string why, key;
   if (SameStructure(a, b, skip, why, key)) return true;
   Fail(std::string(stage) + "|" + key, why);
   return false;
}

// ---- cross-checks that follow from "equality ... unchanged by the trip" ----------------------------------------------------------------
static bool FieldHasNaN(const Message & m, const String & fn) { Message t; if (m.ShareName(fn, t).IsError()) return false; return ContainsNaN(t); }

// AreFieldsEqual() must agree with field-wise equality: (ref) = the original without pointer/tag fields, (p) = a parsed Message
static void CheckFieldwise(const Message & M, const Message & ref, const Message & p, const char * stage)
{
   const std::string st(stage);
   std::vector<String> names; for (MessageFieldNameIterator it = ref.GetFieldNameIterator(); it.HasData(); it++) names.push_back(it.GetFieldName());
   if (!ref.AreFieldsEqual(p, "no such field \x01\x02") || !ref.AreFieldsEqual(p, "no such field \x01\x02", false)) { Fail(st + "|arefieldsequal|both-absent", "AreFieldsEqual() on a name missing from both Messages is documented to be true"); return; }
   for (size_t i = 0; i < names.size() && i < 16 && !caseBad; i++) {
      const String & fn = names[i]; const bool fnan = FieldHasNaN(ref, fn);
      if (!ref.AreFieldsEqual(p, fn, false) || !p.AreFieldsEqual(ref, fn, false)) { Fail(st + "|arefieldsequal|shape", "AreFieldsEqual(compareFieldValues=false) is false for field '" + Esc(fn(), 20) + "' although type and count survived the trip"); return; }
      if (fnan) vh::stat("unspecified_arefieldsequal_with_nan_items");
      else { vh::stat("arefieldsequal_checked"); if (!ref.AreFieldsEqual(p, fn) || !p.AreFieldsEqual(ref, fn, fn, true)) { Fail(st + "|arefieldsequal|values", "AreFieldsEqual() is false for field '" + Esc(fn(), 20) + "' which has no NaN item and is bit-identical after the trip"); return; } }
      if (i + 1 < names.size()) {   // two different fields: certainly unequal when type or count differ, certainly equal when bit-identical without NaN
         const String & fb = names[i + 1]; uint32 ta = 0, tb = 0, na = 0, nb = 0; (void)ref.GetInfo(fn, &ta, &na); (void)p.GetInfo(fb, &tb, &nb);
         const bool got = ref.AreFieldsEqual(p, fn, fb), gotShape = ref.AreFieldsEqual(p, fn, fb, false); std::string w, k;
         if (ta != tb || na != nb) { if (got || gotShape) { Fail(st + "|arefieldsequal|different-fields-equal", vh::fmt("fields of type %08x x %u and %08x x %u compare equal", ta, na, tb, nb)); return; } vh::stat("arefieldsequal_cross_unequal_checked"); }
         else { if (!gotShape) { Fail(st + "|arefieldsequal|shape", "same type and count, AreFieldsEqual(.., false) is false"); return; } if (!fnan && SameField(ref, fn, p, fb, false, w, k) && !got) { Fail(st + "|arefieldsequal|values", "two bit-identical fields without NaN compare unequal"); return; } }
      }
   }
   // a field that exists on one side only (pointer / tag fields never arrive)
   if (&M != &ref) for (MessageFieldNameIterator it = M.GetFieldNameIterator(); it.HasData() && !caseBad; it++) if (IsNonFlat(it.GetFieldType()) && !p.HasName(it.GetFieldName())) { if (M.AreFieldsEqual(p, it.GetFieldName()) || p.AreFieldsEqual(M, it.GetFieldName(), false)) Fail(st + "|arefieldsequal|one-sided", "AreFieldsEqual() is true for a field that exists in one Message only"); else vh::stat("arefieldsequal_one_sided_checked"); break; }
}

// type-filtered field-name iteration lists exactly the fields of that type, in order; the counting accessors agree
static void CheckTypeFilter(const Message & m, const char * stage)
{
   const std::string st(stage);
   std::vector<std::pair<std::string, uint32> > all;
   for (MessageFieldNameIterator it = m.GetFieldNameIterator(); it.HasData(); it++) { uint32 t = 0; (void)m.GetInfo(it.GetFieldName(), &t); if (it.GetFieldType() != t) { Fail(st + "|typefilter|getfieldtype", "iterator GetFieldType() differs from GetInfo()"); return; } all.push_back(std::make_pair(std::string(it.GetFieldName()(), it.GetFieldName().Length()), t)); }
   if (m.GetNumNames() != all.size() || m.GetNumNames(B_ANY_TYPE) != all.size() || m.HasNames() != !all.empty() || m.IsEmpty() != all.empty()) { Fail(st + "|typefilter|count", "GetNumNames()/HasNames()/IsEmpty() disagree with the iteration"); return; }
   std::set<uint32> types; for (size_t i = 0; i < all.size(); i++) types.insert(all[i].second);
   types.insert(B_INT32_TYPE); types.insert(B_STRING_TYPE); types.insert(0x61627374u /* absent */);
   for (std::set<uint32>::const_iterator ti = types.begin(); ti != types.end() && !caseBad; ++ti) {
      const uint32 t = *ti; std::vector<std::string> want, g1, g2, g3;
      for (size_t i = 0; i < all.size(); i++) if (all[i].second == t) want.push_back(all[i].first);
      for (MessageFieldNameIterator it = m.GetFieldNameIterator(t); it.HasData(); it++) { g1.push_back(std::string(it.GetFieldName()(), it.GetFieldName().Length())); if (it.GetFieldType() != t) { Fail(st + "|typefilter|foreign-type", "a type-filtered iterator stands on a field of another type"); return; } }
      for (MessageFieldNameIterator it(m, t); it.HasData(); it++) g2.push_back(std::string(it.GetFieldName()(), it.GetFieldName().Length()));
      for (MessageFieldNameIterator it = m.GetFieldNameIterator(t, HTIT_FLAG_BACKWARDS); it.HasData(); it++) g3.insert(g3.begin(), std::string(it.GetFieldName()(), it.GetFieldName().Length()));
      if (g1 != want || g2 != want || g3 != want) { Fail(st + "|typefilter|list", vh::fmt("fields of type %08x: %zu in the Message; GetFieldNameIterator(type) lists %zu, MessageFieldNameIterator(msg, type) %zu, backwards %zu (or another order)", t, want.size(), g1.size(), g2.size(), g3.size())); return; }
      const String * f = m.GetFirstFieldNameString(t), * l = m.GetLastFieldNameString(t);
      if (m.GetNumNames(t) != want.size() || m.HasNames(t) != !want.empty() || (f != NULL) != !want.empty() || (l != NULL) != !want.empty() || (f && std::string((*f)(), f->Length()) != want.front()) || (l && std::string((*l)(), l->Length()) != want.back())) { Fail(st + "|typefilter|count", vh::fmt("GetNumNames/HasNames/GetFirst/LastFieldNameString for type %08x disagree with the iteration", t)); return; }
      vh::stat("typefilter_lists_checked");
   }
}

// ---- serialisation and parse entry points as a generator dimension -------------------------------------------------------------------
// Every public way to serialise a Message (Message.h, Flattenable.h, ByteBuffer.h, DataFlattener.h) must write exactly FlattenedSize()
// bytes, the same bytes as every other way; every public way to parse them must give the same Message.
enum { SER_FLATTEN = 0, SER_FLATTENTOBYTES_NOSIZE, SER_TOBYTEBUFFER_REF, SER_TOBYTEBUFFER_OBJECT, SER_COPYTO_BYTEBUFFER, SER_DATAIO, SER_FLATTENED_BYTEBUFFER_FROM_POOL, SER_WRITEFLAT_LENGTH_PREFIX, SER_COPYTO_FLATTENABLE, SER_DATAFLATTENER_ON_BYTEBUFFER, NUM_SER };
static const char * const kSerName[NUM_SER] = {"flatten_dataflattener", "flattentobytes_without_size", "flattentobytebuffer_ref", "flattentobytebuffer_object", "copyto_bytebuffer", "flattentodataio", "getflattenedbytebufferfrompool", "writeflatwithlengthprefix", "copyto_other_flattenable", "dataflattener_on_bytebuffer"};
enum { PAR_FROMBYTES = 0, PAR_UNFLATTEN_DATAUNFLATTENER, PAR_FROMBYTEBUFFER_OBJECT, PAR_FROMBYTEBUFFER_REF, PAR_DATAIO_WITH_SIZE, PAR_DATAIO_SIZE_HEADER, PAR_COPYFROM_BYTEBUFFER, PAR_READFLAT, PAR_READFLAT_LENGTH_PREFIX, NUM_PAR };
static const char * const kParName[NUM_PAR] = {"unflattenfrombytes", "unflatten_dataunflattener", "unflattenfrombytebuffer_object", "unflattenfrombytebuffer_ref", "unflattenfromdataio_given_size", "unflattenfromdataio_size_header", "copyfrom_bytebuffer", "dataunflattener_readflat", "dataunflattener_readflatwithlengthprefix"};

// a destination ByteBuffer in one of the states a re-used buffer can be in, holding old content (another Message's bytes, or filler)
static const char * PrepareDestination(vh::Rng & r, ByteBuffer & d, uint32 n, const Message & prev)
{
   const char * state; uint32 len;
   switch (r.R(7)) {
   case 0: state = "empty"; len = 0; break;
   case 1: state = "shorter"; len = n > 1 ? 1 + r.R(n - 1) : 0; break;
   case 2: state = "exact"; len = n; break;
   case 3: state = "longer_by_one"; len = n + 1; break;
   case 4: state = "longer"; len = n + 1 + r.R(300); break;
   case 5: state = "much_longer"; len = 2 * n + 1000 + r.R(5000); break;
   default: {   // what re-use looks like: the same buffer received another Message just before
      if (prev.FlattenToByteBuffer(d).IsError()) HarnessAbort("FlattenToByteBuffer(prev)");
      const uint32 pl = d.GetNumBytes(); return pl > n ? "longer_holding_another_message" : (pl == n ? "exact" : (pl == 0 ? "empty" : "shorter_holding_another_message")); }
   }
   if (d.SetNumBytes(len, false).IsError()) HarnessAbort("SetNumBytes");
   if (len) memset(d.GetBuffer(), 0xEE, len);
   return len == 0 ? "empty" : state;
}

// serialises (M) through entry point (how); (want, n) = the bytes of the exact-size FlattenToBytes(buf, n).  One violation at most.
static void SerialiseVia(int how, vh::Rng & r, const Message & M, const Message & prev, const uint8 * want, uint32 n)
{
   vh::note(std::string("serialise via ") + kSerName[how] + ": " + caseDesc);
   vh::stat(std::string("ser_") + kSerName[how]);
   const uint8 * got = NULL; uint32 gotLen = 0; std::string where = kSerName[how];
   uint8 * heap = NULL; ByteBufferRef ref; ByteBuffer stack; Blob blob(B_MESSAGE_TYPE, std::string("old content of the blob"));
   switch (how) {
   case SER_FLATTEN: heap = (uint8 *)malloc(n); if (!heap) HarnessAbort("malloc"); M.Flatten(DataFlattener(heap, n)); got = heap; gotLen = n; break;
   case SER_FLATTENTOBYTES_NOSIZE: heap = (uint8 *)malloc(n); if (!heap) HarnessAbort("malloc"); M.FlattenToBytes(heap); got = heap; gotLen = n; break;
   case SER_TOBYTEBUFFER_REF: ref = M.FlattenToByteBuffer(); if (ref() == NULL) { Fail("entrypoint|null", where + " returned a NULL reference"); return; } got = ref()->GetBuffer(); gotLen = ref()->GetNumBytes(); break;
   case SER_TOBYTEBUFFER_OBJECT: case SER_COPYTO_BYTEBUFFER: {
      const bool pooled = r.R(2) != 0; if (pooled) { ref = GetByteBufferFromPool(0); if (ref() == NULL) HarnessAbort("GetByteBufferFromPool"); }
      ByteBuffer & d = pooled ? *ref() : stack;
      const char * state = PrepareDestination(r, d, n, prev);
      vh::stat(std::string(how == SER_TOBYTEBUFFER_OBJECT ? "flatten_into_" : "copyto_into_") + state + "_buffer"); vh::stat(pooled ? "destination_buffer_pooled" : "destination_buffer_on_stack");
      where += std::string(" into a ") + state + (pooled ? " pooled" : " stack") + " ByteBuffer";
      const status_t st = how == SER_TOBYTEBUFFER_OBJECT ? M.FlattenToByteBuffer(d) : (r.R(2) ? M.CopyTo(d) : d.CopyFrom(M));
      if (st.IsError()) { Fail("entrypoint|status", where + ": " + st()); return; }
      got = d.GetBuffer(); gotLen = d.GetNumBytes();
   } break;
   case SER_DATAIO: {
      const bool hdr = r.R(2) != 0; ref = GetByteBufferFromPool(0); if (ref() == NULL) HarnessAbort("GetByteBufferFromPool");
      ByteBufferDataIO dio(ref); const status_t st = M.FlattenToDataIO(dio, hdr);
      if (st.IsError()) { Fail("entrypoint|status", where + ": " + st()); return; }
      got = ref()->GetBuffer(); gotLen = ref()->GetNumBytes(); where += hdr ? " with size header" : " without size header";
      if (hdr) { if (gotLen < 4 || ((uint32)got[0] | ((uint32)got[1] << 8) | ((uint32)got[2] << 16) | ((uint32)got[3] << 24)) != n) { Fail("entrypoint|size-header", where + vh::fmt(": %u bytes written, header ", gotLen) + vh::hex(got, gotLen, 4) + vh::fmt(", FlattenedSize() %u", n)); return; } got += 4; gotLen -= 4; }
   } break;
   case SER_FLATTENED_BYTEBUFFER_FROM_POOL: ref = r.R(2) ? GetFlattenedByteBufferFromPool(M) : GetFlattenedByteBufferFromPool(*GetByteBufferPool(), M); if (ref() == NULL) { Fail("entrypoint|null", where + " returned a NULL reference"); return; } got = ref()->GetBuffer(); gotLen = ref()->GetNumBytes(); break;
   case SER_WRITEFLAT_LENGTH_PREFIX: {
      heap = (uint8 *)malloc(n + 12); if (!heap) HarnessAbort("malloc");
      { DataFlattener flat(heap, n + 12); flat.WriteInt32(0x11223344); flat.WriteFlatWithLengthPrefix(M); flat.WriteInt32(0x55667788); }
      const uint32 pre = (uint32)heap[4] | ((uint32)heap[5] << 8) | ((uint32)heap[6] << 16) | ((uint32)heap[7] << 24);
      if (pre != n || memcmp(heap, "\x44\x33\x22\x11", 4) != 0 || memcmp(heap + 8 + n, "\x88\x77\x66\x55", 4) != 0) { Fail("entrypoint|length-prefix", where + vh::fmt(": length prefix %u, FlattenedSize() %u, or the neighbouring words were overwritten", pre, n)); free(heap); return; }
      got = heap + 8; gotLen = n;
   } break;
   case SER_COPYTO_FLATTENABLE: { const status_t st = r.R(2) ? M.CopyTo(blob) : blob.CopyFrom(M); if (st.IsError()) { Fail("entrypoint|status", where + ": " + st()); return; } got = (const uint8 *)blob.Bytes().data(); gotLen = (uint32)blob.Bytes().size(); } break;
   default: { ref = GetByteBufferFromPool(n); if (ref() == NULL) HarnessAbort("GetByteBufferFromPool"); if (r.R(2)) M.Flatten(DataFlattener(*ref())); else M.Flatten(DataFlattener(ref)); got = ref()->GetBuffer(); gotLen = ref()->GetNumBytes(); } break;
   }
   if (gotLen != n) Fail("entrypoint|size", where + vh::fmt(": %u bytes in the result, FlattenedSize() is %u", gotLen, n) + " | " + FirstDiff(want, n, got, gotLen));
   else if (n && memcmp(got, want, n) != 0) Fail("entrypoint|bytes", where + ": " + FirstDiff(want, n, got, gotLen));
   if (heap) free(heap);
}

// parses (buf, n) into (target) through entry point (how)
static status_t ParseVia(int how, Message & target, const uint8 * buf, uint32 n)
{
   vh::stat(std::string("par_") + kParName[how]);
   switch (how) {
   case PAR_FROMBYTES: return target.UnflattenFromBytes(buf, n);
   case PAR_UNFLATTEN_DATAUNFLATTENER: { DataUnflattener u(buf, n); const status_t st = target.Unflatten(u); if (st.IsOK() && u.GetNumBytesAvailable() != 0) { vh::stat("observed_unflatten_left_bytes_unread"); } return st; }
   case PAR_FROMBYTEBUFFER_OBJECT: { ByteBuffer b(n, buf); return target.UnflattenFromByteBuffer(b); }
   case PAR_FROMBYTEBUFFER_REF: { ConstByteBufferRef b = GetByteBufferFromPool(n, buf); if (b() == NULL) HarnessAbort("GetByteBufferFromPool"); return target.UnflattenFromByteBuffer(b); }
   case PAR_DATAIO_WITH_SIZE: { ByteBufferRef b = GetByteBufferFromPool(n, buf); if (b() == NULL) HarnessAbort("GetByteBufferFromPool"); ByteBufferDataIO dio(b); return target.UnflattenFromDataIO(dio, (int32)n); }
   case PAR_DATAIO_SIZE_HEADER: { ByteBufferRef b = GetByteBufferFromPool(n + 4); if (b() == NULL) HarnessAbort("GetByteBufferFromPool"); uint8 * p = b()->GetBuffer(); p[0] = (uint8)n; p[1] = (uint8)(n >> 8); p[2] = (uint8)(n >> 16); p[3] = (uint8)(n >> 24); memcpy(p + 4, buf, n); ByteBufferDataIO dio(b); return target.UnflattenFromDataIO(dio, -1); }
   case PAR_COPYFROM_BYTEBUFFER: { ByteBuffer b(n, buf); return target.CopyFrom(b); }   // Message::CopyFromImplementation -> Flattenable's flatten-and-unflatten default
   case PAR_READFLAT: { DataUnflattener u(buf, n); return u.ReadFlat(target); }
   default: { std::vector<uint8> v(n + 8); v[0] = (uint8)n; v[1] = (uint8)(n >> 8); v[2] = (uint8)(n >> 16); v[3] = (uint8)(n >> 24); memcpy(&v[4], buf, n); memcpy(&v[4 + n], "\x01\x02\x03\x04", 4); DataUnflattener u(&v[0], n + 8); const status_t st = u.ReadFlatWithLengthPrefix(target); if (st.IsOK() && u.ReadInt32() != 0x04030201u) return B_LOGIC_ERROR; return st; }
   }
}

// steps 3-5 for one parsed object (a fresh one, or a used target)
static void CheckParsed(const Message & M, const Message & ref, bool nan, uint32_t nonflat, const Message & p, const uint8 * buf, uint32 n, const char * stage)
{
   const std::string st(stage); const bool fresh = (st == "fresh");
   if (!Same(M, p, true, stage)) return;                                                                                   // 3
   const uint32 n2 = p.FlattenedSize();                                                                                    // 4
   if (n2 != n) { Fail(fresh ? "reflatten|size" : st + "|size", vh::fmt("FlattenedSize() %u before, %u after the trip", n, n2)); return; }
   { uint8 * b2 = FlattenExact(p, n2); const bool same = memcmp(buf, b2, n) == 0; if (!same) Fail(fresh ? "reflatten|bytes" : st + "|bytes", FirstDiff(buf, n, b2, n2)); free(b2); if (!same) return; }
   const uint32 c1 = M.CalculateChecksum(), c2 = p.CalculateChecksum();                                                     // 5
   if (c1 != c2) { Fail(fresh ? "checksum|differs" : st + "|checksum", vh::fmt("CalculateChecksum() %08x before, %08x after the trip", c1, c2)); return; }
   if (p.CalculateChecksum(true) != c2) { Fail(fresh ? "checksum|nonflattenable-flag" : st + "|checksum", "the parsed Message has no non-flattenable fields, yet CalculateChecksum(true) != CalculateChecksum(false)"); return; }
   if (!nan) {
      if (!(ref == p) || (ref != p)) { Fail(fresh ? "equality|original==parsed" : st + "|equality", "operator== (original, parsed) is false without any NaN item"); return; }
      if (!(p == ref) || (p != ref)) { Fail(fresh ? "equality|parsed==original" : st + "|equality", "operator== (parsed, original) is false without any NaN item"); return; }
      vh::stat(fresh ? "equality_checked" : "equality_checked_on_used_target");
   }
   else if (fresh) vh::stat("unspecified_equality_with_nan_items");   // IEEE comparison inside ==: only consistency against the panel is demanded
   CheckFieldwise(M, ref, p, stage);
   // GetInfo()'s fixed_size answer ("whether the field's objects are all the same size") must not depend on the representation the trip changed
   for (MessageFieldNameIterator it = p.GetFieldNameIterator(); it.HasData() && !caseBad; it++) {
      uint32 t = 0, c = 0; bool fa = false, fb = true;
      if (M.GetInfo(it.GetFieldName(), &t, &c, &fa).IsError() || p.GetInfo(it.GetFieldName(), &t, &c, &fb).IsError() || fa != fb || fb != (WireItemSize(t) > 0)) Fail(st + "|fixed-size-flag", vh::fmt("GetInfo(.., &fixed_size) on a %s field: %d before, %d after the trip", TypeCodeName(t), (int)fa, (int)fb));
   }
   // operator< (what code, number of fields, flattened size) is irreflexive and gives the same answers before and after the trip
   if (!caseBad && ((p < p) || (ref < p) || (p < ref))) Fail(st + "|less-than", "operator< between the original (without pointer/tag fields) and the parsed Message, or of a Message with itself, is true");
   (void)nonflat;
}

// the oracle.  (prev) = another, unrelated Message (previous content of used targets, member of the equality panel); (salt) chooses the used target
static void CheckRoundTrip(const Message & M, const Message & prev, uint64_t salt, uint64_t * digestOut, uint32 * sizeOut)
{
   vh::note("flatten: " + caseDesc);
   // 1
   const uint32 n = M.FlattenedSize();
   if (sizeOut) *sizeOut = n;
   if (n < 12) { Fail("size|below-header", vh::fmt("FlattenedSize() = %u", n)); return; }
   uint8 * buf = FlattenExact(M, n);
   if (digestOut) *digestOut = vh::fnv(buf, n);
   vh::stat("bytes_flattened", n);
   if (!Message::BytesMightContainFlattenedMessage(buf, n)) Fail("layout|bytes-might-contain", "BytesMightContainFlattenedMessage() is false for Flatten's own output");
   // 7
   { const uint8 * p = buf; std::string why; if (!Layout(p, buf + n, M, why) || p != buf + n) Fail("layout|" + std::string(why.empty() ? "trailing-bytes" : "mismatch"), (why.empty() ? vh::fmt("%ld trailing bytes", (long)(buf + n - p)) : why) + " | first bytes " + vh::hex(buf, n, 96)); else vh::stat("layout_walks_ok"); }
   if (!caseBad) CheckTypeFilter(M, "original");
   // 1b other serialisation entry points, PRNG-chosen: the re-usable-destination form always, two of the others
   vh::Rng er(salt ^ 0x5e71a11e5ULL);
   if (!caseBad) SerialiseVia(SER_TOBYTEBUFFER_OBJECT, er, M, prev, buf, n);
   for (int i = 0; i < 2 && !caseBad; i++) SerialiseVia((int)er.R(NUM_SER), er, M, prev, buf, n);
   // 2 fresh object, through a PRNG-chosen parse entry point
   const int parseHow = (int)er.R(NUM_PAR);
   vh::note(std::string("unflatten via ") + kParName[parseHow] + ": " + caseDesc);
   Message m2; status_t r = ParseVia(parseHow, m2, buf, n);
   if (r.IsError()) Fail("parse|status", std::string(kParName[parseHow]) + " of Flatten's own output: " + r() + " | first bytes " + vh::hex(buf, n, 96));
   const bool nan = ContainsNaN(M); const uint32_t nonflat = CountNonFlattenable(M);
   if (nan) vh::stat("msgs_with_nan"); if (nonflat) vh::stat("msgs_with_nonflattenable_fields");
   MessageRef stripped; const Message * ref = &M;
   if (nonflat) { stripped = Strip(M); ref = stripped(); vh::stat("equality_against_stripped_rebuild"); }
   // 3, 4, 5
   if (!caseBad) { vh::note("compare fresh: " + caseDesc); const long z0 = ZeroItemFieldsCompared(); CheckParsed(M, *ref, nan, nonflat, m2, buf, n, "fresh"); if (ZeroItemFieldsCompared() > z0) vh::stat("observed_msgs_with_zero_item_field_left_by_shared_array"); }
   if (!caseBad) CheckTypeFilter(m2, "parsed");
   if (!caseBad) {
      // panel: same answers for the original and for the parsed Message
      // (no member may share objects with the original: == short-cuts on identical addresses, which would hide a NaN from one side only)
      Message pa; if (pa.UnflattenFromBytes(buf, n).IsError()) Fail("parse|status", "second parse of the same bytes fails");
      Message pb(m2); pb.what++;
      Message pc(m2); const String * first = pc.GetFirstFieldNameString(); const bool hasField = first != NULL; if (hasField) { String nm = *first; (void)pc.RemoveName(nm); }
      Message pd(m2.what);
      const Message * panel[5] = {&pa, &pb, &pc, &pd, &prev};
      for (int i = 0; i < 5 && !caseBad; i++) {
         const Message & P = *panel[i];
         if ((*ref < P) != (m2 < P) || (P < *ref) != (P < m2) || ((m2 < P) && (P < m2))) Fail("equality|panel-less-than", vh::fmt("panel member %d: operator< answers differ between the original and the parsed Message, or hold both ways", i));
         else if ((*ref == P) != (m2 == P) || (P == *ref) != (P == m2)) Fail("equality|panel", vh::fmt("panel member %d: original==P %d, parsed==P %d, P==original %d, P==parsed %d", i, (int)(*ref == P), (int)(m2 == P), (int)(P == *ref), (int)(P == m2)));
      }
      if (!caseBad && (m2 == pb || pb == m2)) Fail("equality|what-ignored", "a Message with a different what code compares equal");
      if (!caseBad && hasField && (m2 == pc || pc == m2)) Fail("equality|field-ignored", "a Message lacking the first field compares equal");
   }
   // 2b used target: an object that already holds fields (unrelated ones / the same ones / more, fewer, retyped, reordered ones / the product of
   // an earlier Unflatten); the same results as for the fresh object are required
   if (!caseBad) {
      vh::note("unflatten into used target: " + caseDesc);
      Message target; const char * kind = "?";
      switch (salt % 4) {
      case 0: target = prev; kind = "unrelated"; break;
      case 1: target = M; kind = "copy_of_same"; break;
      case 2: {
         target = M; kind = "variant_of_same";
         const String * f = target.GetFirstFieldNameString(); if (f) { String nm = *f; (void)target.RemoveName(nm); }
         const String * l = target.GetLastFieldNameString(); if (l) { String nm = *l; const uint32 t = target.GetFieldTypeForName(nm); (void)target.RemoveName(nm); if (t == B_INT32_TYPE) (void)target.AddString(nm, "retyped"); else { (void)target.AddInt32(nm, 1); (void)target.AddInt32(nm, 2); } (void)target.MoveNameToFront(nm); }
         (void)target.AddString("zz extra field of the target", "x"); (void)target.AddPointer("zz extra pointer of the target", &target); target.what ^= 0x55;
      } break;
      default: { kind = "previously_parsed"; ByteBufferRef pb = prev.FlattenToByteBuffer(); if (pb() == NULL || target.UnflattenFromByteBuffer(pb).IsError()) HarnessAbort("preparing a previously parsed target"); } break;
      }
      const uint32 had = target.GetNumNames(), comes = m2.GetNumNames();
      vh::stat(std::string("used_target_") + kind);
      if (had > 0) { vh::stat("used_target_nonempty"); if (comes == 0) vh::stat("used_target_nonempty_incoming_empty"); else if (had > comes) vh::stat("used_target_had_more_fields"); else if (had < comes) vh::stat("used_target_had_fewer_fields"); }
      const int how2 = (int)er.R(NUM_PAR);
      r = ParseVia(how2, target, buf, n);
      if (r.IsError()) Fail("reused|parse-status", std::string(kParName[how2]) + " into an object that held " + kind + " content: " + r());
      else CheckParsed(M, *ref, nan, nonflat, target, buf, n, "reused");
      if (!caseBad) (void)Same(m2, target, false, "reused");
   }
   // 6
   if (!caseBad) {
      vh::note("FlattenToByteBuffer: " + caseDesc);
      ByteBufferRef bb = M.FlattenToByteBuffer();
      if (bb() == NULL) Fail("bytebuffer|null", "FlattenToByteBuffer() returned a NULL reference");
      else if (bb()->GetNumBytes() != n || memcmp(bb()->GetBuffer(), buf, n) != 0) Fail("bytebuffer|bytes", FirstDiff(buf, n, bb()->GetBuffer(), bb()->GetNumBytes()));
      else {
         Message m4(prev); r = m4.UnflattenFromByteBuffer(bb);
         if (r.IsError()) Fail("bytebuffer|parse-status", r()); else (void)Same(m2, m4, false, "bytebuffer");
      }
      if (!caseBad) {   // the idiom of the documentation examples: ByteBuffer buf(msg.FlattenedSize()); msg.FlattenToByteBuffer(buf); other.UnflattenFromByteBuffer(buf)
         ByteBuffer b5(M.FlattenedSize()); r = M.FlattenToByteBuffer(b5);
         if (r.IsError() || b5.GetNumBytes() != n || memcmp(b5.GetBuffer(), buf, n) != 0) Fail("bytebuffer|bytes", "FlattenToByteBuffer(ByteBuffer &): " + FirstDiff(buf, n, b5.GetBuffer(), b5.GetNumBytes()));
         else { Message m5; r = m5.UnflattenFromByteBuffer(b5); if (r.IsError()) Fail("bytebuffer|parse-status", r()); else (void)Same(m2, m5, false, "bytebuffer"); }
      }
      if (!caseBad) { MessageRef pm = GetMessageFromPool(buf, n); if (pm() == NULL) Fail("frompool|null", "GetMessageFromPool(bytes, n) returned a NULL reference for Flatten's own output"); else (void)Same(m2, *pm(), false, "frompool"); }
   }
   if (!caseBad) {
      vh::note("copy: " + caseDesc);
      Message m6(M);   // copy constructor: everything, incl. pointer and tag fields
      if (Same(M, m6, false, "copy")) {
         if (m6.FlattenedSize() != n) Fail("copy|size", vh::fmt("FlattenedSize() %u, copy %u", n, m6.FlattenedSize()));
         else { uint8 * b6 = FlattenExact(m6, n); if (memcmp(buf, b6, n) != 0) Fail("copy|bytes", FirstDiff(buf, n, b6, n)); free(b6); }
         if (!caseBad && (m6.CalculateChecksum() != M.CalculateChecksum() || m6.CalculateChecksum(true) != M.CalculateChecksum(true))) Fail("copy|checksum", "checksum of the copy differs");
         // operator== compares tag objects by address (ByteBuffers by content) and a copy may hold a clone of an inline tag: not part of C01
         if (nonflat) vh::stat("unspecified_copy_equality_with_pointer_or_tag_fields");
         else if (!caseBad && !nan && (!(m6 == M) || !(M == m6))) Fail("copy|equality", "copy != original without any NaN item");
      }
      if (!caseBad) {
         Message m7(prev); m7 = M;   // assignment over previous content
         if (Same(M, m7, false, "assign")) {
            if (m7.FlattenedSize() != n) Fail("assign|size", vh::fmt("FlattenedSize() %u, assigned %u", n, m7.FlattenedSize()));
            else { uint8 * b7 = FlattenExact(m7, n); if (memcmp(buf, b7, n) != 0) Fail("assign|bytes", FirstDiff(buf, n, b7, n)); free(b7); }
         }
         m7 = m2; if (!caseBad) (void)Same(m2, m7, false, "assign");
      }
   }
   free(buf);
}

static void CountTrace(const GenTrace & tr)
{
   for (int t = 0; t < NUM_TC; t++) for (int s = 0; s < NUM_RS; s++) if (tr.cells[t][s]) vh::stat(std::string("cell_") + TypeClassName(t) + "_" + RepStateName(s), tr.cells[t][s]);
   for (int o = 0; o < NUM_OP; o++) if (tr.ops[o]) vh::stat(std::string("op_") + OpName(o), tr.ops[o]);
   vh::stat("field_scripts", tr.fieldScripts); vh::stat("items_generated", tr.items); vh::stat("sub_messages", tr.subMessages);
   if (tr.aliases) vh::stat("fields_aliased_in_same_message", tr.aliases);
   if (tr.sharedLeft) vh::stat("fields_left_shared_with_live_scratch_message", tr.sharedLeft);
   if (tr.zeroLengthItems) vh::stat("zero_length_items", tr.zeroLengthItems);
   if (tr.nanItems) vh::stat("nan_items", tr.nanItems);
   vh::stat(vh::fmt("msgs_reaching_depth_%u", tr.maxDepthReached));
   vh::statmax("max_depth", tr.maxDepthReached);
}

// ---- construction routes: how the Message under test comes into being -----------------------------------------------------------------
enum { RT_PLAIN = 0, RT_LIGHTWEIGHT_PRIVATE, RT_LIGHTWEIGHT_SHARED, RT_FROM_BYTES, RT_COPY, RT_SWAPCONTENTS, RT_CROSSNAME, NUM_RT };
static const char * const kRouteName[NUM_RT] = {"plain", "lightweight_copy_private_mutation", "lightweight_copy_shared_mutation", "from_bytes_then_mutated", "copy_then_mutated", "swapcontents", "crossname"};
static ObjectPool<Message> * ownPool = NULL;   // for the GetMessageFromPool(pool, ...) overloads; never destroyed (its objects may outlive main's locals)

static std::vector<uint8> BytesOf(const Message & m) { const uint32 n = m.FlattenedSize(); uint8 * b = FlattenExact(m, n); std::vector<uint8> v(b, b + n); free(b); return v; }
static bool SameBytes(const Message & m, const std::vector<uint8> & want, const std::string & key, const std::string & what)
{
   const std::vector<uint8> got = BytesOf(m);
   if (got == want) return true;
   Fail(key, what + ": " + FirstDiff(want.empty() ? NULL : &want[0], (uint32)want.size(), got.empty() ? NULL : &got[0], (uint32)got.size())); return false;
}
static MessageRef MustRef(const MessageRef & r, const char * how) { if (r() == NULL) Fail("route|null-reference", std::string(how) + " returned a NULL reference"); return r; }
static void Report(GenTrace & tr) { if (!tr.routeFailKey.empty()) Fail(tr.routeFailKey, tr.routeFailDetail); }

// every field of (now) except (skip) must be what it was in the deep copy (was) taken before an operation on (skip)
static void OthersUntouched(const Message & was, const Message & now, const String & skip, const char * key)
{
   for (MessageFieldNameIterator it = was.GetFieldNameIterator(); it.HasData() && !caseBad; it++) { if (it.GetFieldName() == skip) continue; std::string w, k2; if (!SameField(was, it.GetFieldName(), now, it.GetFieldName(), false, w, k2)) Fail(std::string(key) + "|bystander-field-changed", w); }
   for (MessageFieldNameIterator it = now.GetFieldNameIterator(); it.HasData() && !caseBad; it++) { if (it.GetFieldName() == skip) continue; if (!was.HasName(it.GetFieldName())) Fail(std::string(key) + "|bystander-field-appeared", Esc(it.GetFieldName()(), 30)); }
}

// SwapName / MoveName / CopyName / ShareName between two generated Messages, against the documented outcome
static void CrossNameOps(vh::Rng & g, Message & A0, Message & B0)
{
   for (uint32 k = 1 + g.R(3); k > 0 && !caseBad; k--) {
      Message & A = g.R(2) ? A0 : B0; Message & B = (&A == &A0) ? B0 : A0;
      std::vector<String> na, nb; for (MessageFieldNameIterator it = A.GetFieldNameIterator(); it.HasData(); it++) na.push_back(it.GetFieldName()); for (MessageFieldNameIterator it = B.GetFieldNameIterator(); it.HasData(); it++) nb.push_back(it.GetFieldName());
      String fn; const uint32 pick = g.R(8);
      if (pick < 5 && !na.empty()) fn = na[g.R((uint32)na.size())]; else if (pick < 7 && !nb.empty()) fn = nb[g.R((uint32)nb.size())]; else fn = "in neither Message";
      const uint32 op = g.R(4);
      if (op == 0 && A.HasName(fn) && !B.HasName(fn) && !nb.empty() && g.R(2)) { if (B.Rename(nb[g.R((uint32)nb.size())], fn).IsError()) HarnessAbort("Rename"); }   // make the like-named case (usually of another type) frequent
      const bool inA = A.HasName(fn), inB = B.HasName(fn);
      const Message wasA(A), wasB(B);   // deep copies (sub-Message objects inside arrays stay shared, nothing here changes them in place)
      std::string w, k2;
      if (op == 0) {
         vh::stat("crossname_swapname"); if (inA && inB) vh::stat("crossname_swapname_both_present"); else if (inA || inB) vh::stat("crossname_swapname_one_present");
         const status_t r = A.SwapName(fn, B);
         if (r.IsOK() != (inA || inB)) { Fail("crossname|swapname|status", vh::fmt("SwapName: field in this %d, in other %d, status %s", (int)inA, (int)inB, r())); return; }
         if (!SameField(wasB, fn, A, fn, false, w, k2) || !SameField(wasA, fn, B, fn, false, w, k2)) { Fail("crossname|swapname|" + k2, "after SwapName: " + w); return; }
         OthersUntouched(wasA, A, fn, "crossname|swapname"); OthersUntouched(wasB, B, fn, "crossname|swapname");
      }
      else {
         const bool rename = g.R(2) != 0; const String to = rename ? String(g.R(2) && !nb.empty() ? nb[g.R((uint32)nb.size())] : String("brought over")) : fn;
         const char * name = op == 1 ? "movename" : op == 2 ? "copyname" : "sharename"; vh::stat(std::string("crossname_") + name);
         const status_t r = op == 1 ? (rename ? A.MoveName(fn, B, to) : A.MoveName(fn, B)) : op == 2 ? (rename ? A.CopyName(fn, B, to) : A.CopyName(fn, B)) : (rename ? A.ShareName(fn, B, to) : A.ShareName(fn, B));
         if (r.IsOK() != inA) { Fail(std::string("crossname|") + name + "|status", vh::fmt("field in the source %d, status %s", (int)inA, r())); return; }
         if (inA) {
            if (!SameField(wasA, fn, B, to, false, w, k2)) { Fail(std::string("crossname|") + name + "|" + k2, "the field that arrived differs: " + w); return; }
            if (op == 1 ? A.HasName(fn) : !SameField(wasA, fn, A, fn, false, w, k2)) { Fail(std::string("crossname|") + name + "|source", op == 1 ? "MoveName left the field in the source" : "the source field changed: " + w); return; }
            OthersUntouched(wasB, B, to, (std::string("crossname|") + name).c_str());
         }
         else OthersUntouched(wasB, B, String("\x01 none"), (std::string("crossname|") + name).c_str());
         OthersUntouched(wasA, A, fn, (std::string("crossname|") + name).c_str());
      }
   }
}

static void RunCase(long k, uint64_t cs, bool product)
{
   vh::Rng g(cs); caseBad = false; caseDesc = "(generating)";
   if (ownPool == NULL) ownPool = new ObjectPool<Message>();
   GenOptions o = GenOptions::Full(); o.sizeClass = (int)vh::optl("size", SIZE_NORMAL);
   GenOptions small = GenOptions::Small();
   MessageRef prev = GenMessage(g, g.R(4) ? small : o);    // previous content of used targets, panel member: small (3 of 4) or full-size
   GenTrace tr; tr.wantScript = vh::want_sample(); caseScript = &tr.script;
   MessageRef mr, second, keepSource;
   int route = RT_PLAIN;
   if (product) {
      // enumerated: type class x representation state (the 7 named ones) x position of the field (first / middle / last of three)
      const int cls = (int)(k % NUM_TC), st = (int)((k / NUM_TC) % (NUM_RS - 1)), pos = (int)((k / (NUM_TC * (NUM_RS - 1))) % 3);
      mr = GetMessageFromPool((uint32)g.next()); if (mr() == NULL) HarnessAbort("GetMessageFromPool");
      GenOptions po = o; po.maxDepth = 2;
      for (int i = 0; i < 3; i++) {
         if (i == pos) AddFieldInState(g, po, *mr(), "target", cls, st, &tr);
         else { int fc, fs; do { fc = (int)g.R(NUM_TC); } while (fc == TC_MESSAGE); fs = RS_INLINE1 + (int)g.R(4); AddFieldInState(g, po, *mr(), i == 0 ? "filler_a" : (i == 1 ? "filler_b" : "filler_c"), fc, fs, NULL); }
      }
      vh::stat(std::string("product_") + TypeClassName(cls) + "_" + RepStateName(st));
   }
   else {
      { const uint32 r = g.R(20); route = r < 8 ? RT_PLAIN : (int)(1 + (r - 8) / 2); }
      MessageRef S = GenMessage(g, o, &tr); Report(tr);
      caseDesc = std::string(kRouteName[route]) + ", source " + DescribeMessage(*S());
      vh::note("route: " + caseDesc);
      switch (route) {
      case RT_PLAIN: mr = S; break;
      case RT_LIGHTWEIGHT_PRIVATE: case RT_LIGHTWEIGHT_SHARED: {
         const std::vector<uint8> bytesS = BytesOf(*S());
         MessageRef L;
         switch (g.R(3)) { case 0: L = MustRef(GetLightweightCopyOfMessageFromPool(*S()), "GetLightweightCopyOfMessageFromPool"); break; case 1: L = MustRef(GetLightweightCopyOfMessageFromPool(*ownPool, *S()), "GetLightweightCopyOfMessageFromPool(pool)"); break;
                          default: L = MustRef(GetMessageFromPool(*prev()), "GetMessageFromPool(const Message &)"); if (L()) L()->BecomeLightweightCopyOf(*S()); break; }
         if (caseBad) break;
         // "this object will look like a copy of (rhs)"
         if (!Same(*S(), *L(), false, "lightweight") || !SameBytes(*L(), bytesS, "lightweight|bytes", "a lightweight copy flattens differently from its source")) break;
         if (route == RT_LIGHTWEIGHT_PRIVATE) {
            // the copy is mutated with EnsureFieldIsPrivate() before every item-level operation ("handy when you are about to modify a field ... and want to
            // make sure that the field isn't shared"); field-table operations need no such care.  The source must keep flattening to its old bytes, and the
            // copy must end up exactly like a deep copy that went through the same mutations.
            MessageRef D = MustRef(GetMessageFromPool(*S()), "GetMessageFromPool(const Message &)"); if (caseBad) break;
            vh::Rng g2 = g; GenTrace tr2;
            MutateMessage(g, o, *L(), MUT_PRIVATE_FIRST, &tr); Report(tr);
            MutateMessage(g2, o, *D(), MUT_PRIVATE_FIRST, &tr2);
            if (!caseBad) (void)SameBytes(*S(), bytesS, "lightweight|source-changed", "mutating a lightweight copy (EnsureFieldIsPrivate first) changed what the source flattens to");
            if (!caseBad && Same(*D(), *L(), false, "lightweight-twin")) (void)SameBytes(*L(), BytesOf(*D()), "lightweight-twin|bytes", "the mutated lightweight copy flattens differently from a deep copy mutated the same way");
            mr = L; keepSource = S;   // the source stays alive (and sharing) during the oracle
         }
         else {
            // item-level operations on fields of >= 2 items without EnsureFieldIsPrivate: documented to show in both Messages.  C01 only demands that
            // BOTH still make the trip; whether the source saw the change is counted, not judged.
            MutateMessage(g, o, *L(), MUT_SHARED_ITEMS, &tr); Report(tr);
            if (BytesOf(*S()) != bytesS) vh::stat("observed_shared_mutation_visible_in_source"); else vh::stat("observed_shared_mutation_not_visible_in_source");
            mr = L; second = S;
         }
      } break;
      case RT_FROM_BYTES: {
         const std::vector<uint8> b = BytesOf(*S()); const uint32 n = (uint32)b.size();
         switch (g.R(4)) { case 0: mr = MustRef(GetMessageFromPool(&b[0], n), "GetMessageFromPool(bytes, n)"); break; case 1: mr = MustRef(GetMessageFromPool(*ownPool, &b[0], n), "GetMessageFromPool(pool, bytes, n)"); break;
                          case 2: mr = MustRef(GetMessageFromPool(*ownPool, (uint32)77), "GetMessageFromPool(pool, what)"); if (mr() && mr()->UnflattenFromBytes(&b[0], n).IsError()) Fail("parse|status", "UnflattenFromBytes of Flatten's own output"); break;
                          default: { mr = MustRef(GetMessageFromPool(*prev()), "GetMessageFromPool(const Message &)"); ByteBufferRef bb = GetByteBufferFromPool(n, &b[0]); if (bb() == NULL) HarnessAbort("GetByteBufferFromPool"); if (mr() && mr()->UnflattenFromByteBuffer(*bb()).IsError()) Fail("parse|status", "UnflattenFromByteBuffer of Flatten's own output"); } break; }
         if (caseBad) break;
         if (!Same(*S(), *mr(), true, "frombytes")) break;
         MutateMessage(g, o, *mr(), 0, &tr); Report(tr);   // every field is in the state the parser left it in
      } break;
      case RT_COPY: {
         const std::vector<uint8> bytesS = BytesOf(*S());
         switch (g.R(6)) {
         case 0: mr = MustRef(GetMessageFromPool(*S()), "GetMessageFromPool(const Message &)"); break;
         case 1: mr = MustRef(GetMessageFromPool(*ownPool, *S()), "GetMessageFromPool(pool, const Message &)"); break;
         case 2: mr = MustRef(GetMessageFromPool(*prev()), "GetMessageFromPool(const Message &)"); if (mr() && mr()->CopyFrom(*S()).IsError()) Fail("route|copyfrom-status", "Message::CopyFrom(Message) failed"); break;
         case 3: mr = MustRef(GetMessageFromPool(*prev()), "GetMessageFromPool(const Message &)"); if (mr() && S()->CopyTo(*mr()).IsError()) Fail("route|copyfrom-status", "Message::CopyTo(Message) failed"); break;
         case 4: { Message * c = dynamic_cast<Message *>(S()->Clone()); if (c == NULL) Fail("route|null-reference", "Clone() did not return a Message"); else mr.SetRef(c); } break;
         default: { Message w(1); if (w.AddMessage("w", S).IsError()) HarnessAbort("AddMessage"); mr = MustRef(GetMessageFromPool(*prev()), "GetMessageFromPool(const Message &)"); if (mr() && w.FindMessage("w", 0, *mr()).IsError()) Fail("route|findmessage-by-value-status", "FindMessage(name, index, Message &) failed"); } break;
         }
         if (caseBad) break;
         if (!Same(*S(), *mr(), false, "copy-route")) break;
         MutateMessage(g, o, *mr(), 0, &tr); Report(tr);
         if (!caseBad) (void)SameBytes(*S(), bytesS, "copy|source-changed", "mutating a copy changed what the source flattens to ('a copied Message shouldn't share data')");
         keepSource = S;
      } break;
      case RT_SWAPCONTENTS: {
         MessageRef N = GenMessage(g, g.R(2) ? small : o);
         const std::vector<uint8> bS = BytesOf(*S()), bN = BytesOf(*N()); const Message cS(*S()), cN(*N());
         switch (g.R(3)) { case 0: S()->SwapContents(*N()); break; case 1: { Message t(std::move(*S())); *S() = std::move(*N()); *N() = std::move(t); } break; default: S()->SwapContents(*N()); N()->SwapContents(*S()); N()->SwapContents(*S()); break; }
         if (Same(cN, *S(), false, "swapcontents") && Same(cS, *N(), false, "swapcontents") && SameBytes(*S(), bN, "swapcontents|bytes", "after SwapContents") && SameBytes(*N(), bS, "swapcontents|bytes", "after SwapContents")) { mr = S; second = N; }
      } break;
      default: {
         MessageRef N = GenMessage(g, g.R(2) ? small : o);
         CrossNameOps(g, *S(), *N());
         mr = S; second = N;
      } break;
      }
      vh::stat(std::string("route_") + kRouteName[route]);
   }
   CountTrace(tr);
   uint64_t dig = 0; uint32 size = 0;
   if (!caseBad && mr()) {
      const Message & M = *mr();
      caseDesc = std::string(kRouteName[route]) + ": " + DescribeMessage(M);
      CheckRoundTrip(M, *prev(), g.next(), &dig, &size);
      if (!caseBad && second()) { caseDesc = std::string(kRouteName[route]) + " (second Message): " + DescribeMessage(*second()); CheckRoundTrip(*second(), *prev(), g.next(), NULL, NULL); vh::stat("second_messages_checked"); }
      if ((k % 40) == 0) { vh::stat("tostring_calls"); const String ts = M.ToString(); if (ts.Length() == 0) Fail("tostring|empty", "ToString() of a Message is empty"); }   // Print() walks every representation state too (memory safety only)
   }
   caseScript = NULL;
   vh::distinct(dig ? dig : cs, size > 12);   // non-trivial: at least one field reaches the wire
   vh::statmax("max_flattened_size", size);
   if (size > 12) vh::stat("msgs_with_wire_fields");
   if (tr.wantScript && mr() && !caseBad) { uint8 * b = FlattenExact(*mr(), size); vh::sample(vh::fmt("case %ld (%u bytes): script ", k, size) + tr.script + " => " + caseDesc + " => " + vh::hex(b, size, 64)); free(b); }
}

// ---- fixed witnesses and documentation examples -------------------------------------------------------------------------------
static long rcase = 0;
static void Reg(const char * name, const Message & m)
{
   vh::begin_case(rcase++); caseBad = false; caseDesc = std::string(name) + ": " + DescribeMessage(m);
   Message prev(77); (void)prev.AddString("old", "content"); (void)prev.AddInt32("old2", 1); (void)prev.AddInt32("old2", 2);
   uint64_t dig = 0; uint32 size = 0;
   CheckRoundTrip(m, prev, (uint64_t)rcase, &dig, &size);
   vh::distinct(dig, true); vh::stat("regress_messages");
}
#define MUST(x) do { if ((x).IsError()) HarnessAbort(std::string("regress build step failed: ") + #x); } while (0)
static void Expect(bool ok, const char * key, const char * what) { if (!ok) { caseBad = false; Fail(std::string("regress|") + key, what); } }

class DeliveryInfo : public Flattenable {   // html/muscle-by-example/examples/message/example_4_add_flat.cpp
public:
   DeliveryInfo() : _zipCode(0) {}
   DeliveryInfo(const String & name, const String & address, const String & city, const String & state, int32 zipCode) : _name(name), _address(address), _city(city), _state(state), _zipCode(zipCode) {}
   virtual bool IsFixedSize() const { return false; }
   virtual uint32 TypeCode() const { return 1887074914; }
   virtual uint32 FlattenedSize() const { return _name.FlattenedSize() + _address.FlattenedSize() + _city.FlattenedSize() + _state.FlattenedSize() + sizeof(_zipCode); }
   virtual void Flatten(DataFlattener flat) const { flat.WriteFlat(_name); flat.WriteFlat(_address); flat.WriteFlat(_city); flat.WriteFlat(_state); flat.WriteInt32(_zipCode); }
   virtual status_t Unflatten(DataUnflattener & unflat) { _name = unflat.ReadFlat<String>(); _address = unflat.ReadFlat<String>(); _city = unflat.ReadFlat<String>(); _state = unflat.ReadFlat<String>(); _zipCode = unflat.ReadInt32(); return unflat.GetStatus(); }
   bool operator==(const DeliveryInfo & o) const { return _name == o._name && _address == o._address && _city == o._city && _state == o._state && _zipCode == o._zipCode; }
private:
   String _name, _address, _city, _state; int32 _zipCode;
};

static void Regress()
{
   { const ConstMessageRef & e = GetEmptyMessageRef(); Expect(e() && e()->IsEmpty() && e()->what == 0 && e()->FlattenedSize() == 12 && GetEmptyMessage().IsEmpty() && GetMessagePool() != NULL && !e()->IsFixedSize() && e()->TypeCode() == B_MESSAGE_TYPE, "doc-empty-message", "GetEmptyMessageRef()/GetEmptyMessage(): an empty Message; IsFixedSize() false, TypeCode() B_MESSAGE_TYPE"); }
   { Message m; Reg("empty Message", m); Expect(m.FlattenedSize() == 12, "doc-12-bytes", "Message.h: 'A flattened Message can be as small as 12 bytes'"); }
   // representation edge states (design probe rt.cpp)
   { Message m(1); MUST(m.AddInt32("i", 1)); MUST(m.AddInt32("i", 2)); MUST(m.RemoveData("i", 1)); Reg("int32 array-of-one", m); }
   { Message m(1); MUST(m.AddString("s", "a")); MUST(m.AddString("s", "b")); MUST(m.RemoveData("s", 0)); Reg("string array-of-one", m); }
   { Message m(1); MUST(m.AddMessage("m", GetMessageFromPool(5))); MUST(m.AddMessage("m", GetMessageFromPool(6))); MUST(m.RemoveData("m", 0)); Reg("message array-of-one", m); }
   { Message m(1); uint8 d[3] = {1, 2, 3}; MUST(m.AddData("r", B_RAW_TYPE, d, 3)); MUST(m.AddData("r", B_RAW_TYPE, d, 2)); MUST(m.RemoveData("r", 1)); Reg("raw array-of-one", m); }
   { Message m(1); MUST(m.AddBool("b", true)); MUST(m.AddBool("b", false)); MUST(m.RemoveData("b", 0)); Reg("bool array-of-one", m); }
   { Message m(1); float f; uint32 b = 0x7fc00000; memcpy(&f, &b, 4); MUST(m.AddFloat("f", f)); Reg("float NaN inline", m); }
   { Message m(1); float f; uint32 b = 0x7f800001; memcpy(&f, &b, 4); MUST(m.AddFloat("f", f)); MUST(m.AddFloat("f", -0.0f)); Reg("float signalling NaN + -0 array", m); }
   { Message m(1); MUST(m.AddPoint("p", Point(1, 2))); MUST(m.AddPoint("p", Point(3, 4))); MUST(m.RemoveData("p", 1)); Reg("point array-of-one", m); }
   { Message m(1); MUST(m.AddRect("r", Rect(1, 2, 3, 4))); Reg("rect inline", m); }
   { Message m(1); MUST(m.AddRect("r", Rect(1, 2, 3, 4))); MUST(m.AddRect("r", Rect(5, 6, 7, 8))); Reg("rect array", m); }
   { Message m(1); uint8 d[3] = {1, 2, 3}; MUST(m.AddData("u", 0x12345678, d, 3)); Reg("user type inline", m); }
   { Message m(1); MUST(m.AddString("", "")); Reg("empty name, empty string", m); }
   { Message m(1); MUST(m.AddPointer("p", &m)); MUST(m.AddInt8("x", 5)); Reg("pointer + int8", m); }
   { Message m(1); MUST(m.AddFlat("z", GetByteBufferFromPool(0))); Reg("zero-length raw via AddFlat", m); }
   { Message m(1); MUST(m.AddFlat("z", GetByteBufferFromPool(0))); MUST(m.AddFlat("z", GetByteBufferFromPool(0))); Reg("two zero-length raw items", m); }
   { Message m(1); MUST(m.AddFlat("u", Blob(0x75737231, std::string()))); Reg("zero-length user-type item via AddFlat(object)", m); }
   { Message m(1); MUST(m.AddTag("t", GetMessageFromPool(3).GetRefCountableRef())); MUST(m.AddTag("t", GetMessageFromPool(4).GetRefCountableRef())); MUST(m.AddInt64("x", -1)); MUST(m.MoveNameToFront("x")); Reg("tag array + int64 moved to front", m); }
   { Message m(1); for (int i = 0; i < 300; i++) MUST(m.AddBool("b", (i % 3) == 0)); for (int i = 0; i < 17; i++) MUST(m.PrependInt16("s", (int16)(i * 1000 - 8000))); Reg("300 bools, 17 prepended int16", m); }
   { MessageRef d4 = GetMessageFromPool(4); MUST(d4()->AddString("leaf", "x")); MessageRef d3 = GetMessageFromPool(3); MUST(d3()->AddMessage("d4", d4)); MUST(d3()->AddMessage("d4", d4)); MessageRef d2 = GetMessageFromPool(2); MUST(d2()->AddMessage("d3", d3)); MessageRef d1 = GetMessageFromPool(1); MUST(d1()->AddMessage("d2", d2)); MUST(d1()->AddPointer("p", NULL));
     Message m(0); MUST(m.AddMessage("d1", d1)); MUST(m.AddMessage("d1", d1)); MUST(m.AddMessage("d1", d1)); Reg("nesting depth 4, shared sub-Messages, pointer at depth 1", m); }
   // the layout comment of Message::Flatten(), byte for byte
   { Message m(0x01020304); MUST(m.AddInt32("a", 5)); Reg("layout witness", m);
     static const uint8 want[30] = {0x30, 0x30, 0x4D, 0x50, 0x04, 0x03, 0x02, 0x01, 1, 0, 0, 0, 2, 0, 0, 0, 'a', 0, 0x47, 0x4E, 0x4F, 0x4C, 4, 0, 0, 0, 5, 0, 0, 0};
     uint8 got[30]; const bool sz = m.FlattenedSize() == 30; if (sz) m.FlattenToBytes(got, 30); Expect(sz && memcmp(got, want, 30) == 0, "layout-witness", "Message(0x01020304){a:int32=5} does not flatten to the 30 documented bytes"); }
   { Message m(0); MUST(m.AddBool("b", true)); Reg("one bool", m); Expect(m.FlattenedSize() == 12 + 4 + 2 + 4 + 4 + 1, "bool-one-byte", "a bool item must flatten to one byte"); }
   // documentation examples (html/muscle-by-example/examples/message/example_1, _2, _4)
   { Message orderPizzaMsg(1887074913); MUST(orderPizzaMsg.AddInt32("size_inches", 16)); MUST(orderPizzaMsg.AddBool("vegan", false)); MUST(orderPizzaMsg.AddString("toppings", "cheese")); MUST(orderPizzaMsg.AddString("toppings", "pepperoni")); MUST(orderPizzaMsg.AddString("toppings", "mushrooms")); MUST(orderPizzaMsg.AddFloat("price", 16.50f));
     Reg("docex example_1_basic_usage", orderPizzaMsg);
     ByteBuffer buf(orderPizzaMsg.FlattenedSize()); MUST(orderPizzaMsg.FlattenToByteBuffer(buf)); Message anotherMsg; MUST(anotherMsg.UnflattenFromByteBuffer(buf));
     int32 sizeInches = 0; bool vegan = true; float price = 0; String t0, t2;
     Expect(anotherMsg.what == 1887074913 && anotherMsg.FindInt32("size_inches", sizeInches).IsOK() && sizeInches == 16 && anotherMsg.FindBool("vegan", vegan).IsOK() && !vegan && anotherMsg.FindFloat("price", price).IsOK() && price == 16.50f
            && anotherMsg.FindString("toppings", 0, t0).IsOK() && t0 == "cheese" && anotherMsg.FindString("toppings", 2, t2).IsOK() && t2 == "mushrooms" && anotherMsg.GetNumValuesInName("toppings") == 3, "docex-1", "example_1: values read back from the unflattened Message");
     MessageRef deliveryInfoMsg = GetMessageFromPool(1887074914); MUST(deliveryInfoMsg()->AddString("name", "Hungry Joe")); MUST(deliveryInfoMsg()->AddString("address", "20 West Montecito Ave")); MUST(deliveryInfoMsg()->AddString("city", "Sierra Madre")); MUST(deliveryInfoMsg()->AddString("state", "California")); MUST(deliveryInfoMsg()->AddInt32("zip_code", 91024));
     MUST(orderPizzaMsg.AddMessage("delivery_info", deliveryInfoMsg));
     Reg("docex example_2_nested_messages", orderPizzaMsg);
     MUST(orderPizzaMsg.RemoveName("delivery_info")); const DeliveryInfo di("Hungry Joe", "20 West Montecito Ave", "Sierra Madre", "California", 91024); MUST(orderPizzaMsg.AddFlat("delivery_info", di));
     Reg("docex example_4_add_flat", orderPizzaMsg);
     ByteBuffer buf4(orderPizzaMsg.FlattenedSize()); MUST(orderPizzaMsg.FlattenToByteBuffer(buf4)); Message m4; MUST(m4.UnflattenFromByteBuffer(buf4)); DeliveryInfo back;
     Expect(m4.FindFlat("delivery_info", back).IsOK() && back == di, "docex-4", "example_4: FindFlat() on the unflattened Message does not give back the object"); }
   // ---- construction routes (second round): fixed witnesses
   { // lightweight copy: looks like a copy; field-table operations and EnsureFieldIsPrivate()d item operations on it leave the source alone
     Message S(1); MUST(S.AddInt32("a", 1)); MUST(S.AddInt32("a", 2)); MUST(S.AddInt32("a", 3)); MUST(S.AddString("b", "x")); const std::vector<uint8> bS = BytesOf(S);
     Message L; L.BecomeLightweightCopyOf(S); Reg("lightweight copy, untouched", L); Expect(BytesOf(L) == bS, "lightweight-bytes", "a lightweight copy must flatten like its source");
     MUST(L.EnsureFieldIsPrivate("a")); MUST(L.AddInt32("a", 9)); MUST(L.RemoveName("b")); MUST(L.AddBool("c", true)); L.what = 2;
     Message E(2); MUST(E.AddInt32("a", 1)); MUST(E.AddInt32("a", 2)); MUST(E.AddInt32("a", 3)); MUST(E.AddInt32("a", 9)); MUST(E.AddBool("c", true));
     Reg("lightweight copy, mutated", L); Expect(BytesOf(L) == BytesOf(E), "lightweight-own-bytes", "the mutated lightweight copy must flatten to its own content"); Expect(BytesOf(S) == bS, "lightweight-source-changed", "the source of a lightweight copy changed although the copy's field was made private first");
     MessageRef P = GetLightweightCopyOfMessageFromPool(S); Expect(P() && BytesOf(*P()) == bS, "lightweight-bytes", "GetLightweightCopyOfMessageFromPool"); if (P()) { MUST(P()->AddInt32("a", 4)); Reg("lightweight copy sharing a mutated array", *P()); Reg("its source", S); } }
   { // deep copy: item operations on the copy never reach the source
     Message S(1); for (int i = 0; i < 5; i++) MUST(S.AddString("s", "v")); MUST(S.AddFloat("f", 1.5f)); const std::vector<uint8> bS = BytesOf(S);
     Message C(S); MUST(C.AddString("s", "w")); MUST(C.ReplaceFloat(false, "f", 2.5f)); MUST(C.RemoveData("s", 0)); Reg("mutated deep copy", C); Expect(BytesOf(S) == bS, "copy-source-changed", "mutating a copy changed the source");
     MessageRef G = GetMessageFromPool(S); Message viaCopyFrom(9); MUST(viaCopyFrom.AddInt8("old", 1)); MUST(viaCopyFrom.CopyFrom(S)); Expect(G() && BytesOf(*G()) == bS && BytesOf(viaCopyFrom) == bS, "copy-bytes", "GetMessageFromPool(const Message &) / CopyFrom()"); }
   { // SortDataInField: default comparator of the type, [from, to), stable; GetPointerToNormalizedFieldData: contiguous items
     Message m(1); const int32 v[6] = {3, -1, 2, -7, 2, 0}; for (int i = 0; i < 6; i++) MUST(m.AddInt32("i", v[i])); MUST(m.AddString("s", "pear")); MUST(m.AddString("s", "apple")); MUST(m.PrependString("s", "zebra")); MUST(m.AddInt32("one", 5));
     m.SortDataInField("i", 1, 5); Message e1(1); const int32 w1[6] = {3, -7, -1, 2, 2, 0}; for (int i = 0; i < 6; i++) MUST(e1.AddInt32("i", w1[i])); Message t; MUST(m.CopyName("i", t)); t.what = 1; Expect(BytesOf(t) == BytesOf(e1), "sort-range", "SortDataInField(\"i\", 1, 5) on {3,-1,2,-7,2,0} must give {3,-7,-1,2,2,0}");
     m.SortDataInField("i"); m.SortDataInField("s"); m.SortDataInField("one"); m.SortDataInField("absent");
     Message e(1); const int32 w[6] = {-7, -1, 0, 2, 2, 3}; for (int i = 0; i < 6; i++) MUST(e.AddInt32("i", w[i])); MUST(e.AddString("s", "apple")); MUST(e.AddString("s", "pear")); MUST(e.AddString("s", "zebra")); MUST(e.AddInt32("one", 5));
     Reg("sorted fields", m); Expect(BytesOf(m) == BytesOf(e), "sort-whole", "SortDataInField on int32 {3,-7,-1,2,2,0} / string {zebra,pear,apple}");
     Message q(1); for (int i = 0; i < 12; i++) MUST(q.AddInt16("h", (int16)i)); for (int i = 1; i <= 5; i++) MUST(q.PrependInt16("h", (int16)-i)); uint32 cnt = 0; const int16 * a = (const int16 *)q.GetPointerToNormalizedFieldData("h", &cnt, B_INT16_TYPE);
     bool ok = a != NULL && cnt == 17; for (int i = 0; ok && i < 17; i++) if (a[i] != (int16)(i - 5)) ok = false; Expect(ok, "normalize", "GetPointerToNormalizedFieldData after 12 adds and 5 prepends must point to -5..11 back to back"); Expect(q.GetPointerToNormalizedFieldData("h", &cnt, B_INT32_TYPE) == NULL, "normalize", "wrong type must give NULL"); Reg("normalized field", q); }
   { // F55: Queue<bool>::Normalize(), rotate branch, loaded never-written spare slots (UBSan decides: invalid bool load at Queue.h)
     Message m(1); for (int i = 0; i < 5; i++) MUST(m.AddBool("b", true)); MUST(m.PrependBool("b", false)); uint32 cnt = 0; const bool * a = (const bool *)m.GetPointerToNormalizedFieldData("b", &cnt);
     bool ok = a != NULL && cnt == 6 && a[0] == false; for (int i = 1; ok && i < 6; i++) if (a[i] != true) ok = false; Expect(ok, "F55-normalize-bool", "GetPointerToNormalizedFieldData on 5 added + 1 prepended bools must point to F,T,T,T,T,T"); Reg("F55 normalized bool field", m); }
   { // a field left without items by the other owner of its shared array (ShareName into the same Message / lightweight copy): constructible, must make the trip
     Message m(1); MUST(m.AddInt32("a", 1)); MUST(m.AddInt32("a", 2)); MUST(m.ShareName("a", m, "b")); MUST(m.RemoveData("a", 0)); MUST(m.RemoveData("a", 0)); MUST(m.AddInt8("c", 3));
     uint32 t = 0, n = 9; Expect(!m.HasName("a") && m.GetInfo("b", &t, &n).IsOK() && n == 0, "zero-item-field-construction", "ShareName + RemoveData through the other name: expected the sharing field to stay, empty (if this fails the library now cleans it up: adjust the witness)"); Reg("zero-item int32 field", m);
     Message s(2), l; MUST(s.AddString("s", "x")); MUST(s.AddString("s", "y")); MUST(s.AddMessage("m", GetMessageFromPool(1))); MUST(s.AddMessage("m", GetMessageFromPool(2))); l.BecomeLightweightCopyOf(s); for (int i = 0; i < 2; i++) { MUST(l.RemoveData("s", 0)); MUST(l.RemoveData("m", 0)); } MUST(s.AddPointer("p", &s)); Reg("zero-item string and Message fields (source of a lightweight copy)", s);
     MUST(s.AddString("s", "again")); Reg("zero-item field grown again", s); }
   { // seeded change C01-5: FlattenToByteBuffer(ByteBuffer &) into a re-used buffer that is currently longer ("On successful return, (outBuf) will contain (this->FlattenedSize()) bytes")
     Message big(1); for (int i = 0; i < 40; i++) MUST(big.AddInt64("many", i)); Message little(2); MUST(little.AddInt8("x", 1));
     ByteBuffer reused; MUST(big.FlattenToByteBuffer(reused)); const bool okBig = reused.GetNumBytes() == big.FlattenedSize(); MUST(little.FlattenToByteBuffer(reused));
     Expect(okBig && reused.GetNumBytes() == little.FlattenedSize() && BytesOf(little) == std::vector<uint8>(reused.GetBuffer(), reused.GetBuffer() + reused.GetNumBytes()), "flatten-into-longer-reused-buffer", "FlattenToByteBuffer(buf) of a small Message into a buffer that held a bigger one must leave exactly FlattenedSize() bytes");
     MUST(big.CopyTo(reused)); MUST(little.CopyTo(reused)); Expect(reused.GetNumBytes() == little.FlattenedSize(), "copyto-longer-reused-buffer", "CopyTo(ByteBuffer) into a longer re-used buffer");
     Reg("small Message after a big one", little); }
   { // SwapName / SwapContents / by-value FindMessage
     Message a(1), b(2); MUST(a.AddInt32("both", 1)); MUST(a.AddString("onlyA", "x")); MUST(b.AddString("both", "s")); MUST(b.AddString("both", "t")); MUST(b.AddDouble("onlyB", 2.0));
     MUST(a.SwapName("both", b)); MUST(a.SwapName("onlyA", b)); MUST(b.SwapName("onlyB", a)); Expect(a.SwapName("nowhere", b).IsError(), "swapname-status", "SwapName of a field in neither Message must fail");
     Message ea(1), eb(2); MUST(ea.AddString("both", "s")); MUST(ea.AddString("both", "t")); MUST(ea.AddDouble("onlyB", 2.0)); MUST(eb.AddInt32("both", 1)); MUST(eb.AddString("onlyA", "x"));
     Reg("after SwapName (a)", a); Reg("after SwapName (b)", b); Expect(a == ea && b == eb && ea == a && eb == b, "swapname", "SwapName: like-named fields swap, one-sided fields move");
     a.SwapContents(b); Expect(a == eb && b == ea && a.what == 2 && b.what == 1, "swapcontents", "SwapContents swaps the fields and the what codes"); Message mv(std::move(a)); Expect(mv == eb && mv.what == 2, "swapcontents", "move constructor");
     Message outer(7); MUST(outer.AddMessage("sub", ea)); MUST(outer.AddMessage("sub", eb)); Message got(99); MUST(got.AddInt32("old", 1)); MUST(outer.FindMessage("sub", 1, got)); Expect(got == eb && BytesOf(got) == BytesOf(eb), "findmessage-by-value", "FindMessage(name, 1, Message &) must overwrite the target with a copy of the second sub-Message");
     MUST(outer.ReplaceMessage(false, "sub", 0, got)); Reg("by-value copy re-inserted", outer); }
   { // Unflatten into used targets; type-filtered iteration; AreFieldsEqual
     Message in(5); MUST(in.AddInt32("x", 1)); MUST(in.AddString("y", "s")); MUST(in.AddInt32("z", 2)); const std::vector<uint8> b = BytesOf(in); const Message empty(6); const std::vector<uint8> be = BytesOf(empty);
     Message t1(1); MUST(t1.AddString("x", "other type")); MUST(t1.AddInt32("y", 3)); MUST(t1.AddInt32("more", 3)); MUST(t1.AddPointer("p", &t1)); MUST(t1.AddInt32("z", 9)); MUST(t1.AddInt32("z", 10)); MUST(t1.AddInt32("evenmore", 3));
     Message t2(t1), t3(in);
     MUST(t1.UnflattenFromBytes(&b[0], (uint32)b.size())); Expect(BytesOf(t1) == b && t1 == in && t1.GetNumNames() == 3 && t1.CalculateChecksum() == in.CalculateChecksum(), "used-target", "Unflatten into a target holding more, retyped and pointer fields");
     MUST(t2.UnflattenFromBytes(&be[0], (uint32)be.size())); Expect(BytesOf(t2) == be && t2 == empty && t2.IsEmpty() && t2.what == 6, "used-target-incoming-empty", "Unflatten of a field-less Message into a used target must leave no field behind");
     MUST(t3.UnflattenFromBytes(&be[0], (uint32)be.size())); MUST(t3.UnflattenFromBytes(&b[0], (uint32)b.size())); Expect(BytesOf(t3) == b && t3 == in, "used-target", "Unflatten twice into the same object");
     std::string l; for (MessageFieldNameIterator it = in.GetFieldNameIterator(B_INT32_TYPE); it.HasData(); it++) { l += it.GetFieldName()(); l += ","; } std::string l2; for (MessageFieldNameIterator it(in, B_STRING_TYPE); it.HasData(); it++) { l2 += it.GetFieldName()(); l2 += ","; }
     Expect(l == "x,z," && l2 == "y," && in.GetNumNames(B_INT32_TYPE) == 2 && !in.HasNames(B_FLOAT_TYPE), "typefilter", "type-filtered field name iteration");
     const String X("x"), Y("y"), Z("z");   // (with two string literals the call would pick the (name, bool) overload: pointer-to-bool beats const char *-to-String)
     Expect(in.AreFieldsEqual(t1, X) && in.AreFieldsEqual(t1, "nowhere") && !in.AreFieldsEqual(t1, X, Z) && in.AreFieldsEqual(t1, X, Z, false) && !in.AreFieldsEqual(t1, X, Y, false) && !in.AreFieldsEqual(empty, X), "arefieldsequal", "AreFieldsEqual as documented"); Reg("parsed into used target", t1); }
   // documented statements of Message.h
   { Message m(9); int target = 0; MUST(m.AddPointer("ptr", &target)); MUST(m.AddTag("tag", GetMessageFromPool(1).GetRefCountableRef())); MUST(m.AddInt32("kept", 3)); Reg("pointer and tag are not serialised", m);
     ByteBufferRef b = m.FlattenToByteBuffer(); Message o; MUST(o.UnflattenFromByteBuffer(b)); Expect(!o.HasName("ptr") && !o.HasName("tag") && o.HasName("kept", B_INT32_TYPE) && o.GetNumNames() == 1, "doc-nonflattenable", "Message.h: pointer fields / AddTag() objects 'will not be serialized'"); }
   { Message a(5), b(5); MUST(a.AddInt32("x", 1)); MUST(a.AddString("y", "s")); MUST(b.AddString("y", "s")); MUST(b.AddInt32("x", 1)); Reg("field order a", a); Reg("field order b", b);
     Expect(a == b && b == a && a.CalculateChecksum() == b.CalculateChecksum(), "doc-order-ignored", "Message.h operator==: 'Field ordering is not considered'");
     ByteBufferRef fa = a.FlattenToByteBuffer(), fb = b.FlattenToByteBuffer(); Expect(fa() && fb() && !(*fa() == *fb()), "order-on-wire", "two field orders must flatten differently (iteration order is the wire order)"); }
}

int main(int argc, char ** argv)
{
   CompleteSetupSystem css;
   vh::init(argc, argv);
   vh::Ctx & c = vh::ctx();
   const std::string mode = vh::opt("mode", "roundtrip");
   if (mode == "regress") { Regress(); return vh::finish(); }
   const bool product = (mode == "product");
   for (long k = c.from; k < c.from + c.cases; k++) {
      vh::begin_case(k);
      RunCase(k, vh::case_seed(c.seed, product ? 102 : 101, (uint64_t)k), product);
   }
   return vh::finish();
}
